"""Per-property configuration of bin/check: Lean modules holding the theorems (property +
tie), correspondence engines, evidence texts."""

CODEC = "archive/tar, archive/zip, compress/*: the models start at the decoded header list (hypothesis; measured by the correspondence)"
SHA = "SHA-384 is an arbitrary function H in every theorem"
KERNEL = "Linux kernel path resolution / mount semantics as modelled (validated against the running kernel by the correspondence)"

HASH_RULE = "seeded random filesets (all kinds, odd byte names, sibling traps a/a!/a b/trick/tricky, ids to 2^32-1, negative and sub-second mtimes, xattrs) + permanent corpus; per fileset: real HashBucket with SHA-384 vs an independent Go reference of the format vs the Lean spec (specHash) vs the Lean implementation model (hashBucket); 3 record orders; every single-attribute / single-entry edit (quick: a third of them) with a recording hasher (pre-images compared, so no hash collision can hide a difference); malformed buckets (duplicates, missing parents, missing root). Distinct = distinct wareIDs of generated filesets."

PROPS = {
    "C01": dict(
        level="proof",
        lean=["Rio.Props.C01"],
        engines=["hash"],
        classes=["order"],
        rule=HASH_RULE,
        trusted_base=[SHA, "refmt CBOR encoder modelled in Rio/Model/Cbor.lean (pre-images compared byte for byte)"],
        assumptions=["records handed to the bucket have distinct keys (a fileset has one entry per path)"],
    ),
    "C04": dict(
        level="proof",
        lean=["Rio.Props.C04"],
        engines=["hash"],
        classes=["collision", "nonfiledir-not-hashed", "edit-panic"],
        rule=HASH_RULE,
        trusted_base=[SHA, "refmt CBOR encoder modelled in Rio/Model/Cbor.lean (pre-images compared byte for byte)"],
        assumptions=["collision resistance of SHA-384 is outside the theorems: they are stated for an arbitrary H and conclude equality or an explicit collision"],
    ),
    "C05": dict(
        level="proof",
        lean=["Rio.Props.C05"],
        engines=["hash"],
        classes=["format"],
        rule=HASH_RULE,
        trusted_base=[SHA, CODEC],
        assumptions=[],
    ),
    "C18": dict(
        level="proof",
        lean=["Rio.Props.C18"],
        engines=["path"],
        exhaustive=True,
        rule="exhaustive: every string over {a,b,.,/} up to length 7 (quick) / 9 (thorough) through MustRelPath, ParseAbsolutePath, String, Dir, Last, GoesUp, Split, SplitParent; every pair up to length 3/4 through both Joins; plus seeded random byte strings. Distinct = distinct cleaned path (or pair of values); all are non-trivial inputs of the modelled functions.",
        trusted_base=["stdlib path.Clean is modelled by goClean (compared exhaustively on the same domain)"],
        assumptions=["Go string == on RelPath/AbsolutePath structs compares both fields (modelled as structure equality)"],
    ),
}
