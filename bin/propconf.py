"""Per-property configuration of bin/check: Lean modules holding the theorems (property +
tie), correspondence engines, evidence texts."""

CODEC = "archive/tar, archive/zip, compress/*: the models start at the decoded header list (hypothesis; measured by the correspondence)"
SHA = "SHA-384 is an arbitrary function H in every theorem"
KERNEL = "Linux kernel path resolution / mount semantics as modelled (validated against the running kernel by the correspondence)"

HASH_RULE = "seeded random filesets (all kinds, odd byte names, sibling traps a/a!/a b/trick/tricky, ids to 2^32-1, negative and sub-second mtimes, xattrs) + permanent corpus; per fileset: real HashBucket with SHA-384 vs an independent Go reference of the format vs the Lean spec (specHash) vs the Lean implementation model (hashBucket); 3 record orders; every single-attribute / single-entry edit (quick: a third of them) with a recording hasher (pre-images compared, so no hash collision can hide a difference); malformed buckets (duplicates, missing parents, missing root). Distinct = distinct wareIDs of generated filesets."

PROPS = {
    "C01": dict(
        level="proof",
        lean=["Rio.Props.C01"],
        engines=["hash", "packenv"],
        classes=["order", "pack-env"],
        rule=HASH_RULE + " packenv: groups of filesets (each with a ~1 MB file) materialised at two disk paths of different depth and on tmpfs in different creation orders; packed sequentially, repeatedly, to no target / file:// / ca+file://, all concurrently for three rounds, and by the rio CLI in a subprocess under other TZ/LANG/cwd; every id must equal the sequential one and the Lean pack model's.",
        trusted_base=[SHA, "refmt CBOR encoder modelled in Rio/Model/Cbor.lean (pre-images compared byte for byte)"],
        assumptions=["records handed to the bucket have distinct keys (a fileset has one entry per path)"],
    ),
    "C04": dict(
        level="proof",
        lean=["Rio.Props.C04"],
        engines=["hash"],
        classes=["collision", "nonfiledir-not-hashed", "edit-panic"],
        rule=HASH_RULE,
        trusted_base=[SHA, "refmt CBOR encoder modelled in Rio/Model/Cbor.lean (pre-images compared byte for byte)"],
        assumptions=["collision resistance of SHA-384 is outside the theorems: they are stated for an arbitrary H and conclude equality or an explicit collision"],
    ),
    "C05": dict(
        level="proof",
        lean=["Rio.Props.C05"],
        engines=["hash", "unpack"],
        classes=["format", "valid-archive-refused"],
        rule=HASH_RULE,
        trusted_base=[SHA, CODEC],
        assumptions=[],
    ),
    "C02": dict(
        level="proof",
        lean=["Rio.Props.C02"],
        engines=["rt"],
        classes=["roundtrip-id", "roundtrip-tree", "setgid-inherit", "panic-pack"],
        rule='rt: seeded random filesets (tar: dirs, files, symlinks, fifos, block/char devices; zip: dirs, files, symlinks; odd byte names, setuid/setgid/sticky on files and dirs, ids to 2^32-1, pre-1970 / post-2038 / sub-second mtimes, empty and multi-KiB files) materialised on the real filesystem in a random creation order; real Pack into file:// or ca+file:// -> Scan of the stored ware -> Unpack with lossless filters in a random placement mode (direct/copy/none/mount, private mount namespace, overlayfs) -> independent raw lstat/readlink/read walk of the result vs the logical fileset (all attributes incl. directory mtimes) -> re-Pack; source tree snapshot before/after pack; parent-mtime check; cache shelf and temp-dir check. Every id is also predicted by the Lean pack model. Distinct = distinct wareIDs.',
        trusted_base=[SHA, CODEC, KERNEL],
        assumptions=["no concurrent third-party writers in the source or target trees"],
    ),
    "C20": dict(
        level="proof",
        lean=["Rio.Props.C20"],
        engines=["rt"],
        classes=["pack-mutates-source", "scan-creates-files", "warehouse-mutated"],
        rule='rt: seeded random filesets (tar: dirs, files, symlinks, fifos, block/char devices; zip: dirs, files, symlinks; odd byte names, setuid/setgid/sticky on files and dirs, ids to 2^32-1, pre-1970 / post-2038 / sub-second mtimes, empty and multi-KiB files) materialised on the real filesystem in a random creation order; real Pack into file:// or ca+file:// -> Scan of the stored ware -> Unpack with lossless filters in a random placement mode (direct/copy/none/mount, private mount namespace, overlayfs) -> independent raw lstat/readlink/read walk of the result vs the logical fileset (all attributes incl. directory mtimes) -> re-Pack; source tree snapshot before/after pack; parent-mtime check; cache shelf and temp-dir check. Every id is also predicted by the Lean pack model. Distinct = distinct wareIDs.',
        trusted_base=[KERNEL],
        assumptions=["atime is not part of the property (reading a file may update it on a non-noatime mount)"],
    ),
    "C03": dict(
        level="proof",
        lean=["Rio.Props.C03"],
        engines=["fetch"],
        classes=["fetch-panic", "fetch-refused-valid", "fetch-accepted-altered", "fetch-wrong-error", "fetch-shelved-altered", "cache-temp-left", "mirror-committed-altered", "mirror-accepted-altered", "mirror-staging-left"],
        rule="fetch: generated filesets packed by rio into file:// / ca+file://, then the stored ware is altered in the decompressed stream (bit flips at random offsets, truncation of the tar and of the gzip stream, entry dropped / added / re-described directory entry / attribute or content modified, substitution by another valid ware) or only re-encoded (recompressed, stored plain, padded, entries reordered); real Unpack in a random placement mode and real Mirror into a second warehouse; the harness decodes the altered bytes with archive/tar and hands the header list to the Lean model (wrapUnpack / mirror), outcomes compared; oracle: altered => refused (hash-mismatch when it parses), no shelf, no temp dir, no object and no staging file at the mirror target; re-encoded => accepted. Distinct = distinct (fileset, alteration) cases.",
        trusted_base=[SHA, CODEC],
        assumptions=["requested wareIDs are base58 strings (the property's quantifier)"],
    ),
    "C09": dict(
        level="proof",
        lean=["Rio.Props.C09"],
        engines=["cache"],
        classes=["shelf-not-verified", "cache-temp-left", "cache-panic", "concurrent-unpack-failed", "bad-ware-accepted"],
        rule='cache: cases of 1-3 wares (good / missing / corrupt / mislabelled in the warehouse; each with a setuid file and foreign owners) and 2-4 concurrent unpackers with random filters (lossless, uid=n, uid=mine, mtime+setid=ignore, setid=reject) and placement modes, optionally a pre-warmed shelf; a random schedule of their cache-protocol steps is forced on real goroutines by a barrier in the cache.* instrumentation points, one process possibly abandoned mid-way (crash); outcomes, shelf listing (each shelf re-hashed by the independent reference) and leftover temp dirs are compared with the Lean transition system run on the same schedule. Distinct = distinct (processes, schedule) cases.',
        trusted_base=["guid.New() names are fresh (temp dirs of different processes never coincide)", "rename(2) is atomic and fails with EEXIST/ENOTEMPTY on a non-empty directory", "the unpack tool's contract (ok rid only after writing the complete fileset rid): C03 + C02"],
        assumptions=["preemption inside one protocol step (between two instrumentation points) is not exhibited; power loss is out of scope (rio never fsyncs)"],
    ),
    "C12": dict(
        level="proof",
        lean=["Rio.Props.C12"],
        engines=["filt", "unpack", "cache"],
        classes=["filter-reject", "filter-attr", "filter-dev-ignore", "filter-stack", "filter-prehash", "filter-warm-cache"],
        rule="filt: every complete pack filter (3x2x3x2x3x3) and unpack filter (3x3x2x2x3x3) setting x a zoo of 42 entries (all kinds x setid/sticky/plain perms), quick tier a third of them; stacking of partial filters over the CLI defaults. unpack: generated filesets encoded as tar, unpacked (nilfs) under random filters; oracle = independent Go implementation of the documented per-attribute rule + reference tree hash of the filtered fileset. Distinct = distinct (filter, entry) pairs / wareIDs.",
        trusted_base=[SHA, CODEC],
        assumptions=["filter values are the documented non-negative ones (uid/gid/mtime), as in the property's quantifier"],
    ),
    "C16": dict(
        level="proof",
        lean=["Rio.Props.C16"],
        engines=["pick"],
        exhaustive=True,
        classes=["pick-wrong-warehouse", "pick-wrong-error", "pick-aborted", "pick-panic"],
        rule="every list of up to 2 (quick) / 3 (thorough) warehouses over 16 kinds = scheme {file, ca+file, http, ca+http} x condition {missing dir, lacking, holding, http 5xx, connection refused} + unsupported scheme + unparsable address, on real directories and a loopback httptest server, plus sampled lists of 3-4 and the mono (scan) mode; oracle: first-holder rule computed from the conditions alone. Distinct = distinct lists.",
        trusted_base=["net/http and the kernel's loopback networking", "kvfs/kvhttp controller answers as modelled by Wh.dial / Wh.open_ (compared on every list)"],
        assumptions=["'holding a different ware at that address' is indistinguishable from 'holding' for PickReader (it does not look inside); verification of the content is C03"],
    ),
    "C17": dict(
        level="proof",
        lean=["Rio.Props.C17"],
        engines=["unpack"],
        classes=["panic-empty-archive", "panic-absolute-name", "panic-duplicate-entry", "panic-malformed-tree", "panic-other", "uncategorized"],
        rule="unpack: generated tar streams (valid, truncated at arbitrary and block offsets, bit-flipped, padded, with duplicate / absolute / .. / odd-typed / hardlink / global-header entries, children of files, empty) through the real unpackTar with recover(); oracle: no panic and every error carries a rio-* category. Distinct = distinct prefilter wareIDs of accepted streams.",
        trusted_base=[CODEC],
        assumptions=[],
    ),
    "C18": dict(
        level="proof",
        lean=["Rio.Props.C18"],
        engines=["path"],
        exhaustive=True,
        rule="exhaustive: every string over {a,b,.,/} up to length 7 (quick) / 9 (thorough) through MustRelPath, ParseAbsolutePath, String, Dir, Last, GoesUp, Split, SplitParent; every pair up to length 3/4 through both Joins; plus seeded random byte strings. Distinct = distinct cleaned path (or pair of values); all are non-trivial inputs of the modelled functions.",
        trusted_base=["stdlib path.Clean is modelled by goClean (compared exhaustively on the same domain)"],
        assumptions=["Go string == on RelPath/AbsolutePath structs compares both fields (modelled as structure equality)"],
    ),
}
