"""Per-property configuration of bin/check: Lean modules holding the theorems (property +
tie), correspondence engines, evidence texts."""

CODEC = "archive/tar, archive/zip, compress/*: the models start at the decoded header list (hypothesis; measured by the correspondence)"
SHA = "SHA-384 is an arbitrary function H in every theorem"
KERNEL = "Linux kernel path resolution / mount semantics as modelled (validated against the running kernel by the correspondence)"

PROPS = {
    "C18": dict(
        level="proof",
        lean=["Rio.Props.C18"],
        engines=["path"],
        exhaustive=True,
        rule="exhaustive: every string over {a,b,.,/} up to length 7 (quick) / 9 (thorough) through MustRelPath, ParseAbsolutePath, String, Dir, Last, GoesUp, Split, SplitParent; every pair up to length 3/4 through both Joins; plus seeded random byte strings. Distinct = distinct cleaned path (or pair of values); all are non-trivial inputs of the modelled functions.",
        trusted_base=["stdlib path.Clean is modelled by goClean (compared exhaustively on the same domain)"],
        assumptions=["Go string == on RelPath/AbsolutePath structs compares both fields (modelled as structure equality)"],
    ),
}
