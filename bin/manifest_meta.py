HOOK_COMMITS = ["a1cfaae", "517d757", "cfa1599", "5cec95c"]

META = {
    "C01": dict(
        technique="Lean 4 theorem (order independence of HashBucket) + differential correspondence",
        text="C01_order: for every hash function and every permutation of a record list with distinct keys the model of HashBucket returns the same value (or the same panic). The model is tied to fshash by the hash correspondence stream (real HashBucket vs compiled Lean model, byte-identical pre-images).",
        note="Trusted: Lean kernel, the hash stream's generator and canonicalisation, SHA-384 as parameter. Location/environment independence of pack is exercised by the pack stream (correspondence only).",
    ),
    "C04": dict(
        technique="Lean 4 theorems on the HashBucket model (counterexamples proved; injectivity partial) + differential correspondence with a recording hasher",
        text="The full property is false on the unchanged tree for entries that are neither files nor directories (proved: C04_counter_target/presence/root, for every H); recorded as a known finding because repairing it changes the frozen format (C05). For files and directories every single edit must change the pre-image (checked on the implementation with a recording hasher, compared with the model).",
        note="Trusted: Lean kernel; the hash stream; SHA-384 collision resistance is not assumed by any theorem.",
    ),
    "C05": dict(
        technique="Lean 4 spec (recursive tree hash) vs implementation model + three-way differential correspondence",
        text="The frozen format is the Lean definition specHash; the correspondence runs the real HashBucket, an independent Go reference, the Lean spec and the Lean implementation model on the same filesets and requires identical wareIDs (SHA-384 + base58 also implemented in Lean for this).",
        note="Trusted: Lean kernel; archive codecs and compression are outside the model (differential only).",
    ),
    "C02": dict(
        technique="Lean 4 theorems on header conversion / pack model + end-to-end differential round trip on the real filesystem",
        text="The pack model predicts every wareID of the round trip (pack, scan, unpack, re-pack); the unpacked tree is compared attribute by attribute with the logical fileset by an independent raw-syscall walker, for tar and zip, file:// and ca+file://, all placement modes. Header-conversion theorems are proved in Lean; the filesystem-level round-trip theorem is partial (see DESIGN.md).",
        note="Trusted: Lean kernel; archive codecs; the kernel's creat/mkdir/chown semantics (exercised, not proved). Known finding: setgid-inherit.",
    ),
    "C19": dict(
        technique="Lean 4 theorems on the model of the git tree -> metadata mapping + differential correspondence against the system git",
        text="C19_tree (one entry per tree path with the documented type/permission mapping, owner 1000:1000, default mtime, name = tree path), C19_count (root + one metadata per walked entry, nothing else), C19_frame (a function of the walked entries only). The model is compared with the real git unpack on generated repositories whose commits are listed by the system git, after the repository has moved on.",
        note="Trusted: Lean kernel; go-git decoding (input of the model); the system git. Known finding: repositories with a detached HEAD are reported as non-existing warehouses.",
    ),
    "C20": dict(
        technique="Lean 4 theorem over the regenerated call table of the pack path (read-only operations only) + before/after snapshots on the real filesystem",
        text="factgen regenerates the set of fs.FS methods and os/syscall functions reachable from the pack, scan and mirror paths; a Lean theorem states that every one of them is a read-only operation of the filesystem model. The rt stream snapshots the source tree (content hash, mode, uid, gid, mtime ns) before and after every pack and the source warehouses around scan/unpack/mirror.",
        note="Trusted: Lean kernel; factgen's call-graph extraction (static, intra-repo); the kernel.",
    ),
    "C03": dict(
        technique="Lean 4 theorems on the models of wrapUnpacker / CreateMirror + differential correspondence on altered wares",
        text="C03_unpack (success implies the recomputed prefilter hash equals the requested id), C03_mismatch (parses but differs => exactly hash-mismatch), C03_corrupt_never_ok, C03_mirror (Commit only after a matching scan) are proved for every header list, filter, filesystem and hash function. The model is compared with the real Unpack and Mirror on wares altered after they were stored.",
        note="Trusted: Lean kernel; archive/tar + gzip decoding (the harness decodes the altered bytes for the model); the fetch stream.",
    ),
    "C06": dict(
        technique="Lean 4 theorems on the kernel path-walk model (scan ok => literal resolution => confined) + hostile-archive differential test on the real filesystem",
        text="C06_literal / C06_confined: for every host state, if no prefix of an entry's name under the target is a symlink (what PlaceFile's scan establishes) and the name has no '..', the kernel resolves target/name literally, so every object created or changed lies under the target; C06_counter_without_scan shows the scan is necessary; C06_refuse_climbing; C06_tie pins the no-follow discipline of the osfs methods PlaceFile uses (T-fact). The hostile stream attacks the real unpackers and the CLI and compares the outside before/after.",
        note="Trusted: Lean kernel; the kernel's no-follow / O_EXCL semantics; archive/tar decoding. The composition 'unpack loop + PlaceFile + osfs' is correspondence-tested, not proved end to end (partial).",
    ),
    "C07": dict(
        technique="Lean 4 model of the resolver with theorems over the regenerated method table + three-way differential correspondence (model / osfs / kernel in-root resolution)",
        text="C07_discipline (every method whose host call follows a leaf symlink resolves the leaf in-base first) and C07_methods are proved over the method table regenerated from fs/osfs/osfs.go; C07_goesup_refused; the executable resolver model agrees with the real resolver on ~60k cases and the real resolver with openat2(RESOLVE_IN_ROOT) whenever both succeed. The general termination and no-links-in-result theorems are listed as open obligations in DESIGN.md (partial).",
        note="Trusted: Lean kernel; the kernel's openat2; T-fact extraction. Partial: C07_terminates / C07_nolinks are validated by correspondence, not yet proved for all trees.",
    ),
    "C08": dict(
        technique="Lean 4 invariant proof over the warehouse write-path transition system (any number of writers, demonic failures, crash = stop) + fault-injection differential correspondence",
        text="C08_inv: for any number of concurrent writers, any schedule, any choice of failing steps and any crash point, every final address holds a complete ware (so no reader ever sees a partial one); C08_error_clean, C08_no_staging_after_return; C08_counter_flush shows the pre-fix behaviour violates it; T-fact ties check that every flushing Close in Pack is checked and that the kvfs system-call sequence is the model's. The model is compared with real tar/zip Pack and Mirror under injected faults at every step and on really full disks.",
        note="Trusted: Lean kernel; atomic rename; fresh staging names. Not exhibited: power loss (no fsync), NFS-style non-atomic rename.",
    ),
    "C09": dict(
        technique="Lean 4 invariant proof over the cache-protocol transition system (any number of processes, any schedule, crash = stop) + schedule-forcing differential correspondence",
        text="C09_inv: for every number of processes, every interleaving of their protocol steps and every crash point, every shelf holds exactly the complete fileset it is named after; C09_clean: a returned process leaves no temp dir; C09_fail_adds_nothing; C09_race_loser_succeeds. The transition system is validated against the real cache code by forcing random schedules on goroutines with a barrier in the cache.* hooks.",
        note="Trusted: Lean kernel; freshness of guid names; atomic rename; the unpack tool's contract (C03/C02). Not exhibited: preemption inside a step, power loss.",
    ),
    "C10": dict(
        technique="Lean 4 theorems composing the cache invariant (C09) with the placement model + differential test of every route on the real filesystem",
        text="C10_place_faithful / C10_routes: every placer shows exactly the shelf, so copy, mount and direct-on-warm-cache agree; C10_history_independent: in every reachable cache state the shelf a process places from holds exactly the complete fileset (C09_inv); C10_tie pins the mode -> placer switch (T-fact). The place and rt streams compare every destination with the ware's fileset attribute by attribute (directory mtimes included), check the parent's mtime and the re-pack id, over cold / warm / otherwise-warmed caches and pre-existing destinations.",
        note="Trusted: Lean kernel; the kernel's bind/overlay visibility (assumption of the placement model, exercised by the stream); attribute-level fidelity of CopyPlacer is correspondence-tested, not proved (partial).",
    ),
    "C11": dict(
        technique="Lean 4 invariant proof over the placement state machine + T-fact dispatch ties + shelf-identity differential test under real mounts",
        text="C11_inv: for every finite sequence of placements (copy, writable overlay, read-only bind), writes inside placed trees and teardowns, the shelf stays as committed; C11_faithful_again; C11_dispatch_safe: for file and directory shelves no route of cache.place yields a writable bind; C11_counter_rw_bind shows a writable bind would break it; C11_ties pins the dispatch tables, mount flags and overlay options to the code (T-fact). The place stream checks the shelf's content, attributes, inode numbers and link counts after every operation.",
        note="Trusted: Lean kernel; kernel mount semantics (model assumptions, validated in a private mount namespace on this kernel only); aufs not available.",
    ),
    "C12": dict(
        technique="Lean 4 theorems (filter = documented per-attribute rule; pack with filter = lossless pack of filtered fileset) + differential correspondence",
        text="C12_pack_entry / C12_reject_iff / C12_only_named / C12_flatten / C12_pack / C12_cli_stack are proved for every filter setting and every entry (no enumeration). The Lean filter functions are compared with filters.Apply*Filter on all complete settings x an entry zoo, and end to end through unpackTar.",
        note="Trusted: Lean kernel; the filt/unpack streams. The warm-cache clause (reject rules with an already shelved ware) is decided by the cache stream.",
    ),
    "C13": dict(
        technique="Lean 4 theorems on the model of CreateMirror (no-op, success => verified and committed, failure => nothing committed) + differential correspondence on real warehouses",
        text="C13_noop, C13_served, C13_fail_clean are proved for every source outcome, header list and commit outcome; C13_tie (T-fact) pins the compare-before-Commit structure and the use of nilfs. The mirror stream checks that the target alone serves the identical fileset, that a second mirror is a no-op without sources, that sources are untouched and failures leave the target clean; the kvfs stream injects faults into the copy.",
        note="Trusted: Lean kernel; codec hypothesis; C08 for the atomicity of the commit itself.",
    ),
    "C14": dict(
        technique="Lean 4 theorems on the ordering / mount-rule model (permutation invariance, segment-wise containment) + differential correspondence and real-mount assembly tests",
        text="C14_perm: for distinct paths every listing order yields the same processing order and verdict (sort uniqueness); C14_mount_refuses: any input at or below a mount input's path is refused wherever it sits; C14_segments / C14_old_counter / C14_under_le_old: the containment test is on whole segments (the pre-fix string prefix was not); C14_ties (T-fact). The real assembler is exercised with wares containing links and with host mounts in several listing orders, with an independent walk of the result and snapshots of everything outside the root.",
        note="Trusted: Lean kernel; kernel mount semantics; the composition of placements (shadowing) is correspondence-tested, not proved (partial). Known finding: asm-shadow-type-mismatch.",
    ),
    "C15": dict(
        technique="Lean 4 theorems on the model of Assembler.Run / Teardown for any number of inputs + exhaustive differential correspondence with injected failures",
        text="C15_order, C15_no_delete_after_failure, C15_all_ok (teardown: newest first; after the first failure recursive-delete janitors are skipped, unmount-style ones still attempted, first failure reported), C15_rollback (first failing parent/placement step of any assembly tears down exactly the earlier placements), C15_unpack_failure_places_nothing, for lists of any length; C15_ties pins AlwaysTry of the real janitors and the rollback call sites (T-fact). The model is compared with the real code on every configuration up to n = 3/4.",
        note="Trusted: Lean kernel; the verif constructor NewAssemblerForVerif (build-tagged export).",
    ),
    "C16": dict(
        technique="Lean 4 theorems (first holder wins, error kinds, usage) by induction over the warehouse list + exhaustive differential correspondence",
        text="C16_first / C16_errors / C16_usage are proved for lists of any length about the model of PickReader and of the controllers' answers; the model is compared with the real PickReader on every list up to length 2/3 over 16 warehouse kinds (real directories, loopback HTTP).",
        note="Trusted: Lean kernel; the pick stream; net/http.",
    ),
    "C17": dict(
        technique="Lean 4 theorems (exit-code table total/injective on rio categories, header conversion never panics) + differential correspondence with recover()",
        text="The error/exit-code table and the category filter are modelled and proved total and injective on documented categories; the tar unpack model returns ok|err|panic and is compared with the real unpackTar on hostile streams; the oracle demands no panic and only rio-* categories.",
        note="Trusted: Lean kernel; archive/tar decoding is input to the model (the harness decodes the mutated stream and hands the header list to the model).",
    ),
    "C18": dict(
        technique="Lean 4 theorems on a model of fs/path.go + exhaustive differential correspondence",
        text="The whole statement is proved for RelPath over all byte strings (every MustRelPath result is canonical = a clean component list; equal iff printed identically, hidden split index included; Join = print, glue with '/', parse; Dir/Last invert Join; Split = exactly the chain of prefixes; GoesUp iff first component is '..') in Lean about an executable model of fs/path.go; the model is tied to the Go code by running both on every string up to a length bound (exhaustive) and random byte strings, so a change of the Go functions shows as a disagreement with a concrete path as replay.",
        note="Trusted: Lean kernel; goClean as a model of stdlib path.Clean (compared on the same exhaustive domain); the harness. AbsolutePath and SplitParent are covered by the correspondence only (DESIGN.md 11.2).",
    ),
}

ALL = ["C%02d" % i for i in range(1, 21)]
NOT_APPLICABLE = [dict(property_id=p, reason="not yet built in this session (in progress; see DESIGN.md build order)") for p in ALL if p not in META]
