HOOK_COMMITS = []

META = {
    "C18": dict(
        technique="Lean 4 theorems on a model of fs/path.go + exhaustive differential correspondence",
        text="Theorems (GoesUp exact, String injective on well-formed values, …) are proved in Lean about an executable model of fs/path.go; the model is tied to the Go code by running both on every string up to a length bound (exhaustive) and random byte strings, so a change of the Go functions shows as a disagreement with a concrete path as replay.",
        note="Trusted: Lean kernel; goClean as a model of stdlib path.Clean (compared on the same exhaustive domain); the harness. Theorems still open are listed in DESIGN.md.",
    ),
}

ALL = ["C%02d" % i for i in range(1, 21)]
NOT_APPLICABLE = [dict(property_id=p, reason="not yet built in this session (in progress; see DESIGN.md build order)") for p in ALL if p not in META]
