import Rio.Model.Hash
/-
  The frozen tree-hash format as a three-line recursive definition (the comment at the top of
  fshash/bucketHash.go), independent of buckets, sorting, iterators and stacks:

    hash(dir)  = H( {2: "m": meta, "l": [ hash(child) … in order of the children's keys ] } )
    hash(file) = H( {2: "m": meta, "h": contentHash } )
    any other kind contributes nothing to its parent (the de-facto format, see C04).
-/
namespace Rio

mutual
inductive Tree where
  | node (r : Record) (kids : Forest)
inductive Forest where
  | nil
  | cons (t : Tree) (f : Forest)
end

mutual
def specHash (H : Bytes → Bytes) : Tree → Option Bytes
  | .node r kids =>
    match r.m.kind with
    | .dir => some (H (cborMap 2 ++ cborStr key_m ++ serMeta r.m ++ cborStr key_l ++
                       [cborIndefArray] ++ specKids H kids ++ [cborBreak]))
    | .file => some (H (cborMap 2 ++ cborStr key_m ++ serMeta r.m ++ cborStr key_h ++
                        cborBytes r.chash))
    | _ => none
def specKids (H : Bytes → Bytes) : Forest → Bytes
  | .nil => []
  | .cons t f =>
    (match specHash H t with
     | some h => cborBytes h
     | none => []) ++ specKids H f
end

/-- what `HashBucket` returns for the tree: the root's hash, or the empty string when the root is
    neither a file nor a directory. -/
def specId (H : Bytes → Bytes) (t : Tree) : Bytes := (specHash H t).getD []

mutual
/-- pre-order list of the records of a tree -/
def flatten : Tree → List Record
  | .node r kids => r :: flattenF kids
def flattenF : Forest → List Record
  | .nil => []
  | .cons t f => flatten t ++ flattenF f
end

def Tree.rec_ : Tree → Record
  | .node r _ => r

end Rio
