/-
  Basic vocabulary shared by every model: byte strings, hex codec for the line
  protocol, and a few total list helpers that mirror Go slice operations.
  Core Lean only (the driver is compiled as a `lean_exe`).
-/
namespace Rio

abbrev Bytes := List UInt8

def slash : UInt8 := 0x2f
def dot : UInt8 := 0x2e

/-- Go `strings.LastIndexByte`. -/
def lastIndexOf (c : UInt8) : Bytes → Int
  | [] => -1
  | x :: xs =>
    let r := lastIndexOf c xs
    if r ≥ 0 then r + 1 else if x = c then 0 else -1

/-- Split on a separator; always returns at least one (possibly empty) piece, like Go `strings.Split`. -/
def splitOn (c : UInt8) : Bytes → List Bytes
  | [] => [[]]
  | x :: xs =>
    if x = c then [] :: splitOn c xs
    else match splitOn c xs with
      | [] => [[x]]
      | h :: t => (x :: h) :: t

/-- Join pieces with a separator. -/
def joinWith (c : UInt8) : List Bytes → Bytes
  | [] => []
  | [a] => a
  | a :: b :: rest => a ++ c :: joinWith c (b :: rest)

/-- `strings.HasPrefix`. -/
def hasPrefix : Bytes → Bytes → Bool
  | _, [] => true
  | [], _ :: _ => false
  | x :: xs, y :: ys => x == y && hasPrefix xs ys

/-- lexicographic `<` on byte strings (Go string comparison). -/
def bytesLt : Bytes → Bytes → Bool
  | [], [] => false
  | [], _ :: _ => true
  | _ :: _, [] => false
  | x :: xs, y :: ys => if x < y then true else if y < x then false else bytesLt xs ys

def bytesLe (a b : Bytes) : Bool := !bytesLt b a

/-- stable insertion sort by a byte-string key (the models' stand-in for Go's `sort.Sort` /
    `sort.Strings`; on lists with distinct keys every correct sort gives the same result,
    see `Rio/Proofs/Sort.lean`). -/
def insertBy {α : Type} (key : α → Bytes) (x : α) : List α → List α
  | [] => [x]
  | q :: qs => if bytesLt (key x) (key q) then x :: q :: qs else q :: insertBy key x qs

def sortBy {α : Type} (key : α → Bytes) : List α → List α
  | [] => []
  | x :: xs => insertBy key x (sortBy key xs)

/-! ### hex codec for the driver protocol (`-` = empty string) -/

def hexDigit (n : Nat) : Char :=
  if n < 10 then Char.ofNat (48 + n) else Char.ofNat (87 + n)

def toHex (b : Bytes) : String :=
  if b.isEmpty then "-" else
  String.ofList (b.foldr (fun x acc => hexDigit (x.toNat / 16) :: hexDigit (x.toNat % 16) :: acc) [])

def hexVal (c : Char) : Option Nat :=
  if '0' ≤ c ∧ c ≤ '9' then some (c.toNat - 48)
  else if 'a' ≤ c ∧ c ≤ 'f' then some (c.toNat - 87)
  else none

def fromHexChars : List Char → Option Bytes
  | [] => some []
  | [_] => none
  | a :: b :: rest => do
    let x ← hexVal a
    let y ← hexVal b
    let r ← fromHexChars rest
    pure (UInt8.ofNat (x * 16 + y) :: r)

def fromHex (s : String) : Option Bytes :=
  if s = "-" then some [] else fromHexChars s.toList

def strBytes (s : String) : Bytes := s.toUTF8.toList

end Rio
