import Rio.Model.Path
/-  `fs.Metadata` and friends (/repo/fs/metadata.go). -/
namespace Rio

inductive Kind | invalid | file | dir | symlink | fifo | socket | device | chardev | hardlink
deriving DecidableEq, Repr, Inhabited

/-- the `fs.Type` byte constants -/
def Kind.code : Kind → UInt8
  | .invalid => 0
  | .file => 0x66      -- 'f'
  | .dir => 0x64       -- 'd'
  | .symlink => 0x4c   -- 'L'
  | .fifo => 0x70      -- 'p'
  | .socket => 0x53    -- 'S'
  | .device => 0x44    -- 'D'
  | .chardev => 0x63   -- 'c'
  | .hardlink => 0x68  -- 'h'

def Kind.ofCode (c : UInt8) : Option Kind :=
  [Kind.invalid, .file, .dir, .symlink, .fifo, .socket, .device, .chardev, .hardlink].find? (·.code == c)

structure Time where
  sec : Int
  nsec : Nat
deriving DecidableEq, Repr, Inhabited

/-- `api.DefaultTime` = 1262304000 (2010-01-01), `fs.DefaultTime`. -/
def defaultTime : Time := ⟨1262304000, 0⟩

structure Meta where
  name : RelPath
  kind : Kind
  perms : Nat
  uid : Nat
  gid : Nat
  size : Int
  linkname : Bytes
  devmajor : Int
  devminor : Int
  mtime : Time
  xattrs : List (Bytes × Bytes)
deriving DecidableEq, Repr, Inhabited

/-- `fshash.DefaultDirMetadata()` with the name assigned. -/
def defaultDirMeta (name : RelPath) : Meta :=
  { name := name, kind := .dir, perms := 0o755, uid := 0, gid := 0, size := 0, linkname := [],
    devmajor := 0, devminor := 0, mtime := defaultTime, xattrs := [] }

def permSetuid : Nat := 0o4000
def permSetgid : Nat := 0o2000
def permSticky : Nat := 0o1000

end Rio
