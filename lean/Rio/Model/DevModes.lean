/-
  Device numbers (/repo/fs/osfs/osfs.go `devModesJoin`, /repo/fs/osfs/devModes_linux.go `devModesSplit`):
  the glibc `gnu_dev_makedev` / `gnu_dev_major` / `gnu_dev_minor` layout, restricted to 32 bits.
  The two expressions are tied to the source text by T-fact (`Generated.devModesJoinExpr`, `devModesSplitExpr`).
-/
namespace Rio

/-- `uint32(((minor & 0xfff00) << 12) | ((major & 0xfff) << 8) | (minor & 0xff))` -/
def devJoin (major minor : Nat) : Nat :=
  ((((minor &&& 0xfff00) <<< 12) ||| ((major &&& 0xfff) <<< 8)) ||| (minor &&& 0xff)) % 2 ^ 32

/-- `int64((rdev >> 8) & 0xfff), int64((rdev & 0xff) | ((rdev >> 12) & 0xfff00))` -/
def devSplit (rdev : Nat) : Nat × Nat :=
  ((rdev >>> 8) &&& 0xfff, (rdev &&& 0xff) ||| ((rdev >>> 12) &&& 0xfff00))

end Rio
