import Rio.Model.Errors
import Rio.Model.Warehouse
/-
  M10 — the fileset-cache protocol (/repo/transmat/mixins/cache/filesetCacheImpl.go) as a transition
  system over any number of processes sharing one cache directory.  One model step of a process is the
  code between two consecutive instrumentation points (`verifhook.Point("cache.*")`), so that a schedule
  of the model can be forced on the real code by a barrier in the hook handler.

  What the inner unpack tool does is a parameter of each process (`yield`): the filtered wareID it will
  report, or the error.  Its contract — it reports `ok rid` only after writing the complete fileset
  `rid` and verifying the requested hash — is C03 + C02/C12; here it appears as "on `ok rid` the temp
  dir holds `complete rid`".
-/
namespace Rio

abbrev WareId := Bytes

/-- what a directory in the cache holds -/
inductive Content
  | partial_                -- an unpack in progress / abandoned
  | complete (fid : WareId) -- exactly the fileset whose tree hash is `fid`
deriving DecidableEq, Repr, Inhabited

/-- result of an unpack: the (filtered) wareID reported, or the error category -/
inductive URes
  | ok (rid : WareId)
  | error (c : Cat)
deriving DecidableEq, Repr, Inhabited

inductive Mode | direct | copy | none_ | mount
deriving DecidableEq, Repr, Inhabited

inductive PC
  | atLookup                          -- blocked before `Stat(shelf)`
  | atTmp                             -- temp path picked (nothing on disk yet), before the unpack tool runs
  | unpacking                         -- inside the unpack tool: the temp dir exists and is incomplete
  | atUnpacked (rid : WareId)         -- unpack tool returned ok
  | atRename (rid : WareId)           -- shelf parents made, before `rename`
  | atRenamed (rid : WareId)          -- rename succeeded
  | atPlace (key : WareId) (rid : WareId)   -- before placing from shelf `key`, will report `rid`
  | done (r : URes)
deriving DecidableEq, Repr, Inhabited

structure Proc where
  req : WareId                    -- requested ware
  altering : Bool                 -- `filt.Altering()`
  mode : Mode
  yield : URes                    -- what the unpack tool will return (filtered id or error)
  pc : PC
  /-- this process's `.tmp.unpack.<guid>` directory, if it exists, and what it holds.  `guid.New()`
      names are assumed fresh, so temp dirs of different processes never coincide: one slot per process. -/
  tmp : Option Content
deriving Repr, Inhabited

structure CState where
  shelves : List (WareId × Content)   -- shelf directory at `ShelfFor(key)` and what it holds
  procs : List Proc
deriving Repr, Inhabited

def lookupKey (p : Proc) : WareId := if p.altering then [0x2d] else p.req   -- `api.WareID{"-","-"}` forces a miss

/-- where `populate` commits an unpacked tree that the tool reported as `rid`.  A *filtered* tree that the tool reports
    under the id of the unfiltered ware (git has no id for a filtered tree; `dev=ignore` only touches what the tree hash
    does not cover) gets a shelf of its own, keyed by the filter as well (`wareID.Hash + "+" + filterKey(filt)`, since
    the `fix:`): `+` is not a base58 letter, so such a key is never the key of a lossless lookup. -/
def shelfKey (p : Proc) (rid : WareId) : WareId := if p.altering ∧ rid = p.req then rid ++ [0x2b] else rid

def hasShelf (s : CState) (k : WareId) : Bool := s.shelves.any (·.1 = k)

def setProc (s : CState) (i : Nat) (p : Proc) : CState := { s with procs := s.procs.set i p }

/-- one step of process `i` (no-op when it is done or does not exist; a crash is simply "never scheduled again") -/
def cstep (s : CState) (i : Nat) : CState :=
  match s.procs[i]? with
  | none => s
  | some p =>
    match p.pc with
    | .done _ => s
    | .atLookup =>
      if hasShelf s (lookupKey p) then
        -- a hit.  The unpack tool does not run; a reject rule that names an entry of the ware is found by looking at the
        -- shelf (`checkRejectRules`, since the `fix:` — before, the hit went straight to placement: warm cache = success,
        -- cold cache = filter-rejection)
        if p.yield = .error .filterRejection then setProc s i { p with pc := .done (.error .filterRejection) }
        else setProc s i { p with pc := .atPlace (lookupKey p) (lookupKey p) }
      else if p.mode = .direct then
        -- direct mode on a miss: unpack straight into the destination, the cache is not touched
        setProc s i { p with pc := .done p.yield }
      else setProc s i { p with pc := .atTmp }
    | .atTmp => setProc s i { p with pc := .unpacking, tmp := some .partial_ }
    | .unpacking =>
      match p.yield with
      | .error c =>
        -- unpack tool failed: deferred RemoveAll(tmp), error returned
        setProc s i { p with pc := .done (.error c), tmp := none }
      | .ok rid =>
        -- the temp dir now holds exactly the tree that `shelfKey` names: the ware `rid` itself, or — altering filter, same
        -- id reported — the filtered variant of it, which is *not* the fileset `rid` names
        setProc s i { p with pc := .atUnpacked rid, tmp := some (.complete (shelfKey p rid)) }
    | .atUnpacked rid => setProc s i { p with pc := .atRename rid }
    | .atRename rid =>
      if hasShelf s (shelfKey p rid) then
        -- EEXIST / ENOTEMPTY: somebody raced us; our copy is removed by the deferred RemoveAll
        setProc s i { p with pc := .atPlace (shelfKey p rid) rid, tmp := none }
      else
        setProc { s with shelves := (shelfKey p rid, p.tmp.getD .partial_) :: s.shelves } i { p with pc := .atRenamed rid, tmp := none }
    | .atRenamed rid => setProc s i { p with pc := .atPlace (shelfKey p rid) rid }
    | .atPlace _ rid => setProc s i { p with pc := .done (.ok rid) }

def runSchedule (s : CState) (sched : List Nat) : CState := sched.foldl cstep s

def mkProc (req : WareId) (altering : Bool) (mode : Mode) (yield : URes) : Proc :=
  { req := req, altering := altering, mode := mode, yield := yield, pc := .atLookup, tmp := none }

def initState (ps : List Proc) (shelves : List WareId) : CState :=
  { shelves := shelves.map (fun k => (k, .complete k)), procs := ps }

end Rio
