import Rio.Model.Meta
import Rio.Model.Cache
/-
  M9 — placements from a cache shelf (/repo/stitch/placer/*.go, cache.place) at the level of "which
  object receives a write made through the destination".  The kernel's mount semantics are the model's
  assumptions (validated by the `place` stream in a private mount namespace):

    copy        : the destination is a fresh copy — writes stay in the copy
    overlay rw  : writes land in the private upper/work directories
    bind ro     : writes are refused (EROFS)
    bind rw     : writes land in the source itself
-/
namespace Rio

inductive PlKind | copy | overlayRw | bindRo | bindRw
deriving DecidableEq, Repr, Inhabited

/-- `NewOverlayPlacer`'s dispatch (and `BindPlacer` for read-only requests) on the type of the shelf root -/
def overlayPlacerFor (root : Kind) (writable : Bool) : PlKind :=
  if !writable then .bindRo
  else match root with
    | .file => .copy
    | .dir => .overlayRw
    | _ => .bindRo        -- symlink, fifo, socket, device: bind placer, read-only since `fix:` a0ae968 (was writable)

/-- `cache.place`: placement mode → placer (mount mode asks for a writable placement) -/
def cachePlaceFor (mode : Mode) (root : Kind) : Option PlKind :=
  match mode with
  | .none_ => none
  | .direct | .copy => some .copy
  | .mount => some (overlayPlacerFor root true)

abbrev Content_ := Nat    -- an opaque stamp of "everything about the tree": entries, bytes, owners, modes, mtimes

structure Placement where
  kind : PlKind
  own : Content_          -- copy: the copy; overlay: the merged view; bind: unused
  mounted : Bool
deriving DecidableEq, Repr, Inhabited

structure PState where
  shelf : Content_
  pls : List Placement
deriving Repr, Inhabited

inductive POp
  | place (k : PlKind)
  | write (i : Nat) (c : Content_)     -- any write / delete / chmod / chown / rename inside destination i
  | teardown (i : Nat)
deriving Repr

/-- what destination `i` shows -/
def pview (s : PState) (p : Placement) : Content_ :=
  match p.kind with
  | .copy | .overlayRw => p.own
  | .bindRo | .bindRw => s.shelf

def pstep (s : PState) : POp → PState
  | .place k => { s with pls := s.pls ++ [⟨k, s.shelf, true⟩] }
  | .write i c =>
    match s.pls[i]? with
    | none => s
    | some p =>
      if !p.mounted then s else
      match p.kind with
      | .copy | .overlayRw => { s with pls := s.pls.set i { p with own := c } }
      | .bindRo => s                        -- EROFS
      | .bindRw => { s with shelf := c }    -- the write goes through to the shelf
  | .teardown i =>
    match s.pls[i]? with
    | none => s
    | some p => { s with pls := s.pls.set i { p with mounted := false } }

def prun (s : PState) (ops : List POp) : PState := ops.foldl pstep s

end Rio
