import Rio.Basic
/-
  M — ownership bits of a zip entry (/repo/transmat/zip/zip_format.go: parseZipExtraHeader, parseUnix3Header,
  parseUnix2Header, zipFileOwnership, zipUnix2ExtraHeader, zipUnix3ExtraHeader).

  Go's slice expressions and index expressions panic when out of range; the model makes every such access explicit:
  `.panic` is the outcome of an access beyond the *length* of the slice (Go tolerates a slice expression up to the
  capacity, reading bytes that follow the block; the model is stricter — never to reach `.panic` implies never to
  read outside the block).
-/
namespace Rio

inductive OwnerRes
  | ok (uid gid : Nat)
  | corrupt            -- rio.ErrWareCorrupt
  | panic              -- index / slice out of range
deriving DecidableEq, Repr

/-- `binary.LittleEndian.Uint16(b[i:i+2])` -/
def le16At (b : Bytes) (i : Nat) : Option Nat :=
  if i + 2 ≤ b.length then some ((b.getD i 0).toNat + 256 * (b.getD (i + 1) 0).toNat) else none

/-- `binary.LittleEndian.Uint32(b[i:i+4])` -/
def le32At (b : Bytes) (i : Nat) : Option Nat :=
  if i + 4 ≤ b.length then
    some ((b.getD i 0).toNat + 256 * (b.getD (i + 1) 0).toNat + 65536 * (b.getD (i + 2) 0).toNat + 16777216 * (b.getD (i + 3) 0).toNat)
  else none

def orPanic (x : Option Nat) (k : Nat → OwnerRes) : OwnerRes :=
  match x with
  | some v => k v
  | none => .panic

/-- `parseUnix3Header(hdr)`; `hdr` is the data of the block -/
def parseUnix3 (hdr : Bytes) : OwnerRes :=
  if hdr.length < 7 then .corrupt
  else
    let uidSize := (hdr.getD 1 0).toNat
    if uidSize ≠ 2 ∧ uidSize ≠ 4 then .corrupt
    else orPanic (if uidSize = 2 then le16At hdr 2 else le32At hdr 2) fun uid =>
      if 2 + uidSize < hdr.length then
        let gidSize := (hdr.getD (2 + uidSize) 0).toNat
        if hdr.length < 3 + uidSize + gidSize then .corrupt
        else if gidSize = 2 then orPanic (le16At hdr (3 + uidSize)) fun gid => .ok uid gid
        else if gidSize = 4 then orPanic (le32At hdr (3 + uidSize)) fun gid => .ok uid gid
        else .corrupt
      else .panic

/-- `parseUnix2Header(hdr)` (as the code is: it expects eight bytes of data and reads the last four) -/
def parseUnix2 (hdr : Bytes) : OwnerRes :=
  -- the block's data section: uid, gid (until `fix:` c3ebb55 the code demanded eight bytes and read offsets 4 and 6,
  -- as if the id and length fields were still attached: a unix2-only zip could never be read)
  if hdr.length < 4 then .corrupt
  else orPanic (le16At hdr 0) fun uid => orPanic (le16At hdr 2) fun gid => .ok uid gid

inductive ExtraRes
  | ok (blocks : List (Nat × Bytes))    -- in order of appearance; a later block with the same id wins (map assignment)
  | corrupt
  | panic
deriving DecidableEq, Repr

/-- the loop of `parseZipExtraHeader`: `for i < len(extra)-3 { … }` -/
def parseExtraFrom (extra : Bytes) : Nat → Nat → List (Nat × Bytes) → ExtraRes
  | 0, _, acc => .ok acc.reverse
  | fuel + 1, i, acc =>
    if i + 3 < extra.length then
      match le16At extra i, le16At extra (i + 2) with
      | some id, some l =>
        if extra.length < i + l + 4 then .corrupt
        else parseExtraFrom extra fuel (i + 4 + l) ((id, (extra.drop (i + 4)).take l) :: acc)
      | _, _ => .panic
    else .ok acc.reverse

def parseExtra (extra : Bytes) : ExtraRes := parseExtraFrom extra (extra.length + 1) 0 []

def lookupLast (bs : List (Nat × Bytes)) (id : Nat) : Option Bytes :=
  (bs.reverse.find? (·.1 = id)).map (·.2)

/-- `zipFileOwnership(hdr)` as a function of `hdr.Extra` -/
def zipOwnership (extra : Bytes) : OwnerRes :=
  match parseExtra extra with
  | .corrupt => .corrupt
  | .panic => .panic
  | .ok bs =>
    match lookupLast bs 0x7875 with
    | some d => parseUnix3 d
    | none =>
      match lookupLast bs 0x7855 with
      -- (the central-directory form of Info-ZIP 2.x's `Ux` block carries no data: the ids live in the local header,
      --  which archive/zip does not hand on — no owner information, hence the default; since the `fix:`)
      | some d => if d.length = 0 then .ok 1000 1000 else parseUnix2 d
      | none => .ok 1000 1000

def le16Bytes (v : Nat) : Bytes := [UInt8.ofNat (v % 256), UInt8.ofNat (v / 256 % 256)]
def le32Bytes (v : Nat) : Bytes :=
  [UInt8.ofNat (v % 256), UInt8.ofNat (v / 256 % 256), UInt8.ofNat (v / 65536 % 256), UInt8.ofNat (v / 16777216 % 256)]

/-- `zipUnix2ExtraHeader` -/
def unix2Extra (uid gid : Nat) : Bytes :=
  if uid < 65536 ∧ gid < 65536 then le16Bytes 0x7855 ++ le16Bytes 4 ++ le16Bytes uid ++ le16Bytes gid else []

/-- `zipUnix3ExtraHeader` -/
def unix3Extra (uid gid : Nat) : Bytes :=
  le16Bytes 0x7875 ++ le16Bytes 11 ++ [1, 4] ++ le32Bytes uid ++ [4] ++ le32Bytes gid

/-- the owner part of `hdr.Extra` as `MetadataToZipHdr` writes it -/
def ownerExtra (uid gid : Nat) : Bytes := unix2Extra uid gid ++ unix3Extra uid gid

end Rio
