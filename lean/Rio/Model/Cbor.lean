import Rio.Basic
/-
  The fragment of refmt's CBOR encoder that rio's tree hash uses
  (refmt/cbor/cborEncoderTerminals.go: emitMajorPlusLen, encodeString, encodeBytes, encodeInt64).
  rio ignores the encoder's return values; on the token sequences rio sends the encoder's phase
  machine never rejects a token, so the output is the concatenation of the terminals below
  (checked byte-for-byte by the `hash` correspondence stream with a recording hasher).
-/
namespace Rio

/-- big-endian `n`-byte representation of `v mod 256^n`. -/
def beBytes : Nat → Nat → Bytes
  | 0, _ => []
  | n + 1, v => beBytes n (v / 256) ++ [UInt8.ofNat (v % 256)]

/-- `emitMajorPlusLen`: shortest-form head. `major` is the already shifted major byte (0x00, 0x20, …). -/
def cborHead (major : UInt8) (v : Nat) : Bytes :=
  if v ≤ 0x17 then [major + UInt8.ofNat v]
  else if v ≤ 0xff then [major + 0x18, UInt8.ofNat v]
  else if v ≤ 0xffff then (major + 0x19) :: beBytes 2 v
  else if v ≤ 0xffffffff then (major + 0x1a) :: beBytes 4 v
  else (major + 0x1b) :: beBytes 8 v

def cborMajorUint : UInt8 := 0x00
def cborMajorNegInt : UInt8 := 0x20
def cborMajorBytes : UInt8 := 0x40
def cborMajorString : UInt8 := 0x60
def cborMajorArray : UInt8 := 0x80
def cborMajorMap : UInt8 := 0xa0
def cborIndefArray : UInt8 := 0x9f
def cborBreak : UInt8 := 0xff

def cborStr (s : Bytes) : Bytes := cborHead cborMajorString s.length ++ s
def cborBytes (s : Bytes) : Bytes := cborHead cborMajorBytes s.length ++ s
def cborMap (n : Nat) : Bytes := cborHead cborMajorMap n
/-- `encodeInt64` -/
def cborInt (v : Int) : Bytes :=
  if v ≥ 0 then cborHead cborMajorUint v.toNat else cborHead cborMajorNegInt (-1 - v).toNat

end Rio
