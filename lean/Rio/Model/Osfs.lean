import Rio.Model.Path
import Rio.Model.Errors
/-
  M6 — path resolution of the based filesystem handle (/repo/fs/osfs/osfs.go: realpath, _realpath,
  resolveLink) over an abstract tree under the base.

  The tree is a flat map from clean relative paths (no leading "./") to nodes.  `readlinkAt` models
  `os.Readlink(base/p)` *for paths whose proper prefixes hold no symlink* — the only ones osfs ever asks
  about if it is correct; for any other path the kernel would follow the link on the host, which the
  model reports as `.hostFollow` (never reached by the code as it is: that is C07_nolinks).
-/
namespace Rio

inductive Node
  | dir
  | file
  | link (target : Bytes)
deriving DecidableEq, Repr, Inhabited

abbrev Tree_ := List (Bytes × Node)

def Tree_.get (t : Tree_) (p : Bytes) : Option Node :=
  if p = [] then some .dir else (t.find? (·.1 = p)).map (·.2)

/-- proper ancestors of a clean relative path, nearest last: "a/b/c" ↦ ["a", "a/b"] -/
def properPrefixes (p : Bytes) : List Bytes :=
  let cs := splitOn slash p
  (List.range (cs.length - 1)).map (fun i => joinWith slash (cs.take (i + 1)))

inductive RL
  | link (target : Bytes)
  | notLink                 -- EINVAL: exists, not a symlink
  | err (c : FsCat)         -- ENOENT, ENOTDIR
  | hostFollow              -- an intermediate component is a symlink: the kernel leaves the model
deriving DecidableEq, Repr

/-- `osFS.readlink(base.Join(p))` -/
def readlinkAt (t : Tree_) (p : RelPath) : RL :=
  let pre := properPrefixes p.path
  if pre.any (fun q => match t.get q with | some (.link _) => true | _ => false) then .hostFollow
  else if pre.any (fun q => match t.get q with | some .file => true | _ => false) then .err .notDir
  else if pre.any (fun q => (t.get q).isNone) then .err .notExists
  else match t.get p.path with
    | none => .err .notExists
    | some (.link tg) => .link tg
    | some _ => .notLink

inductive Resolved
  | ok (p : RelPath)
  | err (c : FsCat) (at_ : RelPath)
  | hostFollow
  | outOfFuel
deriving DecidableEq, Repr

def single (s : Bytes) : RelPath := (mustRel s).getD ⟨[], 0⟩

/-- the segment loop of `resolveLink`; `rec` is the recursive call for a nested link -/
def resolveSegsWith (t : Tree_) (rec : Bytes → RelPath → List RelPath → Resolved × List RelPath)
    (startingAt : RelPath) : List Bytes → RelPath → List RelPath → Resolved × List RelPath
  | [], path, seen => (.ok path, seen)
  | s :: rest, path, seen =>
    if s = [] ∨ s = [dot] then resolveSegsWith t rec startingAt rest path seen
    else if s = [dot, dot] ∧ path = ⟨[], 0⟩ then resolveSegsWith t rec startingAt rest path seen
    else
      let path := path.join (single s)
      if path = startingAt then (.err .recursion startingAt, seen)
      else match readlinkAt t path with
        | .hostFollow => (.hostFollow, seen)
        | .err c =>
          if rest = [] ∧ c = .notExists then (.ok path, seen) else (.err c startingAt, seen)
        | .notLink => resolveSegsWith t rec startingAt rest path seen
        | .link tg =>
          match rec tg path seen with
          | (.ok p', seen') => resolveSegsWith t rec startingAt rest p' seen'
          | (.err c _, seen') => (.err c startingAt, seen')
          | (r, seen') => (r, seen')

/-- `resolveLink(symlink, startingAt, seen)`; `fuel` bounds the recursion depth (#links + 2 is enough, see C07). -/
def resolveLink (t : Tree_) : Nat → Bytes → RelPath → List RelPath → Resolved × List RelPath
  | 0, _, _, seen => (.outOfFuel, seen)
  | fuel + 1, symlink, startingAt, seen =>
    if seen.contains startingAt then (.err .recursion startingAt, seen)
    else
      let seen := startingAt :: seen
      let segs := splitOn slash symlink
      let rooted := segs.head? = some []
      let start : RelPath := if rooted then ⟨[], 0⟩ else startingAt.dir
      let segs := if rooted then segs.drop 1 else segs
      resolveSegsWith t (resolveLink t fuel) startingAt segs start seen

/-- `_realpath(path, resolveLast)` over the segments of `path` -/
def realpathSegs (t : Tree_) (fuel : Nat) (resolveLast : Bool) : List Bytes → RelPath → Resolved
  | [], resolved => .ok resolved
  | s :: rest, resolved =>
    let resolved := resolved.join (single s)
    if rest = [] ∧ !resolveLast then .ok resolved
    else match readlinkAt t resolved with
      | .hostFollow => .hostFollow
      | .err c => .err c resolved
      | .notLink => realpathSegs t fuel resolveLast rest resolved
      | .link tg =>
        match (resolveLink t fuel tg resolved []).1 with
        | .ok p' => realpathSegs t fuel resolveLast rest p'
        -- the error keeps its category on the way out (until the `fix:` `fs.NormalizeIOError`, applied a second time to an
        -- already categorized error, turned it into `fs-misc`: a cycle was reported without the recursion category)
        | .err c _ => .err c resolved
        | r => r

def numLinks (t : Tree_) : Nat := (t.filter (fun kv => match kv.2 with | .link _ => true | _ => false)).length

/-- `realpath(path, resolveLast)`: `GoesUp` paths are refused before anything is looked at. -/
def realpath (t : Tree_) (path : RelPath) (resolveLast : Bool) : Resolved :=
  if path.goesUp then .err .breakout path
  else
    let segs := if path.path = [] then [] else splitOn slash path.path
    realpathSegs t (numLinks t + 2) resolveLast segs ⟨[], 0⟩

/-- the exported `ResolveLink` (since `fix:` for links in the directory part of `startingAt`): the directory the link sits
    in is resolved inside the base first, then the target is walked from there -/
def resolveLinkTop (t : Tree_) (target : Bytes) (startingAt : RelPath) : Resolved :=
  if startingAt.goesUp then .err .breakout startingAt
  else if startingAt.path = [] then (resolveLink t (numLinks t + 2) target startingAt []).1
  else
    match realpath t startingAt.dir true with
    | .ok d => (resolveLink t (numLinks t + 2) target (d.join (single startingAt.last)) []).1
    | .err c _ => .err c startingAt
    | r => r


end Rio
