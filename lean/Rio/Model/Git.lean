import Rio.Model.Filters
/-
  M7 (git) — `git_unpack.go: unpackOneRepo` at the level of the entries go-git's tree walker yields
  (pre-order, recursive): which metadata each entry is placed with.  go-git's object decoding is input.
-/
namespace Rio

inductive GitMode | dir | regular | deprecated | executable | symlink | submodule | oddRegular | oddExecutable | other
deriving DecidableEq, Repr, Inhabited

structure GitEntry where
  name : Bytes          -- path within the tree, as the walker reports it ("a/b")
  mode : GitMode
  blob : Bytes          -- file content, or the link target for symlinks
deriving DecidableEq, Repr, Inhabited

/-- what placing one walked entry comes to: metadata, a refusal (`rio-ware-corrupt`), or a Go panic -/
inductive GitRes (α : Type) | ok (a : α) | corrupt | panic
deriving DecidableEq, Repr, Inhabited

/-- what one walked entry is placed as, before filters.  An entry name that begins with `/` (a tree object
    written by hand: go-git's walker joins names with `path.Join`, so only the first component can do it) is
    refused before `fs.MustRelPath` sees it; a file mode outside the six go-git knows is refused.  `100664`
    ("deprecated", group-writable, written by early gits) is a regular file. -/
def gitEntryMeta (e : GitEntry) : GitRes Meta :=
  if e.name.head? = some slash then .corrupt else
  match mustRel e.name with
  | none => .panic        -- `fs.MustRelPath` panics: shown unreachable in `C19_never_panics`
  | some name =>
    let base : Meta := { name := name, kind := .file, perms := 0, uid := 1000, gid := 1000, size := 0, linkname := [],
                         devmajor := 0, devminor := 0, mtime := defaultTime, xattrs := [] }
    match e.mode with
    | .dir => .ok { base with kind := .dir, perms := 0o755 }
    | .regular => .ok { base with kind := .file, perms := 0o644 }
    | .deprecated => .ok { base with kind := .file, perms := 0o644 }
    -- any other mode of a regular file (100775, 100600, …) is canonicalised by its owner-execute bit, as git does
    | .oddRegular => .ok { base with kind := .file, perms := 0o644 }
    | .oddExecutable => .ok { base with kind := .file, perms := 0o755 }
    | .executable => .ok { base with kind := .file, perms := 0o755 }
    | .symlink => .ok { base with kind := .symlink, perms := 0o644, linkname := e.blob }
    | .submodule => .ok { base with kind := .dir, perms := 0o755 }   -- as placed for a nested gitlink
    | .other => .corrupt

/-- the entries in walk order, stopping at the first that is not placed -/
def gitMetas : List GitEntry → GitRes (List Meta)
  | [] => .ok []
  | e :: es =>
    match gitEntryMeta e with
    | .corrupt => .corrupt
    | .panic => .panic
    | .ok m => match gitMetas es with
      | .ok ms => .ok (m :: ms)
      | r => r

/-- the metadata list of a whole unpack: the conjured root, then every entry -/
def gitUnpackMetas (es : List GitEntry) : GitRes (List Meta) :=
  match gitMetas es with
  | .ok ms => .ok (defaultDirMeta ⟨[], 0⟩ :: ms)
  | r => r

end Rio
