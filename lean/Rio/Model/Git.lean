import Rio.Model.Filters
/-
  M7 (git) — `git_unpack.go: unpackOneRepo` at the level of the entries go-git's tree walker yields
  (pre-order, recursive): which metadata each entry is placed with.  go-git's object decoding is input.
-/
namespace Rio

inductive GitMode | dir | regular | executable | symlink | submodule | other
deriving DecidableEq, Repr, Inhabited

structure GitEntry where
  name : Bytes          -- path within the tree, as the walker reports it ("a/b")
  mode : GitMode
  blob : Bytes          -- file content, or the link target for symlinks
deriving DecidableEq, Repr, Inhabited

/-- what one walked entry is placed as, before filters; `none` = panic ("unknown git filemode") -/
def gitEntryMeta (e : GitEntry) : Option (Option Meta) :=
  match mustRel e.name with
  | none => some none     -- `fs.MustRelPath` panics (cannot happen for go-git tree paths)
  | some name =>
    let base : Meta := { name := name, kind := .file, perms := 0, uid := 1000, gid := 1000, size := 0, linkname := [],
                         devmajor := 0, devminor := 0, mtime := defaultTime, xattrs := [] }
    match e.mode with
    | .dir => some (some { base with kind := .dir, perms := 0o755 })
    | .regular => some (some { base with kind := .file, perms := 0o644 })
    | .executable => some (some { base with kind := .file, perms := 0o755 })
    | .symlink => some (some { base with kind := .symlink, perms := 0o644, linkname := e.blob })
    | .submodule => some (some { base with kind := .dir, perms := 0o755 })   -- as placed for a nested gitlink
    | .other => none

/-- the metadata list of a whole unpack: the conjured root, then every entry; `none` = panic -/
def gitUnpackMetas (es : List GitEntry) : Option (List Meta) :=
  match es.mapM (fun e => match gitEntryMeta e with | some (some m) => some m | _ => none) with
  | none => none
  | some ms => some (defaultDirMeta ⟨[], 0⟩ :: ms)

end Rio
