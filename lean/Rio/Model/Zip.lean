import Rio.Model.Tar
import Rio.Model.ZipHdr
/-
  M4/M7 for zip — header conversion (/repo/transmat/zip/zip_format.go: ZipHdrToMetadata, with osfs.OsToType and
  osfs.OsToPerms) and the unpack loop (/repo/transmat/zip/zip_unpack.go: unpackZip) at the level of what
  `archive/zip`'s reader returns: the list of central-directory entries with their `os.FileMode`, extra field,
  `Modified` time, and what opening and reading each body yields.  The loop shares the bucket, the conjured parents,
  the filter and the final hashing / re-paving with the tar model.
-/
namespace Rio

structure ZipHdr where
  name : Bytes
  mode : Nat           -- `hdr.FileInfo().Mode()` as a uint32
  extra : Bytes
  mtime : Time         -- `hdr.Modified`
  size : Int
  chash : Bytes        -- hash of the body as read
  body : Bytes         -- the body itself (a symlink's target is its body)
  openOk : Bool        -- `zf.Open()` succeeded
  bodyOk : Bool        -- the body could be read completely
deriving DecidableEq, Repr, Inhabited

def modeDir : Nat := 2 ^ 31
def modeSymlink : Nat := 2 ^ 27
def modeDevice : Nat := 2 ^ 26
def modeNamedPipe : Nat := 2 ^ 25
def modeSocket : Nat := 2 ^ 24
def modeSetuid : Nat := 2 ^ 23
def modeSetgid : Nat := 2 ^ 22
def modeCharDevice : Nat := 2 ^ 21
def modeSticky : Nat := 2 ^ 20
def modeIrregular : Nat := 2 ^ 19

def hasBit (m b : Nat) : Bool := m &&& b ≠ 0

/-- `osfs.OsToType` (the order of the tests is the code's: a char device, which Go marks `ModeDevice|ModeCharDevice`,
    answers `Type_Device`) -/
def osToType (fm : Nat) : Kind :=
  if hasBit fm modeDir then .dir
  else if hasBit fm modeSymlink then .symlink
  else if hasBit fm modeNamedPipe then .fifo
  else if hasBit fm modeSocket then .socket
  else if hasBit fm modeDevice then .device
  else if hasBit fm modeCharDevice then .chardev
  else if hasBit fm modeIrregular then .invalid
  else .file

/-- `osfs.OsToPerms` -/
def osToPerms (fm : Nat) : Nat :=
  (fm &&& 0o777) ||| (if hasBit fm modeSetuid then permSetuid else 0) ||| (if hasBit fm modeSetgid then permSetgid else 0) |||
    (if hasBit fm modeSticky then permSticky else 0)

/-- `ZipHdrToMetadata` -/
def zipHdrToMeta (h : ZipHdr) : HdrRes :=
  match mustRel h.name with
  | none => .halt .wareCorrupt                         -- `path.IsAbs(path.Clean(name))`
  | some name =>
    let k := osToType h.mode
    if k = .invalid then .halt .wareCorrupt
    else match zipOwnership h.extra with
      | .panic => .panic
      | .corrupt => .halt .wareCorrupt
      | .ok uid gid =>
        .meta_ { name := name, kind := k, perms := osToPerms h.mode, uid := uid, gid := gid, size := h.size,
                 linkname := [], devmajor := 0, devminor := 0, mtime := h.mtime, xattrs := [] }

/-- one iteration of the entry loop of `unpackZip` -/
def unpackZipEntry {σ : Type} (ops : FsOps σ) (myUid myGid : Nat) (filt : UnpackFilter) (h : ZipHdr)
    (st : UnpackSt σ) : Outcome (UnpackSt σ) :=
  match zipHdrToMeta h with
  | .panic => .panic "zip owner block: slice bounds out of range"
  | .skip => .ok st
  | .halt c => .err c
  | .meta_ fmeta =>
    if hasPrefix fmeta.name.str [dot, dot] then .err .wareCorrupt else
    if fmeta.kind ≠ .dir ∧ st.pre.has fmeta then .err .wareCorrupt else      -- repeated entry
    if st.pre.has (twinOf fmeta) then .err .wareCorrupt else                  -- a directory and something else under one name
    match conjureParents ops myUid myGid filt fmeta.name.splitParent st with
    | .panic w => .panic w
    | .err c => .err c
    | .ok st =>
      match applyUnpackFilter myUid myGid filt fmeta with
      | .panic w => .panic w
      | .err c => .err c
      | .ok filtered =>
        if filtered.kind = .invalid then .ok { st with pre := st.pre.add fmeta [] }
        else if fmeta.kind = .file then
          if !h.openOk then .err .wareCorrupt else
          let (fs', e) := ops.place st.fs filtered h.chash h.bodyOk
          match e with
          | some _ => .err .inoperablePath
          | none => .ok { st with fs := fs', pre := st.pre.add fmeta h.chash, post := st.post.add filtered h.chash }
        else if fmeta.kind = .symlink then
          if !h.openOk || !h.bodyOk then .err .wareCorrupt else
          let fmeta := { fmeta with linkname := h.body }
          let filtered := { filtered with linkname := h.body }
          let (fs', e) := ops.place st.fs filtered [] true
          match e with
          | some _ => .err .inoperablePath
          | none => .ok { st with fs := fs', pre := st.pre.add fmeta [], post := st.post.add filtered [] }
        else if fmeta.kind = .dir then
          let dirs := fmeta.name :: st.dirs
          let (fs', e) := ops.place st.fs filtered [] true
          match e with
          | some _ => .err .inoperablePath
          | none =>
            if st.pre.has fmeta then
              .ok { fs := fs', pre := st.pre.update fmeta [], post := st.post.update filtered [], dirs := dirs }
            else
              .ok { fs := fs', pre := st.pre.add fmeta [], post := st.post.add filtered [], dirs := dirs }
        else .err .packInvalid        -- "zip pack does not support files of type …"

def unpackZipEntries {σ : Type} (ops : FsOps σ) (myUid myGid : Nat) (filt : UnpackFilter) :
    List ZipHdr → UnpackSt σ → Outcome (UnpackSt σ)
  | [], st => .ok st
  | h :: hs, st =>
    match unpackZipEntry ops myUid myGid filt h st with
    | .ok st' => unpackZipEntries ops myUid myGid filt hs st'
    | .err c => .err c
    | .panic w => .panic w

/-- what follows the entry loop in both unpackers: the empty-bucket checks, the re-paving walk, the two hashes and
    the paranoia check -/
def finishUnpack {σ : Type} (H : Bytes → Bytes) (ops : FsOps σ) (filt : UnpackFilter) (st : UnpackSt σ) :
    Outcome (σ × Bytes × Bytes) :=
  if st.pre = [] then .err .wareCorrupt else
  if st.post = [] then .err .filterRejection else
  let bucketPanic (p : Panic) : Outcome (σ × Bytes × Bytes) :=
    if p.isInvalidFilesystem then .err .wareCorrupt else .panic (panicMsg p)
  match hashBucket (fun _ => []) st.post with
  | .error p => bucketPanic p
  | .ok _ =>
    match applySetTimes ops (repaveDirs (bucketLines st.post)) st.fs with
    | (_, some _) => .err .inoperablePath
    | (fs', none) =>
      match hashBucket H st.pre, hashBucket H st.post with
      | .error p, _ => bucketPanic p
      | _, .error p => bucketPanic p
      | .ok a, .ok b =>
        if !filt.altering && a ≠ b then .panic "prefilterHash != filteredHash"
        else .ok (fs', a, b)

/-- `unpackZip` once `zip.NewReader` has accepted the stream (`readable = false`: it did not → corrupt ware) -/
def unpackZip {σ : Type} (H : Bytes → Bytes) (ops : FsOps σ) (myUid myGid : Nat) (filt : UnpackFilter)
    (hdrs : List ZipHdr) (readable : Bool) (s0 : σ) : Outcome (σ × Bytes × Bytes) :=
  if !readable then .err .wareCorrupt else
  match unpackZipEntries ops myUid myGid filt hdrs ⟨s0, [], [], []⟩ with
  | .panic w => .panic w
  | .err c => .err c
  | .ok st => finishUnpack H ops filt st

end Rio
