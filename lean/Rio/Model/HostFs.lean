import Rio.Model.Osfs
/-
  M5 (resolution part) — how the *kernel* walks a path on the host: component by component, following
  a symlink wherever one is met in a non-final position (and in the final one unless told not to).
  Paths are absolute component lists; `HFs` maps them to nodes.  `fuel` bounds the number of steps.
-/
namespace Rio

abbrev HFs := List (List Bytes × Node)

def HFs.get (fs : HFs) (p : List Bytes) : Option Node :=
  if p = [] then some .dir else (fs.find? (·.1 = p)).map (·.2)

def HFs.isLink (fs : HFs) (p : List Bytes) : Bool :=
  match fs.get p with
  | some (.link _) => true
  | _ => false

/-- components of a link target, and whether it is absolute -/
def targetComps (tg : Bytes) : Bool × List Bytes :=
  (tg.head? = some slash, (splitOn slash tg).filter (fun c => c ≠ [] ∧ c ≠ [dot]))

/-- the kernel's path walk. `none` = out of fuel (ELOOP). -/
def namei (fs : HFs) : Nat → (cur : List Bytes) → (comps : List Bytes) → (followLast : Bool) → Option (List Bytes)
  | _, cur, [], _ => some cur
  | 0, _, _ :: _, _ => none
  | fuel + 1, cur, c :: rest, fl =>
    if c = [dot, dot] then namei fs fuel cur.dropLast rest fl
    else
      let p := cur ++ [c]
      match fs.get p with
      | some (.link tg) =>
        if rest = [] ∧ !fl then some p
        else
          let (isAbs, tc) := targetComps tg
          namei fs fuel (if isAbs then [] else cur) (tc ++ rest) fl
      | _ => namei fs fuel p rest fl

end Rio
