import Rio.Basic
/-
  SHA-384 (FIPS 180-4), used by the *driver only* so that the model can print real wareIDs.
  No theorem depends on it (every theorem takes the hash as an arbitrary `H`); it is validated
  against Go's crypto/sha512 by the `hash` correspondence stream.
-/
namespace Rio.Sha

def K : Array UInt64 := #[0x428a2f98d728ae22, 0x7137449123ef65cd, 0xb5c0fbcfec4d3b2f, 0xe9b5dba58189dbbc, 0x3956c25bf348b538, 0x59f111f1b605d019, 0x923f82a4af194f9b, 0xab1c5ed5da6d8118, 0xd807aa98a3030242, 0x12835b0145706fbe, 0x243185be4ee4b28c, 0x550c7dc3d5ffb4e2, 0x72be5d74f27b896f, 0x80deb1fe3b1696b1, 0x9bdc06a725c71235, 0xc19bf174cf692694, 0xe49b69c19ef14ad2, 0xefbe4786384f25e3, 0x0fc19dc68b8cd5b5, 0x240ca1cc77ac9c65, 0x2de92c6f592b0275, 0x4a7484aa6ea6e483, 0x5cb0a9dcbd41fbd4, 0x76f988da831153b5, 0x983e5152ee66dfab, 0xa831c66d2db43210, 0xb00327c898fb213f, 0xbf597fc7beef0ee4, 0xc6e00bf33da88fc2, 0xd5a79147930aa725, 0x06ca6351e003826f, 0x142929670a0e6e70, 0x27b70a8546d22ffc, 0x2e1b21385c26c926, 0x4d2c6dfc5ac42aed, 0x53380d139d95b3df, 0x650a73548baf63de, 0x766a0abb3c77b2a8, 0x81c2c92e47edaee6, 0x92722c851482353b, 0xa2bfe8a14cf10364, 0xa81a664bbc423001, 0xc24b8b70d0f89791, 0xc76c51a30654be30, 0xd192e819d6ef5218, 0xd69906245565a910, 0xf40e35855771202a, 0x106aa07032bbd1b8, 0x19a4c116b8d2d0c8, 0x1e376c085141ab53, 0x2748774cdf8eeb99, 0x34b0bcb5e19b48a8, 0x391c0cb3c5c95a63, 0x4ed8aa4ae3418acb, 0x5b9cca4f7763e373, 0x682e6ff3d6b2b8a3, 0x748f82ee5defb2fc, 0x78a5636f43172f60, 0x84c87814a1f0ab72, 0x8cc702081a6439ec, 0x90befffa23631e28, 0xa4506cebde82bde9, 0xbef9a3f7b2c67915, 0xc67178f2e372532b, 0xca273eceea26619c, 0xd186b8c721c0c207, 0xeada7dd6cde0eb1e, 0xf57d4f7fee6ed178, 0x06f067aa72176fba, 0x0a637dc5a2c898a6, 0x113f9804bef90dae, 0x1b710b35131c471b, 0x28db77f523047d84, 0x32caab7b40c72493, 0x3c9ebe0a15c9bebc, 0x431d67c49c100d4c, 0x4cc5d4becb3e42b6, 0x597f299cfc657e2a, 0x5fcb6fab3ad6faec, 0x6c44198c4a475817]

def IV384 : Array UInt64 := #[0xcbbb9d5dc1059ed8, 0x629a292a367cd507, 0x9159015a3070dd17, 0x152fecd8f70e5939, 0x67332667ffc00b31, 0x8eb44a8768581511, 0xdb0c2e0d64f98fa7, 0x47b5481dbefa4fa4]

@[inline] def rotr (x : UInt64) (n : UInt64) : UInt64 := (x >>> n) ||| (x <<< (64 - n))

def pad (msg : Bytes) : Bytes :=
  let l := msg.length
  let padLen := (240 - (l + 1) % 128) % 128   -- zeros so that total ≡ 112 mod 128
  let zeros := List.replicate padLen (0 : UInt8)
  let bitLen := l * 8
  let lenBytes := (List.range 16).map (fun i => UInt8.ofNat ((bitLen >>> (8 * (15 - i))) % 256))
  msg ++ [0x80] ++ zeros ++ lenBytes

def word (b : Array UInt8) (off : Nat) : UInt64 :=
  (List.range 8).foldl (fun acc i => (acc <<< 8) ||| (b[off + i]!).toUInt64) 0

def schedule (blk : Array UInt8) (off : Nat) : Array UInt64 := Id.run do
  let mut w : Array UInt64 := Array.mkEmpty 80
  for t in [0:16] do
    w := w.push (word blk (off + 8 * t))
  for t in [16:80] do
    let w15 := w[t - 15]!
    let w2 := w[t - 2]!
    let s0 := rotr w15 1 ^^^ rotr w15 8 ^^^ (w15 >>> 7)
    let s1 := rotr w2 19 ^^^ rotr w2 61 ^^^ (w2 >>> 6)
    w := w.push (w[t - 16]! + s0 + w[t - 7]! + s1)
  return w

def compress (h : Array UInt64) (blk : Array UInt8) (off : Nat) : Array UInt64 := Id.run do
  let w := schedule blk off
  let mut a := h[0]!; let mut b := h[1]!; let mut c := h[2]!; let mut d := h[3]!
  let mut e := h[4]!; let mut f := h[5]!; let mut g := h[6]!; let mut hh := h[7]!
  for t in [0:80] do
    let S1 := rotr e 14 ^^^ rotr e 18 ^^^ rotr e 41
    let ch := (e &&& f) ^^^ ((~~~ e) &&& g)
    let t1 := hh + S1 + ch + K[t]! + w[t]!
    let S0 := rotr a 28 ^^^ rotr a 34 ^^^ rotr a 39
    let maj := (a &&& b) ^^^ (a &&& c) ^^^ (b &&& c)
    let t2 := S0 + maj
    hh := g; g := f; f := e; e := d + t1; d := c; c := b; b := a; a := t1 + t2
  return #[h[0]! + a, h[1]! + b, h[2]! + c, h[3]! + d, h[4]! + e, h[5]! + f, h[6]! + g, h[7]! + hh]

def sha384 (msg : Bytes) : Bytes := Id.run do
  let p := (pad msg).toArray
  let mut h := IV384
  for i in [0:p.size / 128] do
    h := compress h p (i * 128)
  let mut out : Bytes := []
  for i in [0:6] do
    let x := h[i]!
    out := out ++ (List.range 8).map (fun j => (x >>> (UInt64.ofNat (8 * (7 - j)))).toUInt8)
  return out

end Rio.Sha

namespace Rio

def b58alphabet : Array Char := "123456789ABCDEFGHJKLMNPQRSTUVWXYZabcdefghijkmnopqrstuvwxyz".toList.toArray

def bytesToNat (b : Bytes) : Nat := b.foldl (fun acc x => acc * 256 + x.toNat) 0

/-- digits of `n` in base 58, least significant first -/
def b58digits : Nat → Nat → List Nat
  | 0, _ => []
  | fuel + 1, n => if n = 0 then [] else (n % 58) :: b58digits fuel (n / 58)

/-- refmt `misc.Base58Encode` -/
def base58Encode (b : Bytes) : String :=
  let n := bytesToNat b
  let digs := (b58digits (b.length * 2 + 1) n).reverse
  let zeros := (b.takeWhile (· = 0)).length
  String.ofList (List.replicate zeros '1' ++ digs.map (fun d => b58alphabet[d]!))

end Rio
