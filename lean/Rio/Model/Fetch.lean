import Rio.Model.Tar
import Rio.Model.Warehouse
/-
  M7/M10 — `util.wrapUnpacker` (compare the recomputed prefilter wareID with the requested one),
  `util.CreateMirror` (same comparison, guarding `Commit`), and the fileset-cache protocol of
  `cache.Lrn2Cache` (/repo/transmat/mixins/cache/filesetCacheImpl.go) as far as outcomes go.
  WareIDs are compared as hash byte strings (base58 is injective; proved in Proofs/Base58 when present).
-/
namespace Rio

/-- `wrapUnpacker`: fetch from the picked warehouse, unpack, then refuse a hash mismatch.
    Returns the filtered wareID. -/
def wrapUnpack {σ : Type} (H : Bytes → Bytes) (ops : FsOps σ) (myUid myGid : Nat) (filt : UnpackFilter)
    (req : Bytes) (pick : PickRes) (hdrs : List TarHdr) (fin : StreamEnd) (head : Bytes) (s0 : σ) :
    Outcome (σ × Bytes) :=
  match pick with
  | .err c => .err c
  | .opened _ =>
    match unpackTar H ops myUid myGid filt hdrs fin s0 head with
    | .panic w => .panic w
    | .err c => .err c
    | .ok (s, pre, post) => if pre ≠ req then .err .hashMismatch else .ok (s, post)

/-- events of a mirror run that matter for C03/C08/C13 -/
inductive MirrorEv | noop | openWriter | teeAll | commit | closeStage
deriving DecidableEq, Repr

/-- `CreateMirror`: `targetHas` = the first probe found an object at the target address. -/
def mirror (H : Bytes → Bytes) (req : Bytes) (targetHas : Bool) (writerOk : Bool) (pick : PickRes)
    (hdrs : List TarHdr) (fin : StreamEnd) (head : Bytes) (commitOk : Bool) : Outcome Unit × List MirrorEv :=
  if targetHas then (.ok (), [.noop]) else
  if !writerOk then (.err .whUnwritable, []) else
  match pick with
  | .err c => (.err c, [.openWriter, .closeStage])
  | .opened _ =>
    match unpackTar H nilOps 0 0 ⟨true, ffKeep, ffKeep, ffKeep, ffKeep, ffKeep, ffKeep⟩ hdrs fin () head with
    | .panic w => (.panic w, [.openWriter, .teeAll])
    | .err c => (.err c, [.openWriter, .teeAll, .closeStage])
    | .ok (_, pre, _) =>
      if pre ≠ req then (.err .hashMismatch, [.openWriter, .teeAll, .closeStage])
      else if commitOk then (.ok (), [.openWriter, .teeAll, .commit, .closeStage])
      else (.err .whUnwritable, [.openWriter, .teeAll, .commit, .closeStage])

end Rio
