import Rio.Model.Cbor
import Rio.Model.Meta
/-
  M2 — the tree hash (/repo/transmat/mixins/fshash/{bucketHash,bucket_memory}.go).

  `hashBucket H` is the *implementation model*: sort the records by their bucket key, check the
  root, then run the iterator/visitor control flow as an explicit stack machine.  `H` is the
  hash function (SHA-384 in production; an arbitrary parameter in every theorem).
-/
namespace Rio

structure Record where
  name : Bytes        -- bucket key: `Metadata.Name.String()`, plus a trailing `/` for directories
  m : Meta
  chash : Bytes       -- content hash (files), empty otherwise
deriving DecidableEq, Repr, Inhabited

/-- key under which `MemoryBucket.AddRecord` files a metadata. -/
def recordName (m : Meta) : Bytes :=
  if m.kind = .dir then m.name.str ++ [slash] else m.name.str

def mkRecord (m : Meta) (chash : Bytes) : Record := ⟨recordName m, m, chash⟩

/-! map keys of the serial form, as byte literals (so that the kernel can evaluate them) -/
def key_n : Bytes := [0x6e]   -- "n"
def key_t : Bytes := [0x74]   -- "t"
def key_p : Bytes := [0x70]   -- "p"
def key_u : Bytes := [0x75]   -- "u"
def key_g : Bytes := [0x67]   -- "g"
def key_l : Bytes := [0x6c]   -- "l"
def key_dM : Bytes := [0x64, 0x4d]   -- "dM"
def key_dm : Bytes := [0x64, 0x6d]   -- "dm"
def key_m : Bytes := [0x6d]   -- "m"
def key_mn : Bytes := [0x6d, 0x6e]   -- "mn"
def key_x : Bytes := [0x78]   -- "x"
def key_h : Bytes := [0x68]   -- "h"

/-! ### marshalMetadata -/

/-- xattrs sorted by key (Go: `sort.Sort(sortableStringPair)`; keys of a Go map are distinct). -/
def sortPairs (xs : List (Bytes × Bytes)) : List (Bytes × Bytes) := sortBy (·.1) xs

def serXattrs (xs : List (Bytes × Bytes)) : Bytes :=
  if xs.isEmpty then []
  else cborStr key_x ++ cborMap xs.length ++
    (sortPairs xs).foldr (fun kv acc => cborStr kv.1 ++ cborStr kv.2 ++ acc) []

def isDev (k : Kind) : Bool := k = .device || k = .chardev

def metaFieldCount (m : Meta) : Nat :=
  7 + (if m.linkname ≠ [] then 1 else 0) + (if m.xattrs.isEmpty then 0 else 1) + (if isDev m.kind then 2 else 0)

/-- `string(m.Type)`: the UTF-8 encoding of the type byte taken as a rune. -/
def typeString (k : Kind) : Bytes :=
  let c := k.code
  if c < 0x80 then [c] else [(0xc0 : UInt8) ||| (c >>> 6), (0x80 : UInt8) ||| (c &&& 0x3f)]

/-- `marshalMetadata`: keys n,t,p,u,g,[l],[dM,dm],m,mn,[x] in this fixed order. -/
def serMeta (m : Meta) : Bytes :=
  cborMap (metaFieldCount m)
  ++ cborStr key_n ++ cborStr m.name.last
  ++ cborStr key_t ++ cborStr (typeString m.kind)
  ++ cborStr key_p ++ cborInt m.perms
  ++ cborStr key_u ++ cborInt m.uid
  ++ cborStr key_g ++ cborInt m.gid
  ++ (if m.linkname ≠ [] then cborStr key_l ++ cborStr m.linkname else [])
  ++ (if isDev m.kind then cborStr key_dM ++ cborInt m.devmajor ++ cborStr key_dm ++ cborInt m.devminor else [])
  ++ cborStr key_m ++ cborInt m.mtime.sec
  ++ cborStr key_mn ++ cborInt m.mtime.nsec
  ++ serXattrs m.xattrs

/-! ### HashBucket as a stack machine -/

inductive Panic | emptyBucket | missingRoot | repeatedPath | missingTree | countMismatch | sliceBounds
deriving DecidableEq, Repr, Inhabited

/-- an iterator frame (Go: one `memoryBucketIterator` per visited node on the `treewalk.Walk`
    recursion stack). Directories additionally own the top entry of the `upsubs`/`hashers` stacks,
    modelled as the separate list `accs` of pre-image accumulators (innermost first). -/
structure Frame where
  name : Bytes
  isDir : Bool
deriving DecidableEq, Repr

/-- `upsubs.Peek()(x)`: the innermost open directory gets `x` appended as a CBOR byte string;
    with no directory open it is the root's reaction (`finalAnswer = x`). -/
def deliver (x : Bytes) (accs : List Bytes) (fin : Bytes) : List Bytes × Bytes :=
  match accs with
  | [] => ([], x)
  | a :: as => ((a ++ cborBytes x) :: as, fin)

/-- the part of the pre-image written in `preVisit` before any child: `{2|1: "m": meta, …`. -/
def nodeOpen (r : Record) : Bytes :=
  match r.m.kind with
  | .dir => cborMap 2 ++ cborStr key_m ++ serMeta r.m ++ cborStr key_l ++ [cborIndefArray]
  | .file => cborMap 2 ++ cborStr key_m ++ serMeta r.m ++ cborStr key_h ++ cborBytes r.chash
  | _ => cborMap 1 ++ cborStr key_m ++ serMeta r.m

structure St where
  frames : List Frame
  accs : List Bytes
  fin : Bytes
deriving Repr

/-- `preVisit`: push the node's frame; directories open an accumulator, files deliver their hash at
    once, every other kind computes a pre-image that is delivered to nobody. -/
def visit (H : Bytes → Bytes) (r : Record) (s : St) : St :=
  match r.m.kind with
  | .dir => ⟨⟨r.name, true⟩ :: s.frames, nodeOpen r :: s.accs, s.fin⟩
  | .file =>
    let (a', f') := deliver (H (nodeOpen r)) s.accs s.fin
    ⟨⟨r.name, false⟩ :: s.frames, a', f'⟩
  | _ => ⟨⟨r.name, false⟩ :: s.frames, s.accs, s.fin⟩

/-- `postVisit` of a frame that has just been popped. -/
def closeFrame (H : Bytes → Bytes) (f : Frame) (accs : List Bytes) (fin : Bytes) : List Bytes × Bytes :=
  if f.isDir then
    match accs with
    | a :: as => deliver (H (a ++ [cborBreak])) as fin
    | [] => ([], fin)     -- unreachable: every directory frame owns an accumulator
  else (accs, fin)

/-- frames whose `NextChild` answers nil for `next` are post-visited and popped. -/
def popWhile (H : Bytes → Bytes) (next : Bytes) : List Frame → List Bytes → Bytes → St
  | [], accs, fin => ⟨[], accs, fin⟩
  | f :: fs, accs, fin =>
    if hasPrefix next f.name then ⟨f :: fs, accs, fin⟩
    else
      let (accs', fin') := closeFrame H f accs fin
      popWhile H next fs accs' fin'

/-- end of the record list: every open frame is post-visited. -/
def closeAll (H : Bytes → Bytes) : List Frame → List Bytes → Bytes → Bytes
  | [], _, fin => fin
  | f :: fs, accs, fin =>
    let (accs', fin') := closeFrame H f accs fin
    closeAll H fs accs' fin'

/-- does `nextName[len(thisName) : len(nextName)-1]` contain a `/`? -/
def missingTree (next this : Bytes) : Bool :=
  ((next.drop this.length).dropLast).contains slash

/-- the walk over the sorted record list after the root has been visited.
    `prev` is the name of the last record walked (`lines[*i.that].Name`). -/
def scan (H : Bytes → Bytes) : List Record → Bytes → St → Except Panic Bytes
  | [], _, s => .ok (closeAll H s.frames s.accs s.fin)
  | r :: rs, prev, s =>
    let s' := popWhile H r.name s.frames s.accs s.fin
    match s'.frames with
    | [] => .error .countMismatch      -- the root was closed with records left: "visited k of n nodes"
    | top :: _ =>
      if prev = r.name then .error .repeatedPath
      else if top.name.length + 1 > r.name.length then .error .sliceBounds  -- `nextName[len(this):len(next)-1]` with lo > hi
      else if missingTree r.name top.name then .error .missingTree
      else scan H rs r.name (visit H r s')

/-- sort by bucket key (Go: `sort.Sort(memoryBucketByFilename)`). -/
def sortRecs (rs : List Record) : List Record := sortBy (·.name) rs

/-- number of distinct names = `len(b.records)` (the map), which is what `sort.Sort` is told to sort. -/
def distinctCount : List Bytes → Nat
  | [] => 0
  | n :: ns => if ns.contains n then distinctCount ns else distinctCount ns + 1

/-- `b.records[name]`: the record most recently added (or updated) under this name. -/
def latestRec (recs : List Record) (name : Bytes) : Option Record :=
  recs.reverse.find? (·.name = name)

/-- `Iterator()`'s view of the bucket: `sort.Sort` sorts only the first `len(records)` names
    (its `Len()` is the size of the *map*), so after a duplicate `AddRecord` the tail of the
    name list stays unsorted; `recordList()` then maps every name to the map's current record. -/
def bucketLines (recs : List Record) : List Record :=
  let k := distinctCount (recs.map (·.name))
  let ordered := sortRecs (recs.take k) ++ recs.drop k
  ordered.filterMap (fun r => latestRec recs r.name)

/-- `HashBucket(bucket, H)` on a bucket to which `recs` were added in this order. -/
def hashBucket (H : Bytes → Bytes) (recs : List Record) : Except Panic Bytes :=
  match bucketLines recs with
  | [] => .error .emptyBucket                       -- `i.lines[0]`: index out of range
  | r0 :: rs =>
    if r0.m.name ≠ ⟨[], 0⟩ then .error .missingRoot
    else
      match scan H rs r0.name (visit H r0 ⟨[], [], []⟩) with
      | .error p => .error p
      | .ok h =>
        -- `visitCount != bucket.Length()`: every line was visited, but the map may hold fewer records
        if rs.length + 1 ≠ distinctCount (recs.map (·.name)) then .error .countMismatch else .ok h

end Rio
