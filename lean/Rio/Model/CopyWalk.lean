import Rio.Model.Mtimes
/-
  M10b — `CopyPlacer`'s tree walk (`fs.Walk(srcFs, preVisit, postVisit)`) as the sequence of file-system steps it
  performs: `preVisit` places the node (`fsOp.PlaceFile`: a `create`), `postVisit` of a directory sets its times again
  (`dstFs.SetTimesNano(name, info.Mtime, …)`), after the whole subtree.  `now` gives every path the moment at which
  it is created — any function.
-/
namespace Rio

inductive MNode
  | file (name : Nat) (mtime : Nat)
  | dir (name : Nat) (mtime : Nat) (kids : List MNode)

def MNode.name : MNode → Nat
  | .file n _ => n
  | .dir n _ _ => n

def MNode.mtime : MNode → Nat
  | .file _ m => m
  | .dir _ m _ => m

mutual
  /-- the steps of walking node `n` found in directory `p` -/
  def walkOps (now : MPath → Nat) (post : Bool) : MNode → MPath → List MOp
    | .file n m, p => [.create (p ++ [n]) m (now (p ++ [n]))]
    | .dir n m ks, p =>
      .create (p ++ [n]) m (now (p ++ [n])) :: (walkKids now post ks (p ++ [n]) ++ (if post then [.settime (p ++ [n]) m] else []))
  def walkKids (now : MPath → Nat) (post : Bool) : List MNode → MPath → List MOp
    | [], _ => []
    | k :: ks, p => walkOps now post k p ++ walkKids now post ks p
end

mutual
  /-- every node of the tree with the path it is copied to and its source mtime -/
  def nodesOf : MNode → MPath → List (MPath × Nat)
    | .file n m, p => [(p ++ [n], m)]
    | .dir n m ks, p => (p ++ [n], m) :: kidsNodes ks (p ++ [n])
  def kidsNodes : List MNode → MPath → List (MPath × Nat)
    | [], _ => []
    | k :: ks, p => nodesOf k p ++ kidsNodes ks p
end

mutual
  /-- names are unique within each directory -/
  def MNode.wf : MNode → Prop
    | .file _ _ => True
    | .dir _ _ ks => kidsWf ks
  def kidsWf : List MNode → Prop
    | [] => True
    | k :: ks => k.wf ∧ (∀ k' ∈ ks, k'.name ≠ k.name) ∧ kidsWf ks
end

end Rio
