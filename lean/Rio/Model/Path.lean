import Rio.Basic
/-
  M1 — model of /repo/fs/path.go.

  `RelPath` / `AbsolutePath` carry the hidden `lastSplit` index exactly as in Go, because
  Go's `==` on these structs (used for map keys in unpack and in `PlaceFile`'s loop
  termination test) compares it.  `goClean` models the stdlib `path.Clean` (validated
  against the real function by the `path` correspondence stream).
-/
namespace Rio

structure RelPath where
  path : Bytes
  lastSplit : Int
deriving DecidableEq, Repr, Inhabited

structure AbsPath where
  path : Bytes
  lastSplit : Int
deriving DecidableEq, Repr, Inhabited

/-- One step of `path.Clean`'s component processing. `rooted` drops a leading `..`. -/
def cleanStep (rooted : Bool) (stack : List Bytes) (c : Bytes) : List Bytes :=
  if c = [] ∨ c = [dot] then stack
  else if c = [dot, dot] then
    match stack with
    | [] => if rooted then [] else [c]
    | top :: rest => if top = [dot, dot] then c :: stack else rest
  else c :: stack

/-- normalised component list (stack is kept reversed while folding). -/
def cleanComps (rooted : Bool) (cs : List Bytes) : List Bytes :=
  (cs.foldl (cleanStep rooted) []).reverse

/-- Go `path.Clean`. -/
def goClean (s : Bytes) : Bytes :=
  match s with
  | [] => [dot]
  | c :: _ =>
    let rooted := c = slash
    let body := joinWith slash (cleanComps rooted (splitOn slash s))
    if rooted then slash :: body
    else if body = [] then [dot] else body

/-- `fs.MustRelPath`; `none` = Go panic ("not a relative path"). -/
def mustRel (s : Bytes) : Option RelPath :=
  let p := goClean s
  if p.head? = some slash then none
  else if p = [dot] then some ⟨[], 0⟩
  else some ⟨p, lastIndexOf slash p⟩

/-- `fs.ParseAbsolutePath`; `none` = error return. -/
def parseAbs (s : Bytes) : Option AbsPath :=
  let p := goClean s
  if p.head? ≠ some slash then none
  else if p = [slash] then some ⟨[], 0⟩
  else some ⟨p, lastIndexOf slash p⟩

namespace RelPath

/-- `RelPath.String` -/
def str (p : RelPath) : Bytes :=
  if p.path = [] then [dot]
  else if p.path.length = 2 ∧ p.path.take 2 = [dot, dot] then p.path
  else if p.path.length > 2 ∧ p.path.take 3 = [dot, dot, slash] then p.path
  else dot :: slash :: p.path

/-- `RelPath.Dir` -/
def dir (p : RelPath) : RelPath :=
  if p.path = [] then p
  else if p.lastSplit = -1 then ⟨[], 0⟩
  else
    let p2 := p.path.take p.lastSplit.toNat
    ⟨p2, lastIndexOf slash p2⟩

/-- `RelPath.Last` -/
def last (p : RelPath) : Bytes :=
  if p.path = [] then [dot]
  else if p.lastSplit = -1 then p.path
  else p.path.drop (p.lastSplit + 1).toNat

/-- `RelPath.Join` -/
def join (p p2 : RelPath) : RelPath :=
  if p2.path = [] then p
  else if p.path = [] then p2
  else if p2.path.head? = some dot then
    let pj := goClean (p.path ++ slash :: p2.path)
    if pj = [dot] then ⟨[], 0⟩ else ⟨pj, lastIndexOf slash pj⟩
  else ⟨p.path ++ slash :: p2.path, (p.path.length : Int) + p2.lastSplit + 1⟩

/-- `RelPath.GoesUp` as fixed (`fix:` commit): the cleaned form is `..` or begins with `../`. -/
def goesUp (p : RelPath) : Bool :=
  p.path = [dot, dot] || hasPrefix p.path [dot, dot, slash]

/-- `RelPath.GoesUp` as it was before the fix (kept for the counterexample theorem). -/
def goesUpOld (p : RelPath) : Bool :=
  p.path.length ≥ 2 && p.path.take 2 = [dot, dot]

/-- iterate `dir` n times collecting (result is oldest-ancestor first, ends with `p`). -/
def dirChain : Nat → RelPath → List RelPath → List RelPath
  | 0, _, acc => acc
  | n + 1, p, acc => dirChain n p.dir (p.dir :: acc)

def countSlash (s : Bytes) : Nat := s.count slash

/-- `RelPath.Split` -/
def split (p : RelPath) : List RelPath :=
  if p.path = [] then [⟨[], 0⟩]
  else if p.lastSplit = -1 then [⟨[], 0⟩, p]
  else dirChain (countSlash p.path + 1) p [p]

/-- `RelPath.SplitParent` -/
def splitParent (p : RelPath) : List RelPath :=
  if p.path = [] then []
  else if p.lastSplit = -1 then [⟨[], 0⟩]
  else dirChain (countSlash p.path) p.dir [p.dir]

end RelPath

namespace AbsPath

def str (p : AbsPath) : Bytes := if p.path = [] then [slash] else p.path

def dir (p : AbsPath) : AbsPath :=
  if p.path = [] then p
  else if p.lastSplit = 0 then ⟨[], 0⟩
  else
    let p2 := p.path.take p.lastSplit.toNat
    ⟨p2, lastIndexOf slash p2⟩

def last (p : AbsPath) : Bytes :=
  if p.path = [] then [slash] else p.path.drop (p.lastSplit + 1).toNat

def join (p : AbsPath) (p2 : RelPath) : AbsPath :=
  if p2.path = [] then p
  else if p2.path.head? = some dot then
    let pj := goClean (p.path ++ slash :: p2.path)
    if pj = [slash] then ⟨[], 0⟩ else ⟨pj, lastIndexOf slash pj⟩
  else ⟨p.path ++ slash :: p2.path, (p.path.length : Int) + p2.lastSplit + 1⟩

/-- `CoerceRelative`; `MustRelPath("." + p.path)` never panics on a parsed absolute path. -/
def coerceRelative (p : AbsPath) : Option RelPath := mustRel (dot :: p.path)

end AbsPath

end Rio
