import Rio.Model.Warehouse
/-
  M9b — where the fileset cache keeps a ware: `cacheapi.ShelfFor` (/repo/cache/cache.go) builds the path
  "<type>/fileset/<chunk1>/<chunk2>/<hash>" by string formatting, and `cache.Unpack` (since `fix:` 4bfc970) refuses
  hashes that are not a single path segment before it does.
-/
namespace Rio


/-- `cache.Unpack`'s guard: the hash is one path segment -/
def hashIsOneSegment (h : Bytes) : Bool :=
  !h.contains slash && !h.contains 0 && h != [0x2e] && h != [0x2e, 0x2e]

/-- "fileset" -/
def filesetWord : Bytes := [102, 105, 108, 101, 115, 101, 116]

/-- `ShelfFor`, as the string it formats (before `MustRelPath` cleans it) -/
def shelfStr (ty h : Bytes) : Bytes :=
  let c := chunkifyHash h
  ty ++ [slash] ++ filesetWord ++ [slash] ++ c.1 ++ [slash] ++ c.2.1 ++ [slash] ++ h

end Rio
