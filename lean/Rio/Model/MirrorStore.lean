import Rio.Model.Fetch
/-
  M10b — `util.CreateMirror` over a target warehouse that has content.

  `Rio/Model/Fetch.lean` takes "the target already has an object at the address" as a boolean.  Here the target is a
  store: content-addressed (`ca+file://`: one address per wareID) or a single address (`file://`: the same address
  whatever the wareID).  A stored object is what a reader gets from it: the decoded header list, how the stream ends,
  and its first bytes (the model's view of a tar ware, as everywhere else).
-/
namespace Rio

structure Stored where
  hdrs : List TarHdr
  fin : StreamEnd
  head : Bytes
deriving DecidableEq, Repr

def losslessUF : UnpackFilter := ⟨true, ffKeep, ffKeep, ffKeep, ffKeep, ffKeep, ffKeep⟩

/-- the wareID a scan of the stored object gives (what `CreateMirror` and every later fetch recompute) -/
def scanId (H : Bytes → Bytes) (s : Stored) : Outcome Bytes :=
  match unpackTar H nilOps 0 0 losslessUF s.hdrs s.fin () s.head with
  | .ok (_, pre, _) => .ok pre
  | .err c => .err c
  | .panic w => .panic w

inductive TgtKind | ca | mono
deriving DecidableEq, Repr

structure Target where
  kind : TgtKind
  objs : Bytes → Option Stored     -- mono: only the entry at `[]` is used

/-- the address of a ware in the target -/
def Target.addr (t : Target) (id : Bytes) : Bytes :=
  match t.kind with
  | .ca => id
  | .mono => []

def Target.lookup (t : Target) (id : Bytes) : Option Stored := t.objs (t.addr id)

def Target.put (t : Target) (id : Bytes) (s : Stored) : Target :=
  { t with objs := fun a => if a = t.addr id then some s else t.objs a }

/-- what a mirror's answer and events do to the target: only a successful run that committed changes it -/
def applyMirror (t : Target) (req : Bytes) (src : Stored) (o : Outcome Unit) (ev : List MirrorEv) : Outcome Unit × Target :=
  match o with
  | .ok _ => if MirrorEv.commit ∈ ev then (.ok (), t.put req src) else (.ok (), t)
  | .err c => (.err c, t)
  | .panic w => (.panic w, t)

/-- the first probe of `CreateMirror`: is W already there?  At a content-addressed address an object is taken for W (the
    address is made from the hash; not re-verified, to be fast when run repeatedly).  At a single address (`file://`,
    `http://`) the object may be any ware: it is read through and counts only if it scans to W (since the `fix:`;
    before, any object counted — the known finding `mirror-noop-other-ware`). -/
def Target.holds (H : Bytes → Bytes) (t : Target) (req : Bytes) : Bool :=
  match t.lookup req with
  | none => false
  | some s => t.kind = .ca || decide (scanId H s = .ok req)

/-- `CreateMirror` against a target store; `src` is the object the picked source serves (`pick` says whether one
    was picked at all). Returns the answer and the target afterwards. -/
def mirrorStore (H : Bytes → Bytes) (req : Bytes) (t : Target) (writerOk : Bool) (pick : PickRes) (src : Stored)
    (commitOk : Bool) : Outcome Unit × Target :=
  applyMirror t req src (mirror H req (t.holds H req) writerOk pick src.hdrs src.fin src.head commitOk).1
    (mirror H req (t.holds H req) writerOk pick src.hdrs src.fin src.head commitOk).2

/-- what a fetch of `id` from the target alone finds: `wrapUnpacker`'s comparison -/
def fetchAlone (H : Bytes → Bytes) (t : Target) (id : Bytes) : Outcome Unit :=
  match t.lookup id with
  | none => .err .wareNotFound
  | some s =>
    match scanId H s with
    | .ok pre => if pre ≠ id then .err .hashMismatch else .ok ()
    | .err c => .err c
    | .panic w => .panic w

end Rio
