import Rio.Model.Filters
import Rio.Model.Hash
/-
  M4/M7 for tar — header conversion (/repo/transmat/tar/tar_format.go), the unpack loop
  (tar_unpack.go) and the pack walk (tar_pack.go) at the level of header lists: the models start
  at what `archive/tar`'s reader returns and end at what is handed to its writer.

  The filesystem the unpacker writes to is a parameter (`FsOps`): the scan/mirror paths use
  nilfs (every operation succeeds), the real paths use the host-filesystem model.
-/
namespace Rio

structure TarHdr where
  name : Bytes
  typeflag : UInt8
  mode : Int
  uid : Int
  gid : Int
  size : Int
  linkname : Bytes
  devmajor : Int
  devminor : Int
  mtime : Time
  xattrs : List (Bytes × Bytes)
  chash : Bytes      -- hash of the body as read from the stream
  bodyOk : Bool      -- the body could be read completely
deriving DecidableEq, Repr, Inhabited

inductive TarTypeRes | kind (k : Kind) | skip | invalid
deriving DecidableEq, Repr

/-- `tarTypeToFsType` -/
def tarTypeToFsType (t : UInt8) : TarTypeRes :=
  if t = 0x30 ∨ t = 0 ∨ t = 0x53 ∨ t = 0x37 then .kind .file   -- '0', '\x00', 'S' (old-GNU sparse: `fix:` f99687e), '7' (contiguous)
  else if t = 0x31 then .kind .hardlink          -- '1'
  else if t = 0x32 then .kind .symlink           -- '2'
  else if t = 0x33 then .kind .chardev           -- '3'
  else if t = 0x34 then .kind .device            -- '4'
  else if t = 0x35 ∨ t = 0x44 then .kind .dir    -- '5', 'D' (GNU incremental dumpdir)
  else if t = 0x36 then .kind .fifo              -- '6'
  else if t = 0x67 ∨ t = 0x56 then .skip         -- 'g', 'V' (GNU volume label)
  else .invalid

/-- `fsTypeToTarType`; `none` = panic (sockets, invalid). -/
def fsTypeToTarType : Kind → Option UInt8
  | .file => some 0x30 | .hardlink => some 0x31 | .symlink => some 0x32 | .chardev => some 0x33
  | .device => some 0x34 | .dir => some 0x35 | .fifo => some 0x36 | .socket => none | .invalid => none

inductive HdrRes | meta_ (m : Meta) | skip | halt (c : Cat) | panic
deriving Repr

/-- `TarHdrToMetadata` -/
def tarHdrToMeta (h : TarHdr) : HdrRes :=
  -- records that are no entries (pax global header, GNU volume label) are skipped before their name is looked at:
  -- GNU tar names its global header `/tmp/GlobalHead.%p.%n` (until the `fix:` the name check came first and such
  -- archives were refused as corrupt)
  match tarTypeToFsType h.typeflag with
  | .skip => .skip
  | .invalid => (match mustRel h.name with | none => .halt .wareCorrupt | some _ => .halt .wareCorrupt)
  | .kind k =>
    match mustRel h.name with
    | none => .halt .wareCorrupt                       -- absolute name: refused (was a `MustRelPath` panic before the fix)
    | some name =>
      .meta_ { name := name, kind := k, perms := (h.mode % 4096).toNat, uid := toU32 h.uid, gid := toU32 h.gid,
               size := h.size, linkname := h.linkname, devmajor := h.devmajor, devminor := h.devminor,
               mtime := h.mtime, xattrs := h.xattrs }

/-- `MetadataToTarHdr`; `none` = panic in `fsTypeToTarType`. -/
def metaToTarHdr (m : Meta) (chash : Bytes) : Option TarHdr :=
  (fsTypeToTarType m.kind).map fun tf =>
    { name := if m.kind = .dir then m.name.str ++ [slash] else m.name.str, typeflag := tf, mode := m.perms,
      uid := m.uid, gid := m.gid, size := m.size, linkname := m.linkname, devmajor := m.devmajor,
      devminor := m.devminor, mtime := m.mtime, xattrs := m.xattrs, chash := chash, bodyOk := true }

/-! ### the bucket API used by unpack -/

abbrev Bucket := List Record      -- in `AddRecord` order; see `bucketLines` for how `Iterator()` reads it

def Bucket.add (b : Bucket) (m : Meta) (ch : Bytes) : Bucket := b ++ [mkRecord m ch]
def Bucket.has (b : Bucket) (m : Meta) : Bool := b.any (·.name = recordName m)
/-- `UpdateRecord`: replaces the map entry; the name list is unchanged. -/
def Bucket.update (b : Bucket) (m : Meta) (ch : Bytes) : Bucket :=
  b.map (fun r => if r.name = recordName m then mkRecord m ch else r)

/-! ### filesystem operations as a parameter -/

/-- what `fsOp.PlaceFile` / `SetTimesNano` do to the target, abstractly. `place` returns the error
    category `PlaceFile` returned, if any. -/
structure FsOps (σ : Type) where
  place : σ → Meta → (content : Bytes) → (bodyOk : Bool) → σ × Option Cat
  setTimes : σ → RelPath → Time → σ × Option Cat

/-- nilfs + `PlaceFile`: every operation succeeds; sockets and hardlinks are refused by `PlaceFile`
    itself with a plain error; a short body surfaces from `io.Copy`. -/
def nilOps : FsOps Unit where
  place := fun _ m _ bodyOk =>
    match m.kind with
    | .socket | .hardlink => ((), some .uncategorized)
    | .file => if bodyOk then ((), none) else ((), some (.fs .unexpectedEOF))
    | _ => ((), none)
  setTimes := fun _ _ _ => ((), none)

structure UnpackSt (σ : Type) where
  fs : σ
  pre : Bucket
  post : Bucket
  dirs : List RelPath

/-- the uid / gid rules of `ApplyUnpackFilter` alone (what has been applied when `mtime=now` makes it return early) -/
def applyUidGid (myUid myGid : Nat) (ff : UnpackFilter) (m : Meta) : Meta :=
  let m := if ff.uid = ffContext then { m with uid := myUid } else if ff.uid ≠ ffKeep then { m with uid := toU32 ff.uid } else m
  if ff.gid = ffContext then { m with gid := myGid } else if ff.gid ≠ ffKeep then { m with gid := toU32 ff.gid } else m

/-- `filters.ApplyUnpackFilter(filt, &conjuredFmeta)` with its error dropped: the struct as far as it was mutated -/
def conjFiltered (myUid myGid : Nat) (ff : UnpackFilter) (conj : Meta) : Meta :=
  match applyUnpackFilter myUid myGid ff conj with
  | .ok c => c
  | _ => applyUidGid myUid myGid ff conj

/-- conjure the implicit parents of `name` that are not yet known -/
def conjureParents {σ : Type} (ops : FsOps σ) (myUid myGid : Nat) (filt : UnpackFilter) :
    List RelPath → UnpackSt σ → Outcome (UnpackSt σ)
  | [], st => .ok st
  | p :: ps, st =>
    if st.dirs.contains p then conjureParents ops myUid myGid filt ps st
    else if st.pre.has { defaultDirMeta p with kind := .file } then .err .wareCorrupt   -- a child of something that is no directory
    else
      let conj := defaultDirMeta p
      let pre := st.pre.add conj []
      -- `filters.ApplyUnpackFilter(filt, &conjuredFmeta)` with its error dropped: the struct is used as far as it
      -- was mutated before the failing rule.  A default dir (0755, no setid bits, not a device) is never rejected,
      -- so the only error is `mtime=now` (usage), raised after uid and gid were applied; the entry's own filter
      -- application then fails with the same error.
      let conj' := conjFiltered myUid myGid filt conj
      let post := st.post.add conj' []
      let (fs', e) := ops.place st.fs conj' [] true
      match e with
      | some _ => .err .inoperablePath
      | none => conjureParents ops myUid myGid filt ps { fs := fs', pre := pre, post := post, dirs := p :: st.dirs }

/-- the same name with the other record key: a directory's twin is "the name as a non-directory" and vice versa
    (`MemoryBucket` keys directories as `name/` and everything else as `name`) -/
def twinOf (m : Meta) : Meta := { m with kind := if m.kind = .dir then .file else .dir }

/-- one iteration of the entry loop of `unpackTar` -/
def unpackEntry {σ : Type} (ops : FsOps σ) (myUid myGid : Nat) (filt : UnpackFilter) (h : TarHdr)
    (st : UnpackSt σ) : Outcome (UnpackSt σ) :=
  match tarHdrToMeta h with
  | .panic => .panic "MustRelPath: not a relative path"
  | .skip => .ok st
  | .halt c => .err c
  | .meta_ fmeta =>
    if hasPrefix fmeta.name.str [dot, dot] then .err .wareCorrupt else
    if fmeta.kind ≠ .dir ∧ st.pre.has fmeta then .err .wareCorrupt else      -- repeated entry
    if st.pre.has (twinOf fmeta) then .err .wareCorrupt else                  -- a directory and something else under one name
    match conjureParents ops myUid myGid filt fmeta.name.splitParent st with
    | .panic w => .panic w
    | .err c => .err c
    | .ok st =>
      match applyUnpackFilter myUid myGid filt fmeta with
      | .panic w => .panic w
      | .err c => .err c
      | .ok filtered =>
        if filtered.kind = .invalid then .ok { st with pre := st.pre.add fmeta [] }
        else if fmeta.kind = .file then
          let (fs', e) := ops.place st.fs filtered h.chash h.bodyOk
          match e with
          | some _ => .err .inoperablePath
          | none => .ok { st with fs := fs', pre := st.pre.add fmeta h.chash, post := st.post.add filtered h.chash }
        else
          let dirs := if fmeta.kind = .dir then fmeta.name :: st.dirs else st.dirs
          let (fs', e) := ops.place st.fs filtered [] true
          match e with
          | some _ => .err .inoperablePath
          | none =>
            if st.pre.has fmeta && fmeta.kind = .dir then
              .ok { fs := fs', pre := st.pre.update fmeta [], post := st.post.update filtered [], dirs := dirs }
            else
              .ok { fs := fs', pre := st.pre.add fmeta [], post := st.post.add filtered [], dirs := dirs }

def unpackEntries {σ : Type} (ops : FsOps σ) (myUid myGid : Nat) (filt : UnpackFilter) :
    List TarHdr → UnpackSt σ → Outcome (UnpackSt σ)
  | [], st => .ok st
  | h :: hs, st =>
    match unpackEntry ops myUid myGid filt h st with
    | .ok st' => unpackEntries ops myUid myGid filt hs st'
    | .err c => .err c
    | .panic w => .panic w

/-- `ErrInvalidFilesystem` panics of the bucket are recovered by the unpackers and reported as a
    corrupt ware; the other invariant panics (plain errors, runtime errors) still crash. -/
def Panic.isInvalidFilesystem : Panic → Bool
  | .missingRoot | .repeatedPath | .missingTree => true
  | _ => false

def panicMsg : Panic → String
  | .emptyBucket => "index out of range" | .missingRoot => "missing root" | .repeatedPath => "repeated path"
  | .missingTree => "missing tree" | .countMismatch => "visited k of n nodes" | .sliceBounds => "slice bounds out of range"

/-- directories of the filtered bucket in the order the post-order walk reaches them: since the
    lines are sorted and a directory's descendants follow it contiguously, post-order over
    directories is "deepest-last-first"; for `SetTimes` only the *set* of (dir, mtime) matters
    because setting a directory's times does not disturb any other directory.  We use reverse
    line order, which is a valid post-order. -/
def repaveDirs (lines : List Record) : List (RelPath × Time) :=
  (lines.filter (·.m.kind = .dir)).reverse.map (fun r => (r.m.name, r.m.mtime))

def applySetTimes {σ : Type} (ops : FsOps σ) : List (RelPath × Time) → σ → σ × Option Cat
  | [], s => (s, none)
  | (p, t) :: rest, s =>
    match ops.setTimes s p t with
    | (s', none) => applySetTimes ops rest s'
    | (s', some c) => (s', some c)

/-! ### compression detection (/repo/transmat/tar/compression.go) -/

inductive Compression | uncompressed | bzip2 | gzip | xz
deriving DecidableEq, Repr

def magicBzip2 : Bytes := [0x42, 0x5A, 0x68]
def magicGzip : Bytes := [0x1F, 0x8B, 0x08]
def magicXz : Bytes := [0xFD, 0x37, 0x7A, 0x58, 0x5A, 0x00]

/-- `DetectCompression`: Go ranges over a *map* of the three patterns, i.e. in an unspecified order;
    `order` is that order. `C05_detect` shows the result does not depend on it. -/
def detectCompressionIn (order : List (Compression × Bytes)) (src : Bytes) : Compression :=
  match order.find? (fun cm => hasPrefix src cm.2) with
  | some cm => cm.1
  | none => .uncompressed

def magicTable : List (Compression × Bytes) := [(.bzip2, magicBzip2), (.gzip, magicGzip), (.xz, magicXz)]
def detectCompression (src : Bytes) : Compression := detectCompressionIn magicTable src

/-- the value of an octal digit string (`strconv.ParseInt(field, 8, 64)`); `none` for anything else -/
def octalVal? (bs : Bytes) : Option Nat :=
  match bs with
  | [] => none
  | _ => bs.foldl (fun (acc : Option Nat) (b : UInt8) => match acc with
      | none => none
      | some v => if 0x30 ≤ b.toNat ∧ b.toNat ≤ 0x37 then some (v * 8 + (b.toNat - 0x30)) else none) (some 0)

def trimSpaceNul (bs : Bytes) : Bytes :=
  let isPad (b : UInt8) : Bool := b == 0x20 || b == 0
  ((bs.dropWhile isPad).reverse.dropWhile isPad).reverse

def byteSum (bs : Bytes) : Nat := bs.foldl (fun (a : Nat) (x : UInt8) => a + x.toNat) 0

/-- `isTarHeader` (since `fix:` 381ce6b): the first 512 bytes carry a valid tar header checksum — the checksum field
    (offset 148, eight bytes) counted as spaces; the unsigned sum (the signed variant of historical tars is not modelled:
    it differs only for blocks holding bytes ≥ 0x80) -/
def isTarHeader (block : Bytes) : Bool :=
  if block.length < 512 then false else
  match octalVal? (trimSpaceNul ((block.drop 148).take 8)) with
  | none => false
  | some want =>
    let b := block.take 512
    want == byteSum (b.take 148) + 8 * 32 + byteSum (b.drop 156)

/-- `Decompress`'s decision: the magic numbers are a hint; a first block that is a tar header is a tar header -/
def decompressKind (block : Bytes) : Compression :=
  let c := detectCompression (block.take 10)
  if c ≠ .uncompressed ∧ isTarHeader block then .uncompressed else c

/-- how the archive stream ended -/
inductive StreamEnd | eof | corrupt
deriving DecidableEq, Repr

/-- `unpackTar` after decompression: `(prefilterHash, filteredHash)` as raw hash bytes. -/
def unpackTar {σ : Type} (H : Bytes → Bytes) (ops : FsOps σ) (myUid myGid : Nat) (filt : UnpackFilter)
    (hdrs : List TarHdr) (fin : StreamEnd) (s0 : σ) (head : Bytes := List.replicate 10 0) : Outcome (σ × Bytes × Bytes) :=
  -- `Decompress`: `Peek(10)` fails on a stream shorter than ten bytes
  if head.length < 10 then .err .wareCorrupt else
  match unpackEntries ops myUid myGid filt hdrs ⟨s0, [], [], []⟩ with
  | .panic w => .panic w
  | .err c => .err c
  | .ok st =>
    if fin = .corrupt then .err .wareCorrupt else
    if st.pre = [] then .err .wareCorrupt else             -- no entries at all
    if st.post = [] then .err .filterRejection else        -- the filters ejected every entry, the root included (`fix:` 4f5272d)
    let bucketPanic (p : Panic) : Outcome (σ × Bytes × Bytes) :=
      if p.isInvalidFilesystem then .err .wareCorrupt else .panic (panicMsg p)
    -- re-pave directory times: the walk over the filtered bucket raises the bucket's own panics
    match hashBucket (fun _ => []) st.post with
    | .error p => bucketPanic p
    | .ok _ =>
      match applySetTimes ops (repaveDirs (bucketLines st.post)) st.fs with
      | (_, some _) => .err .inoperablePath
      | (fs', none) =>
        match hashBucket H st.pre, hashBucket H st.post with
        | .error p, _ => bucketPanic p
        | _, .error p => bucketPanic p
        | .ok a, .ok b =>
          if !filt.altering && a ≠ b then .panic "prefilterHash != filteredHash"
          else .ok (fs', a, b)

end Rio
