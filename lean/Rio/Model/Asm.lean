import Rio.Model.Errors
import Rio.Basic
/-
  M10 — `stitch.Assembler.Run` and `housekeeping.Teardown` (/repo/stitch/treeUnpack.go) at the level of
  which steps are attempted in which order.  Every step's outcome is an input (a fault plan): unpack i,
  parent-directory creation i, placement i, and the teardown of each janitor may fail.
-/
namespace Rio

structure Janitor where
  id : Nat
  alwaysTry : Bool
deriving DecidableEq, Repr, Inhabited

inductive TdEv | attempt (id : Nat) | skip (id : Nat)
deriving DecidableEq, Repr

/-- `housekeeping.Teardown` walking newest first; `fails id` = the injected outcome of janitor `id`. -/
def teardownFrom (fails : Nat → Bool) : List Janitor → (firstErr : Option Nat) → List TdEv × Option Nat
  | [], fe => ([], fe)
  | j :: js, fe =>
    if fe.isSome && !j.alwaysTry then
      let (evs, r) := teardownFrom fails js fe
      (TdEv.skip j.id :: evs, r)
    else
      let fe' := if fails j.id then (fe <|> some j.id) else fe
      let (evs, r) := teardownFrom fails js fe'
      (TdEv.attempt j.id :: evs, r)

/-- the cleanup stack is kept oldest-first as in Go; `Teardown` iterates from the end. -/
def teardown (fails : Nat → Bool) (stack : List Janitor) : List TdEv × Option Nat :=
  teardownFrom fails stack.reverse none

/-- one input of an assembly, in sorted order, with the outcome of each of its steps -/
structure Part where
  id : Nat
  alwaysTry : Bool          -- of the janitor its placer returns
  unpackFails : Bool
  parentFails : Bool
  placeFails : Bool
deriving DecidableEq, Repr, Inhabited

inductive AsmEv | parents (id : Nat) | place (id : Nat) | td (e : TdEv)
deriving DecidableEq, Repr

inductive AsmRes | ok | failed (step : String) (id : Nat)
deriving DecidableEq, Repr

/-- the placement loop of `Run` over the remaining parts, with the janitors collected so far -/
def placeLoop (tdFails : Nat → Bool) : List Part → (stack : List Janitor) → List AsmEv × AsmRes × List Janitor
  | [], stack => ([], .ok, stack)
  | p :: ps, stack =>
    if p.parentFails then
      -- since the `fix:`: earlier placements are torn down before the error is returned
      (.parents p.id :: (teardown tdFails stack).1.map .td, .failed "parents" p.id, stack)
    else if p.placeFails then
      (.parents p.id :: .place p.id :: (teardown tdFails stack).1.map .td, .failed "place" p.id, stack)
    else
      let (evs, r, st) := placeLoop tdFails ps (stack ++ [⟨p.id, p.alwaysTry⟩])
      (.parents p.id :: .place p.id :: evs, r, st)

/-- `Run`: all unpacks first (in parallel); any unpack error aborts before anything is placed. -/
def asmRun (tdFails : Nat → Bool) (parts : List Part) : List AsmEv × AsmRes × List Janitor :=
  match parts.find? (·.unpackFails) with
  | some p => ([], .failed "unpack" p.id, [])
  | none => placeLoop tdFails parts []

/-- `Run` as it is since the `fix:` of round 14: filler-directory properties that do not describe a directory are refused
    before anything is unpacked or placed (`fillerIsDir` = `fillerDirProps.Type == fs.Type_Dir`). -/
def asmRunChecked (fillerIsDir : Bool) (tdFails : Nat → Bool) (parts : List Part) : List AsmEv × AsmRes × List Janitor :=
  if fillerIsDir then asmRun tdFails parts else ([], .failed "filler" 0, [])

end Rio
