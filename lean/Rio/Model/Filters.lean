import Rio.Model.Meta
import Rio.Model.Errors
/-
  M3 — filters: api.FilesetPackFilter / FilesetUnpackFilter (go-timeless-api/filesetFilters.go)
  and filters.ApplyPackFilter / ApplyUnpackFilter (/repo/transmat/mixins/filters/applyFilters.go).
  Field values are Go ints with the magic constants below.
-/
namespace Rio

def ffUnspecified : Int := -1
def ffKeep : Int := -2      -- also `ff_follow`
def ffIgnore : Int := -3
def ffReject : Int := -4
def ffContext : Int := -5   -- "mine" / "now"

structure PackFilter where
  initialized : Bool
  uid : Int
  gid : Int
  mtime : Int
  sticky : Int
  setid : Int
  dev : Int
deriving DecidableEq, Repr, Inhabited

structure UnpackFilter where
  initialized : Bool
  uid : Int
  gid : Int
  mtime : Int
  sticky : Int
  setid : Int
  dev : Int
deriving DecidableEq, Repr, Inhabited

def PackFilter.isComplete (ff : PackFilter) : Bool :=
  ff.initialized && ff.uid != ffUnspecified && ff.gid != ffUnspecified && ff.mtime != ffUnspecified &&
  ff.sticky != ffUnspecified && ff.setid != ffUnspecified && ff.dev != ffUnspecified

def UnpackFilter.isComplete (ff : UnpackFilter) : Bool :=
  ff.initialized && ff.uid != ffUnspecified && ff.gid != ffUnspecified && ff.mtime != ffUnspecified &&
  ff.sticky != ffUnspecified && ff.setid != ffUnspecified && ff.dev != ffUnspecified

def ffPick (a b : Int) : Int := if a = ffUnspecified then b else a

/-- `ff.Apply(ff2)`: every specified field of `ff` wins, the rest comes from `ff2`. -/
def PackFilter.apply (ff ff2 : PackFilter) : PackFilter :=
  if ff.initialized = false then ff2
  else if ff2.initialized = false then ff
  else { initialized := true, uid := ffPick ff.uid ff2.uid, gid := ffPick ff.gid ff2.gid, mtime := ffPick ff.mtime ff2.mtime,
         sticky := ffPick ff.sticky ff2.sticky, setid := ffPick ff.setid ff2.setid, dev := ffPick ff.dev ff2.dev }

def UnpackFilter.apply (ff ff2 : UnpackFilter) : UnpackFilter :=
  if ff.initialized = false then ff2
  else if ff2.initialized = false then ff
  else { initialized := true, uid := ffPick ff.uid ff2.uid, gid := ffPick ff.gid ff2.gid, mtime := ffPick ff.mtime ff2.mtime,
         sticky := ffPick ff.sticky ff2.sticky, setid := ffPick ff.setid ff2.setid, dev := ffPick ff.dev ff2.dev }

def UnpackFilter.altering (ff : UnpackFilter) : Bool :=
  ff.uid != ffKeep || ff.gid != ffKeep || ff.mtime != ffKeep || ff.sticky != ffKeep ||
  (ff.setid != ffKeep && ff.setid != ffReject) || (ff.dev != ffKeep && ff.dev != ffReject)

/-- Go `uint32(int)` conversion -/
def toU32 (v : Int) : Nat := (v % 4294967296).toNat

def clearBits (perms mask : Nat) : Nat := perms &&& (0xffff ^^^ mask)   -- `perms &= ^mask` on uint16

def isDevKind (k : Kind) : Bool := k = .device || k = .chardev

/-- `filters.ApplyPackFilter` (after the `fix:` that restricts `dev=ignore` to device nodes). -/
def applyPackFilter (ff : PackFilter) (m : Meta) : Except Cat Meta :=
  let m := if ff.uid ≠ ffKeep then { m with uid := toU32 ff.uid } else m
  let m := if ff.gid ≠ ffKeep then { m with gid := toU32 ff.gid } else m
  let m := if ff.mtime ≠ ffKeep then { m with mtime := ⟨ff.mtime, 0⟩ } else m
  let m := if ff.sticky ≠ ffKeep then { m with perms := clearBits m.perms permSticky } else m
  if ff.setid = ffReject ∧ m.perms &&& (permSetuid ||| permSetgid) ≠ 0 then .error .filterRejection else
  let m := if ff.setid ≠ ffReject ∧ ff.setid ≠ ffKeep then { m with perms := clearBits m.perms (permSetuid ||| permSetgid) } else m
  if ff.dev = ffReject ∧ isDevKind m.kind then .error .filterRejection else
  let m := if ff.dev ≠ ffReject ∧ ff.dev ≠ ffKeep ∧ isDevKind m.kind then { m with kind := .invalid } else m
  .ok m

/-- `filters.ApplyUnpackFilter`; `myUid`/`myGid` are the process ids; `mtime=now` panics. -/
def applyUnpackFilter (myUid myGid : Nat) (ff : UnpackFilter) (m : Meta) : Outcome Meta :=
  let m := if ff.uid = ffContext then { m with uid := myUid } else if ff.uid ≠ ffKeep then { m with uid := toU32 ff.uid } else m
  let m := if ff.gid = ffContext then { m with gid := myGid } else if ff.gid ≠ ffKeep then { m with gid := toU32 ff.gid } else m
  if ff.mtime = ffContext then .err .usage else      -- "mtime=now not yet supported" (a panic before the fix)
  let m := if ff.mtime ≠ ffKeep then { m with mtime := ⟨ff.mtime, 0⟩ } else m
  let m := if ff.sticky ≠ ffKeep then { m with perms := clearBits m.perms permSticky } else m
  -- (a symlink has no mode of its own: bits a header claims for one are never materialised, so they offend nothing)
  if ff.setid = ffReject ∧ m.kind ≠ .symlink ∧ m.perms &&& (permSetuid ||| permSetgid) ≠ 0 then .err .filterRejection else
  let m := if ff.setid ≠ ffReject ∧ ff.setid ≠ ffKeep then { m with perms := clearBits m.perms (permSetuid ||| permSetgid) } else m
  if ff.dev = ffReject ∧ isDevKind m.kind then .err .filterRejection else
  let m := if ff.dev ≠ ffReject ∧ ff.dev ≠ ffKeep ∧ isDevKind m.kind then { m with kind := .invalid } else m
  .ok m

end Rio
