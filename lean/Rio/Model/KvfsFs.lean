import Rio.Model.Kvfs
/-
  M8b — the kvfs write path over a *shared* staging namespace.

  `Rio/Model/Kvfs.lean` gives every writer a staging file of its own: that is the consequence of
  "staging names are fresh", not something the code gets for free.  This model drops the assumption.  The
  warehouse directory is a little file system:

    * `files`   : inode -> content (cells; a cell that was skipped over by a write at an offset past the end
                  is a hole, `none`),
    * `staging` : staging name -> inode   (the `.tmp.upload.<…>` directory entries),
    * `finals`  : final address -> inode  (`rename(2)` moves the *inode the name points at*),

  and every writer carries the staging **name** it computed in `OpenWriter`, the inode its descriptor is open
  on, and its own file offset.  `excl = true` is `O_CREATE|O_WRONLY|O_EXCL` (the code); `excl = false` is
  `O_CREATE|O_WRONLY|O_TRUNC`, a variant in which a second writer with the same name shares and truncates the
  first one's inode.  The deferred `wc.Close()` removes whatever is called by the writer's staging name *now*.

  One step = one instrumented step of kvfs.go (OpenWriter / Write / Commit: Close, Mkdir, Rename / Close).
-/
namespace Rio

abbrev Cell := Option Chunk

structure FWriter where
  key : WareId                 -- final address the ware will be committed to
  name : Nat                   -- staging file name (".tmp.upload." ++ guid), as a number
  chunks : List Chunk          -- the complete stream
  pc : WPC
  ino : Nat                    -- the inode the descriptor is open on (meaningful once opened)
  off : Nat                    -- file offset of the descriptor, in cells
deriving Inhabited

structure FsState where
  nextIno : Nat
  files : Nat → List Cell
  staging : Nat → Option Nat
  finals : WareId → Option Nat
  writers : List FWriter

def upd {α β : Type} [DecidableEq α] (f : α → β) (a : α) (b : β) : α → β := fun x => if x = a then b else f x

@[simp] theorem upd_same {α β : Type} [DecidableEq α] (f : α → β) (a : α) (b : β) : upd f a b a = b := by
  simp [upd]

theorem upd_other {α β : Type} [DecidableEq α] (f : α → β) (a x : α) (b : β) (h : x ≠ a) : upd f a b x = f x := by
  simp [upd, h]

/-- a write of one cell at offset `off` (past the end: the gap reads as holes) -/
def writeAt (l : List Cell) (off : Nat) (c : Chunk) : List Cell :=
  if off < l.length then l.set off (some c) else l ++ List.replicate (off - l.length) none ++ [some c]

def setFW (s : FsState) (i : Nat) (w : FWriter) : FsState := { s with writers := s.writers.set i w }

def firstPc (w : FWriter) : WPC := if w.chunks.length = 0 then .closing else .writing 0
def afterChunkF (w : FWriter) (k : Nat) : WPC := if k + 1 < w.chunks.length then .writing (k + 1) else .closing

/-- one step of writer `i`; `f` is the (demonically chosen) outcome of the system call of that step -/
def fstep (excl : Bool) (s : FsState) (i : Nat) (f : Fault) : FsState :=
  match s.writers[i]? with
  | none => s
  | some w =>
    match w.pc with
    | .done _ => s
    | .opening =>
      if f = .fail then setFW s i { w with pc := .done (some .whUnwritable) }
      else
        match s.staging w.name with
        | some j =>
          if excl then setFW s i { w with pc := .done (some .whUnwritable) }     -- EEXIST; nothing to clean up
          else setFW { s with files := upd s.files j [] } i { w with pc := firstPc w, ino := j, off := 0 }  -- O_TRUNC
        | none =>
          setFW { s with nextIno := s.nextIno + 1, files := upd s.files s.nextIno [],
                         staging := upd s.staging w.name (some s.nextIno) } i
            { w with pc := firstPc w, ino := s.nextIno, off := 0 }
    | .writing k =>
      match w.chunks[k]? with
      | none => setFW s i { w with pc := .closing }
      | some c =>
        if f = .fail then setFW s i { w with pc := .cleanup (some .whUnwritable) }
        else setFW { s with files := upd s.files w.ino (writeAt (s.files w.ino) w.off c) } i
               { w with pc := afterChunkF w k, off := w.off + 1 }
    | .closing =>
      if f = .fail then setFW s i { w with pc := .cleanup (some .whUnwritable) }
      else setFW s i { w with pc := .mkdirs }
    | .mkdirs =>
      if f = .fail then setFW s i { w with pc := .cleanup (some .whUnwritable) }
      else setFW s i { w with pc := .moving }
    | .moving =>
      if f = .fail then setFW s i { w with pc := .cleanup (some .whUnwritable) }
      else
        match s.staging w.name with
        | none => setFW s i { w with pc := .cleanup (some .whUnwritable) }        -- ENOENT
        | some j =>
          setFW { s with finals := upd s.finals w.key (some j), staging := upd s.staging w.name none } i
            { w with pc := .cleanup none }
    | .cleanup r =>
      -- deferred wc.Close(): close, then remove whatever bears the staging name now
      setFW { s with staging := upd s.staging w.name none } i { w with pc := .done r }

def frun (excl : Bool) (s : FsState) (sched : List (Nat × Fault)) : FsState :=
  sched.foldl (fun s x => fstep excl s x.1 x.2) s

def mkFWriter (key : WareId) (name : Nat) (chunks : List Chunk) : FWriter :=
  { key := key, name := name, chunks := chunks, pc := .opening, ino := 0, off := 0 }

/-- an empty warehouse with the given writers about to start -/
def fsInit (ws : List FWriter) : FsState :=
  { nextIno := 0, files := fun _ => [], staging := fun _ => none, finals := fun _ => none, writers := ws }

/-- what a reader finds at a final address -/
def readFinal (s : FsState) (k : WareId) : Option (List Cell) := (s.finals k).map s.files

end Rio
