import Rio.Model.Cache
/-
  M8 (write side) — the kvfs write path (/repo/warehouse/impl/kvfs/kvfs.go: OpenWriter, Write, Commit,
  Close) as driven by `tartrans.Pack` / `ziptrans.Pack` / `util.CreateMirror`, with a fault plan.

  A writer's stream is a list of chunks; the chunks produced by the final `Close()` calls of the
  tar / gzip / zip layers are *flush* chunks.  Whether an error of a flush chunk is looked at is the
  parameter `checkFlush` (true since the `fix:`; the T-fact table `tarPackCloses` is tied to it).
  One model step = one instrumented step of the real code; a crash = the writer is never stepped again.
-/
namespace Rio

inductive Fault | ok | fail
deriving DecidableEq, Repr, Inhabited

inductive Chunk | body (n : Nat) | flush (n : Nat)     -- n = an opaque chunk id
deriving DecidableEq, Repr, Inhabited

inductive WPC
  | opening
  | writing (k : Nat)          -- next chunk index
  | closing                    -- Commit: stream.Close
  | mkdirs
  | moving                     -- Commit: rename(staging, final)
  | cleanup (r : Option Cat)   -- deferred `wc.Close()`: close + remove staging
  | done (r : Option Cat)
deriving DecidableEq, Repr, Inhabited

structure Writer where
  key : WareId                 -- final address the ware will be committed to
  chunks : List Chunk          -- the complete stream
  checkFlush : Bool
  pc : WPC
  staged : Option (List Chunk) -- the staging file, if it exists
  intact : Bool                -- every write so far reported success *and was believed*
deriving Repr, Inhabited

structure WhState where
  finals : List (WareId × List Chunk)   -- final address -> bytes it holds
  complete : List (WareId × List Chunk) -- oracle: what the complete ware of each id is
  writers : List Writer
deriving Repr, Inhabited

def setWriter (s : WhState) (i : Nat) (w : Writer) : WhState := { s with writers := s.writers.set i w }

/-- replace-or-insert at a final address (`rename(2)` replaces atomically) -/
def putFinal (fin : List (WareId × List Chunk)) (k : WareId) (v : List Chunk) : List (WareId × List Chunk) :=
  (k, v) :: fin.filter (·.1 ≠ k)

/-- after chunk `k` has been dealt with: the next chunk, or `Commit` -/
def afterChunk (w : Writer) (k : Nat) : WPC := if k + 1 < w.chunks.length then .writing (k + 1) else .closing

/-- one step of writer `i`; `f` is the (demonically chosen) outcome of the system call(s) of that step -/
def wstep (s : WhState) (i : Nat) (f : Fault) : WhState :=
  match s.writers[i]? with
  | none => s
  | some w =>
    match w.pc with
    | .done _ => s
    | .opening =>
      if f = .fail then setWriter s i { w with pc := .done (some .whUnwritable) }
      else setWriter s i { w with pc := (if w.chunks.length = 0 then .closing else .writing 0), staged := some [], intact := true }
    | .writing k =>
      match w.chunks[k]? with
      | none => setWriter s i { w with pc := .closing }
      | some c =>
        if f = .fail then
          -- the write fails: nothing (or only part) of the chunk reaches the staging file
          match c with
          | .body _ => setWriter s i { w with pc := .cleanup (some .whUnwritable), intact := false }
          | .flush _ =>
            if w.checkFlush then setWriter s i { w with pc := .cleanup (some .whUnwritable), intact := false }
            else setWriter s i { w with pc := afterChunk w k, intact := false }   -- error dropped: carries on
        else setWriter s i { w with pc := afterChunk w k, staged := w.staged.map (· ++ [c]) }
    | .closing =>
      if f = .fail then setWriter s i { w with pc := .cleanup (some .whUnwritable) }
      else setWriter s i { w with pc := .mkdirs }
    | .mkdirs =>
      if f = .fail then setWriter s i { w with pc := .cleanup (some .whUnwritable) }
      else setWriter s i { w with pc := .moving }
    | .moving =>
      if f = .fail then setWriter s i { w with pc := .cleanup (some .whUnwritable) }
      else
        setWriter { s with finals := putFinal s.finals w.key (w.staged.getD []) } i
          { w with pc := .cleanup none, staged := none }
    | .cleanup r => setWriter s i { w with pc := .done r, staged := none }

def wrun (s : WhState) (sched : List (Nat × Fault)) : WhState := sched.foldl (fun s x => wstep s x.1 x.2) s

def mkWriter (key : WareId) (chunks : List Chunk) (checkFlush : Bool) : Writer :=
  { key := key, chunks := chunks, checkFlush := checkFlush, pc := .opening, staged := none, intact := true }

end Rio
