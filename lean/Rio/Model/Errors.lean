import Rio.Basic
/-  Error categories (go-timeless-api/rio/rioErrors.go, /repo/fs/errors.go, go-errcat). -/
namespace Rio

inductive FsCat | misc | unexpectedEOF | notExists | alreadyExists | notDir | recursion | shortWrite | permission | breakout
deriving DecidableEq, Repr, Inhabited

/-- the category an error value carries -/
inductive Cat
  | usage | whUnavailable | whUnwritable | wareNotFound | wareCorrupt | hashMismatch | cancelled
  | localCache | assemblyInvalid | packInvalid | inoperablePath | filterRejection | rpcBreakdown
  | fs (c : FsCat)        -- a foreign (fs.ErrorCategory) category
  | uncategorized         -- a plain Go error (errcat.Category = unknown)
  | errcatRejection       -- "errcat-category-filter-rejection": the redflag RequireErrorHasCategory substitutes
deriving DecidableEq, Repr, Inhabited

def Cat.isRio : Cat → Bool
  | .fs _ | .uncategorized | .errcatRejection => false
  | _ => true

/-- `defer RequireErrorHasCategory(&err, rio.ErrorCategory(""))` -/
def requireRio (c : Cat) : Cat := if c.isRio then c else .errcatRejection

/-- `rio.ErrorTable` lookup; `none` = `ExitCodeForCategory` panics. -/
def exitCode : Cat → Option Nat
  | .usage => some 1 | .whUnavailable => some 3 | .whUnwritable => some 4 | .wareNotFound => some 5
  | .wareCorrupt => some 6 | .hashMismatch => some 7 | .cancelled => some 8 | .localCache => some 9
  | .assemblyInvalid => some 10 | .packInvalid => some 11 | .inoperablePath => some 12
  | .filterRejection => some 13 | .rpcBreakdown => some 120
  | _ => none

def FsCat.tok : FsCat → String
  | .misc => "fs-misc" | .unexpectedEOF => "fs-unexpected-eof" | .notExists => "fs-not-exists"
  | .alreadyExists => "fs-already-exists" | .notDir => "fs-not-dir" | .recursion => "fs-recursion"
  | .shortWrite => "fs-shortwrite" | .permission => "fs-permission" | .breakout => "fs-breakout"

def Cat.tok : Cat → String
  | .usage => "rio-usage-error" | .whUnavailable => "rio-warehouse-unavailable"
  | .whUnwritable => "rio-warehouse-unwritable" | .wareNotFound => "rio-ware-not-found"
  | .wareCorrupt => "rio-ware-corrupt" | .hashMismatch => "rio-hash-mismatch" | .cancelled => "rio-cancelled"
  | .localCache => "rio-local-cache-problem" | .assemblyInvalid => "rio-assembly-invalid"
  | .packInvalid => "rio-pack-invalid" | .inoperablePath => "rio-inoperable-path"
  | .filterRejection => "rio-filter-rejection" | .rpcBreakdown => "rio-rpc-breakdown"
  | .fs c => c.tok | .uncategorized => "uncategorized" | .errcatRejection => "errcat-category-filter-rejection"

/-- result of a modelled library call -/
inductive Outcome (α : Type) where
  | ok (a : α)
  | err (c : Cat)
  | panic (why : String)
deriving Repr, DecidableEq

end Rio
