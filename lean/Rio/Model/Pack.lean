import Rio.Model.Tar
/-
  M7 — the pack walk (/repo/transmat/tar/tar_pack.go packTar, zip_pack.go packZip) over the
  list of entries `fs.Walk` + `fsOp.ScanFile` deliver.  The walk order does not matter for the
  result (C01_order), so the model takes the entries in any order.
-/
namespace Rio

/-- what `ScanFile` returns for one path: the `LStat` metadata and the hash of the body. -/
structure FsEntry where
  m : Meta
  chash : Bytes
deriving DecidableEq, Repr, Inhabited

inductive PackFmt | tar | zip
deriving DecidableEq, Repr

def packEntry (fmt : PackFmt) (filt : PackFilter) (e : FsEntry) (b : Bucket) : Outcome Bucket :=
  match applyPackFilter filt e.m with
  | .error c => .err c
  | .ok m =>
    if m.kind = .invalid then .ok b else
    -- `Mtime.Truncate(time.Second)`: both formats hash what the archive stores (whole seconds)
    let m := { m with mtime := ⟨m.mtime.sec, 0⟩ }
    match fmt with
    | .tar =>
      -- tar has no representation for sockets: refused (was a panic in `fsTypeToTarType` before `fix:` 2ffcafe)
      if m.kind = .socket then .err .packInvalid else
      match metaToTarHdr m e.chash with
      | none => .panic "invalid fs.Type"
      | some _ => .ok (b.add m (if m.kind = .file then e.chash else []))
    | .zip =>
      -- files, directories and symlinks only: the rest (fifo, socket, devices) is refused — before the `fix:` it was hashed
      -- as what it is and stored as a regular file (or as something `unpackZip` refuses), a ware nobody could unpack
      if m.kind ≠ .file ∧ m.kind ≠ .dir ∧ m.kind ≠ .symlink then .err .packInvalid else
      -- the zip format keeps the mtime as an unsigned 32-bit count of seconds: anything else is refused (`fix:` eac95f2;
      -- before, it was hashed as it is and stored wrapped)
      if m.mtime.sec < 0 ∨ m.mtime.sec > 4294967295 then .err .packInvalid else
      .ok (b.add m (if m.kind = .file ∨ m.kind = .symlink then e.chash else []))

def packEntries (fmt : PackFmt) (filt : PackFilter) : List FsEntry → Bucket → Outcome Bucket
  | [], b => .ok b
  | e :: es, b =>
    match packEntry fmt filt e b with
    | .ok b' => packEntries fmt filt es b'
    | .err c => .err c
    | .panic w => .panic w

/-- `packTar` / `packZip`: the hash bytes of the wareID. -/
def packId (H : Bytes → Bytes) (fmt : PackFmt) (filt : PackFilter) (es : List FsEntry) : Outcome Bytes :=
  match packEntries fmt filt es [] with
  | .err c => .err c
  | .panic w => .panic w
  | .ok b =>
    -- the filters ejected every entry, the root included: refused (was an index-out-of-range panic before `fix:` 4e72b33)
    if b.isEmpty then .err .filterRejection else
    match hashBucket H b with
    | .error p => .panic (panicMsg p)
    | .ok h => .ok h

end Rio
