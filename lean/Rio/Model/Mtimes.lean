import Rio.Model.KvfsFs
/-
  M10 — the directory-mtime discipline of everything that materialises a fileset (tar / zip / git unpack,
  CopyPlacer).  The kernel's part is one rule: **creating or removing a name in a directory sets that
  directory's mtime to "now"**; `utimensat` on an object changes that object's mtime and nobody else's.

  A file system is just `path ↦ mtime` here (`none` = nothing there).  Two kinds of step:

    * `create p m now` — `fsOp.PlaceFile`: the object appears at `p` (the parent's mtime becomes `now`), and its own
      times are set last, to `m`;
    * `settime p m`    — `afs.SetTimesNano(p, m, …)`.

  `now` is an argument of every step: the theorems hold for every clock.
-/
namespace Rio

abbrev MPath := List Nat                 -- path components, opaque
abbrev MFs := MPath → Option Nat         -- mtime of whatever is at the path

def parentOf : MPath → Option MPath
  | [] => none
  | p => some p.dropLast

inductive MOp
  | create (p : MPath) (m : Nat) (now : Nat)
  | settime (p : MPath) (m : Nat)
deriving DecidableEq, Repr

def mexec (s : MFs) : MOp → MFs
  | .create p m now =>
    let s1 := match parentOf p with
      | some q => upd s q (some now)
      | none => s
    upd s1 p (some m)
  | .settime p m => upd s p (some m)

def mrun (s : MFs) (ops : List MOp) : MFs := ops.foldl mexec s

/-- one entry of the (filtered) bucket: conjured parents are entries too -/
structure MEnt where
  path : MPath
  isDir : Bool
  mtime : Nat
deriving DecidableEq, Repr

/-- phase 1 of an unpack: every entry placed in archive order, each at its own moment -/
def placeOps (es : List (MEnt × Nat)) : List MOp := es.map (fun x => .create x.1.path x.1.mtime x.2)

/-- phase 2: "cleanup dir times" — every directory of the bucket gets its recorded mtime again -/
def repaveOps (ds : List MEnt) : List MOp := ds.map (fun d => .settime d.path d.mtime)

/-- the whole unpack, with the re-paving done over the directories in the order `ds` -/
def unpackMtimes (es : List (MEnt × Nat)) (ds : List MEnt) (s : MFs) : MFs :=
  mrun (mrun s (placeOps es)) (repaveOps ds)

end Rio
