import Rio.Model.Path
import Rio.Proofs.Sort
/-
  M10 (C14) — the input-validation and ordering part of `stitch.Assembler.Run`:
  inputs are sorted by the string form of their absolute path; an input is refused when it lies
  under (or at) the path of a mount input that sorts before it.
-/
namespace Rio

structure AsmInput where
  path : Bytes          -- `part.Path.String()`: cleaned absolute path ("/" for the root)
  isMount : Bool
  tag : Nat             -- which ware / host dir (opaque)
deriving DecidableEq, Repr, Inhabited

/-- `isUnderPath(p, base)` as fixed: whole segments -/
def isUnderPath (p base : Bytes) : Bool :=
  base = [slash] || p = base || hasPrefix p (base ++ [slash])

/-- the test as it was before the `fix:` -/
def isUnderPathOld (p base : Bytes) : Bool := hasPrefix p base

/-- the mount-containment loop over the sorted inputs: index of the first refused input, if any -/
def mountCheck : List AsmInput → (mounts : List Bytes) → Option AsmInput
  | [], _ => none
  | x :: xs, mounts =>
    if mounts.any (fun m => isUnderPath x.path m) then some x
    else mountCheck xs (if x.isMount then x.path :: mounts else mounts)

def sortInputs (xs : List AsmInput) : List AsmInput := sortBy (·.path) xs

/-- the duplicate-path loop over the sorted inputs (since the `fix:`): the first input that sits at the path of its
    predecessor -/
def dupCheck : List AsmInput → Option AsmInput
  | a :: b :: rest => if a.path = b.path then some b else dupCheck (b :: rest)
  | _ => none

inductive AsmVerdict
  | duplicate (x : AsmInput)      -- rio-assembly-invalid: more than one input at a path
  | underMount (x : AsmInput)     -- rio-assembly-invalid: an input under a mount
  | proceed (order : List AsmInput)
deriving DecidableEq, Repr

/-- `Run`'s validation as a whole: sort, duplicate check, mount rule -/
def asmVerdict (xs : List AsmInput) : AsmVerdict :=
  let s := sortInputs xs
  match dupCheck s with
  | some d => .duplicate d
  | none => match mountCheck s [] with
    | some x => .underMount x
    | none => .proceed s

/-- the order in which `Run` processes the inputs and whether the mount rule refuses the assembly -/
def asmPlan (xs : List AsmInput) : List AsmInput × Option AsmInput :=
  let s := sortInputs xs
  (s, mountCheck s [])

end Rio
