import Rio.Model.Errors
/-
  M8 (fetch side) — `util.PickReader` (/repo/transmat/util/warehouse.go) over abstract warehouses,
  the kvfs / kvhttp controllers' observable behaviour, and `whutil.ChunkifyHash`.
-/
namespace Rio

inductive Scheme | file | caFile | http | caHttp | https | caHttps | other | unparsable
deriving DecidableEq, Repr, Inhabited

def Scheme.isCA : Scheme → Bool
  | .caFile | .caHttp | .caHttps => true
  | _ => false
def Scheme.supported : Scheme → Bool
  | .other | .unparsable => false
  | _ => true
def Scheme.isHttp : Scheme → Bool
  | .http | .caHttp | .https | .caHttps => true
  | _ => false

/-- the condition the warehouse is in, as the harness sets it up -/
inductive WhCond
  | missingDir      -- kvfs: base (ca) / parent (mono) directory does not exist
  | lacking         -- reachable, no object at the ware's address (ENOENT / 404)
  | holding         -- an object is at the address (possibly a different ware: PickReader does not look)
  | serverError     -- http 5xx
  | refused         -- http: connection refused
deriving DecidableEq, Repr, Inhabited

structure Wh where
  scheme : Scheme
  cond : WhCond
deriving DecidableEq, Repr, Inhabited

inductive Dial | ok | unavailable
deriving DecidableEq, Repr
inductive Open | ok | notFound | unavailable
deriving DecidableEq, Repr

/-- `kvfs.NewController` / `kvhttp.NewController` for a supported scheme -/
def Wh.dial (w : Wh) : Dial :=
  if w.scheme.isHttp then .ok            -- kvhttp skips the existence check
  else if w.cond = .missingDir then .unavailable else .ok

/-- `OpenReader` -/
def Wh.open_ (w : Wh) : Open :=
  match w.cond with
  | .holding => .ok
  | .lacking => .notFound
  | .missingDir => .notFound              -- http: 404; kvfs never gets here
  | .serverError | .refused => .unavailable

inductive PickRes | opened (i : Nat) | err (c : Cat)
deriving DecidableEq, Repr, Inhabited

/-- `PickReader` (with the `fix:` that skips a warehouse found unreachable at open time). -/
def pickReader (requireMono : Bool) : List Wh → (i : Nat) → (anyUp : Bool) → PickRes
  | [], _, anyUp => .err (if anyUp then .wareNotFound else .whUnavailable)
  | w :: ws, i, anyUp =>
    if !w.scheme.supported then .err .usage
    else if w.scheme.isCA && requireMono then .err .usage
    else match w.dial with
      | .unavailable => if requireMono then .err .whUnavailable else pickReader requireMono ws (i + 1) anyUp
      | .ok => match w.open_ with
        | .ok => .opened i
        | .notFound => pickReader requireMono ws (i + 1) true
        | .unavailable => if requireMono then .err .whUnavailable else pickReader requireMono ws (i + 1) anyUp

/-- `PickReader` as it was before the fix: an `OpenReader` failure other than not-found was fatal, and a
    warehouse counted as reachable as soon as its controller was constructed. -/
def pickReaderOld (requireMono : Bool) : List Wh → (i : Nat) → (anyUp : Bool) → PickRes
  | [], _, anyUp => .err (if anyUp then .wareNotFound else .whUnavailable)
  | w :: ws, i, anyUp =>
    if !w.scheme.supported then .err .usage
    else if w.scheme.isCA && requireMono then .err .usage
    else match w.dial with
      | .unavailable => if requireMono then .err .whUnavailable else pickReaderOld requireMono ws (i + 1) anyUp
      | .ok => match w.open_ with
        | .ok => .opened i
        | .notFound => pickReaderOld requireMono ws (i + 1) true
        | .unavailable => .err .whUnavailable

/-- `whutil.ChunkifyHash` -/
def chunkifyHash (hash : Bytes) : Bytes × Bytes × Bytes :=
  let h := if hash.length < 7 then hash ++ List.replicate (7 - hash.length) 0x2d else hash
  (h.take 3, (h.drop 3).take 3, h.drop 6)

end Rio
