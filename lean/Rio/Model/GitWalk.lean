import Rio.Basic
/-
  M7b — a commit's tree as an object graph in which tree objects may be missing from the store, go-git's
  `TreeWalker` over it (recursive, pre-order; a sub-tree it cannot load ends the *whole* walk with io.EOF, which
  `unpackOneRepo` takes for the end of the tree), and the `checkSubtreesPresent` pass that `unpackOneRepo` runs first
  since `fix:` e6f1799.
-/
namespace Rio

mutual
inductive GTree where
  | node (ents : GEnts)
inductive GEnts where
  | nil
  | file (name : Nat) (rest : GEnts)                       -- a blob entry (regular, executable, symlink)
  | dir (name : Nat) (sub : Option GTree) (rest : GEnts)   -- `none`: the tree object is not in the store
end

mutual
/-- every path of the tree (pre-order), when every tree object is there -/
def GTree.all : GTree → Option (List (List Nat))
  | .node es => es.all []
def GEnts.all : GEnts → List Nat → Option (List (List Nat))
  | .nil, _ => some []
  | .file n rest, pre => (rest.all pre).map (fun l => (pre ++ [n]) :: l)
  | .dir n sub rest, pre =>
    match sub with
    | none => none
    | some (.node es) =>
      match es.all (pre ++ [n]), rest.all pre with
      | some a, some b => some ((pre ++ [n]) :: a ++ b)
      | _, _ => none
end

mutual
/-- go-git's walker: the paths it yields, and whether it stopped at a sub-tree it could not load -/
def GTree.walk : GTree → List (List Nat) × Bool
  | .node es => es.walk []
def GEnts.walk : GEnts → List Nat → List (List Nat) × Bool
  | .nil, _ => ([], false)
  | .file n rest, pre => let r := rest.walk pre; ((pre ++ [n]) :: r.1, r.2)
  | .dir n sub rest, pre =>
    match sub with
    | none => ([], true)                      -- `GetTree` failed: the walker answers io.EOF, the entry itself is not yielded
    | some (.node es) =>
      let a := es.walk (pre ++ [n])
      if a.2 then ((pre ++ [n]) :: a.1, true)
      else let b := rest.walk pre; ((pre ++ [n]) :: a.1 ++ b.1, b.2)
end

mutual
/-- `checkSubtreesPresent` -/
def GTree.check : GTree → Bool
  | .node es => es.check
def GEnts.check : GEnts → Bool
  | .nil => true
  | .file _ rest => rest.check
  | .dir _ sub rest =>
    match sub with
    | none => false
    | some (.node es) => es.check && rest.check
end

inductive GitUnpack | ok (paths : List (List Nat)) | corrupt
deriving DecidableEq, Repr

/-- `unpackOneRepo` as far as "which paths are delivered": with the check (the code), and without it (before the fix) -/
def gitUnpackPaths (t : GTree) : GitUnpack := if t.check then .ok t.walk.1 else .corrupt
def gitUnpackPathsOld (t : GTree) : GitUnpack := .ok t.walk.1

end Rio
