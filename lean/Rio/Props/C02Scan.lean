import Rio.Proofs.ScanOfPack
import Rio.Proofs.ListingOfTree
import Rio.Proofs.PathsUnique
/-!
# C02 (continued) — pack and scan report the same wareID, and it is the specified one

Kept apart from `Rio/Props/C02.lean` because the proof uses the C02 header round trip and the C05 refinement.
-/
namespace Rio

/-- **`scan(pack(F)) = pack(F) = specId(F)`**: for every listing `es` of a fileset in the tar format's domain (every
    path once, parent directories listed before their children, permission bits < 2^12, ids < 2^32, whole-second mtimes,
    no sockets or hard links: `ListingOK`) whose records are those of a well-formed tree `t`, for every hash function
    and every identity of the scanning process:
    * the pack model (`packId`, lossless filter) reports `specId H t`;
    * the unpack / scan model (`unpackTar` on the nil filesystem, lossless filter) applied to *the headers the pack
      wrote* reports `specId H t` twice (prefilter and filtered id).
    The proof composes the header round trip (`C02_hdr_fields`, `C02_hdr_name`), one step of each loop
    (`packEntry_good`, `unpackEntry_good`: the same record is filed) and `C05_refine`. -/
theorem C02_scan_of_pack (H : Bytes → Bytes) (mu mg : Nat) (es : List FsEntry) (hne : es ≠ [])
    (hok : ListingOK es [] []) (t : Tree) (hwf : WFRoot t) (hp : (es.map recOf).Perm (flatten t)) :
    packId H .tar losslessPackF es = .ok (specId H t) ∧
    unpackTar H nilOps mu mg losslessUnpack (hdrsOf es) .eof () = .ok ((), specId H t, specId H t) :=
  scan_of_pack H mu mg es hne hok t hwf hp

/-! the hypotheses are met by a concrete fileset: a root directory holding one file (tests) -/

def exRoot : FsEntry := ⟨{ name := ⟨[], 0⟩, kind := .dir, perms := 0o755, uid := 0, gid := 0, size := 0, linkname := [], devmajor := 0, devminor := 0, mtime := ⟨5, 0⟩, xattrs := [] }, []⟩
def exFile : FsEntry := ⟨{ name := ⟨[0x61], -1⟩, kind := .file, perms := 0o644, uid := 1000, gid := 1000, size := 3, linkname := [], devmajor := 0, devminor := 0, mtime := ⟨7, 0⟩, xattrs := [] }, [1, 2, 3]⟩
def exTree : Tree := .node (recOf exRoot) (.cons (.node (recOf exFile) .nil) .nil)

theorem ex_listing : ListingOK [exRoot, exFile] [] [] := by
  refine ⟨⟨⟨[], cleanComps_nil false, by simp [exRoot, ofComps]⟩, by decide, by decide, by decide, by decide, by decide, by decide⟩, by decide, by decide, by decide, ?_⟩
  refine ⟨⟨mustRel_clean [0x61] _ (by decide), by decide, by decide, by decide, by decide, by decide, by decide⟩, by decide, by decide, by decide, trivial⟩

theorem ex_wf : WFRoot exTree := by
  refine ⟨rfl, Or.inl ⟨rfl, by decide, ?_⟩⟩
  refine ⟨⟨[0x61], by decide, by decide, Or.inr ⟨by decide, by decide, rfl⟩⟩, trivial, by simp [rootKeys]⟩

/-- the theorem applied to that fileset (so its hypotheses are jointly satisfiable) -/
example (H : Bytes → Bytes) :
    unpackTar H nilOps 0 0 losslessUnpack (hdrsOf [exRoot, exFile]) .eof () = .ok ((), specId H exTree, specId H exTree) :=
  (C02_scan_of_pack H 0 0 [exRoot, exFile] (by simp) ex_listing exTree ex_wf (by simp [exTree, flatten, flattenF])).2

/-- **The same for every real fileset, with no hypothesis left about the listing**: a fileset given by component names
    (`LTree`: components normal — non-empty, no `/`, not `.` or `..` —, only directories have children, siblings in key
    order, no path both a directory and something else: `hpaths`, which the file system guarantees and — since the
    `fix:` — the unpacker checks) whose attributes lie in the tar format's domain (`AttrsOK`: 12-bit permissions, 32-bit ids, whole-second
    mtimes, no sockets / hard links, content hashes on files only).  Its pre-order listing — a directory before what it
    contains, the order `fs.Walk` delivers — packs to `specId`, and the scan of the headers that pack wrote reports
    `specId` twice.  (`Rio/Proofs/ListingOfTree.lean`: the pre-order listing of such a tree is `ListingOK`.) -/
theorem C02_scan_of_pack_fileset (H : Bytes → Bytes) (mu mg : Nat) (m : Meta) (ch : Bytes) (kids : LForest)
    (hshape : (m.kind = .dir ∧ LWFF kids) ∨ (m.kind ≠ .dir ∧ kids = .nil)) (hattr : AttrsOK m ch) (hgood : LGoodF kids)
    (hpaths : ∀ r ∈ flatten (toRoot m ch kids), ∀ r' ∈ flatten (toRoot m ch kids), r'.name ≠ recordName (twinOf r.m)) :
    packId H .tar losslessPackF ((flatten (toRoot m ch kids)).map entOf) = .ok (specId H (toRoot m ch kids)) ∧
    unpackTar H nilOps mu mg losslessUnpack (hdrsOf ((flatten (toRoot m ch kids)).map entOf)) .eof () =
      .ok ((), specId H (toRoot m ch kids), specId H (toRoot m ch kids)) :=
  scan_of_pack_fileset H mu mg m ch kids hshape hattr hgood hpaths

/-- **… and with the path hypothesis discharged**: what a file system guarantees is that the names below one directory
    are pairwise distinct (`LDistF`); from that, no path is both a directory and something else
    (`hpaths_of_distinct`, Rio/Proofs/PathsUnique.lean), and the statement holds with hypotheses on the fileset only. -/
theorem C02_scan_of_pack_real_fileset (H : Bytes → Bytes) (mu mg : Nat) (m : Meta) (ch : Bytes) (kids : LForest)
    (hshape : (m.kind = .dir ∧ LWFF kids) ∨ (m.kind ≠ .dir ∧ kids = .nil)) (hattr : AttrsOK m ch) (hgood : LGoodF kids)
    (hdist : LDistF kids) :
    packId H .tar losslessPackF ((flatten (toRoot m ch kids)).map entOf) = .ok (specId H (toRoot m ch kids)) ∧
    unpackTar H nilOps mu mg losslessUnpack (hdrsOf ((flatten (toRoot m ch kids)).map entOf)) .eof () =
      .ok ((), specId H (toRoot m ch kids), specId H (toRoot m ch kids)) :=
  scan_of_pack_fileset H mu mg m ch kids hshape hattr hgood (hpaths_of_distinct m ch kids hshape hdist)

/-! a fileset that meets the hypotheses: `./`, `./a` (file), `./d/`, `./d/x` (symlink) (test) -/

def exM (k : Kind) (p : Nat) : Meta :=
  { name := ⟨[], 0⟩, kind := k, perms := p, uid := 1000, gid := 1000, size := 0, linkname := [], devmajor := 0, devminor := 0, mtime := ⟨9, 0⟩, xattrs := [] }
def exKids : LForest :=
  .cons (.node [0x61] (exM .file 0o644) [7, 7] .nil)
    (.cons (.node [0x64] (exM .dir 0o755) [] (.cons (.node [0x78] (exM .symlink 0o777) [] .nil) .nil)) .nil)

theorem exN (b : UInt8) (h1 : b ≠ dot) (h2 : b ≠ slash) : Normal [b] := by
  refine ⟨by simp, ?_, ?_, ?_⟩
  · intro e; injection e with e; exact h1 e
  · intro e; simp [dd] at e
  · simp; exact fun e => h2 e.symm

theorem exAttrs (k : Kind) (p : Nat) (ch : Bytes) (hp : p < 4096) (hk : k ≠ .socket ∧ k ≠ .invalid ∧ k ≠ .hardlink)
    (hc : k ≠ .file → ch = []) : AttrsOK (exM k p) ch :=
  ⟨hp, by simp [exM], by simp [exM], hk, rfl, hc⟩

theorem ex_lwff : LWFF exKids := by
  unfold exKids
  simp only [LWFF, LWF]
  refine ⟨⟨exN _ (by decide) (by decide), fun h => ?_, trivial⟩,
    ⟨⟨exN _ (by decide) (by decide), fun h => absurd rfl h, ⟨exN _ (by decide) (by decide), fun h => ?_, trivial⟩, trivial, by simp [LForest.skeys]⟩, trivial, by simp [LForest.skeys]⟩, ?_⟩
  · trivial
  · trivial
  · intro k hk
    simp only [LForest.skeys, LTree.skey, exM, List.mem_cons, List.not_mem_nil, or_false] at hk
    subst hk
    decide

theorem ex_lgood : LGoodF exKids := by
  unfold exKids
  simp only [LGoodF, LGood]
  exact ⟨⟨exAttrs _ _ _ (by decide) (by decide) (fun h => absurd rfl h), trivial⟩,
    ⟨exAttrs _ _ _ (by decide) (by decide) (fun _ => rfl), ⟨exAttrs _ _ _ (by decide) (by decide) (fun _ => rfl), trivial⟩, trivial⟩, trivial⟩

example (H : Bytes → Bytes) :
    packId H .tar losslessPackF ((flatten (toRoot (exM .dir 0o755) [] exKids)).map entOf) =
      .ok (specId H (toRoot (exM .dir 0o755) [] exKids)) :=
  (C02_scan_of_pack_fileset H 0 0 (exM .dir 0o755) [] exKids (Or.inl ⟨rfl, ex_lwff⟩)
    (exAttrs _ _ _ (by decide) (by decide) (fun _ => rfl)) ex_lgood (by decide)).1

theorem ex_ldist : LDistF exKids := by
  unfold exKids
  simp only [LDistF, LDist, LForest.comps, LTree.comp]
  refine ⟨trivial, ⟨⟨trivial, trivial, by simp⟩, trivial, by simp⟩, ?_⟩
  intro c hc
  simp only [List.mem_cons, List.not_mem_nil, or_false] at hc
  subst hc
  decide

example (H : Bytes → Bytes) :
    packId H .tar losslessPackF ((flatten (toRoot (exM .dir 0o755) [] exKids)).map entOf) =
      .ok (specId H (toRoot (exM .dir 0o755) [] exKids)) :=
  (C02_scan_of_pack_real_fileset H 0 0 (exM .dir 0o755) [] exKids (Or.inl ⟨rfl, ex_lwff⟩)
    (exAttrs _ _ _ (by decide) (by decide) (fun _ => rfl)) ex_lgood ex_ldist).1

/-- what the hypothesis `hpaths` excludes: a listing with `./a` (file) and `./a/` (directory) is refused by the unpack
    model as a corrupt ware (before the `fix:` it was given a wareID that no unpack onto a file system could deliver) -/
example : (match unpackEntries nilOps 0 0 losslessUnpack
    [⟨[0x2e, 0x2f], 0x35, 0o755, 0, 0, 0, [], 0, 0, ⟨0, 0⟩, [], [], true⟩,
     ⟨[0x61], 0x30, 0o644, 0, 0, 0, [], 0, 0, ⟨0, 0⟩, [], [], true⟩,
     ⟨[0x61, 0x2f], 0x35, 0o755, 0, 0, 0, [], 0, 0, ⟨0, 0⟩, [], [], true⟩] ⟨(), [], [], []⟩ with
    | .err c => decide (c = .wareCorrupt) | _ => false) = true := by
  decide

end Rio
