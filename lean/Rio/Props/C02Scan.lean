import Rio.Proofs.ScanOfPack
/-!
# C02 (continued) — pack and scan report the same wareID, and it is the specified one

Kept apart from `Rio/Props/C02.lean` because the proof uses the C02 header round trip and the C05 refinement.
-/
namespace Rio

/-- **`scan(pack(F)) = pack(F) = specId(F)`**: for every listing `es` of a fileset in the tar format's domain (every
    path once, parent directories listed before their children, permission bits < 2^12, ids < 2^32, whole-second mtimes,
    no sockets or hard links: `ListingOK`) whose records are those of a well-formed tree `t`, for every hash function
    and every identity of the scanning process:
    * the pack model (`packId`, lossless filter) reports `specId H t`;
    * the unpack / scan model (`unpackTar` on the nil filesystem, lossless filter) applied to *the headers the pack
      wrote* reports `specId H t` twice (prefilter and filtered id).
    The proof composes the header round trip (`C02_hdr_fields`, `C02_hdr_name`), one step of each loop
    (`packEntry_good`, `unpackEntry_good`: the same record is filed) and `C05_refine`. -/
theorem C02_scan_of_pack (H : Bytes → Bytes) (mu mg : Nat) (es : List FsEntry) (hne : es ≠ [])
    (hok : ListingOK es [] []) (t : Tree) (hwf : WFRoot t) (hp : (es.map recOf).Perm (flatten t)) :
    packId H .tar losslessPackF es = .ok (specId H t) ∧
    unpackTar H nilOps mu mg losslessUnpack (hdrsOf es) .eof () = .ok ((), specId H t, specId H t) :=
  scan_of_pack H mu mg es hne hok t hwf hp

/-! the hypotheses are met by a concrete fileset: a root directory holding one file (tests) -/

def exRoot : FsEntry := ⟨{ name := ⟨[], 0⟩, kind := .dir, perms := 0o755, uid := 0, gid := 0, size := 0, linkname := [], devmajor := 0, devminor := 0, mtime := ⟨5, 0⟩, xattrs := [] }, []⟩
def exFile : FsEntry := ⟨{ name := ⟨[0x61], -1⟩, kind := .file, perms := 0o644, uid := 1000, gid := 1000, size := 3, linkname := [], devmajor := 0, devminor := 0, mtime := ⟨7, 0⟩, xattrs := [] }, [1, 2, 3]⟩
def exTree : Tree := .node (recOf exRoot) (.cons (.node (recOf exFile) .nil) .nil)

theorem ex_listing : ListingOK [exRoot, exFile] [] [] := by
  refine ⟨⟨⟨[], cleanComps_nil false, by simp [exRoot, ofComps]⟩, by decide, by decide, by decide, by decide, by decide, by decide⟩, by decide, by decide, ?_⟩
  refine ⟨⟨mustRel_clean [0x61] _ (by decide), by decide, by decide, by decide, by decide, by decide, by decide⟩, by decide, by decide, trivial⟩

theorem ex_wf : WFRoot exTree := by
  refine ⟨rfl, Or.inl ⟨rfl, by decide, ?_⟩⟩
  refine ⟨⟨[0x61], by decide, by decide, Or.inr ⟨by decide, by decide, rfl⟩⟩, trivial, by simp [rootKeys]⟩

/-- the theorem applied to that fileset (so its hypotheses are jointly satisfiable) -/
example (H : Bytes → Bytes) :
    unpackTar H nilOps 0 0 losslessUnpack (hdrsOf [exRoot, exFile]) .eof () = .ok ((), specId H exTree, specId H exTree) :=
  (C02_scan_of_pack H 0 0 [exRoot, exFile] (by simp) ex_listing exTree ex_wf (by simp [exTree, flatten, flattenF])).2

end Rio
