import Rio.Model.Asm14
import Rio.Proofs.AsmDup
import Rio.Generated.Facts
/-!
# C14 — Tree assembly stays inside its root and is order-independent
-/
namespace Rio

/-- **Order independence**: for inputs with pairwise distinct paths, every listing order gives the same processing
    order and the same verdict of the mount rule — `Run` is a function of the *set* of inputs. -/
theorem C14_perm (xs ys : List AsmInput) (hp : xs.Perm ys) (hn : (xs.map (·.path)).Nodup) :
    asmPlan xs = asmPlan ys := by
  simp only [asmPlan, sortInputs]
  rw [sortBy_perm_eq (·.path) hp hn]

/-- **Two inputs at one path are refused, and only then** — the hypothesis of `C14_perm` is what `Run` itself checks
    (since the `fix:`; before, the input listed last silently shadowed the other, or — with a mount — the listing order
    decided between acceptance and refusal). -/
theorem C14_duplicate_iff (xs : List AsmInput) :
    (∃ d, asmVerdict xs = .duplicate d) ↔ ¬ (xs.map (·.path)).Nodup :=
  asm_duplicate_iff xs

/-- **Order independence, no hypothesis**: two listings of the same inputs are both refused for a duplicate path, or get
    the very same verdict (same refused input, or same processing order). -/
theorem C14_total (xs ys : List AsmInput) (hp : xs.Perm ys) :
    asmVerdict xs = asmVerdict ys ∨ ((∃ d, asmVerdict xs = .duplicate d) ∧ (∃ d, asmVerdict ys = .duplicate d)) := by
  by_cases hn : (xs.map (·.path)).Nodup
  · left
    simp only [asmVerdict, sortInputs]
    rw [sortBy_perm_eq (·.path) hp hn]
  · right
    have hn' : ¬ (ys.map (·.path)).Nodup := fun h => hn ((hp.map _).nodup_iff.2 h)
    exact ⟨(C14_duplicate_iff xs).2 hn, (C14_duplicate_iff ys).2 hn'⟩

/-- non-vacuity: a ware and a mount at one path, in both listing orders -/
example : (∃ d, asmVerdict [⟨[0x2f, 0x78], false, 0⟩, ⟨[0x2f, 0x78], true, 1⟩] = .duplicate d) ∧
    (∃ d, asmVerdict [⟨[0x2f, 0x78], true, 1⟩, ⟨[0x2f, 0x78], false, 0⟩] = .duplicate d) :=
  ⟨⟨⟨[0x2f, 0x78], false, 0⟩, by decide⟩, ⟨⟨[0x2f, 0x78], true, 1⟩, by decide⟩⟩

/-- the fixed containment test compares whole segments: `/ab` is not under `/a`, `/a/b` and `/a` are -/
theorem C14_segments :
    isUnderPath [0x2f, 0x61, 0x62] [0x2f, 0x61] = false ∧
    isUnderPath [0x2f, 0x61, 0x2f, 0x62] [0x2f, 0x61] = true ∧
    isUnderPath [0x2f, 0x61] [0x2f, 0x61] = true ∧
    isUnderPath [0x2f, 0x61, 0x2d, 0x62] [0x2f, 0x61] = false ∧
    isUnderPath [0x2f, 0x78] [0x2f] = true := by decide

/-- the pre-fix test refused a sibling that merely shares a string prefix -/
theorem C14_old_counter : isUnderPathOld [0x2f, 0x61, 0x62] [0x2f, 0x61] = true := by decide

/-- under-path implies the old string-prefix test (the fix only removes false rejections) -/
theorem C14_under_le_old (p base : Bytes) (hb : base ≠ [slash]) (h : isUnderPath p base = true) :
    isUnderPathOld p base = true := by
  simp only [isUnderPath, Bool.or_eq_true, decide_eq_true_eq] at h
  rcases h with (h | h) | h
  · exact absurd h hb
  · subst h
    simp only [isUnderPathOld]
    rw [hasPrefix_iff']
    exact List.prefix_refl _
  · simp only [isUnderPathOld]
    rw [hasPrefix_iff'] at h ⊢
    exact List.IsPrefix.trans (List.prefix_append _ _) h
where
  hasPrefix_iff' (s p : Bytes) : hasPrefix s p = true ↔ p <+: s := by
    induction p generalizing s with
    | nil => simp [hasPrefix]
    | cons y ys ih =>
      cases s with
      | nil => simp [hasPrefix]
      | cons x xs =>
        simp only [hasPrefix, Bool.and_eq_true, beq_iff_eq, ih, List.cons_prefix_cons]
        constructor <;> (intro ⟨a, b⟩; exact ⟨a.symm, b⟩)

/-- a mount input refuses every later input at or below its path, wherever it sits in the sorted list -/
theorem C14_mount_refuses (pre : List AsmInput) (m x : AsmInput) (mid post : List AsmInput) (mounts : List Bytes)
    (hm : m.isMount = true) (hx : isUnderPath x.path m.path = true)
    (hpre : mountCheck (pre ++ m :: mid ++ x :: post) mounts = none) : False := by
  induction pre generalizing mounts with
  | nil =>
    rw [List.nil_append, List.cons_append, mountCheck] at hpre
    split at hpre
    · cases hpre
    · -- from here on m.path is in the mount set
      have key : ∀ (mid : List AsmInput) (ms : List Bytes), m.path ∈ ms → mountCheck (mid ++ x :: post) ms ≠ none := by
        intro mid
        induction mid with
        | nil =>
          intro ms hmem
          simp only [List.nil_append, mountCheck]
          have : ms.any (fun m' => isUnderPath x.path m') = true := List.any_eq_true.2 ⟨m.path, hmem, hx⟩
          simp [this]
        | cons y ys ih =>
          intro ms hmem
          simp only [List.cons_append, mountCheck]
          split
          · simp
          · apply ih
            split
            · exact List.mem_cons_of_mem _ hmem
            · exact hmem
      exact key mid _ List.mem_cons_self hpre
  | cons y ys ih =>
    simp only [List.cons_append, mountCheck] at hpre
    split at hpre
    · cases hpre
    · exact ih _ hpre

/-- T-fact ties: the sort key and the containment test in the code are the modelled ones -/
theorem C14_ties : Generated.asmSortLess = "a[i].Path.String() < a[j].Path.String()" ∧
    Generated.asmMountTest = "isUnderPath(part.Path, mount)" := by decide

end Rio
