import Rio.Proofs.KvfsFs
import Rio.Generated.Facts
/-!
# C08 over a shared staging namespace

`Rio/Props/C08.lean` proves the property for writers that each have a staging file of their own.  Here that
assumption is discharged from what the code does: staging files live in one directory, a writer addresses its
file by **name** when it renames and when it cleans up, and by **descriptor** when it writes.  The theorem needs
only that the names of the writers are pairwise different (a guid per `OpenWriter`, tied below); the two
counter-theorems show that nothing weaker will do.
-/
namespace Rio

/-- **C08, shared namespace**: any number of writers with pairwise different staging names, either open mode, any
    schedule, any failing steps, any crashes: whatever a reader finds at a final address is a complete ware. -/
theorem C08_shared_namespace (cm : List (WareId × List Chunk)) (ws : List FWriter) (excl : Bool)
    (sched : List (Nat × Fault))
    (hpc : ∀ w ∈ ws, w.pc = .opening) (hc : ∀ w ∈ ws, (w.key, w.chunks) ∈ cm)
    (hn : ∀ (i j : Nat) (wi wj : FWriter), ws[i]? = some wi → ws[j]? = some wj → wi.name = wj.name → i = j)
    (k : WareId) (cells : List Cell) (hr : readFinal (frun excl (fsInit ws) sched) k = some cells) :
    ∃ ch, (k, ch) ∈ cm ∧ cells = ch.map some := by
  have h := finv_run cm excl sched _ (finv_init cm ws hpc hc hn)
  unfold readFinal at hr
  cases hf : (frun excl (fsInit ws) sched).finals k with
  | none => rw [hf] at hr; cases hr
  | some j =>
    rw [hf] at hr
    simp only [Option.map_some, Option.some.injEq] at hr
    obtain ⟨_, ch, hc', hfile⟩ := h.finalsOk k j hf
    exact ⟨ch, hc', by rw [← hr, hfile]⟩

/-- the hypotheses are satisfiable, and the conclusion is not vacuous: two writers of different names, interleaved,
    both commit; the address holds the second committer's ware -/
example :
    let a := mkFWriter [1] 10 [.body 0, .flush 1]
    let b := mkFWriter [1] 11 [.body 5]
    let s := frun true (fsInit [a, b])
      [(0, .ok), (0, .ok), (1, .ok), (1, .ok), (1, .ok), (1, .ok), (1, .ok), (1, .ok), (0, .ok), (0, .ok), (0, .ok), (0, .ok), (0, .ok)]
    readFinal s [1] = some [some (.body 0), some (.flush 1)] := by decide

/-- **Without fresh names and without `O_EXCL`** (the shared, truncated staging file): writer 0 is held after its
    first chunk, writer 1 — same staging name — opens (truncating), writes its ware, commits; writer 0 then writes its
    second chunk through its descriptor into the inode that now *is* the final address. A reader finds a ware that is
    nobody's. Replayed on the implementation by the `kvfs-overlap` stream. -/
theorem C08_counter_shared_trunc :
    let a := mkFWriter [1] 7 [.body 0, .body 1]
    let b := mkFWriter [1] 7 [.body 5]
    let s := frun false (fsInit [a, b])
      [(0, .ok), (0, .ok), (1, .ok), (1, .ok), (1, .ok), (1, .ok), (1, .ok), (0, .ok)]
    readFinal s [1] = some [some (.body 5), some (.body 1)] := by decide

/-- **`O_EXCL` alone does not rescue colliding names**: writer 0 commits and has its deferred `Close` pending; writer 1
    (same name) opens — the name is free again — and writes its first chunk; writer 0's `Close` removes the name, which by
    now is writer 1's file; writer 2 (same name) opens and writes its first chunk; writer 1 finishes and renames *the name*:
    what moves to the final address is writer 2's half-written inode. -/
theorem C08_counter_shared_excl :
    let a := mkFWriter [1] 7 [.body 0]
    let b := mkFWriter [2] 7 [.body 1, .body 2]
    let c := mkFWriter [3] 7 [.body 3, .body 4]
    let s := frun true (fsInit [a, b, c])
      [(0, .ok), (0, .ok), (0, .ok), (0, .ok), (0, .ok),          -- writer 0: open, write, close, mkdirs, rename
       (1, .ok), (1, .ok),                                          -- writer 1: open, first chunk
       (0, .ok),                                                    -- writer 0: deferred Close removes the name
       (2, .ok), (2, .ok),                                          -- writer 2: open, first chunk
       (1, .ok), (1, .ok), (1, .ok), (1, .ok)]                      -- writer 1: second chunk, close, mkdirs, rename
    readFinal s [2] = some [some (.body 3)] := by decide

/-- T-fact tie: both branches of `kvfs.OpenWriter` build the staging name around a fresh `guid.New()` (the hypothesis
    "names pairwise different" of `C08_shared_namespace`; uniqueness of guids themselves is trusted, see C09), and the
    file is opened `O_CREATE|O_WRONLY|O_EXCL`. -/
theorem C08_staging_names_fresh :
    Generated.kvfsStagingNames = ["guid", "guid"] ∧
    Generated.kvfsWriterFlags = ["os.O_CREATE", "os.O_EXCL", "os.O_WRONLY"] := by decide

end Rio
