import Rio.Model.MirrorStore
import Rio.Props.C13
/-!
# C13 over a target that has content

For a **content-addressed** target the property holds by an invariant of the store (every object scans to the id of its
address): after a successful mirror the target alone serves W, and mirroring again is a no-op that needs no source.
For a **single-address** (`file://`) target it holds with no hypothesis at all since the `fix:` that makes the first
probe read such an object through (`Target.holds`): `C13_mono_serves`.  Before, any object at the address counted as W
(the former known finding `mirror-noop-other-ware`); `C13_mono_other_ware` is what the same witness does now.
-/
namespace Rio

/-- every object of the store scans to the id of its address (content addressing) -/
def CAInv (H : Bytes → Bytes) (t : Target) : Prop := ∀ id s, t.objs id = some s → scanId H s = .ok id

theorem mirror_ok_cases (H : Bytes → Bytes) (req : Bytes) (has writerOk : Bool) (pick : PickRes) (src : Stored)
    (commitOk : Bool) (hok : (mirror H req has writerOk pick src.hdrs src.fin src.head commitOk).1 = .ok ()) :
    (has = true ∧ (mirror H req has writerOk pick src.hdrs src.fin src.head commitOk).2 = [.noop]) ∨
    (has = false ∧ MirrorEv.commit ∈ (mirror H req has writerOk pick src.hdrs src.fin src.head commitOk).2 ∧
      scanId H src = .ok req) := by
  cases has with
  | true => left; exact ⟨rfl, (C13_noop H req writerOk pick src.hdrs src.fin src.head commitOk).1⟩
  | false =>
    right
    obtain ⟨hev, _, post, hu⟩ := C13_served H req writerOk pick src.hdrs src.fin src.head commitOk hok
    refine ⟨rfl, by rw [hev]; decide, ?_⟩
    unfold scanId losslessUF
    rw [hu]

/-- **The store invariant is preserved by every mirror** (content-addressed target). -/
theorem C13_ca_inv (H : Bytes → Bytes) (req : Bytes) (t : Target) (hk : t.kind = .ca) (writerOk : Bool) (pick : PickRes)
    (src : Stored) (commitOk : Bool) (h : CAInv H t) :
    CAInv H (mirrorStore H req t writerOk pick src commitOk).2 := by
  unfold mirrorStore applyMirror
  cases hr : (mirror H req (t.holds H req) writerOk pick src.hdrs src.fin src.head commitOk).1 with
  | err c => exact h
  | panic w => exact h
  | ok u =>
    cases u
    simp only
    rcases mirror_ok_cases H req _ writerOk pick src commitOk hr with ⟨_, hev⟩ | ⟨_, hc, hs⟩
    · rw [hev]
      simp only [List.mem_singleton, reduceCtorEq, if_false]
      exact h
    · rw [if_pos hc]
      intro id s hs'
      simp only [Target.put, Target.addr, hk] at hs'
      by_cases e : id = req
        <;> simp only [e, if_true, if_false] at hs'
      · cases hs'; rw [e]; exact hs
      · exact h id s hs'

theorem mirrorStore_ok (H : Bytes → Bytes) (req : Bytes) (t : Target) (writerOk : Bool) (pick : PickRes) (src : Stored)
    (commitOk : Bool) (hok : (mirrorStore H req t writerOk pick src commitOk).1 = .ok ()) :
    (mirror H req (t.holds H req) writerOk pick src.hdrs src.fin src.head commitOk).1 = .ok () := by
  unfold mirrorStore applyMirror at hok
  cases hr : (mirror H req (t.holds H req) writerOk pick src.hdrs src.fin src.head commitOk).1 with
  | err c => rw [hr] at hok; simp at hok
  | panic w => rw [hr] at hok; simp at hok
  | ok u => cases u; rfl

theorem holds_true (H : Bytes → Bytes) (t : Target) (req : Bytes) (h : t.holds H req = true) :
    ∃ s, t.lookup req = some s ∧ (t.kind = .ca ∨ scanId H s = .ok req) := by
  unfold Target.holds at h
  cases hl : t.lookup req with
  | none => rw [hl] at h; simp at h
  | some s =>
    rw [hl] at h
    simp only [Bool.or_eq_true, decide_eq_true_eq] at h
    exact ⟨s, rfl, h⟩

/-- after a successful mirror: either nothing was written and the object that was there — taken for W because the
    address is content-addressed, or read through and found to be W — is still there, or the source's object — which
    scans to the requested id — is at the address -/
theorem mirrorStore_after (H : Bytes → Bytes) (req : Bytes) (t : Target) (writerOk : Bool) (pick : PickRes) (src : Stored)
    (commitOk : Bool) (hok : (mirrorStore H req t writerOk pick src commitOk).1 = .ok ()) :
    ((∃ s, t.lookup req = some s ∧ (t.kind = .ca ∨ scanId H s = .ok req)) ∧ (mirrorStore H req t writerOk pick src commitOk).2 = t) ∨
    ((mirrorStore H req t writerOk pick src commitOk).2 = t.put req src ∧ scanId H src = .ok req) := by
  have hr := mirrorStore_ok H req t writerOk pick src commitOk hok
  unfold mirrorStore applyMirror
  rw [hr]
  simp only
  rcases mirror_ok_cases H req _ writerOk pick src commitOk hr with ⟨hhas, hev⟩ | ⟨_, hc, hs⟩
  · left
    rw [hev]
    simp only [List.mem_singleton, reduceCtorEq, if_false]
    exact ⟨holds_true H t req hhas, trivial⟩
  · right
    rw [if_pos hc]
    exact ⟨rfl, hs⟩

theorem lookup_put (t : Target) (req : Bytes) (src : Stored) : (t.put req src).lookup req = some src := by
  simp [Target.lookup, Target.put, Target.addr]

/-- **After a successful mirror the target alone serves W** — for a single-address target unconditionally; for a
    content-addressed one under the store's invariant at that address (supplied by `CAInv` in `C13_ca_serves`). -/
theorem C13_serves (H : Bytes → Bytes) (req : Bytes) (t : Target) (writerOk : Bool)
    (pick : PickRes) (src : Stored) (commitOk : Bool)
    (hyp : t.kind = .ca → ∀ s, t.lookup req = some s → scanId H s = .ok req)
    (hok : (mirrorStore H req t writerOk pick src commitOk).1 = .ok ()) :
    fetchAlone H (mirrorStore H req t writerOk pick src commitOk).2 req = .ok () := by
  rcases mirrorStore_after H req t writerOk pick src commitOk hok with ⟨⟨s, hl, hw⟩, ht⟩ | ⟨ht, hs⟩
  · rw [ht]
    unfold fetchAlone
    rw [hl]
    simp only
    have : scanId H s = .ok req := by
      rcases hw with hk | hsc
      · exact hyp hk s hl
      · exact hsc
    rw [this]; simp
  · rw [ht]
    unfold fetchAlone
    rw [lookup_put]
    simp only
    rw [hs]; simp

/-- **C13 for a single-address (`file://`) target, whatever it held before** (another ware, garbage, nothing). -/
theorem C13_mono_serves (H : Bytes → Bytes) (req : Bytes) (t : Target) (hk : t.kind = .mono) (writerOk : Bool)
    (pick : PickRes) (src : Stored) (commitOk : Bool)
    (hok : (mirrorStore H req t writerOk pick src commitOk).1 = .ok ()) :
    fetchAlone H (mirrorStore H req t writerOk pick src commitOk).2 req = .ok () :=
  C13_serves H req t writerOk pick src commitOk (fun h => by rw [hk] at h; cases h) hok

/-- **After a successful mirror the content-addressed target alone serves W** — no hypothesis on what the address held:
    the store invariant supplies it. -/
theorem C13_ca_serves (H : Bytes → Bytes) (req : Bytes) (t : Target) (hk : t.kind = .ca) (writerOk : Bool)
    (pick : PickRes) (src : Stored) (commitOk : Bool) (h : CAInv H t)
    (hok : (mirrorStore H req t writerOk pick src commitOk).1 = .ok ()) :
    fetchAlone H (mirrorStore H req t writerOk pick src commitOk).2 req = .ok () := by
  apply C13_serves H req t writerOk pick src commitOk _ hok
  intro _ s hl
  apply h req s
  simpa [Target.lookup, Target.addr, hk] using hl

/-- **Mirroring again is a no-op that needs no source** (any target kind): once the target holds W (`Target.holds`),
    mirror succeeds whatever the sources answer, opens no writer and leaves the target as it is. -/
theorem C13_again_noop (H : Bytes → Bytes) (req : Bytes) (t : Target) (writerOk : Bool) (pick : PickRes) (src : Stored)
    (commitOk : Bool) (hhas : t.holds H req = true) :
    mirrorStore H req t writerOk pick src commitOk = (.ok (), t) := by
  unfold mirrorStore applyMirror
  rw [hhas]
  have h := C13_noop H req writerOk pick src.hdrs src.fin src.head commitOk
  cases hr : (mirror H req true writerOk pick src.hdrs src.fin src.head commitOk).1 with
  | err c => rw [hr] at h; exact absurd h.2 (by simp)
  | panic w => rw [hr] at h; exact absurd h.2 (by simp)
  | ok u =>
    cases u
    simp only
    rw [h.1]
    simp

/-- after a successful mirror the target holds W in the sense of the probe: the next mirror is the no-op above -/
theorem C13_then_holds (H : Bytes → Bytes) (req : Bytes) (t : Target) (writerOk : Bool)
    (pick : PickRes) (src : Stored) (commitOk : Bool)
    (hok : (mirrorStore H req t writerOk pick src commitOk).1 = .ok ()) :
    (mirrorStore H req t writerOk pick src commitOk).2.holds H req = true := by
  rcases mirrorStore_after H req t writerOk pick src commitOk hok with ⟨⟨s, hl, hw⟩, ht⟩ | ⟨ht, hs⟩
  · rw [ht]
    unfold Target.holds
    rw [hl]
    rcases hw with hk | hsc
    · simp [hk]
    · simp [hsc]
  · rw [ht]
    unfold Target.holds
    rw [lookup_put]
    simp [hs]

/-! ### Witnesses (identity "hash": the id is the pre-image itself) -/

def exHdr (name : Bytes) (tf : UInt8) (ch : Bytes) : TarHdr :=
  { name := name, typeflag := tf, mode := 0o644, uid := 0, gid := 0, size := 1, linkname := [], devmajor := 0, devminor := 0,
    mtime := ⟨1000000000, 0⟩, xattrs := [], chash := ch, bodyOk := true }
/-- two wares: `./` + a file `a` whose body hashes to `[1]` resp. `[2]` -/
def exWareA : Stored := ⟨[exHdr [46, 47] 53 [], exHdr [97] 48 [1]], .eof, List.replicate 10 0⟩
def exWareB : Stored := ⟨[exHdr [46, 47] 53 [], exHdr [97] 48 [2]], .eof, List.replicate 10 0⟩
def exIdOf (s : Stored) : Bytes := match scanId (fun b => b) s with | .ok i => i | _ => []
def exMonoHoldingA : Target := ⟨.mono, fun a => if a = [] then some exWareA else none⟩
def exCaEmpty : Target := ⟨.ca, fun _ => none⟩

/-- **The former counter-example** (`mirror-noop-other-ware`): the `file://` address holds ware A. A mirror of B ≠ A into
    it with no source at all is no longer a success — it answers ware-not-found and leaves A in place; with a source that
    serves B it succeeds, and the target alone then serves B. -/
theorem C13_mono_other_ware :
    scanId (fun b => b) exWareA = .ok (exIdOf exWareA) ∧ scanId (fun b => b) exWareB = .ok (exIdOf exWareB) ∧
    exIdOf exWareA ≠ exIdOf exWareB ∧
    mirrorStore (fun b => b) (exIdOf exWareB) exMonoHoldingA true (.err .wareNotFound) exWareB true
      = (.err .wareNotFound, exMonoHoldingA) ∧
    (mirrorStore (fun b => b) (exIdOf exWareB) exMonoHoldingA true (.opened 0) exWareB true).1 = .ok () ∧
    fetchAlone (fun b => b) (mirrorStore (fun b => b) (exIdOf exWareB) exMonoHoldingA true (.opened 0) exWareB true).2
      (exIdOf exWareB) = .ok () := by
  refine ⟨by decide, by decide, by decide, ?_, by decide, by decide⟩
  unfold mirrorStore applyMirror
  have : exMonoHoldingA.holds (fun b => b) (exIdOf exWareB) = false := by decide
  rw [this]
  rfl

/-- non-vacuity of `C13_ca_serves`: an empty content-addressed target satisfies the invariant, a mirror of B from a source
    that serves B succeeds, and the target then serves B; mirroring again needs no source -/
example : CAInv (fun b => b) exCaEmpty := by intro id s h; simp [exCaEmpty] at h
example :
    (mirrorStore (fun b => b) (exIdOf exWareB) exCaEmpty true (.opened 0) exWareB true).1 = .ok () ∧
    fetchAlone (fun b => b) (mirrorStore (fun b => b) (exIdOf exWareB) exCaEmpty true (.opened 0) exWareB true).2 (exIdOf exWareB) = .ok () ∧
    (mirrorStore (fun b => b) (exIdOf exWareB)
      (mirrorStore (fun b => b) (exIdOf exWareB) exCaEmpty true (.opened 0) exWareB true).2 true (.err .whUnavailable) exWareA true).1 = .ok () := by
  decide

end Rio
