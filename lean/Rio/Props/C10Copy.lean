import Rio.Proofs.CopyWalk
import Rio.Generated.Facts
/-!
# C10 — the copy placer's walk: every node, directories included, gets its source mtime

`walk_mtimes` (Rio/Proofs/CopyWalk.lean), for every finite tree with unique names per directory, every clock and every
earlier content of the destination file system.  The frame theorem says what else the walk writes: the mtime of the
directory that receives the root — which `RepairMtime` puts back (`C10_parent_mtime_repaired`) — and nothing more.
-/
namespace Rio

/-- **Copy placement preserves every mtime of the tree** -/
theorem C10_copy_mtimes (now : MPath → Nat) (root : MNode) (parent : MPath) (hwf : root.wf) (s : MFs) :
    ∀ x ∈ nodesOf root parent, mrun s (walkOps now true root parent) x.1 = some x.2 :=
  fun x hx => walk_mtimes now root parent hwf s x hx

/-- **and writes nothing but the tree and the receiving directory's mtime** -/
theorem C10_copy_frame (now : MPath → Nat) (post : Bool) (root : MNode) (parent : MPath) (s : MFs) (r : MPath)
    (h1 : r ≠ parent) (h2 : ¬ Under parent root.name r) :
    mrun s (walkOps now post root parent) r = s r := by
  apply mrun_untouched
  intro op hop ht
  rcases walkOps_frame now post root parent op hop r ht with h | h
  · exact h1 h
  · exact h2 h

/-- what `postVisit` is for: without it a directory shows the moment its last child was placed -/
theorem C10_counter_no_postvisit :
    mrun (fun _ => none) (walkOps (fun p => 1000 + p.length) false (.dir 1 5 [.file 2 7]) []) [1] = some 1002 := by
  decide

example : mrun (fun _ => none) (walkOps (fun p => 1000 + p.length) true (.dir 1 5 [.file 2 7, .dir 3 9 [.file 2 11]]) []) [1] = some 5
    ∧ (MNode.dir 1 5 [.file 2 7, .dir 3 9 [.file 2 11]]).wf := by
  refine ⟨by decide, ?_⟩
  simp [MNode.wf, kidsWf, MNode.name]

/-- T-fact tie: `postVisit` re-times directories, and only them, to the source's mtime; the parent repair is deferred
    before anything is removed or created. -/
theorem C10_copy_tie :
    Generated.copyPlacerPostVisit = "if filenode.Info.Type == fs.Type_Dir { SetTimesNano(filenode.Info.Name, filenode.Info.Mtime, fs.DefaultTime) }" ∧
    Generated.copyPlacerRepairBeforeRemove = true := by
  decide

end Rio
