import Rio.Model.Shelf
import Rio.Generated.Facts
/-!
# C03 / C09 — a ware ID names one shelf, and no shelf lies inside another

The fileset cache answers an unpack of W from `ShelfFor(W)` without fetching anything, so the map from IDs to shelf
paths has to be such that no ID's path is *inside* another ID's shelf.  With hashes that are single path segments it
is (`C03_shelves_not_nested`); without that guard it is not (`C03_counter_nested_shelf`, the defect repaired by
`fix:` 4bfc970 and exhibited on the implementation by the `fetch` stream's sub-path requests).
-/
namespace Rio

theorem count_append_slash (a b : Bytes) : (a ++ b).count slash = a.count slash + b.count slash := List.count_append

theorem chunk_no_slash (h : Bytes) (hs : h.contains slash = false) :
    (chunkifyHash h).1.count slash = 0 ∧ (chunkifyHash h).2.1.count slash = 0 := by
  have h0 : ∀ x ∈ h, x ≠ slash := by
    intro x hx e
    subst e
    have : h.contains slash = true := List.contains_iff_mem.2 hx
    rw [this] at hs; cases hs
  have pad : ∀ x ∈ (if h.length < 7 then h ++ List.replicate (7 - h.length) 0x2d else h), x ≠ slash := by
    intro x hx
    split at hx
    · rcases List.mem_append.1 hx with hx | hx
      · exact h0 x hx
      · rw [List.mem_replicate] at hx; rw [hx.2]; decide
    · exact h0 x hx
  unfold chunkifyHash
  simp only
  constructor
  · apply List.count_eq_zero.2
    intro hx
    exact pad slash (List.mem_of_mem_take hx) rfl
  · apply List.count_eq_zero.2
    intro hx
    exact pad slash (List.mem_of_mem_drop (List.mem_of_mem_take hx)) rfl

theorem shelf_slashes (ty h : Bytes) (hs : h.contains slash = false) :
    (shelfStr ty h).count slash = ty.count slash + 4 := by
  have hc := chunk_no_slash h hs
  have hh : h.count slash = 0 := by
    apply List.count_eq_zero.2
    intro hx
    have : h.contains slash = true := List.contains_iff_mem.2 hx
    rw [this] at hs; cases hs
  have hf : filesetWord.count slash = 0 := by decide
  unfold shelfStr
  simp only [List.count_append, hc.1, hc.2, hh, hf, List.count_singleton_self]

/-- **No shelf lies inside another**: for two IDs of one pack type whose hashes are single segments, the path of one
    is never the path of the other followed by `/…`. -/
theorem C03_shelves_not_nested (ty a b rest : Bytes) (ha : hashIsOneSegment a = true) (hb : hashIsOneSegment b = true) :
    shelfStr ty a ≠ shelfStr ty b ++ [slash] ++ rest := by
  intro e
  have sa : a.contains slash = false := by
    unfold hashIsOneSegment at ha
    cases h : a.contains slash <;> simp_all
  have sb : b.contains slash = false := by
    unfold hashIsOneSegment at hb
    cases h : b.contains slash <;> simp_all
  have h1 := shelf_slashes ty a sa
  have h2 := shelf_slashes ty b sb
  have := congrArg (fun l => List.count slash l) e
  simp only [List.count_append, List.count_singleton_self] at this
  omega

/-- **Why the guard is needed**: without it, the ID `<H>/<sub>` (H at least six bytes long) names the entry `sub`
    *inside* the shelf of H — an unverified piece of another ware, served as a cache hit. -/
theorem C03_counter_nested_shelf (ty H sub : Bytes) (hl : 7 ≤ H.length) :
    shelfStr ty (H ++ [slash] ++ sub) = shelfStr ty H ++ [slash] ++ sub := by
  have c1 : chunkifyHash (H ++ [slash] ++ sub) = ((H.take 3), ((H.drop 3).take 3), (H ++ [slash] ++ sub).drop 6) := by
    unfold chunkifyHash
    have : ¬ (H ++ [slash] ++ sub).length < 7 := by simp; omega
    simp only [this, if_false]
    have t3 : (H ++ [slash] ++ sub).take 3 = H.take 3 := by
      rw [List.append_assoc, List.take_append_of_le_length (by omega)]
    have d3 : ((H ++ [slash] ++ sub).drop 3).take 3 = (H.drop 3).take 3 := by
      rw [List.append_assoc, List.drop_append_of_le_length (by omega), List.take_append_of_le_length (by simp; omega)]
    rw [t3, d3]
  have c2 : chunkifyHash H = ((H.take 3), ((H.drop 3).take 3), H.drop 6) := by
    unfold chunkifyHash
    have : ¬ H.length < 7 := by omega
    simp only [this, if_false]
  unfold shelfStr
  rw [c1, c2]
  simp only [List.append_assoc]

/-- the guard does refuse that ID -/
theorem C03_guard_refuses (H sub : Bytes) : hashIsOneSegment (H ++ [slash] ++ sub) = false := by
  unfold hashIsOneSegment
  have : (H ++ [slash] ++ sub).contains slash = true := by
    apply List.contains_iff_mem.2
    simp
  simp

/-- T-fact tie: `cache.Unpack` checks the hash before it builds the shelf path. -/
theorem C03_cache_guard_tie : Generated.cacheUnpackHashGuard = "strings.ContainsAny(wareID.Hash, \"/\\x00\") || wareID.Hash == \".\" || wareID.Hash == \"..\"" := by decide

end Rio
