import Rio.Model.HostFs
import Rio.Proofs.UnpackNoPanic
import Rio.Model.Tar
import Rio.Generated.Facts
/-!
# C06 — Unpacking never touches anything outside the target directory

The mechanism is layered: the unpackers refuse names that climb (`..`) or are absolute; `PlaceFile` scans
every prefix of the entry's name (the name itself included) for symlinks before it creates anything; and
the system calls it then issues are no-follow or exclusive.  The theorems below are about the kernel's path
walk (`namei`, Rio/Model/HostFs.lean): once the scan has found no symlink, the kernel resolves
`target/name` *literally*, so whatever is created or changed lies under the target.  The `hostile` stream
attacks the real unpackers with crafted archives and compares everything outside the target before/after.
-/
namespace Rio

/-- what `PlaceFile`'s loop establishes: no prefix of the name (the whole name included) is a symlink -/
def ScanOk (fs : HFs) (base name : List Bytes) : Prop :=
  ∀ k, k < name.length → fs.isLink (base ++ name.take (k + 1)) = false

/-- **Literal resolution.** If no prefix of `name` under `cur` is a symlink and `name` has no `..` component,
    the kernel's walk of `cur/name` ends exactly at `cur ++ name`, following nothing, whatever the rest of
    the host looks like and whether or not the last component may be followed. -/
theorem C06_literal (fs : HFs) (cur name : List Bytes) (fl : Bool)
    (hscan : ScanOk fs cur name) (hdd : [dot, dot] ∉ name) :
    namei fs name.length cur name fl = some (cur ++ name) := by
  induction name generalizing cur with
  | nil => simp [namei]
  | cons c rest ih =>
    have hc : c ≠ [dot, dot] := fun e => hdd (by simp [e])
    have h0 : fs.isLink (cur ++ [c]) = false := by
      have := hscan 0 (by simp)
      simpa using this
    have hrest : ScanOk fs (cur ++ [c]) rest := by
      intro k hk
      have := hscan (k + 1) (by simp; omega)
      simpa [List.append_assoc] using this
    have hdd' : [dot, dot] ∉ rest := fun h => hdd (List.mem_cons_of_mem _ h)
    have ih' := ih (cur ++ [c]) hrest hdd'
    simp only [List.length_cons, namei, hc, if_false]
    unfold HFs.isLink at h0
    cases hg : fs.get (cur ++ [c]) with
    | none => simp only; rw [ih']; simp
    | some nd =>
      cases nd with
      | link tg => simp [hg] at h0
      | dir => simp only; rw [ih']; simp
      | file => simp only; rw [ih']; simp

/-- the result lies under the starting directory -/
theorem C06_confined (fs : HFs) (target name : List Bytes) (fl : Bool)
    (hscan : ScanOk fs target name) (hdd : [dot, dot] ∉ name) :
    ∃ r, namei fs name.length target name fl = some r ∧ target <+: r :=
  ⟨target ++ name, C06_literal fs target name fl hscan hdd, List.prefix_append _ _⟩

/-- **Why the scan is needed**: with a symlink on the way the same walk leaves the target (a model witness). -/
theorem C06_counter_without_scan :
    let fs : HFs := [([[0x74]], .dir), ([[0x74], [0x6c]], .link [0x2f, 0x76]), ([[0x76]], .dir)]
    namei fs 5 [[0x74]] [[0x6c], [0x78]] false = some [[0x76], [0x78]] ∧ ¬ ([[0x74]] <+: [[0x76], [0x78]]) := by
  decide

/-- the unpackers refuse climbing and absolute names before `PlaceFile` is reached: an entry whose cleaned name
    is `..` or starts with `../`, or is absolute, never yields a metadata to place -/
theorem C06_refuse_climbing (h : TarHdr) (m : Meta) (hm : tarHdrToMeta h = .meta_ m) :
    mustRel h.name = some m.name := by
  exact (tarHdrToMeta_meta h m hm).1

/-- **An entry whose path passes through a name that an earlier entry of the same archive supplied as a symlink (or a
    file, a fifo, a device) is not placed**: with that name filed in the bucket as a non-directory and not known as a
    directory, one iteration of the tar entry loop never comes back with success — before `PlaceFile` could follow
    anything.  (Since `fix:` 190f773; the real file system refuses such an entry too — the `hostile` stream — but the
    nil file system of scan and mirror refuses nothing, so the loop has to.) -/
theorem C06_no_entry_through_own_symlink {σ : Type} (ops : FsOps σ) (myUid myGid : Nat) (filt : UnpackFilter) (h : TarHdr)
    (st : UnpackSt σ) (fmeta : Meta) (hm : tarHdrToMeta h = .meta_ fmeta) (p : RelPath)
    (hp : p ∈ fmeta.name.splitParent) (hnd : p ∉ st.dirs) (hlink : st.pre.has (fileTwin p) = true) :
    ∀ st', unpackEntry ops myUid myGid filt h st ≠ .ok st' := by
  intro st'
  unfold unpackEntry
  rw [hm]
  simp only
  split
  · simp
  · split
    · simp
    · split
      · simp
      · have := conjure_not_ok ops myUid myGid filt fmeta.name.splitParent st ⟨p, hp, hnd, hlink⟩
        cases hc : conjureParents ops myUid myGid filt fmeta.name.splitParent st with
        | ok s1 => exact absurd hc (this s1)
        | err c => simp
        | panic w => simp

/-- the bucket key of a symlink, a file, a fifo or a device named `p` is the one the parent loop looks for -/
theorem fileTwin_key (m : Meta) (hk : m.kind ≠ .dir) : recordName (fileTwin m.name) = recordName m := by
  simp [recordName, fileTwin, defaultDirMeta, hk]

/-- T-fact tie: the calls `PlaceFile` relies on being no-follow resolve with `resolveLast = false`, and the one
    call that follows (`Chmod`) resolves the leaf in-base first (C07_discipline); see Props/C07. -/
theorem C06_tie : ∀ row ∈ Generated.osfsMethods,
    row.1 ∈ ["Mkdir", "Mklink", "Mkfifo", "MkdevBlock", "MkdevChar", "Lchown", "SetTimesLNano", "Readlink", "LStat"] →
    row.2.1 = ["false"] := by decide

end Rio
