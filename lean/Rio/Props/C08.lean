import Rio.Model.Kvfs
import Rio.Props.C09
import Rio.Generated.Facts
/-!
# C08 — A warehouse never serves a partial ware

Transition system `wstep` (Rio/Model/Kvfs.lean): any number of concurrent writers into one
warehouse, every step succeeds or fails as a demonic scheduler chooses, a crash = a writer that is never
stepped again; a reader may look at the final addresses between any two steps, so "no reader ever sees
a partial ware" is "the invariant holds in every reachable state".
-/
namespace Rio

/-- what the writer's staging file holds is a prefix of its stream, and is the whole stream once the
    writer is about to commit — as long as no write error was dropped -/
def WriterOk (w : Writer) : Prop :=
  match w.pc with
  | .opening | .done _ | .cleanup _ => True
  | .writing k => w.intact = true ∧ w.staged = some (w.chunks.take k) ∧ k < w.chunks.length
  | .closing | .mkdirs | .moving => w.intact = true ∧ w.staged = some w.chunks

/-- every final address holds the complete stream of the ware it is the address of -/
def FinalsOk (s : WhState) : Prop := ∀ kv ∈ s.finals, kv ∈ s.complete

def WInv (s : WhState) : Prop :=
  FinalsOk s ∧ ∀ w ∈ s.writers, WriterOk w ∧ w.checkFlush = true ∧ (w.key, w.chunks) ∈ s.complete

theorem winv_setWriter (s : WhState) (i : Nat) (w : Writer) (h : WInv s)
    (hw : WriterOk w ∧ w.checkFlush = true ∧ (w.key, w.chunks) ∈ s.complete) : WInv (setWriter s i w) := by
  refine ⟨h.1, ?_⟩
  intro q hq
  rcases mem_set _ _ _ _ hq with rfl | hq
  · exact hw
  · exact h.2 q hq

theorem take_succ_of_get {α : Type} (l : List α) (k : Nat) (c : α) (h : l[k]? = some c) :
    l.take k ++ [c] = l.take (k + 1) := by
  rw [List.take_succ, h]; rfl

theorem afterChunk_ok (w : Writer) (k : Nat) (c : Chunk) (hk : w.chunks[k]? = some c) (w' : Writer)
    (hpc : w'.pc = afterChunk w k) (hch : w'.chunks = w.chunks) (hint : w'.intact = true)
    (hst : w'.staged = some (w.chunks.take (k + 1))) : WriterOk w' := by
  unfold afterChunk at hpc
  have hlt : k < w.chunks.length := by
    rcases List.getElem?_eq_some_iff.1 hk with ⟨h, _⟩; exact h
  by_cases h1 : k + 1 < w.chunks.length
  · simp only [h1, if_true] at hpc
    simp only [WriterOk, hpc, hch]
    exact ⟨hint, hst, h1⟩
  · simp only [h1, if_false] at hpc
    simp only [WriterOk, hpc, hch]
    refine ⟨hint, ?_⟩
    rw [hst, List.take_of_length_le (by omega)]

/-- **One step of any writer, with any injected outcome, preserves the invariant.** -/
theorem C08_inv_step (s : WhState) (i : Nat) (f : Fault) (h : WInv s) : WInv (wstep s i f) := by
  unfold wstep
  cases hg : s.writers[i]? with
  | none => exact h
  | some w =>
    obtain ⟨hok, hcf, hc⟩ := h.2 w (List.mem_of_getElem? hg)
    simp only
    cases hpc : w.pc with
    | done r => exact h
    | opening =>
      simp only
      split
      · exact winv_setWriter _ _ _ h ⟨by simp [WriterOk], hcf, hc⟩
      · refine winv_setWriter _ _ _ h ⟨?_, hcf, hc⟩
        by_cases h0 : w.chunks.length = 0
        · have : w.chunks = [] := List.length_eq_zero_iff.1 h0
          simp [WriterOk, h0, this]
        · simp only [WriterOk, h0, if_false]
          exact ⟨trivial, by simp, by omega⟩
    | writing k =>
      simp only [WriterOk, hpc] at hok
      obtain ⟨hint, hst, hk⟩ := hok
      simp only
      cases hgk : w.chunks[k]? with
      | none =>
        have := List.getElem?_eq_none_iff.1 hgk
        omega
      | some c =>
        simp only
        split
        · -- the write failed
          cases c with
          | body n => exact winv_setWriter _ _ _ h ⟨by simp [WriterOk], hcf, hc⟩
          | flush n =>
            simp only [hcf]
            exact winv_setWriter _ _ _ h ⟨by simp [WriterOk], by simpa using hcf, hc⟩
        · refine winv_setWriter _ _ _ h ⟨?_, hcf, hc⟩
          exact afterChunk_ok w k c hgk _ rfl rfl hint (by simp [hst, take_succ_of_get _ _ _ hgk])
    | closing =>
      simp only [WriterOk, hpc] at hok
      simp only
      split
      · exact winv_setWriter _ _ _ h ⟨by simp [WriterOk], hcf, hc⟩
      · exact winv_setWriter _ _ _ h ⟨by simp [WriterOk]; exact hok, hcf, hc⟩
    | mkdirs =>
      simp only [WriterOk, hpc] at hok
      simp only
      split
      · exact winv_setWriter _ _ _ h ⟨by simp [WriterOk], hcf, hc⟩
      · exact winv_setWriter _ _ _ h ⟨by simp [WriterOk]; exact hok, hcf, hc⟩
    | moving =>
      simp only [WriterOk, hpc] at hok
      simp only
      split
      · exact winv_setWriter _ _ _ h ⟨by simp [WriterOk], hcf, hc⟩
      · have h' : WInv { s with finals := putFinal s.finals w.key (w.staged.getD []) } := by
          refine ⟨?_, h.2⟩
          intro kv hkv
          simp only [putFinal, List.mem_cons, List.mem_filter] at hkv
          rcases hkv with rfl | ⟨hkv, _⟩
          · simp [hok.2]; exact hc
          · exact h.1 kv hkv
        exact winv_setWriter _ _ _ h' ⟨by simp [WriterOk], hcf, hc⟩
    | cleanup r => exact winv_setWriter _ _ _ h ⟨by simp [WriterOk], hcf, hc⟩

/-- **C08**: for any number of writers (packs and mirrors) whose flush errors are checked, any schedule and any
    choice of failing steps — and any crash, i.e. any prefix of any schedule — every final address of the
    warehouse holds a complete ware. A reader polling between any two steps sees only complete wares. -/
theorem C08_inv (finals complete : List (WareId × List Chunk)) (ws : List Writer)
    (sched : List (Nat × Fault))
    (hfin : ∀ kv ∈ finals, kv ∈ complete)
    (hws : ∀ w ∈ ws, w.pc = .opening ∧ w.checkFlush = true ∧ (w.key, w.chunks) ∈ complete) :
    FinalsOk (wrun ⟨finals, complete, ws⟩ sched) := by
  have h0 : WInv ⟨finals, complete, ws⟩ :=
    ⟨hfin, fun w hw => by obtain ⟨a, b, c⟩ := hws w hw; exact ⟨by simp [WriterOk, a], b, c⟩⟩
  suffices ∀ s, WInv s → WInv (wrun s sched) from (this _ h0).1
  induction sched with
  | nil => intro s h; exact h
  | cons x xs ih => intro s h; exact ih _ (C08_inv_step s x.1 x.2 h)

/-- **An error leaves the set of readable wares unchanged**: the only step that touches the final
    addresses is a successful `rename`; every failing step goes to cleanup with an error. -/
theorem C08_error_clean (s : WhState) (i : Nat) (w : Writer) (hg : s.writers[i]? = some w)
    (hp : w.pc ≠ .moving) (f : Fault) : (wstep s i f).finals = s.finals := by
  unfold wstep
  rw [hg]
  simp only
  cases hpc : w.pc with
  | moving => exact absurd hpc hp
  | done r => rfl
  | opening => simp only; split <;> rfl
  | closing => simp only; split <;> rfl
  | mkdirs => simp only; split <;> rfl
  | cleanup r => rfl
  | writing k =>
    simp only
    cases w.chunks[k]? with
    | none => rfl
    | some c =>
      simp only
      split
      · cases c with
        | body n => rfl
        | flush n => simp only; split <;> rfl
      · rfl

/-- after the deferred cleanup step the writer has no staging file (only a crash leaves one behind) -/
theorem C08_no_staging_after_return (s : WhState) (i : Nat) (w : Writer) (r : Option Cat)
    (hg : s.writers[i]? = some w) (hpc : w.pc = .cleanup r) (f : Fault) :
    ∃ w', (wstep s i f).writers[i]? = some w' ∧ w'.pc = .done r ∧ w'.staged = none := by
  have hi : i < s.writers.length := by
    rcases List.getElem?_eq_some_iff.1 hg with ⟨h, _⟩; exact h
  unfold wstep
  rw [hg]
  simp only [hpc]
  exact ⟨{ w with pc := .done r, staged := none }, by simp [setWriter, hi], rfl, rfl⟩

/-- **Why the `fix:` was needed.** With unchecked flush errors (the pre-fix `tartrans.Pack`) a write failure at
    flush time commits a truncated ware: a model witness, replayed on the implementation by the `kvfs` stream. -/
theorem C08_counter_flush :
    let w := mkWriter [1] [.body 0, .flush 1] false
    let s := wrun ⟨[], [([1], [.body 0, .flush 1])], [w]⟩
      [(0, .ok), (0, .ok), (0, .fail), (0, .ok), (0, .ok), (0, .ok), (0, .ok)]
    s.finals = [([1], [.body 0])] ∧ ¬ FinalsOk s := by
  refine ⟨by decide, ?_⟩
  intro h
  have := h ([1], [.body 0]) (by decide)
  revert this; decide

/-- T-fact tie: every flushing `Close()` in `tartrans.Pack` and `ziptrans.Pack` has its error checked, which
    is what `checkFlush = true` stands for. -/
theorem C08_flush_checked :
    (Generated.tarPackCloses.all (·.2)) = true ∧ (Generated.zipPackCloses.all (·.2)) = true ∧
    Generated.tarPackCloses.map (·.1) = ["tarWriter", "gzWriter"] ∧ Generated.zipPackCloses.map (·.1) = ["zipWriter"] := by
  decide

/-- T-fact tie: the system calls of the kvfs write path, in order, are the model's steps. -/
theorem C08_kvfs_steps :
    Generated.kvfsOpenWriterSteps = ["os.OpenFile"] ∧
    Generated.kvfsCommitSteps = ["stream.Close", "os.Mkdir", "os.Mkdir", "os.Rename"] ∧
    Generated.kvfsCloseSteps = ["stream.Close", "os.Remove"] := by decide

end Rio
