import Rio.Generated.Facts
/-!
# C20 — Reading operations leave their inputs untouched

T-fact tie: `Rio.Generated.*` is regenerated from the Go source on every run (`/verif/translate`).
The theorems below are closed by kernel evaluation over the whole (finite) generated table, so an
edit that makes the pack path call a mutating filesystem method, open a file with other flags, call
`os.*` directly, or gives nilfs access to the host, breaks one of them.
-/
namespace Rio

/-- the `fs.FS` methods that cannot change the filesystem (`OpenFile` only with `O_RDONLY`, see below) -/
def readOnlyFsMethods : List String :=
  ["BasePath", "Stat", "LStat", "ReadDirNames", "Readlink", "ResolveLink", "OpenFile"]

/-- every `fs.FS` method reachable from `Pack` / `packTar` / `packZip` / `fs.Walk` / `ScanFile` /
    `ApplyPackFilter` is a read-only one -/
theorem C20_pack_calls_readonly : ∀ c ∈ Generated.packFsCalls, c ∈ readOnlyFsMethods := by decide

/-- every `OpenFile` on the pack path passes `os.O_RDONLY` -/
theorem C20_pack_open_readonly : ∀ f ∈ Generated.packOpenFlags, f = "os.O_RDONLY" := by decide

/-- the pack path makes no direct `os` / `syscall` / `ioutil` call (everything goes through the handle) -/
theorem C20_pack_no_host_calls : Generated.packOsCalls = [] := by decide

/-- nilfs cannot touch the host: it imports neither `os` nor `syscall` (nor `io/ioutil`, `os/exec`, x/sys) -/
theorem C20_nilfs_pure : ∀ i ∈ Generated.nilfsImports,
    i ≠ "os" ∧ i ≠ "syscall" ∧ i ≠ "io/ioutil" ∧ i ≠ "os/exec" ∧ i ≠ "golang.org/x/sys/unix" := by decide

/-- mirror unpacks into nilfs only -/
theorem C20_mirror_nilfs : Generated.mirrorFs = ["nilFS.New()", "nilFS.New()"] := by decide

/-- warehouses are opened for reading with `O_RDONLY` (non-blocking since `fix:` 90614d8, so that a fifo at the address
    cannot hold the fetch; no access-mode or creation bit) -/
theorem C20_reader_readonly : Generated.kvfsReaderFlags = ["os.O_RDONLY | syscall.O_NONBLOCK"] := by decide

end Rio
