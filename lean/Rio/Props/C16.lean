import Rio.Model.Warehouse
/-!
# C16 — Fetching skips dead warehouses and takes the first that has the ware

`pickReader` models `util.PickReader` (loop, the two `switch Category(err)` tables, the
`anyWarehouses` flag); `Wh.dial` / `Wh.open_` model what the kvfs and kvhttp controllers answer in
each condition. Tied to the Go code by the `pick` stream (every list of ≤ 3/4 warehouses over
scheme × condition on real directories and a loopback HTTP server).
-/
namespace Rio

/-- the warehouse would serve the ware -/
def Wh.holds (w : Wh) : Prop := w.scheme.supported = true ∧ w.dial = .ok ∧ w.open_ = .ok
/-- dead or lacking: skipped -/
def Wh.skippable (w : Wh) : Prop := w.scheme.supported = true ∧ (w.dial = .unavailable ∨ w.open_ ≠ .ok)
/-- reachable but lacking the ware -/
def Wh.answersNotFound (w : Wh) : Prop := w.scheme.supported = true ∧ w.dial = .ok ∧ w.open_ = .notFound

instance (w : Wh) : Decidable w.holds := by unfold Wh.holds; infer_instance
instance (w : Wh) : Decidable w.skippable := by unfold Wh.skippable; infer_instance
instance (w : Wh) : Decidable w.answersNotFound := by unfold Wh.answersNotFound; infer_instance

inductive Cls | bad | hold | skip (reachable : Bool)
deriving DecidableEq

def Wh.cls (w : Wh) : Cls :=
  if !w.scheme.supported then .bad
  else match w.dial with
    | .unavailable => .skip false
    | .ok => match w.open_ with
      | .ok => .hold
      | .notFound => .skip true
      | .unavailable => .skip false

theorem pick_cons (w : Wh) (ws : List Wh) (i : Nat) (anyUp : Bool) :
    pickReader false (w :: ws) i anyUp =
      match w.cls with
      | .bad => .err .usage
      | .hold => .opened i
      | .skip r => pickReader false ws (i + 1) (anyUp || r) := by
  unfold Wh.cls
  rw [pickReader]
  cases w.scheme.supported <;> cases w.dial <;> cases w.open_ <;> simp

theorem holds_iff (w : Wh) : w.holds ↔ w.cls = .hold := by
  unfold Wh.holds Wh.cls
  cases w.scheme.supported <;> cases w.dial <;> cases w.open_ <;> simp

theorem skippable_iff (w : Wh) : w.skippable ↔ ∃ r, w.cls = .skip r := by
  unfold Wh.skippable Wh.cls
  cases w.scheme.supported <;> cases w.dial <;> cases w.open_ <;> simp

theorem answersNotFound_iff (w : Wh) : w.answersNotFound ↔ w.cls = .skip true := by
  unfold Wh.answersNotFound Wh.cls
  cases w.scheme.supported <;> cases w.dial <;> cases w.open_ <;> simp

theorem pick_first_aux (ws : List Wh) (i : Nat) (anyUp : Bool) (n : Nat) :
    pickReader false ws i anyUp = .opened n ↔
      ∃ k, n = i + k ∧ (∃ w, ws[k]? = some w ∧ w.holds) ∧ ∀ j, j < k → ∃ w, ws[j]? = some w ∧ w.skippable := by
  induction ws generalizing i anyUp with
  | nil => simp [pickReader]
  | cons w ws ih =>
    rw [pick_cons]
    cases hc : w.cls with
    | bad =>
      simp only [reduceCtorEq, false_iff, not_exists, not_and]
      intro k _ hk hall
      cases k with
      | zero =>
        obtain ⟨w', hw', hh⟩ := hk
        simp at hw'; subst hw'
        rw [holds_iff, hc] at hh; cases hh
      | succ k =>
        obtain ⟨w', hw', hs⟩ := hall 0 (Nat.succ_pos _)
        simp at hw'; subst hw'
        obtain ⟨r, hr⟩ := (skippable_iff _).1 hs
        rw [hc] at hr; cases hr
    | hold =>
      simp only [PickRes.opened.injEq]
      constructor
      · intro h; subst h
        exact ⟨0, rfl, ⟨w, by simp, (holds_iff w).2 hc⟩, fun j hj => absurd hj (Nat.not_lt_zero j)⟩
      · intro ⟨k, hn, _, hall⟩
        cases k with
        | zero => omega
        | succ k =>
          obtain ⟨w', hw', hs⟩ := hall 0 (Nat.succ_pos _)
          simp at hw'; subst hw'
          obtain ⟨r, hr⟩ := (skippable_iff _).1 hs
          rw [hc] at hr; cases hr
    | skip r =>
      simp only
      rw [ih]
      constructor
      · intro ⟨k, hn, hk, hall⟩
        refine ⟨k + 1, by omega, by simpa using hk, ?_⟩
        intro j hj
        cases j with
        | zero => exact ⟨w, by simp, (skippable_iff w).2 ⟨r, hc⟩⟩
        | succ j => simpa using hall j (by omega)
      · intro ⟨k, hn, hk, hall⟩
        cases k with
        | zero =>
          obtain ⟨w', hw', hh⟩ := hk
          simp at hw'; subst hw'
          rw [holds_iff, hc] at hh; cases hh
        | succ k =>
          refine ⟨k, by omega, by simpa using hk, ?_⟩
          intro j hj
          simpa using hall (j + 1) (by omega)

/-- **First holder wins.** A fetch over `ws` is served by warehouse `k` iff `k` holds an object at the
    ware's address and every earlier warehouse is dead or lacks it (however many there are). -/
theorem C16_first (ws : List Wh) (k : Nat) :
    pickReader false ws 0 false = .opened k ↔
      (∃ w, ws[k]? = some w ∧ w.holds) ∧ ∀ j, j < k → ∃ w, ws[j]? = some w ∧ w.skippable := by
  rw [pick_first_aux]
  constructor
  · intro ⟨k', hk, h⟩; have : k' = k := by omega
    subst this; exact h
  · intro h; exact ⟨k, by omega, h⟩

theorem pick_none_aux (ws : List Wh) (i : Nat) (anyUp : Bool) (hall : ∀ w ∈ ws, w.skippable) :
    pickReader false ws i anyUp =
      .err (if (anyUp || ws.any (fun w => decide w.answersNotFound)) = true then .wareNotFound else .whUnavailable) := by
  induction ws generalizing i anyUp with
  | nil => cases anyUp <;> simp [pickReader]
  | cons w ws ih =>
    rw [pick_cons]
    obtain ⟨r, hr⟩ := (skippable_iff w).1 (hall w List.mem_cons_self)
    rw [hr]
    simp only
    rw [ih _ _ (fun w' h => hall w' (List.mem_cons_of_mem _ h))]
    have : decide w.answersNotFound = r := by
      cases r
      · simp [answersNotFound_iff, hr]
      · simp [answersNotFound_iff, hr]
    simp only [List.any_cons, this, Bool.or_assoc]

/-- **None has it.** If every warehouse is dead or lacks the ware, the error is `ware-not-found` when
    at least one warehouse answered, and `warehouse-unavailable` otherwise. -/
theorem C16_errors (ws : List Wh) (hall : ∀ w ∈ ws, w.skippable) :
    pickReader false ws 0 false =
      .err (if (∃ w ∈ ws, w.answersNotFound) then .wareNotFound else .whUnavailable) := by
  rw [pick_none_aux ws 0 false hall]
  simp only [Bool.false_or, List.any_eq_true, decide_eq_true_eq]

/-- **Usage.** An unsupported or malformed address reached before any holder aborts with a usage error. -/
theorem C16_usage (pre : List Wh) (w : Wh) (post : List Wh) (hpre : ∀ v ∈ pre, v.skippable)
    (hw : w.scheme.supported = false) : pickReader false (pre ++ w :: post) 0 false = .err .usage := by
  suffices ∀ i a, pickReader false (pre ++ w :: post) i a = .err .usage from this 0 false
  induction pre with
  | nil => intro i a; simp [pickReader, hw]
  | cons v vs ih =>
    intro i a
    rw [List.cons_append, pick_cons]
    obtain ⟨r, hr⟩ := (skippable_iff v).1 (hpre v List.mem_cons_self)
    rw [hr]; exact ih (fun v' h => hpre v' (List.mem_cons_of_mem _ h)) _ _

/-- The pre-fix loop was wrong: a dead http warehouse in front of a holder aborted the fetch. -/
theorem C16_old_counter :
    pickReaderOld false [⟨.http, .serverError⟩, ⟨.caFile, .holding⟩] 0 false = .err .whUnavailable ∧
    pickReader false [⟨.http, .serverError⟩, ⟨.caFile, .holding⟩] 0 false = .opened 1 := by decide

/-- CA layout: `<h[0:3]>/<h[3:6]>/<h>` — the three chunks reassemble the (padded) hash. -/
theorem C16_layout (h : Bytes) (hl : 7 ≤ h.length) :
    let (a, b, c) := chunkifyHash h
    a ++ b ++ c = h ∧ a.length = 3 ∧ b.length = 3 := by
  simp only [chunkifyHash]
  have : ¬ h.length < 7 := by omega
  simp only [this, if_false]
  refine ⟨?_, by simp; omega, by simp; omega⟩
  have e1 : List.take 3 h ++ List.take 3 (List.drop 3 h) = List.take 6 h := by
    rw [← List.take_add]
  rw [e1, List.take_append_drop]

end Rio
