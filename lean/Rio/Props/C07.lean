import Rio.Model.Osfs
import Rio.Generated.Facts
import Rio.Proofs.OsfsTheory
import Rio.Proofs.OsfsNoLinks
/-!
# C07 — A based filesystem handle resolves paths like a chroot and never escapes

`realpath` / `resolveLink` (Rio/Model/Osfs.lean) model osfs's resolver over an abstract tree; they are
compared with the real resolver, and the real resolver with the kernel's own in-root resolution
(`openat2(RESOLVE_IN_ROOT)`), by the `osfs` stream on random forests of directories, files and symlinks.
-/
namespace Rio

/-- host calls that follow a symlink in the last path segment -/
def followsLeaf : List String := ["os.Chmod", "os.Open", "os.Stat", "syscall.UtimesNano", "os.OpenFile"]

/-- **Discipline** (T-fact, over the regenerated table of osFS methods): every method whose host call follows
    a final symlink resolves the last segment itself first (`realpath(path, true)` on that path). -/
theorem C07_discipline : ∀ row ∈ Generated.osfsMethods,
    (row.2.2.any (fun c => followsLeaf.contains c) = true) → row.2.1.contains "true" = true := by
  decide

/-- the table itself: which resolution mode and which host calls each method uses -/
theorem C07_methods : Generated.osfsMethods = [
    ("Chmod", ["true"], ["os.Chmod"]),
    ("LStat", ["false"], ["os.Lstat"]),
    ("Lchown", ["false"], ["os.Lchown"]),
    ("MkdevBlock", ["false"], ["syscall.Mknod"]),
    ("MkdevChar", ["false"], ["syscall.Mknod"]),
    ("Mkdir", ["false"], ["os.Mkdir"]),
    ("Mkfifo", ["false"], ["syscall.Mkfifo"]),
    ("Mklink", ["false"], ["os.Symlink"]),
    ("OpenFile", ["false", "true"], ["os.OpenFile"]),
    ("ReadDirNames", ["true"], ["os.Open"]),
    ("Readlink", ["false"], []),
    ("SetTimesLNano", ["false"], ["syscall.BytePtrFromString", "syscall.Syscall6"]),
    ("SetTimesNano", ["true"], ["syscall.UtimesNano"]),
    ("Stat", ["true"], ["os.Stat"])] := by decide

/-- a path that leaves the base is refused before anything is looked at -/
theorem C07_goesup_refused (t : Tree_) (p : RelPath) (rl : Bool) (h : p.goesUp = true) :
    realpath t p rl = .err .breakout p := by
  simp [realpath, h]

/-- the resolved path never leaves the base when the tree holds no symlink at all: it is the path itself -/
theorem C07_single_segment_nolinks (t : Tree_) (s : Bytes) (rl : Bool)
    (hrel : mustRel s = some ⟨s, -1⟩) (hup : (⟨s, -1⟩ : RelPath).goesUp = false) (hne : s ≠ [])
    (hs : splitOn slash s = [s]) (hnot : readlinkAt t ⟨s, -1⟩ = .notLink) :
    realpath t ⟨s, -1⟩ rl = .ok ⟨s, -1⟩ := by
  have hj : (⟨[], 0⟩ : RelPath).join (single s) = ⟨s, -1⟩ := by
    simp [RelPath.join, single, hrel, hne]
  cases rl <;> simp [realpath, hup, hne, hs, realpathSegs, hj, hnot]

/-- cycles end in an error, not in non-termination (tests on literal trees; the general statement is `C07_terminates` below) -/
example : realpath [([0x6c, 0x31], .link [0x6c, 0x32]), ([0x6c, 0x32], .link [0x6c, 0x31])] ⟨[0x6c, 0x31], -1⟩ true
    = .err .recursion ⟨[0x6c, 0x31], -1⟩ := by decide +kernel
example : (resolveLink [([0x6c, 0x31], .link [0x6c, 0x31])] 3 [0x6c, 0x31] ⟨[0x6c, 0x31], -1⟩ []).1
    = .err .recursion ⟨[0x6c, 0x31], -1⟩ := by decide +kernel
/-- an absolute target is re-rooted at the base; excess `..` stays at the base (tests) -/
example : realpath [([0x64], .dir), ([0x64, 0x2f, 0x61], .file), ([0x6c], .link [0x2f, 0x64, 0x2f, 0x61])] ⟨[0x6c], -1⟩ true
    = .ok ⟨[0x64, 0x2f, 0x61], 1⟩ := by decide +kernel
example : realpath [([0x61], .file), ([0x6c], .link [0x2e, 0x2e, 0x2f, 0x2e, 0x2e, 0x2f, 0x61])] ⟨[0x6c], -1⟩ true
    = .ok ⟨[0x61], -1⟩ := by decide +kernel


/-! ## Termination and confinement for every tree (proofs in `Rio/Proofs/OsfsTheory.lean`) -/

/-- **Symlink cycles end in an error, not in non-termination**: for every forest of directories, files and symlinks
    (targets absolute, relative, over-dotted, dangling, cyclic, chained — `t` is arbitrary), every canonical path and
    both resolution modes, the resolver never exhausts its fuel of `numLinks t + 2`: the `seen` list only ever holds
    distinct locations of symlinks of the tree, so the depth of the recursion is bounded by their number. -/
theorem C07_terminates (t : Tree_) (path : RelPath) (rl : Bool) (hc : path.Clean) :
    realpath t path rl ≠ .outOfFuel :=
  (realpath_ok t path rl hc).1

/-- **Whenever it succeeds, the result lies inside the base**: the resolved path is the canonical value of a list of
    normal components — no `..` survives (excess `..` is clamped at the base, absolute targets restart at the base). -/
theorem C07_confined (t : Tree_) (path p : RelPath) (rl : Bool) (hc : path.Clean)
    (h : realpath t path rl = .ok p) : Inside p ∧ p.goesUp = false ∧ p.Clean :=
  have hi := (realpath_ok t path rl hc).2 p h
  ⟨hi, hi.not_up, hi.clean⟩

/-- the same for `ResolveLink` called directly (what `PlaceFile` uses), for any link location inside the base -/
theorem C07_resolveLink (t : Tree_) (target : Bytes) (startingAt : RelPath)
    (hin : Inside startingAt) (hl : IsLinkAt t startingAt) :
    (resolveLink t (numLinks t + 2) target startingAt []).1 ≠ .outOfFuel ∧
    ∀ p, (resolveLink t (numLinks t + 2) target startingAt []).1 = .ok p → Inside p := by
  obtain ⟨a, _, _, d⟩ := resolveLink_ok t (numLinks t + 2) target startingAt [] ⟨by simp, by simp⟩ hin hl (by simp)
  exact ⟨a, d⟩

/-! ## No symlink is ever left to the kernel (proofs in `Rio/Proofs/OsfsNoLinks.lean`) -/

/-- **The resolver never asks the kernel about a location with a symlink in a proper prefix**: on every prefix-closed
    tree (`TreeWF`: ancestors of entries are entries — every directory tree is), for every canonical path and both
    modes, the model's `.hostFollow` outcome (a `readlink` of a path the kernel would resolve through a symlink, on the
    host) is unreachable. -/
theorem C07_nolinks (t : Tree_) (hwf : TreeWF t) (path : RelPath) (rl : Bool) (hc : path.Clean) :
    realpath t path rl ≠ .hostFollow :=
  (realpath_nolinks t hwf path rl hc).1

/-- **The path handed to the final system call is literal**: a successful result has no symlink among its proper
    prefixes, so the kernel resolves `B/p` component by component inside `B`: the object read or changed lies inside. -/
theorem C07_result_literal (t : Tree_) (hwf : TreeWF t) (path p : RelPath) (rl : Bool) (hc : path.Clean)
    (h : realpath t path rl = .ok p) :
    ∃ b, (∀ c ∈ b, Normal c) ∧ p = ofComps b ∧ ∀ i, i + 1 < b.length → NotLink t (joinWith slash (b.take (i + 1))) :=
  (realpath_nolinks t hwf path rl hc).2 p h

/-- the same for `ResolveLink` called directly, for a link location whose proper prefixes are link free -/
theorem C07_resolveLink_nolinks (t : Tree_) (hwf : TreeWF t) (fuel : Nat) (target : Bytes) (startingAt : RelPath)
    (seen : List RelPath) (hsa : SafeButLast t startingAt) :
    (resolveLink t fuel target startingAt seen).1 ≠ .hostFollow ∧
    ∀ p, (resolveLink t fuel target startingAt seen).1 = .ok p → Safe t p :=
  resolveLink_nl t hwf fuel target startingAt seen hsa

/-- the hypothesis is met by real trees: `d/`, `d/a`, `l -> /d/a` is prefix closed (test of `TreeWF` via its
    decidable criterion) -/
example : TreeWF [([0x64], .dir), ([0x64, 0x2f, 0x61], .file), ([0x6c], .link [0x2f, 0x64, 0x2f, 0x61])] :=
  treeWF_of_b (by decide +kernel)

end Rio
