import Rio.Proofs.Mtimes
/-!
# C10 — "directory mtimes included"

The three unpackers place entries in archive order — every placement disturbs the mtime of the directory that
receives the name — and then re-pave the directories of the bucket (`treewalk.Walk(filteredBucket.Iterator(), nil, …
SetTimesNano …)`; git: the `dirs` slice, backwards).  `C10_unpack_mtimes`: whatever the archive order, whatever the
order of the re-paving, whatever the clock, **every entry ends with exactly its recorded mtime**.  The two hypotheses
are facts about a bucket: names are unique (`fshash` refuses duplicates), and only directories have children (the
file system refuses anything else).  `C10_counter_no_repave` is what happens without the second phase.

The copy placer fixes a directory right after its subtree (`postVisit`): `Rio/Props/C10Copy.lean`.
-/
namespace Rio

theorem path_inj {es : List (MEnt × Nat)} (hnd : (es.map (·.1.path)).Nodup) {a b : MEnt}
    (ha : a ∈ es.map (·.1)) (hb : b ∈ es.map (·.1)) (h : a.path = b.path) : a = b := by
  induction es with
  | nil => simp at ha
  | cons x xs ih =>
    simp only [List.map_cons, List.nodup_cons] at hnd
    simp only [List.map_cons, List.mem_cons] at ha hb
    rcases ha with rfl | ha <;> rcases hb with rfl | hb
    · rfl
    · obtain ⟨y, hy, rfl⟩ := List.mem_map.1 hb
      exact absurd (List.mem_map.2 ⟨y, hy, h.symm⟩) hnd.1
    · obtain ⟨y, hy, rfl⟩ := List.mem_map.1 ha
      exact absurd (List.mem_map.2 ⟨y, hy, h⟩) hnd.1
    · exact ih hnd.2 ha hb

/-- **Every entry of an unpacked fileset carries its recorded mtime, directories included** -/
theorem C10_unpack_mtimes (es : List (MEnt × Nat)) (ds : List MEnt) (s : MFs)
    (hnd : (es.map (·.1.path)).Nodup)
    (hds : ∀ d, d ∈ ds ↔ (d ∈ es.map (·.1) ∧ d.isDir = true))
    (hdnd : (ds.map (·.path)).Nodup)
    (hpar : ∀ e ∈ es.map (·.1), ∀ e' ∈ es.map (·.1), parentOf e'.path = some e.path → e.isDir = true) :
    ∀ e ∈ es.map (·.1), unpackMtimes es ds s e.path = some e.mtime := by
  intro e he
  unfold unpackMtimes
  by_cases hd : e.isDir = true
  · exact repave_sets ds _ e ((hds e).2 ⟨he, hd⟩) hdnd
  · rw [repave_other ds _ e.path]
    · apply place_leaf es s e he hnd
      intro e' he' hp
      exact hd (hpar e he e' he' hp)
    · intro d hdm hp
      have hd' := (hds d).1 hdm
      have := path_inj hnd hd'.1 he hp
      subst this
      exact hd hd'.2

/-- without the re-paving, a directory that received a child shows the moment of that placement instead -/
theorem C10_counter_no_repave :
    unpackMtimes [(⟨[1], true, 5⟩, 100), (⟨[1, 2], false, 7⟩, 200)] [] (fun _ => none) [1] = some 200 := by
  decide

/-- and with it (a test of the hypotheses: they are satisfiable and the conclusion is the interesting one) -/
example : unpackMtimes [(⟨[1], true, 5⟩, 100), (⟨[1, 2], false, 7⟩, 200)] [⟨[1], true, 5⟩] (fun _ => none) [1] = some 5 := by
  decide

/-- **The destination's parent keeps its mtime** (`defer fsOp.RepairMtime(rootFs, dstPath.Dir())()`): whatever the
    placement did in between — removal of what was there, creation of the destination, any number of entries — the
    parent shows the mtime it had before, and the repair touches nothing else. -/
theorem C10_parent_mtime_repaired (s : MFs) (ops : List MOp) (parent : MPath) (t0 : Nat) (h0 : s parent = some t0) :
    mexec (mrun s ops) (.settime parent t0) parent = s parent ∧
    ∀ p, p ≠ parent → mexec (mrun s ops) (.settime parent t0) p = mrun s ops p := by
  refine ⟨by simp [mexec, h0], ?_⟩
  intro p hp
  exact upd_other _ _ _ _ hp

end Rio
