import Rio.Model.Pack
import Rio.Proofs.DevModes
import Rio.Proofs.PathTheory
import Rio.Generated.Facts
import Rio.Proofs.ZipHdr
/-!
# C02 — Pack then unpack reproduces the fileset exactly

Header-level theorems (what is handed to `archive/tar` comes back unchanged from it, field by field).
The filesystem-level round trip is decided by the `rt` stream (real kernel) together with the pack
model's id prediction; see DESIGN.md for what is proved and what is correspondence-only.
-/
namespace Rio

/-- every packable kind survives the tar type mapping -/
theorem C02_type_roundtrip (k : Kind) (t : UInt8) (h : fsTypeToTarType k = some t) :
    tarTypeToFsType t = .kind k := by
  cases k <;> simp [fsTypeToTarType] at h <;> subst h <;> decide

/-- sockets and invalid types are refused at pack time (a panic in `fsTypeToTarType`; modelled as `none`) -/
theorem C02_unpackable_kinds (k : Kind) : fsTypeToTarType k = none ↔ (k = .socket ∨ k = .invalid) := by
  cases k <;> simp [fsTypeToTarType]

/-- **Header round trip (all fields but the name).** For metadata in the format's domain
    (permission bits < 07777+1, ids < 2^32) the header written by `MetadataToTarHdr`, read back by
    `TarHdrToMetadata`, yields the same type, permission bits (setuid/setgid/sticky included), owner,
    group, size, link target, device numbers, mtime and xattrs. -/
theorem C02_hdr_fields (m : Meta) (ch : Bytes) (h : TarHdr) (m' : Meta)
    (hp : m.perms < 4096) (hu : m.uid < 4294967296) (hg : m.gid < 4294967296)
    (h1 : metaToTarHdr m ch = some h) (h2 : tarHdrToMeta h = .meta_ m') :
    m'.kind = m.kind ∧ m'.perms = m.perms ∧ m'.uid = m.uid ∧ m'.gid = m.gid ∧ m'.size = m.size ∧
    m'.linkname = m.linkname ∧ m'.devmajor = m.devmajor ∧ m'.devminor = m.devminor ∧
    m'.mtime = m.mtime ∧ m'.xattrs = m.xattrs := by
  unfold metaToTarHdr at h1
  cases hk : fsTypeToTarType m.kind with
  | none => simp [hk] at h1
  | some t =>
    simp only [hk, Option.map_some, Option.some.injEq] at h1
    subst h1
    unfold tarHdrToMeta at h2
    simp only at h2
    simp only [C02_type_roundtrip m.kind t hk] at h2
    cases hn : mustRel (if m.kind = Kind.dir then m.name.str ++ [slash] else m.name.str) with
    | none => simp [hn] at h2
    | some n =>
      simp only [hn] at h2
      injection h2 with h2
      subst h2
      refine ⟨rfl, ?_, ?_, ?_, rfl, rfl, rfl, rfl, rfl, rfl⟩
      · show ((m.perms : Int) % 4096).toNat = m.perms
        omega
      · show toU32 (m.uid : Int) = m.uid
        unfold toU32; omega
      · show toU32 (m.gid : Int) = m.gid
        unfold toU32; omega

/-- tar keeps seconds only: the packed record's mtime is the entry's mtime with the nanoseconds dropped,
    and nothing else of the (filtered) metadata changes on the way into the bucket. -/
theorem C02_pack_seconds (ff : PackFilter) (e : FsEntry) (b b' : Bucket) (m : Meta)
    (hf : applyPackFilter ff e.m = .ok m) (hk : m.kind ≠ .invalid)
    (h : packEntry .tar ff e b = .ok b') :
    b' = b.add { m with mtime := ⟨m.mtime.sec, 0⟩ } (if m.kind = .file then e.chash else []) := by
  unfold packEntry at h
  simp only [hf, hk, if_false] at h
  split at h
  · cases h
  · cases hh : metaToTarHdr { m with mtime := ⟨m.mtime.sec, 0⟩ } e.chash with
    | none => simp [hh] at h
    | some x => simp only [hh] at h; injection h with h; exact h.symm


/-- a trailing `/` (how directories are written into the header) does not change what `MustRelPath` builds -/
theorem mustRel_trailing_slash (s : Bytes) (h : s.head? ≠ some slash) (h0 : s ≠ []) :
    mustRel (s ++ [slash]) = mustRel s := by
  have h' : (s ++ [slash]).head? ≠ some slash := by
    cases s with
    | nil => exact absurd rfl h0
    | cons x xs => simpa using h
  rw [mustRel_eq _ h', mustRel_eq _ h]
  have : s ++ [slash] = s ++ slash :: [] := rfl
  rw [this, splitOn_append_sep]
  have e : splitOn slash s ++ splitOn slash [] = splitOn slash s ++ [[]] ++ [] := by simp [splitOn]
  rw [e, cleanComps_skip_mid false (splitOn slash s) [[]] [] (by simp)]
  simp

/-- **Header round trip, the name**: the name written into the header (`String()`, plus `/` for a directory) is
    parsed back by `TarHdrToMetadata` to the very same path value (split index included), for every canonical name. -/
theorem C02_hdr_name (m : Meta) (ch : Bytes) (h : TarHdr) (m' : Meta) (hc : m.name.Clean)
    (h1 : metaToTarHdr m ch = some h) (h2 : tarHdrToMeta h = .meta_ m') : m'.name = m.name := by
  unfold metaToTarHdr at h1
  cases hk : fsTypeToTarType m.kind with
  | none => simp [hk] at h1
  | some t =>
    simp only [hk, Option.map_some, Option.some.injEq] at h1
    subst h1
    have hparse : mustRel (if m.kind = Kind.dir then m.name.str ++ [slash] else m.name.str) = some m.name := by
      obtain ⟨cs, hcs, e⟩ := hc
      split
      · rw [mustRel_trailing_slash _ (by rw [e]; exact str_head_not_slash hcs) (by
          rw [e]; intro e0
          rcases (ofComps cs).str_cases' with ⟨_, e1⟩ | ⟨e1, e2⟩ | ⟨_, e2⟩
          · rw [e1] at e0; cases e0
          · rw [e2] at e0; exact e1 e0
          · rw [e2] at e0; cases e0)]
        rw [e]; exact mustRel_str hcs
      · rw [e]; exact mustRel_str hcs
    unfold tarHdrToMeta at h2
    simp only [hparse, C02_type_roundtrip m.kind t hk] at h2
    injection h2 with h2
    subst h2
    rfl

/-- **Device numbers survive `mknod` + `lstat`**: `devModesSplit (devModesJoin major minor) = (major, minor)` for
    12-bit majors and 20-bit minors (the kernel's `dev_t` layout). -/
theorem C02_dev_roundtrip (major minor : Nat) (h1 : major < 4096) (h2 : minor < 2 ^ 20) :
    devSplit (devJoin major minor) = (major, minor) :=
  dev_roundtrip major minor h1 h2

/-- T-fact tie: the two expressions in the source are the ones the model `devJoin` / `devSplit` mirrors -/
theorem C02_dev_tie :
    Generated.devModesJoinExpr = "uint32(((minor & 0xfff00) << 12) | ((major & 0xfff) << 8) | (minor & 0xff))" ∧
    Generated.devModesSplitExpr = "int64((rdev >> 8) & 0xfff) ; int64((rdev & 0xff) | ((rdev >> 12) & 0xfff00))" := by
  decide

/-- the layout matters beyond 8 bits (a test): minor 300 / major 259 -/
example : devSplit (devJoin 259 70000) = (259, 70000) ∧ devJoin 136 300 = 0x10882c := by decide

/-- **uid and gid survive the zip header**, all 32 bits of each: what `MetadataToZipHdr` writes into the extra field
    (a Unix2 block when both fit 16 bits, then a Unix3 block) is read back by `zipFileOwnership` as the same pair. -/
theorem C02_zip_owner_roundtrip (uid gid : Nat) (hu : uid < 2 ^ 32) (hg : gid < 2 ^ 32) :
    zipOwnership (ownerExtra uid gid) = .ok uid gid :=
  zipOwnership_written uid gid hu hg

/-- and a foreign archive that carries only the older Unix2 block (16-bit ids) is read as that pair too -/
theorem C02_zip_owner_unix2_only (uid gid : Nat) (hu : uid < 65536) (hg : gid < 65536) :
    zipOwnership (unix2Extra uid gid) = .ok uid gid :=
  zipOwnership_unix2_only uid gid hu hg

/-- **What a zip pack files is something a zip unpack takes**: an entry that `packZip` adds to the bucket (and writes) is —
    after the pack filter — a regular file, a directory or a symlink; fifos, sockets and device nodes are refused with
    `rio-pack-invalid` (`fix:`: before, the pack answered an id for them and committed a ware that `unpackZip` refuses, or
    — a character device — reads back as an empty regular file). -/
theorem C02_zip_pack_kinds (filt : PackFilter) (e : FsEntry) (b b' : Bucket) (h : packEntry .zip filt e b = .ok b') :
    b' = b ∨ ∃ m, applyPackFilter filt e.m = .ok m ∧ (m.kind = .file ∨ m.kind = .dir ∨ m.kind = .symlink) := by
  unfold packEntry at h
  cases hf : applyPackFilter filt e.m with
  | error c => simp [hf] at h
  | ok m =>
    simp only [hf] at h
    by_cases hi : m.kind = .invalid
    · left
      simp only [hi, if_true] at h
      injection h with h
      exact h.symm
    · right
      refine ⟨m, rfl, ?_⟩
      simp only [hi, if_false] at h
      by_cases hk : m.kind ≠ .file ∧ m.kind ≠ .dir ∧ m.kind ≠ .symlink
      · simp [hk] at h
      · cases hkk : m.kind <;> simp_all

end Rio
