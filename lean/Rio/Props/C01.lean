import Rio.Proofs.HashOrder
/-!
# C01 — WareID is a pure function of fileset content

The wareID is `base58 (hashBucket SHA384 records)`, where the records are produced by the pack
walk in directory-enumeration order (or, for unpack/scan, in archive order).
-/
namespace Rio

/-- **Order independence.** Any permutation of the records — i.e. any walk order, readdir order
    or archive entry order — gives the same result of `HashBucket` (value *or* panic), for every
    hash function. Requires distinct bucket keys, which is what a fileset has; the proof goes
    through "a sort of a list with distinct keys is unique", so it does not depend on Go's
    `sort.Sort` being unstable. -/
theorem C01_order (H : Bytes → Bytes) (l₁ l₂ : List Record) (hp : l₁.Perm l₂)
    (hn : (l₁.map (·.name)).Nodup) : hashBucket H l₁ = hashBucket H l₂ := by
  have hn₂ : (l₂.map (·.name)).Nodup := (hp.map (·.name)).nodup_iff.1 hn
  have hc : distinctCount (l₁.map (·.name)) = distinctCount (l₂.map (·.name)) := by
    rw [distinctCount_nodup _ hn, distinctCount_nodup _ hn₂, List.length_map, List.length_map, hp.length_eq]
  unfold hashBucket
  rw [bucketLines_nodup l₁ hn, bucketLines_nodup l₂ hn₂, hc]
  unfold sortRecs
  rw [sortBy_perm_eq (·.name) hp hn]

private def exA : Record := mkRecord (defaultDirMeta ⟨[], 0⟩) []
private def exB : Record := mkRecord { defaultDirMeta ⟨[0x61], -1⟩ with kind := .file } [1, 2]
/-- non-vacuity: a two-record bucket with distinct keys, in both orders (a test, not the theorem). -/
example : ([exA, exB].map (·.name)).Nodup ∧ [exA, exB].Perm [exB, exA] ∧
    (hashBucket id [exB, exA]).toOption.isSome = true := by
  refine ⟨by decide, List.Perm.swap _ _ _, by decide⟩

end Rio
