import Rio.Proofs.HashOrder
import Rio.Generated.Facts
/-!
# C01 — WareID is a pure function of fileset content

The wareID is `base58 (hashBucket SHA384 records)`, where the records are produced by the pack
walk in directory-enumeration order (or, for unpack/scan, in archive order).
-/
namespace Rio

/-- **Order independence.** Any permutation of the records — i.e. any walk order, readdir order
    or archive entry order — gives the same result of `HashBucket` (value *or* panic), for every
    hash function. Requires distinct bucket keys, which is what a fileset has; the proof goes
    through "a sort of a list with distinct keys is unique", so it does not depend on Go's
    `sort.Sort` being unstable. -/
theorem C01_order (H : Bytes → Bytes) (l₁ l₂ : List Record) (hp : l₁.Perm l₂)
    (hn : (l₁.map (·.name)).Nodup) : hashBucket H l₁ = hashBucket H l₂ := by
  have hn₂ : (l₂.map (·.name)).Nodup := (hp.map (·.name)).nodup_iff.1 hn
  have hc : distinctCount (l₁.map (·.name)) = distinctCount (l₂.map (·.name)) := by
    rw [distinctCount_nodup _ hn, distinctCount_nodup _ hn₂, List.length_map, List.length_map, hp.length_eq]
  unfold hashBucket
  rw [bucketLines_nodup l₁ hn, bucketLines_nodup l₂ hn₂, hc]
  unfold sortRecs
  rw [sortBy_perm_eq (·.name) hp hn]

/-! ### T-fact ties: nothing but the fileset's logical content can reach the hash

`Rio.Generated.*` is regenerated from the Go source on every run. -/

/-- The packages on the pack path keep no mutable package-level state: every package-level variable is
    one of these (function values, the process's ids read once at start-up, constants), and no function
    assigns to any of them or calls a method on them.  A shared buffer, hasher or cache introduced at
    package level — which concurrent packs would race on — changes this table. -/
theorem C01_no_shared_state : Generated.pkgVars = [
    ("transmat/tar", "Mirror", []), ("transmat/tar", "Scan", []), ("transmat/tar", "Unpack", []),
    ("transmat/zip", "Mirror", []), ("transmat/zip", "Scan", []), ("transmat/zip", "Unpack", []),
    ("transmat/mixins/filters", "myGid", []), ("transmat/mixins/filters", "myUid", []),
    ("fs", "DefaultTime", []), ("fsOp", "myGid", []), ("fsOp", "myUid", []),
    ("lib/treewalk", "SkipNode", [])] := by decide

/-- the hashing and packing functions read no clock, time zone, environment variable, working directory
    or random source -/
theorem C01_no_env_reads : Generated.packEnvReads = [] := by decide

/-- the host metadata that can reach a record: mode, size, mtime, uid, gid, rdev — no atime, ctime, inode
    number, link count or block count -/
theorem C01_stat_reads : ∀ a ∈ Generated.convertFileinfoReads,
    a ∈ ["fi.ModTime", "fi.Mode", "fi.Size", "fi.Sys", "fm.Perm", "sys.Gid", "sys.Rdev", "sys.Uid"] := by decide

/-- the serializer reads only fields of `fs.Metadata` that are part of the logical fileset (`Size` is
    deliberately not hashed), and `fs.Metadata` has no other fields -/
theorem C01_hashed_fields :
    Generated.marshalReads = ["Devmajor", "Devminor", "Gid", "Linkname", "Mtime", "Name", "Perms", "Type", "Uid", "Xattrs"] ∧
    Generated.metadataFields = ["Name", "Type", "Perms", "Uid", "Gid", "Size", "Linkname", "Devmajor", "Devminor", "Mtime", "Xattrs"] := by
  decide

/-- the key order of the serial form is the one the model's `serMeta` uses -/
theorem C01_marshal_keys : Generated.marshalKeys = ["n", "t", "p", "u", "g", "l", "dM", "dm", "m", "mn", "x"] := by decide

private def exA : Record := mkRecord (defaultDirMeta ⟨[], 0⟩) []
private def exB : Record := mkRecord { defaultDirMeta ⟨[0x61], -1⟩ with kind := .file } [1, 2]
/-- non-vacuity: a two-record bucket with distinct keys, in both orders (a test, not the theorem). -/
example : ([exA, exB].map (·.name)).Nodup ∧ [exA, exB].Perm [exB, exA] ∧
    (hashBucket id [exB, exA]).toOption.isSome = true := by
  refine ⟨by decide, List.Perm.swap _ _ _, by decide⟩

end Rio
