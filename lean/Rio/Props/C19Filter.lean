import Rio.Props.C19
import Rio.Props.C12
/-!
# C19 × C12 — an unpack filter reaches every entry of a git unpack, directories included

git has no owners and no times: every record — the conjured root, trees, files, links, gitlink directories — starts
with 1000:1000 (the root: 0:0) and the default time, and goes through `ApplyUnpackFilter`.  What is delivered carries
the filter's time on *every* entry.  (Before the `fix:` of round 14 the closing re-time pass of `unpackOneRepo` wrote
the default time back onto every directory; the driver mirrored that, and the `git` stream's oracle now checks it.)
-/
namespace Rio

theorem gitMetas_mtime : ∀ (es : List GitEntry) (ms : List Meta), gitMetas es = .ok ms → ∀ m ∈ ms, m.mtime = defaultTime
  | [], ms, h => by
    simp only [gitMetas] at h
    cases h
    intro m hm; cases hm
  | e :: es, ms, h => by
    simp only [gitMetas] at h
    cases he : gitEntryMeta e with
    | corrupt => rw [he] at h; cases h
    | panic => rw [he] at h; cases h
    | ok m0 =>
      rw [he] at h
      simp only at h
      cases hr : gitMetas es with
      | corrupt => rw [hr] at h; cases h
      | panic => rw [hr] at h; cases h
      | ok ms0 =>
        rw [hr] at h
        simp only at h
        cases h
        intro m hm
        rcases List.mem_cons.1 hm with rfl | hm
        · exact (C19_tree e _ he).2.2.2.1
        · exact gitMetas_mtime es ms0 hr m hm

/-- every record of a whole unpack — the conjured root first — starts from the default time -/
theorem gitUnpackMetas_mtime (es : List GitEntry) (ms : List Meta) (h : gitUnpackMetas es = .ok ms) :
    ∀ m ∈ ms, m.mtime = defaultTime := by
  unfold gitUnpackMetas at h
  cases hr : gitMetas es with
  | corrupt => rw [hr] at h; cases h
  | panic => rw [hr] at h; cases h
  | ok ms0 =>
    rw [hr] at h
    simp only at h
    cases h
    intro m hm
    rcases List.mem_cons.1 hm with rfl | hm
    · rfl
    · exact gitMetas_mtime es ms0 hr m hm

/-- **The mtime rule of an unpack filter names every entry of a git unpack** — files, links and every directory: what
    is delivered for a record carries the filter's time if the filter sets one, the default time otherwise. -/
theorem C19_filter_mtime_everywhere (myUid myGid : Nat) (ff : UnpackFilter) (es : List GitEntry) (ms : List Meta)
    (h : gitUnpackMetas es = .ok ms) (m : Meta) (hm : m ∈ ms) (m' : Meta)
    (hf : applyUnpackFilter myUid myGid ff m = .ok m') :
    m'.mtime = if ff.mtime ≠ ffKeep then ⟨ff.mtime, 0⟩ else defaultTime := by
  rw [C12_unpack_entry] at hf
  split at hf
  · cases hf
  · split at hf
    · cases hf
    · injection hf with hf
      subst hf
      simp only [specUnpack, gitUnpackMetas_mtime es ms h m hm]

/-- non-vacuity (a test): a tree with a directory and a file under `mtime=@99` -/
example :
    (match gitUnpackMetas [⟨[0x64], .dir, []⟩, ⟨[0x64, 0x2f, 0x66], .regular, [1]⟩] with
     | .ok ms => ms.map (fun m => match applyUnpackFilter 0 0 ⟨true, ffKeep, ffKeep, 99, ffKeep, ffKeep, ffKeep⟩ m with
        | .ok m' => m'.mtime.sec | _ => -1)
     | _ => []) = [99, 99, 99] := by decide

end Rio
