import Rio.Model.Tar
/-!
# C17 — Every failure is a categorized rio error; bad input never crashes

`exitCode` models `rio.ExitCodeForCategory` over `rio.ErrorTable`; `requireRio` models the deferred
`RequireErrorHasCategory(&err, rio.ErrorCategory(""))` every public entry point carries.
`unpackTar` (Rio/Model/Tar.lean) returns `ok | err cat | panic`.
-/
namespace Rio

/-- every documented rio category has exactly one exit code, never 0 and never 2 (reserved for crashes) -/
theorem C17_table_total (c : Cat) (h : c.isRio = true) : ∃ n, exitCode c = some n ∧ n ≠ 0 ∧ n ≠ 2 := by
  cases c <;> simp [Cat.isRio] at h <;> simp [exitCode]

/-- the exit-code map is injective on documented categories -/
theorem C17_table_injective (c d : Cat) (hc : c.isRio = true) (hd : d.isRio = true)
    (h : exitCode c = exitCode d) : c = d := by
  cases c <;> cases d <;> simp_all [Cat.isRio, exitCode]

/-- any other category makes `ExitCodeForCategory` panic (model: `none`) — this is why an uncategorised
    error reaching the CLI is a crash. -/
theorem C17_table_partial (c : Cat) (h : c.isRio = false) : exitCode c = none := by
  cases c <;> simp_all [Cat.isRio, exitCode]

/-- the deferred category filter maps every error to a rio category or to the errcat red flag, for which
    no exit code exists -/
theorem C17_require (c : Cat) : (requireRio c).isRio = true ∨ requireRio c = .errcatRejection := by
  unfold requireRio; split <;> simp_all

/-- the tar entry loop turns a header-conversion failure into `ware-corrupt`, never into a panic -/
theorem C17_hdr_never_panics (h : TarHdr) : (∃ m, tarHdrToMeta h = .meta_ m) ∨ tarHdrToMeta h = .skip ∨
    tarHdrToMeta h = .halt .wareCorrupt := by
  unfold tarHdrToMeta
  cases mustRel h.name with
  | none => right; right; rfl
  | some n =>
    cases tarTypeToFsType h.typeflag with
    | skip => right; left; rfl
    | invalid => right; right; rfl
    | kind k => left; exact ⟨_, rfl⟩

end Rio
