import Rio.Model.Tar
import Rio.Proofs.UnpackNoPanic
import Rio.Proofs.ZipHdr
import Rio.Proofs.UnpackZipNoPanic
/-!
# C17 — Every failure is a categorized rio error; bad input never crashes

`exitCode` models `rio.ExitCodeForCategory` over `rio.ErrorTable`; `requireRio` models the deferred
`RequireErrorHasCategory(&err, rio.ErrorCategory(""))` every public entry point carries.
`unpackTar` (Rio/Model/Tar.lean) returns `ok | err cat | panic`.
-/
namespace Rio

/-- every documented rio category has exactly one exit code, never 0 and never 2 (reserved for crashes) -/
theorem C17_table_total (c : Cat) (h : c.isRio = true) : ∃ n, exitCode c = some n ∧ n ≠ 0 ∧ n ≠ 2 := by
  cases c <;> simp [Cat.isRio] at h <;> simp [exitCode]

/-- the exit-code map is injective on documented categories -/
theorem C17_table_injective (c d : Cat) (hc : c.isRio = true) (hd : d.isRio = true)
    (h : exitCode c = exitCode d) : c = d := by
  cases c <;> cases d <;> simp_all [Cat.isRio, exitCode]

/-- any other category makes `ExitCodeForCategory` panic (model: `none`) — this is why an uncategorised
    error reaching the CLI is a crash. -/
theorem C17_table_partial (c : Cat) (h : c.isRio = false) : exitCode c = none := by
  cases c <;> simp_all [Cat.isRio, exitCode]

/-- the deferred category filter maps every error to a rio category or to the errcat red flag, for which
    no exit code exists -/
theorem C17_require (c : Cat) : (requireRio c).isRio = true ∨ requireRio c = .errcatRejection := by
  unfold requireRio; split <;> simp_all

/-- the tar entry loop turns a header-conversion failure into `ware-corrupt`, never into a panic -/
theorem C17_hdr_never_panics (h : TarHdr) : (∃ m, tarHdrToMeta h = .meta_ m) ∨ tarHdrToMeta h = .skip ∨
    tarHdrToMeta h = .halt .wareCorrupt := by
  unfold tarHdrToMeta
  cases tarTypeToFsType h.typeflag with
  | skip => right; left; rfl
  | invalid => right; right; cases mustRel h.name <;> rfl
  | kind k =>
    cases mustRel h.name with
    | none => right; right; rfl
    | some n => left; exact ⟨_, rfl⟩


/-! ## No panic, for every input (model level; proofs in `Rio/Proofs/{NoCrash,UnpackNoPanic}.lean`) -/

/-- **`HashBucket` never crashes** on a non-empty bucket whose keys are distinct and root-anchored: its only failures
    are the `ErrInvalidFilesystem` panics (missing root, repeated path, missing tree) that the unpackers recover —
    never `index out of range`, `visited k of n nodes` or `slice bounds out of range`. -/
theorem C17_hash_never_crashes (H : Bytes → Bytes) (recs : List Record) (hne : recs ≠ [])
    (hn : (recs.map (·.name)).Nodup) (ha : ∀ r ∈ recs, Anchored r) :
    ∀ p, hashBucket H recs = .error p → p.crashes = false :=
  hashBucket_no_crash H recs hne hn ha

/-- **The tar unpack loop never panics**: for every header list `archive/tar` can hand over (any names — absolute,
    climbing, repeated, children of files —, any type flags, sizes, ids, times), every stream end, every filter
    (including `mtime=now`, reject and ignore rules), every behaviour of the filesystem operations (`ops` is
    arbitrary: any operation may fail at any time) and every hash function, the outcome is `ok` or an error
    category.  The invariant of the loop (`UInv`): bucket keys distinct and anchored, filtered keys among the
    prefilter keys, every directory record in the `dirs` set, and equal buckets under a non-altering filter (so the
    `prefilterHash != filteredHash` paranoia check cannot fire).  Setting up this proof exposed the empty filtered
    bucket (`fix:` 4f5272d). -/
theorem C17_unpack_never_panics {σ : Type} (H : Bytes → Bytes) (ops : FsOps σ) (myUid myGid : Nat)
    (filt : UnpackFilter) (hdrs : List TarHdr) (fin : StreamEnd) (s0 : σ) (head : Bytes) (w : String) :
    unpackTar H ops myUid myGid filt hdrs fin s0 head ≠ .panic w :=
  unpackTar_never_panics H ops myUid myGid filt hdrs fin s0 head w

/-- **The zip owner parser never indexes out of range**: for every byte string in an entry's extra field — blocks cut
    short, sizes that announce more than there is, repeated ids, a field ending inside a block header —
    `zipFileOwnership` (model `zipOwnership`: every slice and index expression of `parseZipExtraHeader`,
    `parseUnix3Header`, `parseUnix2Header` made explicit) answers an owner pair or `rio-ware-corrupt`.  The proof
    obligation for the gid slice of `parseUnix3Header` could not be discharged on the code as it was: a Unix3 block of
    7–10 bytes panicked (`fix:` 7b9f8bb). -/
theorem C17_zip_owner_never_panics (extra : Bytes) : zipOwnership extra ≠ .panic :=
  zipOwnership_never_panics extra

/-- the error branch is reachable and is the one the fix introduced (test): a Unix3 block of seven data bytes
    announcing a four-byte gid -/
example : zipOwnership [0x75, 0x78, 7, 0, 1, 4, 3, 4, 5, 6, 2] = .corrupt := by decide

/-- **The zip unpack loop never panics**: for every entry list `archive/zip` can hand over (any names, any
    `os.FileMode` — devices, fifos, sockets, irregular —, any extra field, any time, bodies that fail to open or to
    read), every filter, every behaviour of the filesystem operations (`ops` is arbitrary) and every hash function,
    the outcome of `unpackZip` is `ok` or an error category.  Same loop invariant as for tar (`UInv`); the per-entry
    step (`zentry_inv`) differs in the header conversion, in reading a symlink's target from its body and in refusing
    every other type.  The zip twin of the empty-filtered-bucket defect was found while this model was being written
    (`fix:` 2d9423e). -/
theorem C17_unpackzip_never_panics {σ : Type} (H : Bytes → Bytes) (ops : FsOps σ) (myUid myGid : Nat)
    (filt : UnpackFilter) (hdrs : List ZipHdr) (readable : Bool) (s0 : σ) (w : String) :
    unpackZip H ops myUid myGid filt hdrs readable s0 ≠ .panic w :=
  unpackZip_never_panics H ops myUid myGid filt hdrs readable s0 w

end Rio
