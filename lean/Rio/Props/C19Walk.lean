import Rio.Model.GitWalk
import Rio.Generated.Facts
/-!
# C19 — "exactly the commit's tree": never a truncated one

`C19_no_truncated_tree`: whatever tree objects the repository has lost, `unpackOneRepo` delivers every path of the
commit's tree or fails with corrupt-ware — `C19_counter_truncated` is what it did before `fix:` e6f1799 (success, the
paths before the hole).  Tied by the `git-hostile missing-subtree` scenario and by the T-fact that the check precedes
the walker.
-/
namespace Rio

mutual
theorem walk_of_check : ∀ (t : GTree), t.check = true → t.walk.2 = false ∧ t.all = some t.walk.1
  | .node es, h => by
    simp only [GTree.check] at h
    simp only [GTree.walk, GTree.all]
    exact walkE_of_check es [] h
theorem walkE_of_check : ∀ (es : GEnts) (pre : List Nat), es.check = true →
    (es.walk pre).2 = false ∧ es.all pre = some (es.walk pre).1
  | .nil, pre, _ => by simp [GEnts.walk, GEnts.all]
  | .file n rest, pre, h => by
    simp only [GEnts.check] at h
    obtain ⟨a, b⟩ := walkE_of_check rest pre h
    simp [GEnts.walk, GEnts.all, a, b]
  | .dir n none rest, pre, h => by simp [GEnts.check] at h
  | .dir n (some (.node es)) rest, pre, h => by
    simp only [GEnts.check, Bool.and_eq_true] at h
    obtain ⟨a1, a2⟩ := walkE_of_check es (pre ++ [n]) h.1
    obtain ⟨b1, b2⟩ := walkE_of_check rest pre h.2
    simp [GEnts.walk, GEnts.all, a1, a2, b1, b2]
end

mutual
theorem all_none_of_not_check : ∀ (t : GTree), t.check = false → t.all = none
  | .node es, h => by
    simp only [GTree.check] at h
    simp only [GTree.all]
    exact allE_none_of_not_check es [] h
theorem allE_none_of_not_check : ∀ (es : GEnts) (pre : List Nat), es.check = false → es.all pre = none
  | .nil, pre, h => by simp [GEnts.check] at h
  | .file n rest, pre, h => by
    simp only [GEnts.check] at h
    simp [GEnts.all, allE_none_of_not_check rest pre h]
  | .dir n none rest, pre, _ => by simp [GEnts.all]
  | .dir n (some (.node es)) rest, pre, h => by
    simp only [GEnts.check, Bool.and_eq_false_iff] at h
    simp only [GEnts.all]
    rcases h with h | h
    · rw [allE_none_of_not_check es (pre ++ [n]) h]
    · rw [allE_none_of_not_check rest pre h]
      cases es.all (pre ++ [n]) <;> rfl
end

/-- **The unpack delivers all of the commit's tree, or fails**: a success lists exactly the paths of the complete tree,
    and the unpack fails exactly when some tree object below the commit's tree is missing. -/
theorem C19_no_truncated_tree (t : GTree) :
    (∀ ps, gitUnpackPaths t = .ok ps → t.all = some ps) ∧ (gitUnpackPaths t = .corrupt ↔ t.all = none) := by
  unfold gitUnpackPaths
  cases hc : t.check with
  | true =>
    obtain ⟨_, h⟩ := walk_of_check t hc
    simp only [if_true]
    refine ⟨fun ps e => by injection e with e; rw [← e]; exact h, ?_⟩
    simp [h]
  | false =>
    simp [all_none_of_not_check t hc]

/-- before the fix: a tree `a, d/ (object lost), z` unpacked successfully to `a` alone -/
theorem C19_counter_truncated :
    gitUnpackPathsOld (.node (.file 1 (.dir 2 none (.file 3 .nil)))) = .ok [[1]] ∧
    gitUnpackPaths (.node (.file 1 (.dir 2 none (.file 3 .nil)))) = .corrupt := by decide

/-- non-vacuity: a complete nested tree is delivered whole -/
example : gitUnpackPaths (.node (.file 1 (.dir 2 (some (.node (.file 5 .nil))) (.file 3 .nil)))) = .ok [[1], [2], [2, 5], [3]] := by
  decide

/-- T-fact tie: `unpackOneRepo` runs `checkSubtreesPresent(tr)` before it creates the tree walker -/
theorem C19_check_precedes_walk : Generated.gitCheckBeforeWalk = true := by decide

end Rio
