import Rio.Model.Pack
import Rio.Proofs.UnpackNoPanic
/-!
# C12 — Filters change exactly the attribute they name

`applyPackFilter` / `applyUnpackFilter` / `PackFilter.apply` are the models of
`filters.ApplyPackFilter`, `filters.ApplyUnpackFilter` and `api.Fileset*Filter.Apply`; they are
tied to the Go code by the `filt` stream (all 324 + 324 complete filter settings × an entry zoo,
plus stacking) and, end to end, by the `unpack` and `pack` streams.

The documented rule is stated independently here (`specPack`, `packRejects`) and the model is
proved equal to it.
-/
namespace Rio

/-! ### the documented per-attribute rule -/

/-- a reject rule names this entry -/
def packRejects (ff : PackFilter) (m : Meta) : Prop :=
  (ff.setid = ffReject ∧ (if ff.sticky ≠ ffKeep then clearBits m.perms permSticky else m.perms) &&& (permSetuid ||| permSetgid) ≠ 0)
  ∨ (ff.dev = ffReject ∧ isDevKind m.kind = true)

instance (ff : PackFilter) (m : Meta) : Decidable (packRejects ff m) := by unfold packRejects; infer_instance

/-- the entry is dropped (device node under `dev=ignore`) -/
def packDrops (ff : PackFilter) (m : Meta) : Bool :=
  ff.dev ≠ ffReject && ff.dev ≠ ffKeep && isDevKind m.kind

/-- attribute by attribute: set uid / gid / mtime to the given value, clear sticky, clear setuid+setgid. -/
def specPack (ff : PackFilter) (m : Meta) : Meta :=
  { m with
    uid := if ff.uid ≠ ffKeep then toU32 ff.uid else m.uid
    gid := if ff.gid ≠ ffKeep then toU32 ff.gid else m.gid
    mtime := if ff.mtime ≠ ffKeep then ⟨ff.mtime, 0⟩ else m.mtime
    perms :=
      let p := if ff.sticky ≠ ffKeep then clearBits m.perms permSticky else m.perms
      if ff.setid ≠ ffReject ∧ ff.setid ≠ ffKeep then clearBits p (permSetuid ||| permSetgid) else p
    kind := if packDrops ff m then .invalid else m.kind }

/-- **The pack filter is the documented rule**: it fails with `filter-rejection` exactly when a reject
    rule names the entry, and otherwise yields the entry with exactly the named attributes changed. -/
theorem C12_pack_entry (ff : PackFilter) (m : Meta) :
    applyPackFilter ff m = if packRejects ff m then .error .filterRejection else .ok (specPack ff m) := by
  unfold applyPackFilter packRejects specPack packDrops
  by_cases h1 : ff.uid = ffKeep <;> by_cases h2 : ff.gid = ffKeep <;> by_cases h3 : ff.mtime = ffKeep <;>
  by_cases h4 : ff.sticky = ffKeep <;> by_cases h5 : ff.setid = ffReject <;> by_cases h6 : ff.setid = ffKeep <;>
  by_cases h7 : ff.dev = ffReject <;> by_cases h8 : ff.dev = ffKeep <;>
  by_cases h9 : isDevKind m.kind = true <;>
  simp [h1, h2, h3, h4, h5, h6, h7, h8, h9] <;>
  (try (split <;> simp_all)) <;> (try (split <;> simp_all))

/-- A rejection is always the `rio-filter-rejection` category, and happens iff an offending entry exists. -/
theorem C12_reject_iff (ff : PackFilter) (m : Meta) :
    (∃ c, applyPackFilter ff m = .error c) ↔ packRejects ff m := by
  rw [C12_pack_entry]
  by_cases h : packRejects ff m <;> simp [h]

/-- Nothing but the named attributes changes: name, size, link target, device numbers and xattrs are
    untouched; the type changes only when the entry is dropped. -/
theorem C12_only_named (ff : PackFilter) (m m' : Meta) (h : applyPackFilter ff m = .ok m') :
    m'.name = m.name ∧ m'.size = m.size ∧ m'.linkname = m.linkname ∧ m'.devmajor = m.devmajor ∧
    m'.devminor = m.devminor ∧ m'.xattrs = m.xattrs ∧ (m'.kind = m.kind ∨ (m'.kind = .invalid ∧ isDevKind m.kind = true)) := by
  rw [C12_pack_entry] at h
  by_cases hr : packRejects ff m
  · simp [hr] at h
  · simp only [hr, if_false] at h
    injection h with h
    subst h
    refine ⟨rfl, rfl, rfl, rfl, rfl, rfl, ?_⟩
    by_cases h' : packDrops ff m = true
    · right
      refine ⟨by simp [specPack, h'], ?_⟩
      unfold packDrops at h'
      simp only [Bool.and_eq_true] at h'
      exact h'.2
    · left; simp [specPack, h']

/-- **Flattening**: when uid, gid and mtime are all set by the filter, the filtered entry does not
    depend on who owned the file or when it was touched. -/
theorem C12_flatten (ff : PackFilter) (m : Meta) (u g : Nat) (t : Time)
    (hu : ff.uid ≠ ffKeep) (hg : ff.gid ≠ ffKeep) (ht : ff.mtime ≠ ffKeep) :
    applyPackFilter ff { m with uid := u, gid := g, mtime := t } = applyPackFilter ff m := by
  simp [C12_pack_entry, packRejects, specPack, packDrops, hu, hg, ht]

/-! ### packing with a filter = lossless packing of the filtered fileset -/

def losslessPack : PackFilter := ⟨true, ffKeep, ffKeep, ffKeep, ffKeep, ffKeep, ffKeep⟩

/-- the filtered fileset: every entry by `specPack`, dropped entries removed -/
def filterFileset (ff : PackFilter) (es : List FsEntry) : List FsEntry :=
  es.filterMap (fun e => if packDrops ff e.m then none else some { e with m := specPack ff e.m })

theorem specPack_lossless (m : Meta) : applyPackFilter losslessPack m = .ok m := by
  simp [C12_pack_entry, packRejects, specPack, packDrops, losslessPack, ffKeep, ffReject]

theorem packEntry_dropped (fmt : PackFmt) (ff : PackFilter) (e : FsEntry) (b : Bucket)
    (he : ¬ packRejects ff e.m) (hd : packDrops ff e.m = true) : packEntry fmt ff e b = .ok b := by
  have hk : (specPack ff e.m).kind = .invalid := by simp [specPack, hd]
  simp [packEntry, C12_pack_entry, he, hk]

theorem packEntry_filtered (fmt : PackFmt) (ff : PackFilter) (e : FsEntry) (b : Bucket)
    (he : ¬ packRejects ff e.m) :
    packEntry fmt ff e b = packEntry fmt losslessPack { e with m := specPack ff e.m } b := by
  simp only [packEntry, specPack_lossless]
  rw [C12_pack_entry]
  simp only [he, if_false]

/-- **C12 (pack)**: if no reject rule fires, packing with `ff` gives the bucket — hence the wareID —
    that lossless packing gives for the filtered fileset. -/
theorem C12_pack (fmt : PackFmt) (ff : PackFilter) (es : List FsEntry) (b : Bucket)
    (hno : ∀ e ∈ es, ¬ packRejects ff e.m) :
    packEntries fmt ff es b = packEntries fmt losslessPack (filterFileset ff es) b := by
  induction es generalizing b with
  | nil => rfl
  | cons e es ih =>
    have he : ¬ packRejects ff e.m := hno e List.mem_cons_self
    have hrest : ∀ e' ∈ es, ¬ packRejects ff e'.m := fun e' h => hno e' (List.mem_cons_of_mem _ h)
    by_cases hd : packDrops ff e.m = true
    · simp only [packEntries, packEntry_dropped fmt ff e b he hd, filterFileset, List.filterMap_cons, hd, if_true]
      exact ih b hrest
    · have hd' : packDrops ff e.m = false := by simpa using hd
      simp only [filterFileset, List.filterMap_cons, hd', Bool.false_eq_true, if_false, packEntries,
        packEntry_filtered fmt ff e b he]
      cases packEntry fmt losslessPack { e with m := specPack ff e.m } b with
      | ok b' => exact ih b' hrest
      | err c => rfl
      | panic w => rfl

/-- Corollary for wareIDs. -/
theorem C12_pack_id (H : Bytes → Bytes) (fmt : PackFmt) (ff : PackFilter) (es : List FsEntry)
    (hno : ∀ e ∈ es, ¬ packRejects ff e.m) :
    packId H fmt ff es = packId H fmt losslessPack (filterFileset ff es) := by
  simp only [packId, C12_pack fmt ff es [] hno]

/-- **C12 (reject)**: the whole pack fails with `filter-rejection` at the first offending entry, if every
    earlier entry could be packed. -/
theorem C12_pack_reject (fmt : PackFmt) (ff : PackFilter) (e : FsEntry) (es : List FsEntry) (b : Bucket)
    (h : packRejects ff e.m) : packEntries fmt ff (e :: es) b = .err .filterRejection := by
  simp [packEntries, packEntry, C12_pack_entry, h]

/-! ### stacking (`user.Apply(defaults)`) -/

theorem C12_cli_stack (user dflt : PackFilter) (hu : user.initialized = true) (hd : dflt.initialized = true) :
    let r := user.apply dflt
    r.uid = (if user.uid = ffUnspecified then dflt.uid else user.uid) ∧
    r.gid = (if user.gid = ffUnspecified then dflt.gid else user.gid) ∧
    r.mtime = (if user.mtime = ffUnspecified then dflt.mtime else user.mtime) ∧
    r.sticky = (if user.sticky = ffUnspecified then dflt.sticky else user.sticky) ∧
    r.setid = (if user.setid = ffUnspecified then dflt.setid else user.setid) ∧
    r.dev = (if user.dev = ffUnspecified then dflt.dev else user.dev) := by
  simp [PackFilter.apply, hu, hd, ffPick]

theorem C12_stack_complete (user dflt : PackFilter) (hu : user.initialized = true)
    (hc : dflt.isComplete = true) : (user.apply dflt).isComplete = true := by
  have hd : dflt.initialized = true := by
    simp only [PackFilter.isComplete, Bool.and_eq_true] at hc; exact hc.1.1.1.1.1.1
  simp only [PackFilter.isComplete, Bool.and_eq_true, bne_iff_ne, ne_eq] at hc ⊢
  simp only [PackFilter.apply, hu, hd, ffPick]
  obtain ⟨⟨⟨⟨⟨⟨_, h1⟩, h2⟩, h3⟩, h4⟩, h5⟩, h6⟩ := hc
  refine ⟨⟨⟨⟨⟨⟨by simp, ?_⟩, ?_⟩, ?_⟩, ?_⟩, ?_⟩, ?_⟩ <;> simp <;> split <;> simp_all

/-- non-vacuity (tests): a setuid file under `setid=reject` is rejected; under `setid=ignore` the bits go. -/
example : packRejects { losslessPack with setid := ffReject } { defaultDirMeta ⟨[0x61], -1⟩ with kind := .file, perms := 0o4755 } := by decide
example : (specPack { losslessPack with setid := ffIgnore } { defaultDirMeta ⟨[0x61], -1⟩ with kind := .file, perms := 0o4755 }).perms = 0o755 := by decide


/-! ### the unpack side -/

/-- a reject rule of the unpack filter names this entry -/
def unpackRejects (ff : UnpackFilter) (m : Meta) : Prop :=
  (ff.setid = ffReject ∧ m.kind ≠ .symlink ∧
    (if ff.sticky ≠ ffKeep then clearBits m.perms permSticky else m.perms) &&& (permSetuid ||| permSetgid) ≠ 0)
  ∨ (ff.dev = ffReject ∧ isDevKind m.kind = true)

instance (ff : UnpackFilter) (m : Meta) : Decidable (unpackRejects ff m) := by unfold unpackRejects; infer_instance

def unpackDrops (ff : UnpackFilter) (m : Meta) : Bool :=
  ff.dev ≠ ffReject && ff.dev ≠ ffKeep && isDevKind m.kind

/-- attribute by attribute: uid / gid become the unpacking process's own ids (`mine`), a given number, or stay; mtime is
    set or stays; sticky and setuid+setgid bits are cleared or stay; a device node is dropped under `dev=ignore`. -/
def specUnpack (myUid myGid : Nat) (ff : UnpackFilter) (m : Meta) : Meta :=
  { m with
    uid := if ff.uid = ffContext then myUid else if ff.uid ≠ ffKeep then toU32 ff.uid else m.uid
    gid := if ff.gid = ffContext then myGid else if ff.gid ≠ ffKeep then toU32 ff.gid else m.gid
    mtime := if ff.mtime ≠ ffKeep then ⟨ff.mtime, 0⟩ else m.mtime
    perms :=
      let p := if ff.sticky ≠ ffKeep then clearBits m.perms permSticky else m.perms
      if ff.setid ≠ ffReject ∧ ff.setid ≠ ffKeep then clearBits p (permSetuid ||| permSetgid) else p
    kind := if ff.dev ≠ ffReject ∧ ff.dev ≠ ffKeep ∧ isDevKind m.kind = true then .invalid else m.kind }

theorem ite_or_same {α : Type} (A B : Prop) [Decidable A] [Decidable B] [Decidable (A ∨ B)] (x y : α) :
    (if A then x else if B then x else y) = (if A ∨ B then x else y) := by
  by_cases ha : A <;> by_cases hb : B <;> simp [ha, hb]

/-- **The unpack filter is the documented rule**: `mtime=now` is a usage error; otherwise it fails with
    `filter-rejection` exactly when a reject rule names the entry, and otherwise yields the entry with exactly the
    named attributes changed — `mine` meaning the ids of the unpacking process. -/
theorem C12_unpack_entry (myUid myGid : Nat) (ff : UnpackFilter) (m : Meta) :
    applyUnpackFilter myUid myGid ff m =
      if ff.mtime = ffContext then .err .usage
      else if unpackRejects ff m then .err .filterRejection else .ok (specUnpack myUid myGid ff m) := by
  rw [applyUnpackFilter_eq]
  -- the rules act on disjoint fields: compose them
  have hperms : (fSticky ff (fMtime ff (fGid myGid ff (fUid myUid ff m)))).perms =
      (if ff.sticky ≠ ffKeep then clearBits m.perms permSticky else m.perms) := by
    have p1 : (fUid myUid ff m).perms = m.perms := by unfold fUid; split <;> (try split) <;> rfl
    have p2 : ∀ x, (fGid myGid ff x).perms = x.perms := by intro x; unfold fGid; split <;> (try split) <;> rfl
    have p3 : ∀ x, (fMtime ff x).perms = x.perms := by intro x; unfold fMtime; split <;> rfl
    unfold fSticky
    split <;> simp [p1, p2, p3]
  have hkind : (fSetid ff (fSticky ff (fMtime ff (fGid myGid ff (fUid myUid ff m))))).kind = m.kind := by
    rw [(fSetid_nk _ _).2, (fSticky_nk _ _).2, (fMtime_nk _ _).2, (fGid_nk _ _ _).2, (fUid_nk _ _ _).2]
  have hkind0 : (fSticky ff (fMtime ff (fGid myGid ff (fUid myUid ff m)))).kind = m.kind := by
    rw [(fSticky_nk _ _).2, (fMtime_nk _ _).2, (fGid_nk _ _ _).2, (fUid_nk _ _ _).2]
  have hk : ffKeep ≠ ffContext := by decide
  have hspec : fDev ff (fSetid ff (fSticky ff (fMtime ff (fGid myGid ff (fUid myUid ff m))))) = specUnpack myUid myGid ff m := by
    -- field by field
    have u1 : (fUid myUid ff m) = { m with uid := if ff.uid = ffContext then myUid else if ff.uid ≠ ffKeep then toU32 ff.uid else m.uid } := by
      unfold fUid; split <;> (try split) <;> simp_all
    have g1 : ∀ x : Meta, fGid myGid ff x = { x with gid := if ff.gid = ffContext then myGid else if ff.gid ≠ ffKeep then toU32 ff.gid else x.gid } := by
      intro x; unfold fGid; split <;> (try split) <;> simp_all
    have m1 : ∀ x : Meta, fMtime ff x = { x with mtime := if ff.mtime ≠ ffKeep then ⟨ff.mtime, 0⟩ else x.mtime } := by
      intro x; unfold fMtime; split <;> simp_all
    have s1 : ∀ x : Meta, fSticky ff x = { x with perms := if ff.sticky ≠ ffKeep then clearBits x.perms permSticky else x.perms } := by
      intro x; unfold fSticky; split <;> simp_all
    have i1 : ∀ x : Meta, fSetid ff x = { x with perms := if ff.setid ≠ ffReject ∧ ff.setid ≠ ffKeep then clearBits x.perms (permSetuid ||| permSetgid) else x.perms } := by
      intro x; unfold fSetid; split <;> simp_all
    have d1 : ∀ x : Meta, fDev ff x = { x with kind := if ff.dev ≠ ffReject ∧ ff.dev ≠ ffKeep ∧ isDevKind x.kind = true then .invalid else x.kind } := by
      intro x; unfold fDev; split <;> simp_all
    rw [d1, i1, s1, m1, g1, u1]
    rfl
  rw [hperms, hkind, hkind0, hspec]
  unfold unpackRejects
  split
  · rfl
  · exact ite_or_same _ _ _ _

/-- a symlink whose header claims setuid bits offends nothing (no file system gives a symlink a mode of its own, a cache
    shelf cannot show one): `setid=reject` lets it pass — on a cold cache as on a warm one; a file with the same bits is
    rejected (tests) -/
example : applyUnpackFilter 0 0 ⟨true, ffKeep, ffKeep, ffKeep, ffKeep, ffReject, ffKeep⟩ { defaultDirMeta ⟨[0x61], -1⟩ with kind := .symlink, perms := 0o4777 }
    = .ok { defaultDirMeta ⟨[0x61], -1⟩ with kind := .symlink, perms := 0o4777 } := by decide
example : applyUnpackFilter 0 0 ⟨true, ffKeep, ffKeep, ffKeep, ffKeep, ffReject, ffKeep⟩ { defaultDirMeta ⟨[0x61], -1⟩ with kind := .file, perms := 0o4777 }
    = .err .filterRejection := by decide

/-- `uid=mine` / `gid=mine`: the delivered entry carries the ids of the unpacking process — uid from the uid, gid from
    the gid -/
theorem C12_unpack_mine (myUid myGid : Nat) (ff : UnpackFilter) (m m' : Meta)
    (h : applyUnpackFilter myUid myGid ff m = .ok m') :
    (ff.uid = ffContext → m'.uid = myUid) ∧ (ff.gid = ffContext → m'.gid = myGid) := by
  rw [C12_unpack_entry] at h
  split at h
  · cases h
  · split at h
    · cases h
    · injection h with h; subst h
      exact ⟨fun e => by simp [specUnpack, e], fun e => by simp [specUnpack, e]⟩

/-- nothing but the named attributes changes on the unpack side either -/
theorem C12_unpack_only_named (myUid myGid : Nat) (ff : UnpackFilter) (m m' : Meta)
    (h : applyUnpackFilter myUid myGid ff m = .ok m') :
    m'.name = m.name ∧ m'.size = m.size ∧ m'.linkname = m.linkname ∧ m'.devmajor = m.devmajor ∧
    m'.devminor = m.devminor ∧ m'.xattrs = m.xattrs := by
  rw [C12_unpack_entry] at h
  split at h
  · cases h
  · split at h
    · cases h
    · injection h with h; subst h; exact ⟨rfl, rfl, rfl, rfl, rfl, rfl⟩

end Rio
