import Rio.Model.Asm
import Rio.Generated.Facts
/-!
# C15 — Failed assemblies are rolled back; teardown never deletes after a failure
-/
namespace Rio

def TdEv.jid : TdEv → Nat
  | .attempt i => i
  | .skip i => i

/-- every janitor is accounted for exactly once, newest first -/
theorem teardownFrom_ids (fails : Nat → Bool) (js : List Janitor) (fe : Option Nat) :
    (teardownFrom fails js fe).1.map TdEv.jid = js.map (·.id) := by
  induction js generalizing fe with
  | nil => rfl
  | cons j js ih =>
    simp only [teardownFrom]
    split
    · simp [TdEv.jid, ih]
    · simp [TdEv.jid, ih]

/-- **Order**: `Teardown` goes over all placements newest-first, each exactly once. -/
theorem C15_order (fails : Nat → Bool) (stack : List Janitor) :
    (teardown fails stack).1.map TdEv.jid = (stack.reverse.map (·.id)) := by
  unfold teardown; exact teardownFrom_ids fails _ _

/-- once an error is pending, every never-after-failure janitor is skipped and every always-try janitor is attempted -/
theorem teardownFrom_after_failure (fails : Nat → Bool) (js : List Janitor) (e : Nat) :
    (teardownFrom fails js (some e)).1 = js.map (fun j => if j.alwaysTry then TdEv.attempt j.id else TdEv.skip j.id) ∧
    (teardownFrom fails js (some e)).2 = some e := by
  induction js with
  | nil => exact ⟨rfl, rfl⟩
  | cons j js ih =>
    simp only [teardownFrom, Option.isSome_some, Bool.true_and]
    cases hj : j.alwaysTry
    · simp [ih.1, ih.2, hj]
    · simp only [Bool.not_true, Bool.false_eq_true, if_false]
      have : (if fails j.id = true then (some e <|> some j.id) else some e) = some e := by split <;> rfl
      simp [this, ih.1, ih.2, hj]

/-- before any failure every janitor is attempted -/
theorem teardownFrom_until_failure (fails : Nat → Bool) (pre : List Janitor) (j : Janitor) (post : List Janitor)
    (hpre : ∀ k ∈ pre, fails k.id = false) (hj : fails j.id = true) :
    (teardownFrom fails (pre ++ j :: post) none).1 =
      pre.map (fun k => TdEv.attempt k.id) ++ TdEv.attempt j.id ::
        post.map (fun k => if k.alwaysTry then TdEv.attempt k.id else TdEv.skip k.id) ∧
    (teardownFrom fails (pre ++ j :: post) none).2 = some j.id := by
  induction pre with
  | nil =>
    simp only [List.nil_append, teardownFrom, Option.isSome_none, Bool.false_and, Bool.false_eq_true, if_false, hj, if_true]
    have := teardownFrom_after_failure fails post j.id
    simp [this.1, this.2]
  | cons k ks ih =>
    have hk : fails k.id = false := hpre k List.mem_cons_self
    have := ih (fun x hx => hpre x (List.mem_cons_of_mem _ hx))
    simp only [List.cons_append, teardownFrom, Option.isSome_none, Bool.false_and, Bool.false_eq_true, if_false, hk]
    simp [this.1, this.2]

/-- **No delete after a failure**: split the (newest-first) janitor list at the first failing one. Everything newer
    is attempted; the failing one is attempted; of the older ones exactly the always-try (unmount-style) janitors
    are still attempted and the recursive-delete ones are skipped; the first failure is what is reported. -/
theorem C15_no_delete_after_failure (fails : Nat → Bool) (stack : List Janitor) (pre : List Janitor) (j : Janitor)
    (post : List Janitor) (hs : stack.reverse = pre ++ j :: post)
    (hpre : ∀ k ∈ pre, fails k.id = false) (hj : fails j.id = true) :
    (teardown fails stack).1 = pre.map (fun k => TdEv.attempt k.id) ++ TdEv.attempt j.id ::
        post.map (fun k => if k.alwaysTry then TdEv.attempt k.id else TdEv.skip k.id) ∧
    (teardown fails stack).2 = some j.id := by
  unfold teardown; rw [hs]; exact teardownFrom_until_failure fails pre j post hpre hj

/-- if nothing fails, everything is attempted and no error is reported -/
theorem C15_all_ok (fails : Nat → Bool) (stack : List Janitor) (h : ∀ k ∈ stack, fails k.id = false) :
    (teardown fails stack).1 = stack.reverse.map (fun k => TdEv.attempt k.id) ∧ (teardown fails stack).2 = none := by
  unfold teardown
  have h' : ∀ k ∈ stack.reverse, fails k.id = false := fun k hk => h k (List.mem_reverse.1 hk)
  generalize stack.reverse = l at h'
  induction l with
  | nil => exact ⟨rfl, rfl⟩
  | cons k ks ih =>
    have hk := h' k List.mem_cons_self
    have := ih (fun x hx => h' x (List.mem_cons_of_mem _ hx))
    simp only [teardownFrom, Option.isSome_none, Bool.false_and, Bool.false_eq_true, if_false, hk]
    simp [this.1, this.2]

/-- the placement loop: `done` parts were placed (their janitors are on the stack), then part `p` fails -/
theorem placeLoop_rollback (tdFails : Nat → Bool) (done : List Part) (p : Part) (rest : List Part) (stack : List Janitor)
    (hdone : ∀ q ∈ done, q.parentFails = false ∧ q.placeFails = false)
    (hp : p.parentFails = true ∨ p.placeFails = true) :
    let stack' := stack ++ done.map (fun q => ⟨q.id, q.alwaysTry⟩)
    let r := placeLoop tdFails (done ++ p :: rest) stack
    r.1 = (done.flatMap (fun q => [AsmEv.parents q.id, AsmEv.place q.id])) ++
        (if p.parentFails then [AsmEv.parents p.id] else [AsmEv.parents p.id, AsmEv.place p.id]) ++
        (teardown tdFails stack').1.map AsmEv.td ∧
    r.2.1 = .failed (if p.parentFails then "parents" else "place") p.id := by
  induction done generalizing stack with
  | nil =>
    simp only [List.nil_append, List.map_nil, List.append_nil, List.flatMap_nil, placeLoop]
    rcases hp with hp | hp
    · simp [hp]
    · cases hpf : p.parentFails <;> simp [hp]
  | cons q qs ih =>
    obtain ⟨h1, h2⟩ := hdone q List.mem_cons_self
    have := ih (stack ++ [⟨q.id, q.alwaysTry⟩]) (fun x hx => hdone x (List.mem_cons_of_mem _ hx))
    simp only [List.cons_append, placeLoop, h1, h2, Bool.false_eq_true, if_false]
    simp only [List.append_assoc, List.singleton_append] at this
    simp only [List.map_cons, List.flatMap_cons, List.append_assoc, List.cons_append, List.nil_append]
    exact ⟨by rw [this.1], this.2⟩

/-- **Rollback**: if every unpack succeeds and the first failing step is parent creation or placement of input
    `p`, then exactly the inputs before `p` were placed, in order, and before the error is returned every one of
    them is torn down by `Teardown` (newest first, C15_order / C15_no_delete_after_failure). For any number of inputs. -/
theorem C15_rollback (tdFails : Nat → Bool) (done : List Part) (p : Part) (rest : List Part)
    (hu : ∀ q ∈ done ++ p :: rest, q.unpackFails = false)
    (hdone : ∀ q ∈ done, q.parentFails = false ∧ q.placeFails = false)
    (hp : p.parentFails = true ∨ p.placeFails = true) :
    let r := asmRun tdFails (done ++ p :: rest)
    r.1 = (done.flatMap (fun q => [AsmEv.parents q.id, AsmEv.place q.id])) ++
        (if p.parentFails then [AsmEv.parents p.id] else [AsmEv.parents p.id, AsmEv.place p.id]) ++
        (teardown tdFails (done.map (fun q => ⟨q.id, q.alwaysTry⟩))).1.map AsmEv.td ∧
    r.2.1 = .failed (if p.parentFails then "parents" else "place") p.id := by
  have hfind : (done ++ p :: rest).find? (·.unpackFails) = none :=
    List.find?_eq_none.2 (fun q hq => by simp [hu q hq])
  simp only [asmRun, hfind]
  have := placeLoop_rollback tdFails done p rest [] hdone hp
  simpa using this

/-- a failing unpack aborts the assembly before anything is placed -/
theorem C15_unpack_failure_places_nothing (tdFails : Nat → Bool) (parts : List Part) (p : Part)
    (h : parts.find? (·.unpackFails) = some p) : asmRun tdFails parts = ([], .failed "unpack" p.id, []) := by
  simp [asmRun, h]

/-- T-fact ties: the copy janitor (recursive delete) is never-after-failure, the unmount-style janitors are
    always-try; every error return of the placement loop tears down first. -/
theorem C15_ties :
    Generated.janitorAlwaysTry = [("aufsJanitor", true), ("bindJanitor", true), ("copyJanitor", false), ("overlayJanitor", true)] ∧
    Generated.asmRollbackSites = [("parent-creation", true), ("placement", true)] := by decide

/-- a test: four janitors, the third (id 2) fails -/
example : (teardown (fun i => i == 2) [⟨0, false⟩, ⟨1, true⟩, ⟨2, true⟩, ⟨3, false⟩]).1 =
    [.attempt 3, .attempt 2, .attempt 1, .skip 0] := by decide

/-- **Filler properties that are no directory place nothing**: the refusal comes before the first unpack and the first
    placement — no event, no janitor on the stack, hence nothing to roll back (before the `fix:` the first filler parent
    panicked in `PlaceFile` after earlier inputs were mounted: the `asmbusy-badfiller` stream). With directory properties
    `Run` is what the rest of this file proves things about. -/
theorem C15_bad_filler_places_nothing (tdFails : Nat → Bool) (parts : List Part) :
    asmRunChecked false tdFails parts = ([], .failed "filler" 0, []) ∧
    asmRunChecked true tdFails parts = asmRun tdFails parts := ⟨rfl, rfl⟩

end Rio
