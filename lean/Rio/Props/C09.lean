import Rio.Model.Cache
import Rio.Generated.Facts
/-!
# C09 — A cache shelf exists only for a complete, verified fileset

Transition system `cstep` (Rio/Model/Cache.lean): any number of processes, arbitrary interleaving of
their protocol steps, a crash = a process that is never scheduled again.  Tied to the Go code by the
`cache` stream (barrier scheduler in the `cache.*` instrumentation points).
-/
namespace Rio

/-- every shelf holds exactly the fileset it is named after -/
def ShelvesOk (s : CState) : Prop := ∀ kc ∈ s.shelves, kc.2 = .complete kc.1

/-- a process past a successful unpack holds the complete, verified fileset in its temp dir -/
def ProcOk (p : Proc) : Prop :=
  match p.pc with
  | .atUnpacked rid | .atRename rid => p.tmp = some (.complete (shelfKey p rid))
  | .atLookup | .atTmp | .atRenamed _ | .atPlace _ _ | .done _ => p.tmp = none
  | .unpacking => True

def Inv (s : CState) : Prop := ShelvesOk s ∧ ∀ p ∈ s.procs, ProcOk p

theorem mem_set {α : Type} (l : List α) (i : Nat) (a x : α) (h : x ∈ l.set i a) : x = a ∨ x ∈ l := by
  induction l generalizing i with
  | nil => simp at h
  | cons y ys ih =>
    cases i with
    | zero => simp at h; rcases h with h | h <;> simp [h]
    | succ i =>
      simp at h
      rcases h with h | h
      · simp [h]
      · rcases ih i h with h | h <;> simp [h]

theorem inv_setProc (s : CState) (i : Nat) (p : Proc) (h : Inv s) (hp : ProcOk p) : Inv (setProc s i p) := by
  refine ⟨h.1, ?_⟩
  intro q hq
  rcases mem_set _ _ _ _ hq with rfl | hq
  · exact hp
  · exact h.2 q hq

theorem C09_inv_init (ps : List Proc) (shelves : List WareId)
    (hps : ∀ p ∈ ps, p.pc = .atLookup ∧ p.tmp = none) : Inv (initState ps shelves) := by
  refine ⟨?_, ?_⟩
  · intro kc hkc
    simp only [initState, List.mem_map] at hkc
    obtain ⟨k, _, rfl⟩ := hkc; rfl
  · intro p hp
    obtain ⟨h1, h2⟩ := hps p hp
    simp [ProcOk, h1, h2]

/-- **One step of any process preserves the invariant.** -/
theorem C09_inv_step (s : CState) (i : Nat) (h : Inv s) : Inv (cstep s i) := by
  unfold cstep
  cases hg : s.procs[i]? with
  | none => exact h
  | some p =>
    have hp : ProcOk p := h.2 p (List.mem_of_getElem? hg)
    simp only
    cases hpc : p.pc with
    | done r => exact h
    | atLookup =>
      simp only
      split
      · split
        · exact inv_setProc _ _ _ h (by simp [ProcOk, hpc] at hp; simp [ProcOk, hp])
        · exact inv_setProc _ _ _ h (by simp [ProcOk, hpc] at hp; simp [ProcOk, hp])
      · split
        · exact inv_setProc _ _ _ h (by simp [ProcOk, hpc] at hp; simp [ProcOk, hp])
        · exact inv_setProc _ _ _ h (by simp [ProcOk, hpc] at hp; simp [ProcOk, hp])
    | atTmp => exact inv_setProc _ _ _ h (by simp [ProcOk])
    | unpacking =>
      simp only
      cases p.yield with
      | error c => exact inv_setProc _ _ _ h (by simp [ProcOk])
      | ok rid => exact inv_setProc _ _ _ h (by simp [ProcOk, shelfKey])
    | atUnpacked rid =>
      exact inv_setProc _ _ _ h (by simp [ProcOk, hpc] at hp; simp [ProcOk, hp, shelfKey])
    | atRename rid =>
      simp only
      split
      · exact inv_setProc _ _ _ h (by simp [ProcOk])
      · have htmp : p.tmp = some (.complete (shelfKey p rid)) := by simpa [ProcOk, hpc] using hp
        have h' : Inv { s with shelves := (shelfKey p rid, p.tmp.getD .partial_) :: s.shelves } := by
          refine ⟨?_, h.2⟩
          intro kc hkc
          simp only [List.mem_cons] at hkc
          rcases hkc with rfl | hkc
          · simp [htmp]
          · exact h.1 kc hkc
        exact inv_setProc _ _ _ h' (by simp [ProcOk])
    | atRenamed rid => exact inv_setProc _ _ _ h (by simp [ProcOk, hpc] at hp; simp [ProcOk, hp])
    | atPlace k rid => exact inv_setProc _ _ _ h (by simp [ProcOk, hpc] at hp; simp [ProcOk, hp])

/-- **C09**: in every state reachable by any schedule of any number of processes (a crashed process is
    one that stops being scheduled), every shelf holds exactly the complete fileset it is named after. -/
theorem C09_inv (ps : List Proc) (shelves : List WareId) (sched : List Nat)
    (hps : ∀ p ∈ ps, p.pc = .atLookup ∧ p.tmp = none) :
    ShelvesOk (runSchedule (initState ps shelves) sched) := by
  suffices ∀ s, Inv s → Inv (runSchedule s sched) from (this _ (C09_inv_init ps shelves hps)).1
  induction sched with
  | nil => intro s h; exact h
  | cons i is ih => intro s h; exact ih _ (C09_inv_step s i h)

/-- **Clean return**: a process that has returned (ok or error) has no temp directory left. -/
theorem C09_clean (ps : List Proc) (shelves : List WareId) (sched : List Nat)
    (hps : ∀ p ∈ ps, p.pc = .atLookup ∧ p.tmp = none) :
    ∀ p ∈ (runSchedule (initState ps shelves) sched).procs, (∃ r, p.pc = .done r) → p.tmp = none := by
  have : Inv (runSchedule (initState ps shelves) sched) := by
    suffices ∀ s, Inv s → Inv (runSchedule s sched) from this _ (C09_inv_init ps shelves hps)
    induction sched with
    | nil => intro s h; exact h
    | cons i is ih => intro s h; exact ih _ (C09_inv_step s i h)
  intro p hp ⟨r, hr⟩
  have := this.2 p hp
  simpa [ProcOk, hr] using this

/-- **A failing unpack adds no shelf**: the step that consumes an error from the unpack tool leaves the
    shelves unchanged and removes the temp dir. -/
theorem C09_fail_adds_nothing (s : CState) (i : Nat) (p : Proc) (c : Cat)
    (hg : s.procs[i]? = some p) (hpc : p.pc = .unpacking) (hy : p.yield = .error c) :
    (cstep s i).shelves = s.shelves ∧ (cstep s i).procs[i]? = some { p with pc := .done (.error c), tmp := none } := by
  have hi : i < s.procs.length := by
    rcases List.getElem?_eq_some_iff.1 hg with ⟨h, _⟩; exact h
  unfold cstep
  rw [hg]
  simp only [hpc, hy]
  exact ⟨rfl, by simp [setProc, hi]⟩

/-- **The loser of a rename race succeeds**: if the shelf already exists at rename time the process goes on to
    place from it and reports the same wareID. -/
theorem C09_race_loser_succeeds (s : CState) (i : Nat) (p : Proc) (rid : WareId)
    (hg : s.procs[i]? = some p) (hpc : p.pc = .atRename rid) (hs : hasShelf s (shelfKey p rid) = true) :
    (cstep s i).procs[i]? = some { p with pc := .atPlace (shelfKey p rid) rid, tmp := none } ∧ (cstep s i).shelves = s.shelves := by
  have hi : i < s.procs.length := by
    rcases List.getElem?_eq_some_iff.1 hg with ⟨h, _⟩; exact h
  unfold cstep
  rw [hg]
  simp only [hpc, hs, if_true]
  exact ⟨by simp [setProc, hi], rfl⟩

/-- **A filtered tree never lands on the shelf lossless requests are served from** (the keyed shelf of the `fix:`): the
    commit step of a process with an altering filter whose tool reported the requested id itself adds a shelf under a
    key that no lookup uses — lookups of altering requests use `-`, lookups of lossless requests use a ware id, and
    neither ends in the `+` mark as long as ware ids do not (base58 has no `+`). -/
theorem C09_filtered_tree_off_the_lossless_shelf (s : CState) (i : Nat) (p : Proc) (rid : WareId)
    (hg : s.procs[i]? = some p) (hpc : p.pc = .atRename rid) (halt : p.altering = true) (hsame : rid = p.req)
    (q : Proc) (hq : q.altering = false) (hid : q.req.getLast? ≠ some 0x2b) :
    ∀ kc ∈ (cstep s i).shelves, kc ∉ s.shelves → kc.1 ≠ lookupKey q := by
  intro kc hkc hnew
  unfold cstep at hkc
  rw [hg] at hkc
  simp only [hpc] at hkc
  split at hkc
  · exact absurd hkc hnew
  · simp only [setProc, List.mem_cons] at hkc
    rcases hkc with rfl | hkc
    · simp only [lookupKey, hq, shelfKey, halt, hsame]
      intro heq
      simp at heq
      rw [← heq] at hid
      simp at hid
    · exact absurd hkc hnew

/-- …and an unaltered tree (or a filtered tree with an id of its own) is shelved under exactly the reported id. -/
theorem C09_shelfKey_plain (p : Proc) (rid : WareId) (h : p.altering = false ∨ rid ≠ p.req) : shelfKey p rid = rid := by
  unfold shelfKey
  rcases h with h | h <;> simp [h]

/-- **T-fact tie for the model's per-process temp dir.**  `Proc.tmp` is private to a process: the model assumes two
    processes never pick the same `.tmp.unpack.*` name.  In the code the name is `guid.New()`; it is fresh within
    a process only if the generator's shared state is read and written under its mutex alone.  (Freshness across
    OS processes rests on the 80 random bits; stated in the trusted base.) -/
theorem C09_tmp_names_tie :
    Generated.populateTmpFromGuid = true ∧ Generated.guidSharedOutsideLock = [] ∧
    Generated.guidLockEvents = ["lock", "unlock"] := by decide

/-- non-vacuity (a test): two processes racing on the same ware, interleaved; both end `ok`, one shelf. -/
example :
    let s := runSchedule (initState [mkProc [1] false .copy (.ok [1]), mkProc [1] false .none_ (.ok [1])] [])
      [0, 1, 0, 1, 0, 1, 0, 1, 0, 0, 1, 1, 0, 1, 0, 1]
    s.procs.map (·.pc) = [.done (.ok [1]), .done (.ok [1])] ∧ s.shelves = [([1], .complete [1])] := by decide

/-- non-vacuity (a test): an altering request whose tool reports the requested id (git; `dev=ignore`), then a lossless
    request for the same ware: two shelves, the lossless one is not served from the filtered tree. -/
example :
    let s := runSchedule (initState [mkProc [1] true .copy (.ok [1]), mkProc [1] false .copy (.ok [1])] [])
      [0, 0, 0, 0, 0, 0, 0, 0, 1, 1, 1, 1, 1, 1, 1, 1]
    s.procs.map (·.pc) = [.done (.ok [1]), .done (.ok [1])] ∧
      s.shelves = [([1], .complete [1]), ([1, 0x2b], .complete [1, 0x2b])] := by decide

end Rio
