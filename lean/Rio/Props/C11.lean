import Rio.Model.Place
import Rio.Generated.Facts
/-!
# C11 — Using a cached fileset never changes it
-/
namespace Rio

/-- no placement writes through to the shelf -/
def NoRwBind (ops : List POp) : Prop := ∀ op ∈ ops, op ≠ .place .bindRw

theorem pstep_shelf (s : PState) (op : POp) (h : ∀ p ∈ s.pls, p.kind ≠ .bindRw) (hop : op ≠ .place .bindRw) :
    (pstep s op).shelf = s.shelf ∧ ∀ p ∈ (pstep s op).pls, p.kind ≠ .bindRw := by
  cases op with
  | place k =>
    refine ⟨rfl, ?_⟩
    intro p hp
    simp only [pstep, List.mem_append, List.mem_singleton] at hp
    rcases hp with hp | rfl
    · exact h p hp
    · intro e; exact hop (by simp at e; rw [e])
  | write i c =>
    simp only [pstep]
    cases hg : s.pls[i]? with
    | none => exact ⟨rfl, h⟩
    | some p =>
      have hp : p.kind ≠ .bindRw := h p (List.mem_of_getElem? hg)
      simp only
      split
      · exact ⟨rfl, h⟩
      · cases hk : p.kind with
        | bindRw => exact absurd hk hp
        | bindRo => exact ⟨rfl, h⟩
        | copy =>
          refine ⟨rfl, ?_⟩
          intro q hq
          rcases mem_set' _ _ _ _ hq with rfl | hq
          · simpa using hp
          · exact h q hq
        | overlayRw =>
          refine ⟨rfl, ?_⟩
          intro q hq
          rcases mem_set' _ _ _ _ hq with rfl | hq
          · simpa using hp
          · exact h q hq
  | teardown i =>
    simp only [pstep]
    cases hg : s.pls[i]? with
    | none => exact ⟨rfl, h⟩
    | some p =>
      refine ⟨rfl, ?_⟩
      intro q hq
      rcases mem_set' _ _ _ _ hq with rfl | hq
      · simpa using h p (List.mem_of_getElem? hg)
      · exact h q hq
where
  mem_set' {α : Type} (l : List α) (i : Nat) (a x : α) (h : x ∈ l.set i a) : x = a ∨ x ∈ l := by
    induction l generalizing i with
    | nil => simp at h
    | cons y ys ih =>
      cases i with
      | zero => simp at h; rcases h with h | h <;> simp [h]
      | succ i =>
        simp at h
        rcases h with h | h
        · simp [h]
        · rcases ih i h with h | h <;> simp [h]

/-- **C11**: whatever finite sequence of placements (copy, writable overlay, read-only bind), writes inside placed
    trees, and teardowns is performed, the shelf stays exactly as committed — and therefore every later placement
    from it shows the committed fileset again. -/
theorem C11_inv (shelf : Content_) (ops : List POp) (h : NoRwBind ops) :
    (prun ⟨shelf, []⟩ ops).shelf = shelf := by
  suffices ∀ s : PState, (∀ p ∈ s.pls, p.kind ≠ .bindRw) → (prun s ops).shelf = s.shelf from
    this ⟨shelf, []⟩ (by simp)
  induction ops with
  | nil => intro s _; rfl
  | cons op ops ih =>
    intro s hs
    have hop : op ≠ .place .bindRw := h op List.mem_cons_self
    obtain ⟨e, hs'⟩ := pstep_shelf s op hs hop
    have := ih (fun o ho => h o (List.mem_cons_of_mem _ ho)) (pstep s op) hs'
    simp only [prun, List.foldl_cons] at this ⊢
    rw [this, e]

/-- a fresh placement shows exactly the shelf -/
theorem C11_faithful_again (shelf : Content_) (ops : List POp) (k : PlKind) (h : NoRwBind ops) :
    let s := prun ⟨shelf, []⟩ ops
    ∀ p, (pstep s (.place k)).pls.getLast? = some p → pview (pstep s (.place k)) p = shelf := by
  intro s p hp
  have hs : s.shelf = shelf := C11_inv shelf ops h
  simp only [pstep, List.getLast?_append, List.getLast?_singleton, Option.some_or] at hp
  injection hp with hp
  subst hp
  cases k <;> simp [pview, hs, pstep]

/-- **Dispatch never yields a writable bind of the shelf**, whatever kind of node the shelf's root is: every route of
    `cache.place` gives copy, writable overlay or read-only bind. (Until `fix:` a0ae968 this needed the hypothesis
    `root = .file ∨ root = .dir`: a fifo / device / symlink root was bound writable — `C11_counter_rw_bind` on the
    implementation.) -/
theorem C11_dispatch_safe (mode : Mode) (root : Kind) (k : PlKind)
    (h : cachePlaceFor mode root = some k) : k ≠ .bindRw := by
  cases root <;> cases mode <;> simp [cachePlaceFor, overlayPlacerFor] at h <;> subst h <;> decide

/-- and any read-only request is a read-only bind -/
theorem C11_readonly (root : Kind) : overlayPlacerFor root false = .bindRo := by simp [overlayPlacerFor]

/-- Why a writable bind would be wrong: one write through it changes the shelf (model witness). -/
theorem C11_counter_rw_bind : (prun ⟨7, []⟩ [.place .bindRw, .write 0 8]).shelf = 8 := by decide

/-- T-fact ties: the dispatch tables and mount flags in the code are the ones modelled. -/
theorem C11_ties :
    Generated.overlayDispatch = [(["fs.Type_File"], "CopyPlacer:writable"), (["fs.Type_Dir"], "continue"),
      (["fs.Type_Symlink", "fs.Type_NamedPipe", "fs.Type_Socket", "fs.Type_Device", "fs.Type_CharDevice"], "BindPlacer:false"),
      (["default"], "panic")] ∧
    Generated.overlayReadonlyShortcut = "return BindPlacer(srcPath, dstPath, writable)" ∧
    Generated.bindFlags = [":= syscall.MS_BIND | syscall.MS_REC", "|= syscall.MS_RDONLY | syscall.MS_REMOUNT"] ∧
    Generated.overlayOptions = "lowerdir=%s,upperdir=%s,workdir=%s" ∧
    Generated.cachePlaceSwitch = [(["rio.Placement_None"], "return nil"), (["rio.Placement_Direct"], "CopyPlacer"),
      (["rio.Placement_Copy"], "CopyPlacer"), (["rio.Placement_Mount"], "GetMountPlacer"), (["default"], "return nil")] := by
  decide

end Rio
