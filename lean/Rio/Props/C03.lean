import Rio.Model.Fetch
/-!
# C03 — A fetched ware is accepted only if it hashes to the requested wareID

`wrapUnpack` models `util.wrapUnpacker`, `mirror` models `util.CreateMirror`; `unpackTar` is the model
of the tar unpacker over the header list `archive/tar` decodes from the bytes actually fetched
(that decoding is the codec hypothesis; the `fetch` stream hands the model the decoded form of every
altered ware and compares outcomes with the real `Unpack` / `Mirror`).
-/
namespace Rio

variable {σ : Type}

/-- **Success implies verified**: if a fetch-and-unpack succeeds, the tree hash recomputed from the fetched
    entries (before filtering) is the requested one. For every filesystem, filter, hash function. -/
theorem C03_unpack (H : Bytes → Bytes) (ops : FsOps σ) (mu mg : Nat) (filt : UnpackFilter) (req : Bytes)
    (pick : PickRes) (hdrs : List TarHdr) (fin : StreamEnd) (head : Bytes) (s0 s : σ) (post : Bytes)
    (h : wrapUnpack H ops mu mg filt req pick hdrs fin head s0 = .ok (s, post)) :
    unpackTar H ops mu mg filt hdrs fin s0 head = .ok (s, req, post) := by
  unfold wrapUnpack at h
  cases pick with
  | err c => simp at h
  | opened i =>
    simp only at h
    cases hu : unpackTar H ops mu mg filt hdrs fin s0 head with
    | panic w => simp [hu] at h
    | err c => simp [hu] at h
    | ok r =>
      obtain ⟨s', pre, post'⟩ := r
      simp only [hu] at h
      by_cases hp : pre = req
      · subst hp; simp at h; obtain ⟨rfl, rfl⟩ := h; rfl
      · simp [hp] at h

/-- **A ware that still parses but encodes another fileset is refused with exactly `hash-mismatch`.** -/
theorem C03_mismatch (H : Bytes → Bytes) (ops : FsOps σ) (mu mg : Nat) (filt : UnpackFilter) (req : Bytes)
    (i : Nat) (hdrs : List TarHdr) (fin : StreamEnd) (head : Bytes) (s0 s : σ) (pre post : Bytes)
    (hu : unpackTar H ops mu mg filt hdrs fin s0 head = .ok (s, pre, post)) (hne : pre ≠ req) :
    ∃ e, wrapUnpack H ops mu mg filt req (.opened i) hdrs fin head s0 = e ∧ (match e with | .err .hashMismatch => True | _ => False) := by
  refine ⟨_, rfl, ?_⟩
  simp [wrapUnpack, hu, hne]

/-- **A stream that does not decode to the end is never accepted** (truncation, corrupt header):
    the unpacker returns an error, whatever was decoded before the break. -/
theorem C03_corrupt_never_ok (H : Bytes → Bytes) (ops : FsOps σ) (mu mg : Nat) (filt : UnpackFilter)
    (hdrs : List TarHdr) (head : Bytes) (s0 : σ) (r : σ × Bytes × Bytes) :
    unpackTar H ops mu mg filt hdrs .corrupt s0 head ≠ .ok r := by
  unfold unpackTar
  split
  · simp
  · cases unpackEntries ops mu mg filt hdrs ⟨s0, [], [], []⟩ <;> simp

/-- **Mirror commits only verified bytes**: `Commit` appears in the event log only if the scan of the teed
    stream produced the requested wareID; and whenever the outcome is not success, either no commit was
    attempted or the commit itself failed. -/
theorem C03_mirror (H : Bytes → Bytes) (req : Bytes) (targetHas writerOk : Bool) (pick : PickRes)
    (hdrs : List TarHdr) (fin : StreamEnd) (head : Bytes) (commitOk : Bool)
    (hc : MirrorEv.commit ∈ (mirror H req targetHas writerOk pick hdrs fin head commitOk).2) :
    ∃ post, unpackTar H nilOps 0 0 ⟨true, ffKeep, ffKeep, ffKeep, ffKeep, ffKeep, ffKeep⟩ hdrs fin () head = .ok ((), req, post) := by
  unfold mirror at hc
  by_cases h1 : targetHas = true
  · simp [h1] at hc
  · by_cases h2 : writerOk = true
    · simp only [h1, h2] at hc
      cases pick with
      | err c => simp at hc
      | opened i =>
        simp only at hc
        cases hu : unpackTar H nilOps 0 0 ⟨true, ffKeep, ffKeep, ffKeep, ffKeep, ffKeep, ffKeep⟩ hdrs fin () head with
        | panic w => simp [hu] at hc
        | err c => simp [hu] at hc
        | ok r =>
          obtain ⟨u, pre, post⟩ := r
          simp only [hu] at hc
          by_cases hp : pre = req
          · subst hp; exact ⟨post, rfl⟩
          · simp [hp] at hc
    · simp [h1, h2] at hc

end Rio
