import Rio.Spec.TreeHash
/-!
# C05 — WareID follows the frozen tree-hash format

`Rio/Spec/TreeHash.lean` is the format: `specHash`. The implementation model is `hashBucket`.
-/
namespace Rio

private def d (name : Bytes) (ls : Int) : Record := mkRecord (defaultDirMeta ⟨name, ls⟩) []
private def f (name : Bytes) (ls : Int) (c : Bytes) : Record :=
  mkRecord { defaultDirMeta ⟨name, ls⟩ with kind := .file, perms := 0o644 } c

private def trickTree : Tree :=
  .node (d [] 0) (.cons (.node (d [0x65] (-1))
     (.cons (.node (f [0x65, 0x2f, 0x74] 1 [1]) .nil)
     (.cons (.node (f [0x65, 0x2f, 0x74, 0x79] 1 [2]) .nil) .nil))) .nil)

set_option maxRecDepth 8000 in
/-- the `trick`/`tricky` trap (iterator nesting ≠ directory nesting), a *test* on one literal tree:
    implementation model = specification, for the identity "hash", records in reverse order. -/
example : (hashBucket id (flatten trickTree).reverse).toOption = some (specId id trickTree) := by decide

end Rio
