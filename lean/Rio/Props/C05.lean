import Rio.Spec.TreeHash
import Rio.Model.Tar
import Rio.Proofs.Sort
/-!
# C05 — WareID follows the frozen tree-hash format

`Rio/Spec/TreeHash.lean` is the format: `specHash`. The implementation model is `hashBucket`.
-/
namespace Rio

/-- **Compression detection does not depend on Go's map iteration order.** `DetectCompression` ranges
    over a `map[Compression][]byte`; whatever order the runtime picks, the answer is the same, because
    the three magic patterns start with different bytes so that at most one can match. -/
theorem C05_detect (src : Bytes) (order : List (Compression × Bytes)) (h : order.Perm magicTable) :
    detectCompressionIn order src = detectCompression src := by
  unfold detectCompression detectCompressionIn
  have huniq : ∀ a ∈ magicTable, ∀ b ∈ magicTable, hasPrefix src a.2 = true → hasPrefix src b.2 = true → a = b := by
    intro a ha b hb pa pb
    simp only [magicTable, List.mem_cons, List.mem_nil_iff, or_false] at ha hb
    cases src with
    | nil => rcases ha with rfl | rfl | rfl <;> simp [hasPrefix, magicBzip2, magicGzip, magicXz] at pa
    | cons x xs =>
      rcases ha with rfl | rfl | rfl <;> rcases hb with rfl | rfl | rfl <;>
        simp_all [hasPrefix, magicBzip2, magicGzip, magicXz]
  have huniq' : ∀ a ∈ order, ∀ b ∈ order, hasPrefix src a.2 = true → hasPrefix src b.2 = true → a = b :=
    fun a ha b hb => huniq a (h.mem_iff.1 ha) b (h.mem_iff.1 hb)
  rw [find?_perm_unique (fun cm => hasPrefix src cm.2) h huniq']

/-- a gzip stream is detected as gzip, plain tar as uncompressed (tests) -/
example : detectCompression [0x1f, 0x8b, 0x08, 0, 0, 0, 0, 0, 0, 0xff] = .gzip := by decide
example : detectCompression [0x2e, 0x2f, 0, 0, 0, 0, 0, 0, 0, 0] = .uncompressed := by decide

private def d (name : Bytes) (ls : Int) : Record := mkRecord (defaultDirMeta ⟨name, ls⟩) []
private def f (name : Bytes) (ls : Int) (c : Bytes) : Record :=
  mkRecord { defaultDirMeta ⟨name, ls⟩ with kind := .file, perms := 0o644 } c

private def trickTree : Tree :=
  .node (d [] 0) (.cons (.node (d [0x65] (-1))
     (.cons (.node (f [0x65, 0x2f, 0x74] 1 [1]) .nil)
     (.cons (.node (f [0x65, 0x2f, 0x74, 0x79] 1 [2]) .nil) .nil))) .nil)

set_option maxRecDepth 8000 in
/-- the `trick`/`tricky` trap (iterator nesting ≠ directory nesting), a *test* on one literal tree:
    implementation model = specification, for the identity "hash", records in reverse order. -/
example : (hashBucket id (flatten trickTree).reverse).toOption = some (specId id trickTree) := by decide

end Rio
