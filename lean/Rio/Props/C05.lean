import Rio.Spec.TreeHash
import Rio.Model.Tar
import Rio.Proofs.Sort
import Rio.Proofs.HashRefine
import Rio.Proofs.FilesetTree
/-!
# C05 — WareID follows the frozen tree-hash format

`Rio/Spec/TreeHash.lean` is the format: `specHash`. The implementation model is `hashBucket`.
-/
namespace Rio

/-- **Compression detection does not depend on Go's map iteration order.** `DetectCompression` ranges
    over a `map[Compression][]byte`; whatever order the runtime picks, the answer is the same, because
    the three magic patterns start with different bytes so that at most one can match. -/
theorem C05_detect (src : Bytes) (order : List (Compression × Bytes)) (h : order.Perm magicTable) :
    detectCompressionIn order src = detectCompression src := by
  unfold detectCompression detectCompressionIn
  have huniq : ∀ a ∈ magicTable, ∀ b ∈ magicTable, hasPrefix src a.2 = true → hasPrefix src b.2 = true → a = b := by
    intro a ha b hb pa pb
    simp only [magicTable, List.mem_cons, List.mem_nil_iff, or_false] at ha hb
    cases src with
    | nil => rcases ha with rfl | rfl | rfl <;> simp [hasPrefix, magicBzip2, magicGzip, magicXz] at pa
    | cons x xs =>
      rcases ha with rfl | rfl | rfl <;> rcases hb with rfl | rfl | rfl <;>
        simp_all [hasPrefix, magicBzip2, magicGzip, magicXz]
  have huniq' : ∀ a ∈ order, ∀ b ∈ order, hasPrefix src a.2 = true → hasPrefix src b.2 = true → a = b :=
    fun a ha b hb => huniq a (h.mem_iff.1 ha) b (h.mem_iff.1 hb)
  rw [find?_perm_unique (fun cm => hasPrefix src cm.2) h huniq']

/-- **A stream that begins with a tar header is read as a plain tar, whatever its first bytes** (since `fix:`
    381ce6b): the first bytes of a plain tar are its first entry's *name*. -/
theorem C05_tar_header_wins (block : Bytes) (h : isTarHeader block = true) : decompressKind block = .uncompressed := by
  unfold decompressKind
  simp only [h, and_true]
  split
  · rfl
  · rename_i hc
    simpa using hc

/-- a tar header block for an entry named `BZh` (all other fields zero, checksum 516 = 0o1004) -/
def exBZhBlock : Bytes :=
  [0x42, 0x5A, 0x68] ++ List.replicate 145 0 ++ [0x30, 0x30, 0x31, 0x30, 0x30, 0x34, 0, 0x20] ++ List.replicate 356 0

/-- **Why the magic numbers alone were wrong**: this block is a valid tar header, and the magic-number test alone takes
    the stream for bzip2 (the pre-fix `Decompress`; a plain tar named `BZhello.txt` was refused as corrupt). -/
theorem C05_counter_magic_name :
    exBZhBlock.length = 512 ∧ isTarHeader exBZhBlock = true ∧ detectCompression (exBZhBlock.take 10) = .bzip2 ∧
    decompressKind exBZhBlock = .uncompressed := by decide +kernel

/-- compressed streams keep their detection: a gzip member's first block is no tar header (test) -/
example : decompressKind ([0x1f, 0x8b, 0x08, 0, 0, 0, 0, 0, 0, 0xff] ++ List.replicate 502 0x55) = .gzip := by decide +kernel

/-- a gzip stream is detected as gzip, plain tar as uncompressed (tests) -/
example : detectCompression [0x1f, 0x8b, 0x08, 0, 0, 0, 0, 0, 0, 0xff] = .gzip := by decide
example : detectCompression [0x2e, 0x2f, 0, 0, 0, 0, 0, 0, 0, 0] = .uncompressed := by decide

private def d (name : Bytes) (ls : Int) : Record := mkRecord (defaultDirMeta ⟨name, ls⟩) []
private def f (name : Bytes) (ls : Int) (c : Bytes) : Record :=
  mkRecord { defaultDirMeta ⟨name, ls⟩ with kind := .file, perms := 0o644 } c

private def trickTree : Tree :=
  .node (d [] 0) (.cons (.node (d [0x65] (-1))
     (.cons (.node (f [0x65, 0x2f, 0x74] 1 [1]) .nil)
     (.cons (.node (f [0x65, 0x2f, 0x74, 0x79] 1 [2]) .nil) .nil))) .nil)

set_option maxRecDepth 8000 in
/-- the `trick`/`tricky` trap (iterator nesting ≠ directory nesting), a *test* on one literal tree:
    implementation model = specification, for the identity "hash", records in reverse order. -/
example : (hashBucket id (flatten trickTree).reverse).toOption = some (specId id trickTree) := by decide


/-- **Refinement: the implementation computes the frozen format.**  For every hash function `H`, every
    well-formed fileset tree `t` (`WFRoot`: bucket keys nest like the directories, siblings in key order, only
    directories have children) and every order `recs` in which its records may be added to the bucket (walk
    order, readdir order, archive entry order), the model of `fshash.HashBucket` — sort, iterator frames that
    linger, lazily closed directory hashers — returns exactly the recursive specification `specHash`:
    `H({"m": meta, "l": [hash(child) …]})` for directories, `H({"m": meta, "h": contentHash})` for files.
    Proof: `Rio/Proofs/HashRefine.lean` (eager/lazy machine equivalence, then mutual recursion over the tree). -/
theorem C05_refine (H : Bytes → Bytes) (t : Tree) (hwf : WFRoot t) (recs : List Record)
    (hp : recs.Perm (flatten t)) : hashBucket H recs = .ok (specId H t) :=
  hashBucket_refines H t hwf recs hp

/-- the tree hash is therefore unchanged by anything that leaves the tree unchanged: two record orders of the
    same tree give the same id -/
theorem C05_order_free (H : Bytes → Bytes) (t : Tree) (hwf : WFRoot t) (r₁ r₂ : List Record)
    (h₁ : r₁.Perm (flatten t)) (h₂ : r₂.Perm (flatten t)) : hashBucket H r₁ = hashBucket H r₂ := by
  rw [C05_refine H t hwf r₁ h₁, C05_refine H t hwf r₂ h₂]

/-- a well-formed tree never makes `HashBucket` panic -/
theorem C05_wf_no_panic (H : Bytes → Bytes) (t : Tree) (hwf : WFRoot t) (recs : List Record)
    (hp : recs.Perm (flatten t)) : ∀ p, hashBucket H recs ≠ .error p := by
  intro p; rw [C05_refine H t hwf recs hp]; exact fun h => by cases h

/-- non-vacuity: the `trick`/`tricky` tree is well-formed in the sense of the theorem -/
example : WFRoot trickTree := by
  refine ⟨rfl, Or.inl ⟨rfl, rfl, ?_⟩⟩
  unfold WFF
  refine ⟨?_, by unfold WFF; trivial, by simp [rootKeys]⟩
  unfold WFT
  refine ⟨[0x65], by simp, by simp [slash], Or.inl ⟨rfl, by decide, ?_⟩⟩
  unfold WFF
  refine ⟨?_, ?_, by decide⟩
  · unfold WFT
    exact ⟨[0x74], by simp, by simp [slash], Or.inr ⟨by decide, by decide, rfl⟩⟩
  · unfold WFF
    refine ⟨?_, by unfold WFF; trivial, by simp [rootKeys]⟩
    unfold WFT
    exact ⟨[0x74, 0x79], by simp, by simp [slash], Or.inr ⟨by decide, by decide, rfl⟩⟩


/-- **Refinement, stated for filesets.**  A fileset given by component names (`LForest`: normal components, only
    directories have children, siblings in key order) yields — through `MustRelPath` names and `AddRecord` keys — a
    well-formed record tree, so for every order in which the walk or the archive delivers its records the
    implementation returns the specified tree hash. -/
theorem C05_refine_fileset (H : Bytes → Bytes) (m : Meta) (ch : Bytes) (kids : LForest)
    (h : (m.kind = .dir ∧ LWFF kids) ∨ (m.kind ≠ .dir ∧ kids = .nil)) (recs : List Record)
    (hp : recs.Perm (flatten (toRoot m ch kids))) :
    hashBucket H recs = .ok (specId H (toRoot m ch kids)) :=
  C05_refine H _ (toRoot_wf m ch kids h) recs hp

end Rio
