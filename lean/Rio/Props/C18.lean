import Rio.Model.Path
import Rio.Proofs.Bytes
/-!
# C18 — Path values are canonical and "goes up" is exact

Theorems about the model of `fs/path.go` (`Rio/Model/Path.lean`), which is tied to the Go code
by the exhaustive `path` correspondence stream (every string of length ≤ 7/9 over `{a,b,.,/}`
and every pair of length ≤ 3/4 for `Join`, plus random byte strings).
-/
namespace Rio

/-- Well-formed relative path value: what `MustRelPath` produces. -/
def RelPath.WF (p : RelPath) : Prop :=
  (p.path = [] ∧ p.lastSplit = 0) ∨
  (p.path ≠ [] ∧ p.path ≠ [dot] ∧ ¬ ([dot, slash] <+: p.path) ∧ p.path.head? ≠ some slash ∧
    p.lastSplit = lastIndexOf slash p.path)

/-- GoesUp is exact: true iff the (cleaned) path is `..` or starts with `../`. -/
theorem C18_goesup (p : RelPath) :
    p.goesUp = true ↔ (p.path = [dot, dot] ∨ [dot, dot, slash] <+: p.path) := by
  simp [RelPath.goesUp, hasPrefix_iff]

/-- The pre-fix predicate was not exact: `..foo` does not leave its base but was reported to. -/
theorem C18_goesup_old_counter :
    let p : RelPath := ⟨[dot, dot, 0x66, 0x6f, 0x6f], -1⟩
    p.goesUpOld = true ∧ ¬ (p.path = [dot, dot] ∨ [dot, dot, slash] <+: p.path) := by
  decide

/-- The fixed predicate implies the old one (the fix only removes false positives). -/
theorem C18_goesup_le_old (p : RelPath) : p.goesUp = true → p.goesUpOld = true := by
  intro h
  rcases (C18_goesup p).1 h with h | ⟨t, h⟩
  · simp [RelPath.goesUpOld, h]
  · simp [RelPath.goesUpOld, ← h]

/-- how `String()` prints, by cases on `goesUp`. -/
theorem RelPath.str_cases (r : RelPath) :
    (r.path = [] ∧ r.str = [dot]) ∨
    (r.path ≠ [] ∧ r.goesUp = true ∧ r.str = r.path) ∨
    (r.path ≠ [] ∧ r.goesUp = false ∧ r.str = dot :: slash :: r.path) := by
  by_cases h0 : r.path = []
  · left; simp [RelPath.str, h0]
  · right
    match hp : r.path with
    | [] => exact absurd hp h0
    | [a] => right; simp [RelPath.str, RelPath.goesUp, hasPrefix, hp]
    | [a, b] =>
      by_cases hab : a = dot ∧ b = dot
      · left; obtain ⟨rfl, rfl⟩ := hab; simp [RelPath.str, RelPath.goesUp, hp]
      · right
        have : ¬ ([a, b] = [dot, dot]) := by simpa using hab
        simp [RelPath.str, RelPath.goesUp, hasPrefix, hp, this]
    | a :: b :: c :: t =>
      by_cases habc : a = dot ∧ b = dot ∧ c = slash
      · left; obtain ⟨rfl, rfl, rfl⟩ := habc
        simp [RelPath.str, RelPath.goesUp, hasPrefix, hp]
      · right
        have h3 : ¬ ([a, b, c] = [dot, dot, slash]) := by simpa using habc
        have h4 : (a == dot && (b == dot && c == slash)) = false := by
          simp only [Bool.and_eq_false_iff, beq_eq_false_iff_ne]
          by_cases ha : a = dot
          · by_cases hb : b = dot
            · right; right; intro hc; exact habc ⟨ha, hb, hc⟩
            · right; left; exact hb
          · left; exact ha
        simp [RelPath.str, RelPath.goesUp, hasPrefix, hp, h3, h4]

/-- `String()` is injective on well-formed values: two values are equal iff they print identically. -/
theorem C18_string_inj (p q : RelPath) (hp : p.WF) (hq : q.WF) (h : p.str = q.str) : p = q := by
  have ls : ∀ r : RelPath, r.WF → r.lastSplit = if r.path = [] then 0 else lastIndexOf slash r.path := by
    intro r hr
    rcases hr with ⟨a, b⟩ | ⟨a, _, _, _, b⟩
    · simp [a, b]
    · simp [a, b]
  have hpath : p.path = q.path := by
    rcases p.str_cases with ⟨p0, ps⟩ | ⟨p0, pu, ps⟩ | ⟨p0, pu, ps⟩ <;>
    rcases q.str_cases with ⟨q0, qs⟩ | ⟨q0, qu, qs⟩ | ⟨q0, qu, qs⟩ <;>
    rw [ps, qs] at h
    · rw [p0, q0]
    · -- q.path = "." contradicts WF
      rcases hq with ⟨a, _⟩ | ⟨_, a, _⟩
      · exact absurd a q0
      · exact absurd h.symm a
    · simp at h
    · rcases hp with ⟨a, _⟩ | ⟨_, a, _⟩
      · exact absurd a p0
      · exact absurd h a
    · exact h
    · -- p goes up but prints as "./" ++ q.path
      rcases (C18_goesup p).1 pu with e | ⟨t, e⟩
      · rw [e] at h; simp [dot, slash] at h
      · rw [← e] at h; simp [dot, slash] at h
    · simp at h
    · rcases (C18_goesup q).1 qu with e | ⟨t, e⟩
      · rw [e] at h; simp [dot, slash] at h
      · rw [← e] at h; simp [dot, slash] at h
    · simpa using h
  have := ls p hp
  have := ls q hq
  cases p; cases q; simp_all

end Rio
