import Rio.Model.Path
import Rio.Proofs.Bytes
import Rio.Proofs.PathTheory
/-!
# C18 — Path values are canonical and "goes up" is exact

Theorems about the model of `fs/path.go` (`Rio/Model/Path.lean`), which is tied to the Go code
by the exhaustive `path` correspondence stream (every string of length ≤ 7/9 over `{a,b,.,/}`
and every pair of length ≤ 3/4 for `Join`, plus random byte strings).
-/
namespace Rio

/-- Well-formed relative path value: what `MustRelPath` produces. -/
def RelPath.WF (p : RelPath) : Prop :=
  (p.path = [] ∧ p.lastSplit = 0) ∨
  (p.path ≠ [] ∧ p.path ≠ [dot] ∧ ¬ ([dot, slash] <+: p.path) ∧ p.path.head? ≠ some slash ∧
    p.lastSplit = lastIndexOf slash p.path)

/-- GoesUp is exact: true iff the (cleaned) path is `..` or starts with `../`. -/
theorem C18_goesup (p : RelPath) :
    p.goesUp = true ↔ (p.path = [dot, dot] ∨ [dot, dot, slash] <+: p.path) := by
  simp [RelPath.goesUp, hasPrefix_iff]

/-- The pre-fix predicate was not exact: `..foo` does not leave its base but was reported to. -/
theorem C18_goesup_old_counter :
    let p : RelPath := ⟨[dot, dot, 0x66, 0x6f, 0x6f], -1⟩
    p.goesUpOld = true ∧ ¬ (p.path = [dot, dot] ∨ [dot, dot, slash] <+: p.path) := by
  decide

/-- The fixed predicate implies the old one (the fix only removes false positives). -/
theorem C18_goesup_le_old (p : RelPath) : p.goesUp = true → p.goesUpOld = true := by
  intro h
  rcases (C18_goesup p).1 h with h | ⟨t, h⟩
  · simp [RelPath.goesUpOld, h]
  · simp [RelPath.goesUpOld, ← h]

/-- how `String()` prints, by cases on `goesUp`. -/
theorem RelPath.str_cases (r : RelPath) :
    (r.path = [] ∧ r.str = [dot]) ∨
    (r.path ≠ [] ∧ r.goesUp = true ∧ r.str = r.path) ∨
    (r.path ≠ [] ∧ r.goesUp = false ∧ r.str = dot :: slash :: r.path) := by
  by_cases h0 : r.path = []
  · left; simp [RelPath.str, h0]
  · right
    match hp : r.path with
    | [] => exact absurd hp h0
    | [a] => right; simp [RelPath.str, RelPath.goesUp, hasPrefix, hp]
    | [a, b] =>
      by_cases hab : a = dot ∧ b = dot
      · left; obtain ⟨rfl, rfl⟩ := hab; simp [RelPath.str, RelPath.goesUp, hp]
      · right
        have : ¬ ([a, b] = [dot, dot]) := by simpa using hab
        simp [RelPath.str, RelPath.goesUp, hasPrefix, hp, this]
    | a :: b :: c :: t =>
      by_cases habc : a = dot ∧ b = dot ∧ c = slash
      · left; obtain ⟨rfl, rfl, rfl⟩ := habc
        simp [RelPath.str, RelPath.goesUp, hasPrefix, hp]
      · right
        have h3 : ¬ ([a, b, c] = [dot, dot, slash]) := by simpa using habc
        have h4 : (a == dot && (b == dot && c == slash)) = false := by
          simp only [Bool.and_eq_false_iff, beq_eq_false_iff_ne]
          by_cases ha : a = dot
          · by_cases hb : b = dot
            · right; right; intro hc; exact habc ⟨ha, hb, hc⟩
            · right; left; exact hb
          · left; exact ha
        simp [RelPath.str, RelPath.goesUp, hasPrefix, hp, h3, h4]

/-- `String()` is injective on well-formed values: two values are equal iff they print identically. -/
theorem C18_string_inj (p q : RelPath) (hp : p.WF) (hq : q.WF) (h : p.str = q.str) : p = q := by
  have ls : ∀ r : RelPath, r.WF → r.lastSplit = if r.path = [] then 0 else lastIndexOf slash r.path := by
    intro r hr
    rcases hr with ⟨a, b⟩ | ⟨a, _, _, _, b⟩
    · simp [a, b]
    · simp [a, b]
  have hpath : p.path = q.path := by
    rcases p.str_cases with ⟨p0, ps⟩ | ⟨p0, pu, ps⟩ | ⟨p0, pu, ps⟩ <;>
    rcases q.str_cases with ⟨q0, qs⟩ | ⟨q0, qu, qs⟩ | ⟨q0, qu, qs⟩ <;>
    rw [ps, qs] at h
    · rw [p0, q0]
    · -- q.path = "." contradicts WF
      rcases hq with ⟨a, _⟩ | ⟨_, a, _⟩
      · exact absurd a q0
      · exact absurd h.symm a
    · simp at h
    · rcases hp with ⟨a, _⟩ | ⟨_, a, _⟩
      · exact absurd a p0
      · exact absurd h a
    · exact h
    · -- p goes up but prints as "./" ++ q.path
      rcases (C18_goesup p).1 pu with e | ⟨t, e⟩
      · rw [e] at h; simp [dot, slash] at h
      · rw [← e] at h; simp [dot, slash] at h
    · simp at h
    · rcases (C18_goesup q).1 qu with e | ⟨t, e⟩
      · rw [e] at h; simp [dot, slash] at h
      · rw [← e] at h; simp [dot, slash] at h
    · simpa using h
  have := ls p hp
  have := ls q hq
  cases p; cases q; simp_all


/-! ## Canonical values (deep half; proofs in `Rio/Proofs/PathTheory.lean`)

`RelPath.Clean p` says `p = ofComps cs` for a clean component list `cs` (`..`s first, then normal
components).  Every constructor lands in `Clean`, `Clean` values are equal iff they print identically,
and the operations act on the component lists the obvious way.
-/

/-- canonical values satisfy the shallow well-formedness used by `C18_string_inj` -/
theorem RelPath.Clean.wf {p : RelPath} (h : p.Clean) : p.WF := by
  obtain ⟨cs, hc, rfl⟩ := h
  by_cases h0 : cs = []
  · left; subst h0; simp [ofComps]
  · right
    obtain ⟨f1, f2, f3, f4⟩ := render_facts hc h0
    rw [ofComps_path h0, ofComps_lastSplit h0]
    exact ⟨f1, f2, f4, f3, rfl⟩

/-- **Parsing is canonical**: whatever string `MustRelPath` accepts, the value is canonical. -/
theorem C18_parse_canonical (s : Bytes) (p : RelPath) (h : mustRel s = some p) : p.Clean :=
  mustRel_clean s p h

/-- `MustRelPath` panics exactly on strings starting with `/` -/
theorem C18_parse_total (s : Bytes) : (mustRel s = none ↔ s.head? = some slash) := by
  constructor
  · intro h
    by_cases hs : s.head? = some slash
    · exact hs
    · rw [mustRel_eq s hs] at h; cases h
  · exact mustRel_rooted s

/-- **Print then parse is the identity** on canonical values -/
theorem C18_print_parse (p : RelPath) (h : p.Clean) : mustRel p.str = some p := by
  obtain ⟨cs, hc, rfl⟩ := h
  exact mustRel_str hc

/-- **Canonical values compare equal iff they print identically.** -/
theorem C18_canonical_eq (p q : RelPath) (hp : p.Clean) (hq : q.Clean) : p = q ↔ p.str = q.str :=
  ⟨fun h => by rw [h], fun h => C18_string_inj p q hp.wf hq.wf h⟩

/-- any two strings that clean to the same thing parse to equal values (hidden split index included) -/
theorem C18_parse_eq (s t : Bytes) (p q : RelPath) (hs : mustRel s = some p) (ht : mustRel t = some q)
    (h : goClean s = goClean t) : p = q := by
  have a := mustRel_unfold s p hs
  have b := mustRel_unfold t q ht
  rw [h] at a
  rw [← a, ← b]

/-- **Join keeps values canonical** -/
theorem C18_join_canonical (p q : RelPath) (hp : p.Clean) (hq : q.Clean) : (p.join q).Clean := by
  obtain ⟨a, ha, rfl⟩ := hp
  obtain ⟨b, hb, rfl⟩ := hq
  rw [join_ofComps ha hb]
  refine ⟨_, cleanComps_clean false _ ?_, rfl⟩
  intro c hc
  simp only [List.mem_append] at hc
  rcases hc with hc | hc
  · exact (cleanComps_mem ha c hc).2.2
  · exact (cleanComps_mem hb c hc).2.2

/-- **Join agrees with concatenate-then-clean**: joining is the same value as printing both sides, gluing
    them with `/` and parsing the result. -/
theorem C18_join (p q : RelPath) (hp : p.Clean) (hq : q.Clean) :
    mustRel (p.str ++ slash :: q.str) = some (p.join q) := by
  obtain ⟨a, ha, rfl⟩ := hp
  obtain ⟨b, hb, rfl⟩ := hq
  exact join_eq_parse_concat ha hb

/-- **Dir keeps values canonical** -/
theorem C18_dir_canonical (p : RelPath) (hp : p.Clean) : p.dir.Clean := by
  obtain ⟨cs, hc, rfl⟩ := hp
  by_cases h0 : cs = []
  · subst h0; exact ⟨[], cleanComps_nil false, by simp [RelPath.dir, ofComps]⟩
  · obtain ⟨init, l, rfl⟩ : ∃ init l, cs = init ++ [l] :=
      ⟨cs.dropLast, cs.getLast h0, (List.dropLast_concat_getLast h0).symm⟩
    rw [dir_snoc hc]
    exact ⟨init, cleanComps_prefix hc, rfl⟩

/-- **Dir and Last invert Join (1)**: a non-root canonical value is its parent joined with its last component. -/
theorem C18_dir_last_join (p : RelPath) (hp : p.Clean) (hne : p.path ≠ []) :
    p.dir.join (ofComps [p.last]) = p := by
  obtain ⟨cs, hc, rfl⟩ := hp
  have h0 : cs ≠ [] := fun e => hne (by simp [e, ofComps])
  obtain ⟨init, l, rfl⟩ : ∃ init l, cs = init ++ [l] :=
    ⟨cs.dropLast, cs.getLast h0, (List.dropLast_concat_getLast h0).symm⟩
  rw [dir_snoc hc, last_snoc hc, join_ofComps (cleanComps_prefix hc) (cleanComps_suffix hc), cleanComps_id false _ hc]

/-- **Dir and Last invert Join (2)**: joining a normal component onto a canonical value and taking `Dir` / `Last`
    gives the two parts back. -/
theorem C18_join_dir_last (p : RelPath) (c : Bytes) (hp : p.Clean) (hc : Normal c) :
    (p.join (ofComps [c])).dir = p ∧ (p.join (ofComps [c])).last = c := by
  obtain ⟨a, ha, rfl⟩ := hp
  have hn : ∀ x ∈ [c], Normal x := by simpa using hc
  have hb : CleanComps false [c] := ⟨[], [c], rfl, by simp, hn, by simp⟩
  have hcl := cleanComps_append_normal ha hn
  rw [join_ofComps ha hb, cleanComps_id false _ hcl]
  exact ⟨dir_snoc hcl, last_snoc hcl⟩

/-- **Split yields exactly the chain of ancestors**: for the value with components `cs`, `Split` is the list of
    the values of all prefixes of `cs`, shortest (the root) first, the path itself last. -/
theorem C18_split (cs : List Bytes) (h : CleanComps false cs) :
    (ofComps cs).split = (List.range (cs.length + 1)).map (fun k => ofComps (cs.take k)) :=
  split_ofComps h

/-- … and consecutive elements of that chain are related by `Dir` -/
theorem C18_split_dir (cs : List Bytes) (h : CleanComps false cs) (k : Nat) (hk : k < cs.length) :
    (ofComps (cs.take (k + 1))).dir = ofComps (cs.take k) :=
  dir_take h k hk

/-- **GoesUp, on components**: a canonical value leaves its base iff its first component is `..` -/
theorem C18_goesup_comps (cs : List Bytes) (h : CleanComps false cs) :
    (ofComps cs).goesUp = true ↔ cs.head? = some dd :=
  goesUp_ofComps h

/-- joining never lets a path that stays inside escape: if neither side goes up and the right side is made of
    normal components only, the join does not go up -/
theorem C18_join_stays (p q : RelPath) (hp : p.Clean) (hq : q.Clean) (h1 : p.goesUp = false)
    (h2 : q.path.head? ≠ some dot) : (p.join q).goesUp = false := by
  obtain ⟨a, ha, rfl⟩ := hp
  obtain ⟨b, hb, rfl⟩ := hq
  by_cases hb0 : b = []
  · subst hb0; simpa [RelPath.join, ofComps] using h1
  · rw [ofComps_path hb0] at h2
    have hn := all_normal_of_head hb hb0 h2
    have hcl := cleanComps_append_normal ha hn
    rw [join_ofComps ha hb, cleanComps_id false _ hcl]
    cases hg : (ofComps (a ++ b)).goesUp with
    | false => rfl
    | true =>
      exfalso
      have h3 := (goesUp_ofComps hcl).1 hg
      cases a with
      | nil =>
        simp only [List.nil_append] at h3
        cases b with
        | nil => exact hb0 rfl
        | cons x xs =>
          simp only [List.head?_cons, Option.some.injEq] at h3
          exact dd_not_normal (h3 ▸ hn x (by simp))
      | cons x xs =>
        simp only [List.cons_append, List.head?_cons] at h3
        have := (goesUp_ofComps ha).2 (by simpa using h3)
        rw [this] at h1; cases h1

/-- non-vacuity (tests): concrete canonical values and the operations on them -/
example : mustRel [0x61, slash, dot, dot, slash, 0x62, slash, slash, 0x63] = some (ofComps [[0x62], [0x63]]) := by decide
example : (ofComps [dd, [0x61]]).goesUp = true ∧ (ofComps [[dot, dot, 0x61]]).goesUp = false := by decide
example : (ofComps [[0x61], [0x62], [0x63]]).split =
    [ofComps [], ofComps [[0x61]], ofComps [[0x61], [0x62]], ofComps [[0x61], [0x62], [0x63]]] := by decide

end Rio
