import Rio.Props.C09
import Rio.Props.C11
/-!
# C10 — Every placement route delivers exactly the ware's fileset

Composition of the cache protocol (C09: a shelf holds exactly the complete fileset it is named after) with
the placement model (a fresh placement shows exactly the shelf).  Attribute-level faithfulness of the copy
(directory mtimes included) and the parent-mtime repair are checked on the real filesystem by the `rt` and
`place` streams; the kernel's bind / overlay visibility is the model's assumption.
-/
namespace Rio

/-- what a destination shows right after `cache.place` put shelf content `c` there by route `k` -/
def placedView (c : Content_) (k : PlKind) : Content_ :=
  let s := pstep ⟨c, []⟩ (.place k)
  match s.pls.getLast? with
  | some p => pview s p
  | none => c

/-- every placer shows exactly the shelf -/
theorem C10_place_faithful (c : Content_) (k : PlKind) : placedView c k = c := by
  cases k <;> simp [placedView, pstep, pview]

/-- **Routes agree**: copy, mount (whatever the overlay placer dispatches to) and direct-on-a-warm-cache all show
    the same thing, namely the shelf — so they agree with each other, whatever the type of the ware's root. -/
theorem C10_routes (c : Content_) (root : Kind) (m₁ m₂ : Mode) (k₁ k₂ : PlKind)
    (h₁ : cachePlaceFor m₁ root = some k₁) (h₂ : cachePlaceFor m₂ root = some k₂) :
    placedView c k₁ = placedView c k₂ := by
  rw [C10_place_faithful, C10_place_faithful]

/-- **Whatever happened before**: in every reachable state of the shared cache (any processes, any schedule, any
    crashes: C09), a process that reaches the placement step finds a shelf holding exactly the complete fileset
    it is about to report. -/
theorem C10_history_independent (ps : List Proc) (shelves : List WareId) (sched : List Nat)
    (hps : ∀ p ∈ ps, p.pc = .atLookup ∧ p.tmp = none) :
    ∀ kc ∈ (runSchedule (initState ps shelves) sched).shelves, kc.2 = .complete kc.1 :=
  C09_inv ps shelves sched hps

/-- T-fact tie: which placer each placement mode uses (`none` places nothing). -/
theorem C10_tie : Generated.cachePlaceSwitch = [(["rio.Placement_None"], "return nil"), (["rio.Placement_Direct"], "CopyPlacer"),
      (["rio.Placement_Copy"], "CopyPlacer"), (["rio.Placement_Mount"], "GetMountPlacer"), (["default"], "return nil")] := by   -- default: a usage error since `fix:` 030c09c
  decide

end Rio
