import Rio.Model.Hash
/-!
# C04 — Different filesets never share a wareID

`hashBucket` is the implementation model of `fshash.HashBucket` (tied to the Go code by the
`hash` correspondence stream with a recording hasher: pre-images must agree byte for byte).

The full statement is **false** on the unchanged tree for entries that are neither files nor
directories: their pre-image is computed and then delivered to nobody. The `C04_counter_*`
theorems are the model witnesses (for every hash function `H`, no collision involved);
they are replayed on the implementation by the `hash` stream (class `nonfiledir-not-hashed`).
-/
namespace Rio

private def rootDir : Meta := defaultDirMeta ⟨[], 0⟩
private def lnk (target : Bytes) : Meta :=
  { defaultDirMeta ⟨[0x6c], -1⟩ with kind := .symlink, perms := 0o777, linkname := target }
private def fifo : Meta := { defaultDirMeta ⟨[0x70], -1⟩ with kind := .fifo, perms := 0o644 }

/-- Two filesets that differ only in a symlink's target have the same tree hash, whatever `H` is. -/
theorem C04_counter_target (H : Bytes → Bytes) :
    hashBucket H [mkRecord rootDir [], mkRecord (lnk [0x61]) []] =
    hashBucket H [mkRecord rootDir [], mkRecord (lnk [0x62]) []] := by
  rfl

/-- The presence of a fifo (or any non file/dir entry) does not change the tree hash. -/
theorem C04_counter_presence (H : Bytes → Bytes) :
    hashBucket H [mkRecord rootDir [], mkRecord fifo []] = hashBucket H [mkRecord rootDir []] := by
  rfl

/-- A fileset whose root is a symlink hashes to the empty string (wareID `tar:`), whatever the target. -/
theorem C04_counter_root (H : Bytes → Bytes) (t : Bytes) :
    hashBucket H [mkRecord { (lnk t) with name := ⟨[], 0⟩ } []] = .ok [] := by
  simp [hashBucket, bucketLines, mkRecord, recordName, lnk, defaultDirMeta, distinctCount, sortRecs, sortBy,
    insertBy, latestRec, RelPath.str, scan, visit, closeAll, closeFrame]

end Rio
