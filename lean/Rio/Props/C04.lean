import Rio.Model.Hash
import Rio.Proofs.TreeInj
import Rio.Proofs.HashRefine
/-!
# C04 — Different filesets never share a wareID

`hashBucket` is the implementation model of `fshash.HashBucket` (tied to the Go code by the
`hash` correspondence stream with a recording hasher: pre-images must agree byte for byte).

The full statement is **false** on the unchanged tree for entries that are neither files nor
directories: their pre-image is computed and then delivered to nobody. The `C04_counter_*`
theorems are the model witnesses (for every hash function `H`, no collision involved);
they are replayed on the implementation by the `hash` stream (class `nonfiledir-not-hashed`).
-/
namespace Rio

private def rootDir : Meta := defaultDirMeta ⟨[], 0⟩
private def lnk (target : Bytes) : Meta :=
  { defaultDirMeta ⟨[0x6c], -1⟩ with kind := .symlink, perms := 0o777, linkname := target }
private def fifo : Meta := { defaultDirMeta ⟨[0x70], -1⟩ with kind := .fifo, perms := 0o644 }

/-- Two filesets that differ only in a symlink's target have the same tree hash, whatever `H` is. -/
theorem C04_counter_target (H : Bytes → Bytes) :
    hashBucket H [mkRecord rootDir [], mkRecord (lnk [0x61]) []] =
    hashBucket H [mkRecord rootDir [], mkRecord (lnk [0x62]) []] := by
  rfl

/-- The presence of a fifo (or any non file/dir entry) does not change the tree hash. -/
theorem C04_counter_presence (H : Bytes → Bytes) :
    hashBucket H [mkRecord rootDir [], mkRecord fifo []] = hashBucket H [mkRecord rootDir []] := by
  rfl

/-- A fileset whose root is a symlink hashes to the empty string (wareID `tar:`), whatever the target. -/
theorem C04_counter_root (H : Bytes → Bytes) (t : Bytes) :
    hashBucket H [mkRecord { (lnk t) with name := ⟨[], 0⟩ } []] = .ok [] := by
  simp [hashBucket, bucketLines, mkRecord, recordName, lnk, defaultDirMeta, distinctCount, sortRecs, sortBy,
    insertBy, latestRec, RelPath.str, scan, visit, closeAll, closeFrame]


/-! ## Injectivity for files and directories (the true half of the statement)

`mview m` is what the serial form carries of a metadata: last name component, type, permission bits, uid,
gid, link target, device numbers (devices only), mtime seconds + nanoseconds, xattrs in key order.  `TEq` is
"same hashed content": equal views at every node, equal content hashes for files, the same children position
by position for directories.  Proofs: `Rio/Proofs/{CborInj,MetaInj,TreeInj}.lean`. -/

/-- **The serialization of a metadata can be decoded**: two serial forms that agree, whatever follows them,
    carry the same attributes — so any difference in name, type, permission bits, uid, gid, mtime (seconds or
    nanoseconds), link target, device numbers or xattrs changes the bytes fed to the hash. -/
theorem C04_meta_inj (m1 m2 : Meta) (b1 : MBounded m1) (b2 : MBounded m2) (r1 r2 : Bytes)
    (h : serMeta m1 ++ r1 = serMeta m2 ++ r2) : mview m1 = mview m2 ∧ r1 = r2 :=
  serMeta_inj m1 m2 b1 b2 r1 r2 h

/-- **The byte stream fed to the hash determines the fileset** (files and directories): with a collision-free
    `H` — in particular the recording hasher `H = id`, whose "hash" *is* the pre-image — equal tree hashes force
    equal hashed content at every node, in every position. -/
theorem C04_tree_inj (H : Bytes → Bytes) (hH : ∀ a b, H a = H b → a = b) (t1 t2 : Tree)
    (h1 : FD H t1) (h2 : FD H t2) (he : specHash H t1 = specHash H t2) : TEq t1 t2 :=
  specHash_inj H hH t1 t2 h1 h2 he

/-- **Collision reduction for the real hash**: for any `H` with bounded output (SHA-384), two file/directory
    filesets that share a tree hash are the same fileset, or exhibit a collision of `H`. -/
theorem C04_tree_inj_or_collision (H : Bytes → Bytes) (hlen : ∀ x, (H x).length < 2 ^ 64) (t1 t2 : Tree)
    (h1 : FD0 t1) (h2 : FD0 t2) (he : specHash H t1 = specHash H t2) :
    TEq t1 t2 ∨ ∃ a b, a ≠ b ∧ H a = H b :=
  specHash_inj_or_collision H hlen t1 t2 h1 h2 he

/-- … and the same for the *implementation*: two well-formed file/directory filesets, records added in any order,
    for which `HashBucket` returns the same value, are the same fileset or exhibit a collision (via `C05_refine`). -/
theorem C04_impl_inj_or_collision (H : Bytes → Bytes) (hlen : ∀ x, (H x).length < 2 ^ 64) (t1 t2 : Tree)
    (w1 : WFRoot t1) (w2 : WFRoot t2) (h1 : FD0 t1) (h2 : FD0 t2) (recs1 recs2 : List Record)
    (p1 : recs1.Perm (flatten t1)) (p2 : recs2.Perm (flatten t2)) (he : hashBucket H recs1 = hashBucket H recs2) :
    TEq t1 t2 ∨ ∃ a b, a ≠ b ∧ H a = H b := by
  rw [hashBucket_refines H t1 w1 recs1 p1, hashBucket_refines H t2 w2 recs2 p2] at he
  injection he with he
  apply specHash_inj_or_collision H hlen t1 t2 h1 h2
  obtain ⟨x1, hx1, _⟩ := specHash_some_of_FD H t1 (FD_of_FD0 H hlen t1 h1)
  obtain ⟨x2, hx2, _⟩ := specHash_some_of_FD H t2 (FD_of_FD0 H hlen t2 h2)
  simp only [specId, hx1, hx2, Option.getD_some] at he
  rw [hx1, hx2, he]

/-- non-vacuity (tests): the hypotheses of `C04_tree_inj` hold for the recording hasher on a concrete tree, and a
    one-bit permission change of a directory changes its pre-image -/
private def fileRec (p : Nat) : Record :=
  mkRecord { defaultDirMeta ⟨[0x61], -1⟩ with kind := .file, perms := p } [1, 2, 3]
private def smallTree (p q : Nat) : Tree :=
  .node (mkRecord { rootDir with perms := q } []) (.cons (.node (fileRec p) .nil) .nil)

example : specHash id (smallTree 0o644 0o755) ≠ specHash id (smallTree 0o644 0o750) := by decide
example : specHash id (smallTree 0o644 0o755) ≠ specHash id (smallTree 0o600 0o755) := by decide

end Rio
