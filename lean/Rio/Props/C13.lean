import Rio.Model.Fetch
import Rio.Generated.Facts
/-!
# C13 — A mirrored ware is served by the target alone, identically

`mirror` (Rio/Model/Fetch.lean) models `util.CreateMirror`: probe the target, open a staging writer,
pick a source, tee every byte read into the staging file while scanning, compare the scanned wareID,
commit.  The write path itself (atomic commit, cleanup) is C08's transition system.
-/
namespace Rio

/-- **No-op**: when the target already holds an object at the ware's address, mirror succeeds without opening
    any source and without writing anything. -/
theorem C13_noop (H : Bytes → Bytes) (req : Bytes) (writerOk : Bool) (pick : PickRes)
    (hdrs : List TarHdr) (fin : StreamEnd) (head : Bytes) (commitOk : Bool) :
    (mirror H req true writerOk pick hdrs fin head commitOk).2 = [.noop] ∧
    (match (mirror H req true writerOk pick hdrs fin head commitOk).1 with | .ok _ => True | _ => False) := by
  simp [mirror]

/-- **Success means committed and verified**: if mirror succeeds and the target did not have the ware, the
    staging file received every byte read, the scan of those bytes gave the requested id, and it was committed. -/
theorem C13_served (H : Bytes → Bytes) (req : Bytes) (writerOk : Bool) (pick : PickRes)
    (hdrs : List TarHdr) (fin : StreamEnd) (head : Bytes) (commitOk : Bool)
    (hok : (mirror H req false writerOk pick hdrs fin head commitOk).1 = .ok ()) :
    (mirror H req false writerOk pick hdrs fin head commitOk).2 = [.openWriter, .teeAll, .commit, .closeStage] ∧
    commitOk = true ∧
    ∃ post, unpackTar H nilOps 0 0 ⟨true, ffKeep, ffKeep, ffKeep, ffKeep, ffKeep, ffKeep⟩ hdrs fin () head = .ok ((), req, post) := by
  unfold mirror at hok ⊢
  simp only [Bool.false_eq_true, if_false] at hok ⊢
  cases writerOk with
  | false => simp at hok
  | true =>
    simp only [Bool.not_true, Bool.false_eq_true, if_false] at hok ⊢
    cases pick with
    | err c => simp at hok
    | opened i =>
      simp only at hok ⊢
      cases hu : unpackTar H nilOps 0 0 ⟨true, ffKeep, ffKeep, ffKeep, ffKeep, ffKeep, ffKeep⟩ hdrs fin () head with
      | panic w => simp [hu] at hok
      | err c => simp [hu] at hok
      | ok r =>
        obtain ⟨u, pre, post⟩ := r
        simp only [hu] at hok ⊢
        by_cases hp : pre = req
        · subst hp
          cases commitOk with
          | false => simp at hok
          | true => simp
        · simp [hp] at hok

/-- **A failed mirror commits nothing**: whenever mirror does not succeed, `Commit` either was not attempted or
    failed (and then C08 says the final address is untouched); whenever a staging writer was opened, it is closed
    (removed) before returning. -/
theorem C13_fail_clean (H : Bytes → Bytes) (req : Bytes) (targetHas writerOk : Bool) (pick : PickRes)
    (hdrs : List TarHdr) (fin : StreamEnd) (head : Bytes) (commitOk : Bool)
    (hfail : ∀ u, (mirror H req targetHas writerOk pick hdrs fin head commitOk).1 ≠ .ok u)
    (hnp : ∀ w, (mirror H req targetHas writerOk pick hdrs fin head commitOk).1 ≠ .panic w) :
    let ev := (mirror H req targetHas writerOk pick hdrs fin head commitOk).2
    (MirrorEv.commit ∉ ev ∨ commitOk = false) ∧ (MirrorEv.openWriter ∈ ev → MirrorEv.closeStage ∈ ev) := by
  unfold mirror at hfail hnp ⊢
  cases targetHas <;> cases writerOk <;> simp at hfail hnp ⊢
  cases pick with
  | err c => simp
  | opened i =>
    simp only at hfail hnp ⊢
    cases hu : unpackTar H nilOps 0 0 ⟨true, ffKeep, ffKeep, ffKeep, ffKeep, ffKeep, ffKeep⟩ hdrs fin () head with
    | panic w => simp [hu] at hnp
    | err c => simp
    | ok r =>
      obtain ⟨u, pre, post⟩ := r
      simp only [hu] at hfail ⊢
      by_cases hp : pre = req
      · simp only [hp, ne_eq, not_true_eq_false, if_false] at hfail ⊢
        cases commitOk <;> simp at hfail ⊢
      · simp [hp]

/-- T-fact tie: `CreateMirror` compares the scanned id with the requested one before its only `Commit`, and
    unpacks into nilfs (nothing is created locally). -/
theorem C13_tie : Generated.mirrorCompare = ["gotWare != wareID"] ∧ Generated.mirrorCommitAfterCompare = true ∧
    Generated.mirrorFs = ["nilFS.New()", "nilFS.New()"] := by decide   -- the probe of a single-address target, and the copy

end Rio
