import Rio.Model.Git
import Rio.Proofs.PathTheory
/-!
# C19 — git unpack yields exactly the commit's tree

`gitUnpackMetas` models what `unpackOneRepo` places for the entries go-git's tree walker yields for the
commit's tree.  The model takes *only* those entries: refs, HEAD, index and work tree are not inputs.
Tied to the code by the `git` stream (repositories made with the system `git`; the expected tree comes
from `git ls-tree` / `git cat-file`).
-/
namespace Rio

/-- **Exactly one entry per path of the tree, with the documented mapping**: regular → file 0644, executable →
    file 0755, symlink → link with the blob as target, directory → dir 0755; owner 1000:1000; mtime the default
    time; and the name is the tree path. -/
theorem C19_tree (e : GitEntry) (m : Meta) (h : gitEntryMeta e = .ok m) :
    mustRel e.name = some m.name ∧ m.uid = 1000 ∧ m.gid = 1000 ∧ m.mtime = defaultTime ∧
    (e.mode = .regular → m.kind = .file ∧ m.perms = 0o644) ∧
    (e.mode = .deprecated → m.kind = .file ∧ m.perms = 0o644) ∧
    (e.mode = .executable → m.kind = .file ∧ m.perms = 0o755) ∧
    (e.mode = .oddRegular → m.kind = .file ∧ m.perms = 0o644) ∧
    (e.mode = .oddExecutable → m.kind = .file ∧ m.perms = 0o755) ∧
    (e.mode = .symlink → m.kind = .symlink ∧ m.linkname = e.blob) ∧
    (e.mode = .dir → m.kind = .dir ∧ m.perms = 0o755) := by
  unfold gitEntryMeta at h
  split at h
  · cases h
  · cases hn : mustRel e.name with
    | none => simp [hn] at h
    | some n =>
      simp only [hn] at h
      cases hm : e.mode <;> simp only [hm] at h <;> first
        | (cases h; done)
        | (injection h with h; subst h; simp)

/-- **No tree makes the unpack panic.**  Whatever names and modes a (hand-written) tree object carries, every
    entry is either placed or refused as `rio-ware-corrupt`: the `fs.MustRelPath` panic is unreachable behind the
    leading-slash guard, and an unknown file mode is a refusal. -/
theorem C19_entry_never_panics (e : GitEntry) : gitEntryMeta e ≠ .panic := by
  unfold gitEntryMeta
  split
  · simp
  · rename_i hs
    rw [mustRel_eq e.name hs]
    cases e.mode <;> simp

theorem C19_never_panics (es : List GitEntry) : gitUnpackMetas es ≠ .panic := by
  have h : gitMetas es ≠ .panic := by
    induction es with
    | nil => simp [gitMetas]
    | cons e es ih =>
      simp only [gitMetas]
      cases he : gitEntryMeta e with
      | panic => exact absurd he (C19_entry_never_panics e)
      | corrupt => simp
      | ok m =>
        cases hr : gitMetas es with
        | panic => exact absurd hr ih
        | corrupt => simp
        | ok ms => simp
  unfold gitUnpackMetas
  cases hr : gitMetas es with
  | panic => exact absurd hr h
  | corrupt => simp
  | ok ms => simp

/-- exactly which entries are refused: a name starting with `/`, or a file mode go-git does not know -/
theorem C19_refused_iff (e : GitEntry) :
    gitEntryMeta e = .corrupt ↔ (e.name.head? = some slash ∨ e.mode = .other) := by
  unfold gitEntryMeta
  split
  · rename_i hs; simp [hs]
  · rename_i hs
    rw [mustRel_eq e.name hs]
    cases hm : e.mode <;> simp [hs]

theorem gitMetas_length : ∀ (es : List GitEntry) (ms : List Meta), gitMetas es = .ok ms → ms.length = es.length := by
  intro es
  induction es with
  | nil => intro ms h; simp [gitMetas] at h; subst h; rfl
  | cons e es ih =>
    intro ms h
    simp only [gitMetas] at h
    cases he : gitEntryMeta e with
    | panic => simp [he] at h
    | corrupt => simp [he] at h
    | ok m =>
      simp only [he] at h
      cases hr : gitMetas es with
      | panic => simp [hr] at h
      | corrupt => simp [hr] at h
      | ok ms' =>
        simp only [hr] at h
        injection h with h
        subst h
        simp [ih ms' hr]

/-- the unpack places the conjured root plus one metadata per walked entry, in order: nothing else (no `.git`) -/
theorem C19_count (es : List GitEntry) (ms : List Meta) (h : gitUnpackMetas es = .ok ms) :
    ms.length = es.length + 1 := by
  unfold gitUnpackMetas at h
  cases hr : gitMetas es with
  | panic => simp [hr] at h
  | corrupt => simp [hr] at h
  | ok l =>
    simp only [hr] at h
    injection h with h
    subst h
    simp [gitMetas_length es l hr]

/-- **Frame**: the result is a function of the walked entries alone. Two repositories (any refs, HEAD, index,
    work tree) in which the commit's tree walks to the same entries unpack identically. -/
theorem C19_frame (es₁ es₂ : List GitEntry) (h : es₁ = es₂) : gitUnpackMetas es₁ = gitUnpackMetas es₂ := by
  rw [h]

/-- non-vacuity: a tree with a deprecated-mode file and a symlink is placed; one with an absolute name is refused -/
example : gitUnpackMetas [⟨[97], .deprecated, []⟩, ⟨[98], .symlink, [97]⟩] ≠ .corrupt := by decide
example : gitUnpackMetas [⟨[47, 97], .regular, []⟩] = .corrupt := by decide

end Rio
