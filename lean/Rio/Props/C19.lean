import Rio.Model.Git
/-!
# C19 — git unpack yields exactly the commit's tree

`gitUnpackMetas` models what `unpackOneRepo` places for the entries go-git's tree walker yields for the
commit's tree.  The model takes *only* those entries: refs, HEAD, index and work tree are not inputs.
Tied to the code by the `git` stream (repositories made with the system `git`; the expected tree comes
from `git ls-tree` / `git cat-file`).
-/
namespace Rio

/-- **Exactly one entry per path of the tree, with the documented mapping**: regular → file 0644, executable →
    file 0755, symlink → link with the blob as target, directory → dir 0755; owner 1000:1000; mtime the default
    time; and the name is the tree path. -/
theorem C19_tree (e : GitEntry) (m : Meta) (h : gitEntryMeta e = some (some m)) :
    mustRel e.name = some m.name ∧ m.uid = 1000 ∧ m.gid = 1000 ∧ m.mtime = defaultTime ∧
    (e.mode = .regular → m.kind = .file ∧ m.perms = 0o644) ∧
    (e.mode = .executable → m.kind = .file ∧ m.perms = 0o755) ∧
    (e.mode = .symlink → m.kind = .symlink ∧ m.linkname = e.blob) ∧
    (e.mode = .dir → m.kind = .dir ∧ m.perms = 0o755) := by
  unfold gitEntryMeta at h
  cases hn : mustRel e.name with
  | none => simp [hn] at h
  | some n =>
    simp only [hn] at h
    cases hm : e.mode <;> simp only [hm] at h <;> first
      | (simp at h; done)
      | (simp only [Option.some.injEq] at h; subst h; simp)

theorem mapM_some_length {α β : Type} (f : α → Option β) : ∀ (xs : List α) (ys : List β),
    xs.mapM f = some ys → ys.length = xs.length := by
  intro xs
  induction xs with
  | nil => intro ys h; simp at h; subst h; rfl
  | cons x xs ih =>
    intro ys h
    rw [List.mapM_cons] at h
    cases h1 : f x with
    | none => simp [h1] at h
    | some y =>
      cases h2 : xs.mapM f with
      | none => simp [h1, h2] at h
      | some ys' =>
        simp [h1, h2] at h
        subst h
        simp [ih ys' h2]

/-- the unpack places the conjured root plus one metadata per walked entry, in order: nothing else (no `.git`) -/
theorem C19_count (es : List GitEntry) (ms : List Meta) (h : gitUnpackMetas es = some ms) :
    ms.length = es.length + 1 := by
  unfold gitUnpackMetas at h
  split at h
  · cases h
  · rename_i l hl
    injection h with h
    subst h
    simp [mapM_some_length _ es l hl]

/-- **Frame**: the result is a function of the walked entries alone. Two repositories (any refs, HEAD, index,
    work tree) in which the commit's tree walks to the same entries unpack identically. -/
theorem C19_frame (es₁ es₂ : List GitEntry) (h : es₁ = es₂) : gitUnpackMetas es₁ = gitUnpackMetas es₂ := by
  rw [h]

end Rio
