import Rio.Model.Hash
import Rio.Proofs.CborInj
import Rio.Proofs.Sort
/-!
# `marshalMetadata` is uniquely decodable

`mview m` is exactly what `serMeta m` carries: the last path component, type, permission bits, uid, gid, link
target, device numbers (devices only), mtime (seconds and nanoseconds) and the xattrs in key order.  Two
serializations that agree (followed by anything) have equal views and equal remainders.
-/
namespace Rio

structure MView where
  last : Bytes
  kind : Kind
  perms : Nat
  uid : Nat
  gid : Nat
  linkname : Bytes
  dev : Option (Int × Int)
  sec : Int
  nsec : Nat
  xattrs : List (Bytes × Bytes)
deriving DecidableEq, Repr

def mview (m : Meta) : MView :=
  ⟨m.name.last, m.kind, m.perms, m.uid, m.gid, m.linkname,
   if isDev m.kind then some (m.devmajor, m.devminor) else none, m.mtime.sec, m.mtime.nsec, sortPairs m.xattrs⟩

/-- what Go's types guarantee: lengths and counts fit an `int`, numbers fit their fixed-width types -/
structure MBounded (m : Meta) : Prop where
  last : m.name.last.length < 2 ^ 64
  perms : m.perms < 2 ^ 32
  uid : m.uid < 2 ^ 32
  gid : m.gid < 2 ^ 32
  link : m.linkname.length < 2 ^ 64
  maj : I64 m.devmajor
  min : I64 m.devminor
  sec : I64 m.mtime.sec
  nsec : m.mtime.nsec < 2 ^ 32
  xn : m.xattrs.length < 2 ^ 64
  xs : ∀ kv ∈ m.xattrs, kv.1.length < 2 ^ 64 ∧ kv.2.length < 2 ^ 64

theorem typeString_inj : ∀ a b : Kind, typeString a = typeString b → a = b := by
  intro a b
  cases a <;> cases b <;> first | (intro _; rfl) | (intro h; exact absurd h (by decide))

theorem typeString_len (k : Kind) : (typeString k).length < 2 ^ 64 := by
  cases k <;> decide

theorem i64_nat {n : Nat} (h : n < 2 ^ 32) : I64 (n : Int) := by
  unfold I64; constructor <;> omega

def serPairs (xs : List (Bytes × Bytes)) : Bytes :=
  xs.foldr (fun kv acc => cborStr kv.1 ++ cborStr kv.2 ++ acc) []

theorem serPairs_inj : ∀ (l1 l2 : List (Bytes × Bytes)) (r1 r2 : Bytes), l1.length = l2.length →
    (∀ kv ∈ l1, kv.1.length < 2 ^ 64 ∧ kv.2.length < 2 ^ 64) →
    (∀ kv ∈ l2, kv.1.length < 2 ^ 64 ∧ kv.2.length < 2 ^ 64) →
    serPairs l1 ++ r1 = serPairs l2 ++ r2 → l1 = l2 ∧ r1 = r2
  | [], [], r1, r2, _, _, _, h => ⟨rfl, by simpa [serPairs] using h⟩
  | [], _ :: _, _, _, hl, _, _, _ => by simp at hl
  | _ :: _, [], _, _, hl, _, _, _ => by simp at hl
  | a :: l1, b :: l2, r1, r2, hl, h1, h2, h => by
    simp only [serPairs, List.foldr_cons, List.append_assoc] at h
    obtain ⟨e1, h⟩ := cborStr_inj (h1 a (by simp)).1 (h2 b (by simp)).1 h
    obtain ⟨e2, h⟩ := cborStr_inj (h1 a (by simp)).2 (h2 b (by simp)).2 h
    obtain ⟨e3, e4⟩ := serPairs_inj l1 l2 r1 r2 (by simpa using hl)
      (fun kv hkv => h1 kv (by simp [hkv])) (fun kv hkv => h2 kv (by simp [hkv])) (by simpa [serPairs] using h)
    exact ⟨by rw [Prod.ext e1 e2, e3], e4⟩

theorem serXattrs_eq (xs : List (Bytes × Bytes)) :
    serXattrs xs = if xs.isEmpty then [] else cborStr key_x ++ (cborMap xs.length ++ serPairs (sortPairs xs)) := by
  unfold serXattrs serPairs
  split <;> simp

theorem sortPairs_length (xs : List (Bytes × Bytes)) : (sortPairs xs).length = xs.length := by
  unfold sortPairs; exact (perm_sortBy (fun kv : Bytes × Bytes => kv.1) xs).length_eq

theorem sortPairs_mem (xs : List (Bytes × Bytes)) (kv : Bytes × Bytes) : kv ∈ sortPairs xs ↔ kv ∈ xs := by
  unfold sortPairs; exact (perm_sortBy (fun kv : Bytes × Bytes => kv.1) xs).mem_iff

theorem serXattrs_inj (x1 x2 : List (Bytes × Bytes)) (r1 r2 : Bytes)
    (he : x1.isEmpty = x2.isEmpty) (hn1 : x1.length < 2 ^ 64) (hn2 : x2.length < 2 ^ 64)
    (h1 : ∀ kv ∈ x1, kv.1.length < 2 ^ 64 ∧ kv.2.length < 2 ^ 64)
    (h2 : ∀ kv ∈ x2, kv.1.length < 2 ^ 64 ∧ kv.2.length < 2 ^ 64)
    (h : serXattrs x1 ++ r1 = serXattrs x2 ++ r2) : sortPairs x1 = sortPairs x2 ∧ r1 = r2 := by
  rw [serXattrs_eq, serXattrs_eq] at h
  cases hx1 : x1.isEmpty with
  | true =>
    have hx2 : x2.isEmpty = true := by rw [← he, hx1]
    have e1 : x1 = [] := List.isEmpty_iff.1 hx1
    have e2 : x2 = [] := List.isEmpty_iff.1 hx2
    subst e1; subst e2
    simp at h
    exact ⟨rfl, h⟩
  | false =>
    have hx2 : x2.isEmpty = false := by rw [← he, hx1]
    simp only [hx1, hx2, Bool.false_eq_true, if_false, List.append_assoc] at h
    have h := List.append_cancel_left h
    obtain ⟨en, h⟩ := cborMap_inj hn1 hn2 h
    exact serPairs_inj _ _ r1 r2 (by rw [sortPairs_length, sortPairs_length, en])
      (fun kv hkv => h1 kv ((sortPairs_mem x1 kv).1 hkv)) (fun kv hkv => h2 kv ((sortPairs_mem x2 kv).1 hkv)) h


theorem metaFieldCount_lt (m : Meta) : metaFieldCount m < 2 ^ 64 := by
  unfold metaFieldCount
  split <;> split <;> split <;> omega

theorem strlen_small (k : Bytes) (h : k.length ≤ 2) : k.length < 2 ^ 64 := by omega

/-- **`marshalMetadata` is uniquely decodable.** -/
theorem serMeta_inj (m1 m2 : Meta) (b1 : MBounded m1) (b2 : MBounded m2) (r1 r2 : Bytes)
    (h : serMeta m1 ++ r1 = serMeta m2 ++ r2) : mview m1 = mview m2 ∧ r1 = r2 := by
  unfold serMeta at h
  simp only [List.append_assoc] at h
  obtain ⟨hcnt, h⟩ := cborMap_inj (metaFieldCount_lt m1) (metaFieldCount_lt m2) h
  have h := List.append_cancel_left h
  obtain ⟨e_last, h⟩ := cborStr_inj b1.last b2.last h
  have h := List.append_cancel_left h
  obtain ⟨e_t, h⟩ := cborStr_inj (typeString_len _) (typeString_len _) h
  have e_kind := typeString_inj _ _ e_t
  have h := List.append_cancel_left h
  obtain ⟨e_p, h⟩ := cborInt_inj (i64_nat b1.perms) (i64_nat b2.perms) h
  have h := List.append_cancel_left h
  obtain ⟨e_u, h⟩ := cborInt_inj (i64_nat b1.uid) (i64_nat b2.uid) h
  have h := List.append_cancel_left h
  obtain ⟨e_g, h⟩ := cborInt_inj (i64_nat b1.gid) (i64_nat b2.gid) h
  rw [e_kind] at h
  -- link target (optional)
  have hl : m1.linkname = m2.linkname ∧
      (if isDev m2.kind = true then cborStr key_dM ++ (cborInt m1.devmajor ++ (cborStr key_dm ++ cborInt m1.devminor)) else []) ++
        (cborStr key_m ++ (cborInt m1.mtime.sec ++ (cborStr key_mn ++ (cborInt ↑m1.mtime.nsec ++ (serXattrs m1.xattrs ++ r1))))) =
      (if isDev m2.kind = true then cborStr key_dM ++ (cborInt m2.devmajor ++ (cborStr key_dm ++ cborInt m2.devminor)) else []) ++
        (cborStr key_m ++ (cborInt m2.mtime.sec ++ (cborStr key_mn ++ (cborInt ↑m2.mtime.nsec ++ (serXattrs m2.xattrs ++ r2))))) := by
    by_cases l1 : m1.linkname ≠ [] <;> by_cases l2 : m2.linkname ≠ []
    · rw [if_pos l1, if_pos l2] at h
      simp only [List.append_assoc] at h
      have h := List.append_cancel_left h
      obtain ⟨e, h⟩ := cborStr_inj b1.link b2.link h
      exact ⟨e, h⟩
    · exfalso
      rw [if_pos l1, if_neg l2] at h
      simp only [List.append_assoc, List.nil_append] at h
      by_cases d : isDev m2.kind = true
      · rw [if_pos d, if_pos d] at h
        simp only [List.append_assoc] at h
        have := (cborStr_inj (a := key_l) (b := key_dM) (by decide) (by decide) h).1
        exact absurd this (by decide)
      · rw [if_neg d, if_neg d] at h
        simp only [List.nil_append] at h
        have := (cborStr_inj (a := key_l) (b := key_m) (by decide) (by decide) h).1
        exact absurd this (by decide)
    · exfalso
      rw [if_neg l1, if_pos l2] at h
      simp only [List.append_assoc, List.nil_append] at h
      by_cases d : isDev m2.kind = true
      · rw [if_pos d, if_pos d] at h
        simp only [List.append_assoc] at h
        have := (cborStr_inj (a := key_dM) (b := key_l) (by decide) (by decide) h).1
        exact absurd this (by decide)
      · rw [if_neg d, if_neg d] at h
        simp only [List.nil_append] at h
        have := (cborStr_inj (a := key_m) (b := key_l) (by decide) (by decide) h).1
        exact absurd this (by decide)
    · rw [if_neg l1, if_neg l2] at h
      simp only [List.nil_append] at h
      have e1 : m1.linkname = [] := by simpa using l1
      have e2 : m2.linkname = [] := by simpa using l2
      exact ⟨by rw [e1, e2], h⟩
  obtain ⟨e_l, h⟩ := hl
  -- device numbers (devices only)
  have hd : (isDev m2.kind = true → m1.devmajor = m2.devmajor ∧ m1.devminor = m2.devminor) ∧
      cborStr key_m ++ (cborInt m1.mtime.sec ++ (cborStr key_mn ++ (cborInt ↑m1.mtime.nsec ++ (serXattrs m1.xattrs ++ r1)))) =
      cborStr key_m ++ (cborInt m2.mtime.sec ++ (cborStr key_mn ++ (cborInt ↑m2.mtime.nsec ++ (serXattrs m2.xattrs ++ r2)))) := by
    by_cases d : isDev m2.kind = true
    · rw [if_pos d, if_pos d] at h
      simp only [List.append_assoc] at h
      have h := List.append_cancel_left h
      obtain ⟨e1, h⟩ := cborInt_inj b1.maj b2.maj h
      have h := List.append_cancel_left h
      obtain ⟨e2, h⟩ := cborInt_inj b1.min b2.min h
      exact ⟨fun _ => ⟨e1, e2⟩, h⟩
    · rw [if_neg d, if_neg d] at h
      simp only [List.nil_append] at h
      exact ⟨fun hh => absurd hh d, h⟩
  obtain ⟨e_d, h⟩ := hd
  have h := List.append_cancel_left h
  obtain ⟨e_s, h⟩ := cborInt_inj b1.sec b2.sec h
  have h := List.append_cancel_left h
  obtain ⟨e_n, h⟩ := cborInt_inj (i64_nat b1.nsec) (i64_nat b2.nsec) h
  -- xattrs: presence follows from the field count
  have he : m1.xattrs.isEmpty = m2.xattrs.isEmpty := by
    unfold metaFieldCount at hcnt
    rw [e_kind, e_l] at hcnt
    cases h1 : m1.xattrs.isEmpty <;> cases h2 : m2.xattrs.isEmpty <;> simp [h1, h2] at hcnt ⊢ <;> omega
  obtain ⟨e_x, er⟩ := serXattrs_inj _ _ r1 r2 he b1.xn b2.xn b1.xs b2.xs h
  refine ⟨?_, er⟩
  have e_p' : m1.perms = m2.perms := by exact_mod_cast e_p
  have e_u' : m1.uid = m2.uid := by exact_mod_cast e_u
  have e_g' : m1.gid = m2.gid := by exact_mod_cast e_g
  have e_n' : m1.mtime.nsec = m2.mtime.nsec := by exact_mod_cast e_n
  unfold mview
  rw [e_last, e_kind, e_p', e_u', e_g', e_l, e_s, e_n', e_x]
  by_cases d : isDev m2.kind = true
  · obtain ⟨a, b⟩ := e_d d
    simp [d, a, b]
  · simp [d]

end Rio
