import Rio.Model.Osfs
import Rio.Props.C18
/-!
# The osfs resolver: termination and confinement (model level)

`Inside p`: `p` is the canonical value of a component list made of normal components only (no `..`): a path that
stays inside the base.  Every path the resolver builds is `Inside` (excess `..` is clamped at the base, absolute link
targets restart at the base).  The `seen` list only ever holds distinct locations of symlinks of the tree, so the
recursion depth is bounded by their number: `numLinks t + 2` units of fuel are never used up.
-/
namespace Rio

def Inside (p : RelPath) : Prop := ∃ a, (∀ c ∈ a, Normal c) ∧ p = ofComps a

theorem allNormal_clean {a : List Bytes} (h : ∀ c ∈ a, Normal c) : CleanComps false a :=
  ⟨[], a, by simp, by simp, h, by simp⟩

theorem Inside.clean {p : RelPath} (h : Inside p) : p.Clean := by
  obtain ⟨a, ha, rfl⟩ := h
  exact ⟨a, allNormal_clean ha, rfl⟩

theorem Inside.not_up {p : RelPath} (h : Inside p) : p.goesUp = false := by
  obtain ⟨a, ha, rfl⟩ := h
  cases hg : (ofComps a).goesUp with
  | false => rfl
  | true =>
    have := (goesUp_ofComps (allNormal_clean ha)).1 hg
    cases a with
    | nil => simp at this
    | cons x xs =>
      simp only [List.head?_cons, Option.some.injEq] at this
      exact absurd (this ▸ ha x (by simp)) dd_not_normal

theorem inside_root : Inside ⟨[], 0⟩ := ⟨[], by simp, by simp [ofComps]⟩

theorem Inside.dir {p : RelPath} (h : Inside p) : Inside p.dir := by
  obtain ⟨a, ha, rfl⟩ := h
  by_cases h0 : a = []
  · subst h0; exact ⟨[], by simp, by simp [RelPath.dir, ofComps]⟩
  · obtain ⟨init, l, rfl⟩ : ∃ init l, a = init ++ [l] :=
      ⟨a.dropLast, a.getLast h0, (List.dropLast_concat_getLast h0).symm⟩
    rw [dir_snoc (allNormal_clean ha)]
    exact ⟨init, fun c hc => ha c (by simp [hc]), rfl⟩

/-- a path segment (what `strings.Split(target, "/")` yields, minus the skipped `""` and `"."`) -/
def Seg (s : Bytes) : Prop := s ≠ [] ∧ s ≠ [dot] ∧ slash ∉ s

theorem single_of_seg {s : Bytes} (hs : Seg s) : single s = ofComps [s] ∧ (s = dd ∨ Normal s) := by
  obtain ⟨h0, h1, h2⟩ := hs
  have hsl : s.head? ≠ some slash := by
    cases s with
    | nil => exact absurd rfl h0
    | cons x xs =>
      simp only [List.head?_cons, ne_eq, Option.some.injEq]
      intro e; subst e; simp at h2
  have hcase : s = dd ∨ Normal s := by
    by_cases e : s = dd
    · exact Or.inl e
    · exact Or.inr ⟨h0, h1, e, h2⟩
  have hcl : CleanComps false [s] := by
    rcases hcase with e | e
    · exact ⟨[s], [], by simp, by simp [e], by simp, by simp⟩
    · exact ⟨[], [s], by simp, by simp, by simpa using e, by simp⟩
  refine ⟨?_, hcase⟩
  unfold single
  rw [mustRel_eq s hsl, splitOn_nosep slash s h2, cleanComps_id false [s] hcl]
  rfl

theorem cleanComps_snoc_dd {a : List Bytes} (ha : ∀ c ∈ a, Normal c) (h0 : a ≠ []) :
    cleanComps false (a ++ [dd]) = a.dropLast := by
  obtain ⟨init, l, rfl⟩ : ∃ init l, a = init ++ [l] :=
    ⟨a.dropLast, a.getLast h0, (List.dropLast_concat_getLast h0).symm⟩
  have hl : Normal l := ha l (by simp)
  have hi : ∀ c ∈ init, Normal c := fun c hc => ha c (by simp [hc])
  unfold cleanComps
  rw [List.foldl_append, List.foldl_append, foldl_cleanStep_names false init hi]
  simp only [List.foldl_cons, List.foldl_nil, List.append_nil]
  rw [cleanStep_normal false _ l hl]
  have hne : ¬ l = [dot, dot] := hl.2.2.1
  simp [cleanStep, dd, hne]

/-- joining one segment onto an inside path stays inside, except `..` at the base (which the resolver clamps) -/
theorem Inside.join_seg {p : RelPath} (h : Inside p) {s : Bytes} (hs : Seg s)
    (hclamp : ¬ (s = dd ∧ p = ⟨[], 0⟩)) : Inside (p.join (single s)) := by
  obtain ⟨a, ha, rfl⟩ := h
  obtain ⟨e, hcase⟩ := single_of_seg hs
  rw [e]
  have hb : CleanComps false [s] := by
    rcases hcase with e' | e'
    · exact ⟨[s], [], by simp, by simp [e'], by simp, by simp⟩
    · exact ⟨[], [s], by simp, by simp, by simpa using e', by simp⟩
  rw [join_ofComps (allNormal_clean ha) hb]
  rcases hcase with e' | e'
  · subst e'
    have h0 : a ≠ [] := by
      intro e0; apply hclamp; subst e0; exact ⟨rfl, by simp [ofComps]⟩
    rw [cleanComps_snoc_dd ha h0]
    exact ⟨a.dropLast, fun c hc => ha c (List.dropLast_subset a hc), rfl⟩
  · have hall : ∀ c ∈ a ++ [s], Normal c := by
      intro c hc; simp only [List.mem_append, List.mem_singleton] at hc
      rcases hc with hc | rfl
      · exact ha c hc
      · exact e'
    rw [cleanComps_id false _ (allNormal_clean hall)]
    exact ⟨a ++ [s], hall, rfl⟩

/-- canonical values are determined by their path string -/
theorem clean_path_inj {p q : RelPath} (hp : p.Clean) (hq : q.Clean) (h : p.path = q.path) : p = q := by
  have canon : ∀ r : RelPath, r.Clean → r = if r.path = [] then ⟨[], 0⟩ else ⟨r.path, lastIndexOf slash r.path⟩ := by
    intro r hr
    obtain ⟨cs, hc, rfl⟩ := hr
    by_cases h0 : cs = []
    · subst h0; simp [ofComps]
    · have := (render_facts hc h0).1
      simp [ofComps, h0, this]
  rw [canon p hp, canon q hq, h]


/-! ## the `seen` list is a list of distinct symlink locations -/

def IsLinkAt (t : Tree_) (p : RelPath) : Prop := ∃ tg, t.get p.path = some (.link tg)

theorem readlinkAt_link {t : Tree_} {p : RelPath} {tg : Bytes} (h : readlinkAt t p = .link tg) : IsLinkAt t p := by
  unfold readlinkAt at h
  simp only at h
  split at h
  · cases h
  · split at h
    · cases h
    · split at h
      · cases h
      · split at h
        · cases h
        · rename_i tg' he; injection h with h; exact ⟨tg', he⟩
        · cases h

theorem links_bound (t : Tree_) (ks : List Bytes) (hn : ks.Nodup)
    (h : ∀ k ∈ ks, ∃ tg, t.get k = some (.link tg)) : ks.length ≤ numLinks t := by
  unfold numLinks
  rw [← List.length_map (f := fun kv : Bytes × Node => kv.1)]
  apply List.Nodup.length_le_of_subset hn
  intro k hk
  obtain ⟨tg, hg⟩ := h k hk
  unfold Tree_.get at hg
  split at hg
  · cases hg
  · cases hf : t.find? (fun kv => decide (kv.1 = k)) with
    | none => rw [hf] at hg; cases hg
    | some kv =>
      rw [hf] at hg
      simp only [Option.map_some, Option.some.injEq] at hg
      have hm := List.mem_of_find?_eq_some hf
      have hk' : kv.1 = k := by simpa using List.find?_some hf
      exact List.mem_map.2 ⟨kv, List.mem_filter.2 ⟨hm, by rw [hg]⟩, hk'⟩

theorem nodup_map_of_inj {α β : Type} {f : α → β} : ∀ (l : List α), l.Nodup →
    (∀ x ∈ l, ∀ y ∈ l, f x = f y → x = y) → (l.map f).Nodup
  | [], _, _ => by simp
  | a :: l, hn, hinj => by
    have ⟨h1, h2⟩ := List.nodup_cons.1 hn
    simp only [List.map_cons, List.nodup_cons, List.mem_map, not_exists, not_and]
    refine ⟨?_, nodup_map_of_inj l h2 (fun x hx y hy => hinj x (by simp [hx]) y (by simp [hy]))⟩
    intro y hy e
    have := hinj y (by simp [hy]) a (by simp) e
    exact h1 (this ▸ hy)

def SeenOK (t : Tree_) (seen : List RelPath) : Prop :=
  seen.Nodup ∧ ∀ p ∈ seen, p.Clean ∧ IsLinkAt t p

theorem seen_bound {t : Tree_} {seen : List RelPath} (h : SeenOK t seen) : seen.length ≤ numLinks t := by
  have hn : (seen.map (·.path)).Nodup :=
    nodup_map_of_inj seen h.1 (fun x hx y hy e => clean_path_inj (h.2 x hx).1 (h.2 y hy).1 e)
  have := links_bound t (seen.map (·.path)) hn (by
    intro k hk
    obtain ⟨p, hp, rfl⟩ := List.mem_map.1 hk
    exact (h.2 p hp).2)
  simpa using this


/-! ## the recursion -/

/-- what a call must deliver: not out of fuel, a well-formed `seen` extending the one it was given, an inside result -/
def ROk (t : Tree_) (seen0 : List RelPath) (r : Resolved × List RelPath) : Prop :=
  r.1 ≠ .outOfFuel ∧ SeenOK t r.2 ∧ (∀ x ∈ seen0, x ∈ r.2) ∧ (∀ p, r.1 = .ok p → Inside p)

def RecOK (t : Tree_) (base : List RelPath) (rec : Bytes → RelPath → List RelPath → Resolved × List RelPath) : Prop :=
  ∀ tg sa seen, SeenOK t seen → (∀ x ∈ base, x ∈ seen) → Inside sa → IsLinkAt t sa → ROk t seen (rec tg sa seen)

theorem segs_ok (t : Tree_) (rec : Bytes → RelPath → List RelPath → Resolved × List RelPath) (startingAt : RelPath)
    (base : List RelPath) (hrec : RecOK t base rec) :
    ∀ (segs : List Bytes) (path : RelPath) (seen : List RelPath), (∀ s ∈ segs, slash ∉ s) → Inside path →
      SeenOK t seen → (∀ x ∈ base, x ∈ seen) → ROk t seen (resolveSegsWith t rec startingAt segs path seen)
  | [], path, seen, _, hp, hs, _ => by
    simp only [resolveSegsWith]
    exact ⟨(fun e => by cases e), hs, fun x hx => hx, (fun p e => by injection e with e; subst e; exact hp)⟩
  | s :: rest, path, seen, hsl, hp, hs, hb => by
    have hrest : ∀ x ∈ rest, slash ∉ x := fun x hx => hsl x (by simp [hx])
    rw [resolveSegsWith]
    by_cases h1 : s = [] ∨ s = [dot]
    · rw [if_pos h1]; exact segs_ok t rec startingAt base hrec rest path seen hrest hp hs hb
    · rw [if_neg h1]
      by_cases h2 : s = [dot, dot] ∧ path = ⟨[], 0⟩
      · rw [if_pos h2]; exact segs_ok t rec startingAt base hrec rest path seen hrest hp hs hb
      · rw [if_neg h2]
        have hseg : Seg s := ⟨fun e => h1 (Or.inl e), fun e => h1 (Or.inr e), hsl s (by simp)⟩
        have hp' : Inside (path.join (single s)) := hp.join_seg hseg (by simpa [dd] using h2)
        simp only
        by_cases h3 : path.join (single s) = startingAt
        · rw [if_pos h3]
          exact ⟨(fun e => by cases e), hs, fun x hx => hx, (fun p e => by cases e)⟩
        · rw [if_neg h3]
          cases hrl : readlinkAt t (path.join (single s)) with
          | hostFollow => exact ⟨(fun e => by cases e), hs, fun x hx => hx, (fun p e => by cases e)⟩
          | err c =>
            simp only
            split
            · exact ⟨(fun e => by cases e), hs, fun x hx => hx, (fun p e => by injection e with e; subst e; exact hp')⟩
            · exact ⟨(fun e => by cases e), hs, fun x hx => hx, (fun p e => by cases e)⟩
          | notLink => exact segs_ok t rec startingAt base hrec rest _ seen hrest hp' hs hb
          | link tg =>
            simp only
            obtain ⟨r1, r2, r3, r4⟩ := hrec tg (path.join (single s)) seen hs hb hp' (readlinkAt_link hrl)
            cases hr : rec tg (path.join (single s)) seen with
            | mk res seen' =>
              rw [hr] at r1 r2 r3 r4
              simp only at r1 r2 r3 r4
              cases res with
              | ok p' =>
                simp only
                obtain ⟨q1, q2, q3, q4⟩ := segs_ok t rec startingAt base hrec rest p' seen' hrest (r4 p' rfl) r2
                  (fun x hx => r3 x (hb x hx))
                exact ⟨q1, q2, fun x hx => q3 x (r3 x hx), q4⟩
              | err c a => exact ⟨(fun e => by cases e), r2, r3, (fun p e => by cases e)⟩
              | hostFollow => exact ⟨(fun e => by cases e), r2, r3, (fun p e => by cases e)⟩
              | outOfFuel => exact absurd rfl r1

/-- `resolveLink` with enough fuel for the links not yet on the `seen` list -/
theorem resolveLink_ok (t : Tree_) : ∀ (fuel : Nat) (symlink : Bytes) (startingAt : RelPath) (seen : List RelPath),
    SeenOK t seen → Inside startingAt → IsLinkAt t startingAt → fuel + seen.length ≥ numLinks t + 1 →
    ROk t seen (resolveLink t fuel symlink startingAt seen)
  | 0, _, _, seen, hs, _, _, hf => by
    have := seen_bound hs
    omega
  | fuel + 1, symlink, startingAt, seen, hs, hin, hl, hf => by
    rw [resolveLink]
    by_cases hc : seen.contains startingAt = true
    · rw [if_pos hc]
      exact ⟨(fun e => by cases e), hs, fun x hx => hx, (fun p e => by cases e)⟩
    · rw [if_neg hc]
      have hnin : startingAt ∉ seen := by simpa using hc
      have hs1 : SeenOK t (startingAt :: seen) :=
        ⟨List.nodup_cons.2 ⟨hnin, hs.1⟩, fun p hp => by
          rcases List.mem_cons.1 hp with rfl | hp
          · exact ⟨hin.clean, hl⟩
          · exact hs.2 p hp⟩
      have hrec : RecOK t (startingAt :: seen) (resolveLink t fuel) := by
        intro tg sa seen' hs' hb' hin' hl'
        apply resolveLink_ok t fuel tg sa seen' hs' hin' hl'
        have : (startingAt :: seen).length ≤ seen'.length :=
          List.Nodup.length_le_of_subset hs1.1 (fun x hx => hb' x hx)
        simp only [List.length_cons] at this
        omega
      simp only
      have hsegs : ∀ s ∈ (if (splitOn slash symlink).head? = some [] then (splitOn slash symlink).drop 1 else splitOn slash symlink), slash ∉ s := by
        intro s hs'
        split at hs'
        · exact splitOn_mem_nosep slash symlink s (List.mem_of_mem_drop hs')
        · exact splitOn_mem_nosep slash symlink s hs'
      have hstart : Inside (if (splitOn slash symlink).head? = some [] then (⟨[], 0⟩ : RelPath) else startingAt.dir) := by
        split
        · exact inside_root
        · exact hin.dir
      obtain ⟨q1, q2, q3, q4⟩ := segs_ok t (resolveLink t fuel) startingAt (startingAt :: seen) hrec _ _ _ hsegs hstart hs1
        (fun x hx => hx)
      exact ⟨q1, q2, fun x hx => q3 x (by simp [hx]), q4⟩


/-! ## `realpath` -/

theorem inside_of_clean_not_up {p : RelPath} (hc : p.Clean) (hu : p.goesUp = false) : Inside p := by
  obtain ⟨cs, ⟨ups, names, rfl, hup, hn, _⟩, rfl⟩ := hc
  cases ups with
  | nil => exact ⟨names, by simpa using hn, by simp⟩
  | cons u us =>
    exfalso
    have hcl : CleanComps false (u :: us ++ names) := ⟨u :: us, names, rfl, hup, hn, by simp⟩
    have : (ofComps (u :: us ++ names)).goesUp = true :=
      (goesUp_ofComps hcl).2 (by simp [hup u (by simp)])
    rw [this] at hu; cases hu

theorem realpathSegs_ok (t : Tree_) (fuel : Nat) (hf : fuel ≥ numLinks t + 1) (rl : Bool) :
    ∀ (segs : List Bytes) (resolved : RelPath), (∀ s ∈ segs, Normal s) → Inside resolved →
      realpathSegs t fuel rl segs resolved ≠ .outOfFuel ∧
      (∀ p, realpathSegs t fuel rl segs resolved = .ok p → Inside p)
  | [], resolved, _, hin => by
    simp only [realpathSegs]
    exact ⟨(fun e => by cases e), (fun p e => by injection e with e; subst e; exact hin)⟩
  | s :: rest, resolved, hsegs, hin => by
    have hs := hsegs s (by simp)
    have hrest : ∀ x ∈ rest, Normal x := fun x hx => hsegs x (by simp [hx])
    have hin' : Inside (resolved.join (single s)) :=
      hin.join_seg ⟨hs.1, hs.2.1, hs.2.2.2⟩ (fun e => hs.2.2.1 e.1)
    rw [realpathSegs]
    split
    · exact ⟨(fun e => by cases e), (fun p e => by injection e with e; subst e; exact hin')⟩
    · cases hrl : readlinkAt t (resolved.join (single s)) with
      | hostFollow => exact ⟨(fun e => by cases e), (fun p e => by cases e)⟩
      | err c => exact ⟨(fun e => by cases e), (fun p e => by cases e)⟩
      | notLink => exact realpathSegs_ok t fuel hf rl rest _ hrest hin'
      | link tg =>
        simp only
        obtain ⟨r1, _, _, r4⟩ := resolveLink_ok t fuel tg (resolved.join (single s)) []
          ⟨by simp, by simp⟩ hin' (readlinkAt_link hrl) (by simpa using hf)
        cases hr : (resolveLink t fuel tg (resolved.join (single s)) []).1 with
        | ok p' =>
          simp only
          exact realpathSegs_ok t fuel hf rl rest p' hrest (r4 p' hr)
        | err c a => exact ⟨(fun e => by cases e), (fun p e => by cases e)⟩
        | hostFollow => exact ⟨(fun e => by cases e), (fun p e => by cases e)⟩
        | outOfFuel => exact absurd hr r1

/-- **Termination and confinement of `realpath`**: for every tree (any forest of directories, files and symlinks —
    cyclic, chained, over-dotted, absolute, dangling), every canonical path and both modes, the resolver does not run
    out of its `numLinks + 2` units of fuel (so the recursion of the real code, which has no fuel, is bounded by the
    number of symlinks), and a successful result stays inside the base. -/
theorem realpath_ok (t : Tree_) (path : RelPath) (rl : Bool) (hc : path.Clean) :
    realpath t path rl ≠ .outOfFuel ∧ (∀ p, realpath t path rl = .ok p → Inside p) := by
  unfold realpath
  cases hu : path.goesUp with
  | true => simp only [if_true]; exact ⟨(fun e => by cases e), (fun p e => by cases e)⟩
  | false =>
    simp only [Bool.false_eq_true, if_false]
    obtain ⟨a, ha, rfl⟩ := inside_of_clean_not_up hc hu
    by_cases h0 : a = []
    · subst h0
      simp only [ofComps, if_true, realpathSegs]
      exact ⟨(fun e => by cases e), (fun p e => by injection e with e; subst e; exact inside_root)⟩
    · have hp : (ofComps a).path = joinWith slash a := ofComps_path h0
      have hne : (ofComps a).path ≠ [] := by rw [hp]; exact (render_facts (allNormal_clean ha) h0).1
      rw [if_neg hne, hp, splitOn_joinWith slash a h0 (fun x hx => (ha x hx).2.2.2)]
      exact realpathSegs_ok t (numLinks t + 2) (by omega) rl a ⟨[], 0⟩ ha inside_root

end Rio
