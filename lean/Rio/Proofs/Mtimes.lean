import Rio.Model.Mtimes
namespace Rio

theorem mrun_append (s : MFs) (a b : List MOp) : mrun s (a ++ b) = mrun (mrun s a) b := by
  simp [mrun, List.foldl_append]

/-- a path no step names, neither as the object nor as the parent of the object, keeps its mtime -/
def MOp.touches (p : MPath) : MOp → Prop
  | .create q _ _ => q = p ∨ parentOf q = some p
  | .settime q _ => q = p

theorem mexec_untouched (s : MFs) (op : MOp) (p : MPath) (h : ¬ op.touches p) : mexec s op p = s p := by
  cases op with
  | create q m now =>
    simp only [MOp.touches, not_or] at h
    simp only [mexec]
    rw [upd_other _ _ _ _ (fun e => h.1 e.symm)]
    cases hq : parentOf q with
    | none => rfl
    | some r =>
      have : p ≠ r := fun e => h.2 (by rw [hq, e])
      simp [upd_other _ _ _ _ this]
  | settime q m =>
    simp only [MOp.touches] at h
    simp only [mexec]
    exact upd_other _ _ _ _ (fun e => h e.symm)

theorem mrun_untouched (ops : List MOp) : ∀ (s : MFs) (p : MPath), (∀ op ∈ ops, ¬ op.touches p) → mrun s ops p = s p := by
  induction ops with
  | nil => intro s p _; rfl
  | cons o os ih =>
    intro s p h
    simp only [mrun, List.foldl_cons]
    have := ih (mexec s o) p (fun op hop => h op (List.mem_cons_of_mem _ hop))
    simp only [mrun] at this
    rw [this]
    exact mexec_untouched s o p (h o (List.mem_cons_self))

theorem parentOf_ne_self (p q : MPath) (h : parentOf p = some q) : q ≠ p := by
  cases p with
  | nil => simp [parentOf] at h
  | cons a t =>
    simp only [parentOf, Option.some.injEq] at h
    intro e
    have := congrArg List.length e
    rw [← h] at this
    simp at this

theorem mexec_create_self (s : MFs) (p : MPath) (m now : Nat) : mexec s (.create p m now) p = some m := by
  simp [mexec]

/-- re-paving: a directory named in `ds` (paths distinct) ends with its recorded mtime -/
theorem repave_sets (ds : List MEnt) : ∀ (s : MFs) (d : MEnt), d ∈ ds → (ds.map (·.path)).Nodup →
    mrun s (repaveOps ds) d.path = some d.mtime := by
  induction ds with
  | nil => intro s d h; cases h
  | cons x xs ih =>
    intro s d hd hnd
    simp only [List.map_cons, List.nodup_cons] at hnd
    simp only [repaveOps, List.map_cons, mrun, List.foldl_cons]
    rcases List.mem_cons.1 hd with rfl | hin
    · have hun : ∀ op ∈ repaveOps xs, ¬ op.touches d.path := by
        intro op hop
        simp only [repaveOps, List.mem_map] at hop
        obtain ⟨y, hy, rfl⟩ := hop
        simp only [MOp.touches]
        intro e
        exact hnd.1 (List.mem_map.2 ⟨y, hy, e⟩)
      have := mrun_untouched (repaveOps xs) (mexec s (.settime d.path d.mtime)) d.path hun
      simp only [mrun, repaveOps] at this
      rw [this]
      simp [mexec]
    · have := ih (mexec s (.settime x.path x.mtime)) d hin hnd.2
      simpa [mrun, repaveOps] using this

/-- re-paving leaves everything that is not one of its directories alone -/
theorem repave_other (ds : List MEnt) (s : MFs) (p : MPath) (h : ∀ d ∈ ds, d.path ≠ p) :
    mrun s (repaveOps ds) p = s p := by
  apply mrun_untouched
  intro op hop
  simp only [repaveOps, List.mem_map] at hop
  obtain ⟨y, hy, rfl⟩ := hop
  exact h y hy

/-- placing: an entry that is no other entry's parent keeps the mtime it was placed with -/
theorem place_leaf (es : List (MEnt × Nat)) : ∀ (s : MFs) (e : MEnt), e ∈ es.map (·.1) → (es.map (·.1.path)).Nodup →
    (∀ e' ∈ es.map (·.1), parentOf e'.path ≠ some e.path) →
    mrun s (placeOps es) e.path = some e.mtime := by
  induction es with
  | nil => intro s e h; simp at h
  | cons x xs ih =>
    intro s e he hnd hpar
    simp only [List.map_cons, List.nodup_cons] at hnd
    simp only [placeOps, List.map_cons, mrun, List.foldl_cons]
    simp only [List.map_cons, List.mem_cons] at he
    rcases he with rfl | hin
    · have hun : ∀ op ∈ placeOps xs, ¬ op.touches x.1.path := by
        intro op hop
        simp only [placeOps, List.mem_map] at hop
        obtain ⟨y, hy, rfl⟩ := hop
        simp only [MOp.touches, not_or]
        refine ⟨fun e => hnd.1 (List.mem_map.2 ⟨y, hy, e⟩), ?_⟩
        exact hpar y.1 (List.mem_cons_of_mem _ (List.mem_map.2 ⟨y, hy, rfl⟩))
      have := mrun_untouched (placeOps xs) (mexec s (.create x.1.path x.1.mtime x.2)) x.1.path hun
      simp only [mrun, placeOps] at this
      rw [this]
      exact mexec_create_self _ _ _ _
    · have := ih (mexec s (.create x.1.path x.1.mtime x.2)) e hin hnd.2
        (fun e' he' => hpar e' (List.mem_cons_of_mem _ he'))
      simpa [mrun, placeOps] using this

end Rio
