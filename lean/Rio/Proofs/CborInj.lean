import Rio.Model.Cbor
/-!
# The CBOR fragment used by the tree hash is uniquely decodable

`decodeHead` inverts `cborHead` (for arguments below 2^64, which is all Go can produce); from that, strings,
byte strings, integers and map headers can be peeled off the front of a stream unambiguously.
-/
namespace Rio

def beVal (bs : Bytes) : Nat := bs.foldl (fun acc b => acc * 256 + b.toNat) 0

theorem beVal_append_single (xs : Bytes) (b : UInt8) : beVal (xs ++ [b]) = beVal xs * 256 + b.toNat := by
  simp [beVal, List.foldl_append]

theorem beBytes_length (n v : Nat) : (beBytes n v).length = n := by
  induction n generalizing v with
  | zero => rfl
  | succ n ih => simp [beBytes, ih]

theorem beVal_beBytes (n v : Nat) : beVal (beBytes n v) = v % 256 ^ n := by
  induction n generalizing v with
  | zero => simp [beBytes, beVal, Nat.mod_one]
  | succ n ih =>
    rw [beBytes, beVal_append_single, ih]
    have h1 : (UInt8.ofNat (v % 256)).toNat = v % 256 := by
      simp [UInt8.toNat_ofNat']
    rw [h1, Nat.pow_succ, Nat.mul_comm (256 ^ n) 256, Nat.mod_mul]
    omega

/-- the major types the tree hash uses -/
def isMajor (m : UInt8) : Prop := m ∈ [cborMajorUint, cborMajorNegInt, cborMajorBytes, cborMajorString, cborMajorArray, cborMajorMap]

def decodeHead : Bytes → Option (UInt8 × Nat × Bytes)
  | [] => none
  | b :: rest =>
    let major := b &&& 0xe0
    let info := (b &&& 0x1f).toNat
    if info ≤ 0x17 then some (major, info, rest)
    else if info = 0x18 then
      (match rest with
       | x :: r => some (major, x.toNat, r)
       | [] => none)
    else if info = 0x19 then (if rest.length ≥ 2 then some (major, beVal (rest.take 2), rest.drop 2) else none)
    else if info = 0x1a then (if rest.length ≥ 4 then some (major, beVal (rest.take 4), rest.drop 4) else none)
    else if info = 0x1b then (if rest.length ≥ 8 then some (major, beVal (rest.take 8), rest.drop 8) else none)
    else none

/-- byte-level facts about `major + info`, by exhaustive evaluation over the six majors and 32 infos -/
theorem major_info : ∀ m ∈ [cborMajorUint, cborMajorNegInt, cborMajorBytes, cborMajorString, cborMajorArray, cborMajorMap],
    ∀ i, i < 32 → ((m + UInt8.ofNat i) &&& 0xe0 = m ∧ ((m + UInt8.ofNat i) &&& 0x1f).toNat = i) := by
  decide

theorem decodeHead_cborHead (m : UInt8) (hm : isMajor m) (v : Nat) (hv : v < 2 ^ 64) (rest : Bytes) :
    decodeHead (cborHead m v ++ rest) = some (m, v, rest) := by
  unfold cborHead
  by_cases h1 : v ≤ 0x17
  · obtain ⟨a, b⟩ := major_info m hm v (by omega)
    simp [h1, decodeHead, a, b]
  · by_cases h2 : v ≤ 0xff
    · obtain ⟨a, b⟩ := major_info m hm 0x18 (by omega)
      have hb : (UInt8.ofNat v).toNat = v := by simp [UInt8.toNat_ofNat']; omega
      simp only [h1, h2, if_false, if_true, List.cons_append, List.nil_append, decodeHead]
      have a' : (m + 0x18) &&& 0xe0 = m := a
      have b' : ((m + 0x18) &&& 0x1f).toNat = 0x18 := b
      simp [a', b', hb]
    · by_cases h3 : v ≤ 0xffff
      · obtain ⟨a, b⟩ := major_info m hm 0x19 (by omega)
        have a' : (m + 0x19) &&& 0xe0 = m := a
        have b' : ((m + 0x19) &&& 0x1f).toNat = 0x19 := b
        have hl := beBytes_length 2 v
        simp only [h1, h2, h3, if_false, if_true, List.cons_append, decodeHead, a', b']
        have ht : (beBytes 2 v ++ rest).take 2 = beBytes 2 v := by rw [List.take_left' hl]
        have hd : (beBytes 2 v ++ rest).drop 2 = rest := by rw [List.drop_left' hl]
        have hv' : v % 256 ^ 2 = v := Nat.mod_eq_of_lt (by omega)
        simp [ht, hd, beVal_beBytes, hv', hl]
      · by_cases h4 : v ≤ 0xffffffff
        · obtain ⟨a, b⟩ := major_info m hm 0x1a (by omega)
          have a' : (m + 0x1a) &&& 0xe0 = m := a
          have b' : ((m + 0x1a) &&& 0x1f).toNat = 0x1a := b
          have hl := beBytes_length 4 v
          simp only [h1, h2, h3, h4, if_false, if_true, List.cons_append, decodeHead, a', b']
          have ht : (beBytes 4 v ++ rest).take 4 = beBytes 4 v := by rw [List.take_left' hl]
          have hd : (beBytes 4 v ++ rest).drop 4 = rest := by rw [List.drop_left' hl]
          have hv' : v % 256 ^ 4 = v := Nat.mod_eq_of_lt (by omega)
          simp [ht, hd, beVal_beBytes, hv', hl]
        · obtain ⟨a, b⟩ := major_info m hm 0x1b (by omega)
          have a' : (m + 0x1b) &&& 0xe0 = m := a
          have b' : ((m + 0x1b) &&& 0x1f).toNat = 0x1b := b
          have hl := beBytes_length 8 v
          simp only [h1, h2, h3, h4, if_false, List.cons_append, decodeHead, a', b']
          have ht : (beBytes 8 v ++ rest).take 8 = beBytes 8 v := by rw [List.take_left' hl]
          have hd : (beBytes 8 v ++ rest).drop 8 = rest := by rw [List.drop_left' hl]
          have hv' : v % 256 ^ 8 = v := Nat.mod_eq_of_lt (by omega)
          simp [ht, hd, beVal_beBytes, hv', hl]

/-- heads are uniquely decodable -/
theorem cborHead_inj {m m' : UInt8} (hm : isMajor m) (hm' : isMajor m') {v v' : Nat} (hv : v < 2 ^ 64) (hv' : v' < 2 ^ 64)
    {r r' : Bytes} (h : cborHead m v ++ r = cborHead m' v' ++ r') : m = m' ∧ v = v' ∧ r = r' := by
  have h1 := decodeHead_cborHead m hm v hv r
  have h2 := decodeHead_cborHead m' hm' v' hv' r'
  rw [h, h2] at h1
  injection h1 with h1
  injection h1 with a b
  injection b with b c
  exact ⟨a.symm, b.symm, c.symm⟩

theorem cborStr_inj {a b r r' : Bytes} (ha : a.length < 2 ^ 64) (hb : b.length < 2 ^ 64)
    (h : cborStr a ++ r = cborStr b ++ r') : a = b ∧ r = r' := by
  unfold cborStr at h
  rw [List.append_assoc, List.append_assoc] at h
  obtain ⟨_, hl, hr⟩ := cborHead_inj (by simp [isMajor]) (by simp [isMajor]) ha hb h
  exact List.append_inj hr hl

theorem cborBytes_inj {a b r r' : Bytes} (ha : a.length < 2 ^ 64) (hb : b.length < 2 ^ 64)
    (h : cborBytes a ++ r = cborBytes b ++ r') : a = b ∧ r = r' := by
  unfold cborBytes at h
  rw [List.append_assoc, List.append_assoc] at h
  obtain ⟨_, hl, hr⟩ := cborHead_inj (by simp [isMajor]) (by simp [isMajor]) ha hb h
  exact List.append_inj hr hl

theorem cborMap_inj {n n' : Nat} {r r' : Bytes} (hn : n < 2 ^ 64) (hn' : n' < 2 ^ 64)
    (h : cborMap n ++ r = cborMap n' ++ r') : n = n' ∧ r = r' := by
  unfold cborMap at h
  obtain ⟨_, a, b⟩ := cborHead_inj (by simp [isMajor]) (by simp [isMajor]) hn hn' h
  exact ⟨a, b⟩

/-- int64 range -/
def I64 (v : Int) : Prop := -(2 : Int) ^ 63 ≤ v ∧ v < (2 : Int) ^ 63

theorem cborInt_inj {a b : Int} {r r' : Bytes} (ha : I64 a) (hb : I64 b)
    (h : cborInt a ++ r = cborInt b ++ r') : a = b ∧ r = r' := by
  unfold I64 at ha hb
  unfold cborInt at h
  by_cases h1 : a ≥ 0 <;> by_cases h2 : b ≥ 0 <;> simp only [h1, h2, if_true, if_false] at h
  · obtain ⟨_, e, er⟩ := cborHead_inj (by simp [isMajor]) (by simp [isMajor]) (by omega) (by omega) h
    exact ⟨by omega, er⟩
  · obtain ⟨e, _, _⟩ := cborHead_inj (by simp [isMajor]) (by simp [isMajor]) (by omega) (by omega) h
    exact absurd e (by decide)
  · obtain ⟨e, _, _⟩ := cborHead_inj (by simp [isMajor]) (by simp [isMajor]) (by omega) (by omega) h
    exact absurd e (by decide)
  · obtain ⟨_, e, er⟩ := cborHead_inj (by simp [isMajor]) (by simp [isMajor]) (by omega) (by omega) h
    exact ⟨by omega, er⟩

end Rio
