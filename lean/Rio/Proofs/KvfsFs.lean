import Rio.Model.KvfsFs
/-!
# The kvfs write path over a shared staging namespace: the invariant

If the staging **names** of the writers are pairwise different, then — whatever the open flags, the schedule, the
failing steps and the crashes — every final address holds a complete ware at every instant.  The proof is an
invariant of `fstep`; the two counter-theorems in `Rio/Props/C08Fs.lean` show that name freshness is exactly what
is needed (`O_EXCL` alone does not save colliding names, and without it two writers share one inode).
-/
namespace Rio

def Busy : WPC → Prop
  | .writing _ | .closing | .mkdirs | .moving => True
  | _ => False

def Owning (pc : WPC) : Prop := pc ≠ .opening ∧ ∀ r, pc ≠ .done r

def progressOf (pc : WPC) (n : Nat) : Nat :=
  match pc with
  | .writing k => k
  | _ => n

structure FInv (complete : List (WareId × List Chunk)) (s : FsState) : Prop where
  stagingLt : ∀ n j, s.staging n = some j → j < s.nextIno
  finalsOk : ∀ k j, s.finals k = some j → j < s.nextIno ∧ ∃ ch, (k, ch) ∈ complete ∧ s.files j = ch.map some
  inj : ∀ n1 n2 j, s.staging n1 = some j → s.staging n2 = some j → n1 = n2
  finNotStaged : ∀ k j n, s.finals k = some j → s.staging n ≠ some j
  names : ∀ (i j : Nat) (wi wj : FWriter), s.writers[i]? = some wi → s.writers[j]? = some wj → wi.name = wj.name → i = j
  owner : ∀ n j, s.staging n = some j → ∃ (i : Nat) (w : FWriter), s.writers[i]? = some w ∧ w.name = n ∧ Owning w.pc
  busy : ∀ (i : Nat) (w : FWriter), s.writers[i]? = some w → Busy w.pc →
    s.staging w.name = some w.ino ∧
    s.files w.ino = (w.chunks.take (progressOf w.pc w.chunks.length)).map some ∧
    w.off = progressOf w.pc w.chunks.length ∧ (∀ k, w.pc = .writing k → k < w.chunks.length)
  static : ∀ (i : Nat) (w : FWriter), s.writers[i]? = some w → (w.key, w.chunks) ∈ complete

theorem setFW_lookup (s : FsState) (i : Nat) (w w' : FWriter) (hg : s.writers[i]? = some w) (j : Nat) (x : FWriter)
    (hx : (setFW s i w').writers[j]? = some x) : (i = j ∧ x = w') ∨ (j ≠ i ∧ s.writers[j]? = some x) := by
  have hi : i < s.writers.length := (List.getElem?_eq_some_iff.1 hg).1
  simp only [setFW, List.getElem?_set] at hx
  by_cases hij : i = j
  · subst hij
    simp only [if_true, hi] at hx
    exact Or.inl ⟨rfl, (Option.some.inj hx).symm⟩
  · simp only [hij, if_false] at hx
    exact Or.inr ⟨fun h => hij h.symm, hx⟩

theorem setFW_self (s : FsState) (i : Nat) (w w' : FWriter) (hg : s.writers[i]? = some w) :
    (setFW s i w').writers[i]? = some w' := by
  have hi : i < s.writers.length := (List.getElem?_eq_some_iff.1 hg).1
  simp [setFW, hi]

theorem setFW_other (s : FsState) (i j : Nat) (w' : FWriter) (h : j ≠ i) :
    (setFW s i w').writers[j]? = s.writers[j]? := by
  simp only [setFW, List.getElem?_set]
  rw [if_neg (fun e => h e.symm)]

theorem writeAt_end (l : List Cell) (c : Chunk) : writeAt l l.length c = l ++ [some c] := by
  simp [writeAt]

/-- distinct busy writers are open on distinct inodes, and no final address is one of them -/
theorem busy_ino_ne (cm : List (WareId × List Chunk)) (s : FsState) (h : FInv cm s) (i j : Nat) (wi wj : FWriter)
    (hi : s.writers[i]? = some wi) (hj : s.writers[j]? = some wj) (bi : Busy wi.pc) (bj : Busy wj.pc) (hne : i ≠ j) :
    wi.ino ≠ wj.ino := by
  intro e
  have a := (h.busy i wi hi bi).1
  have b := (h.busy j wj hj bj).1
  rw [e] at a
  exact hne (h.names i j wi wj hi hj (h.inj _ _ _ a b))

theorem busy_not_final (cm : List (WareId × List Chunk)) (s : FsState) (h : FInv cm s) (i : Nat) (w : FWriter)
    (hi : s.writers[i]? = some w) (b : Busy w.pc) (k : WareId) : s.finals k ≠ some w.ino := by
  intro e
  exact h.finNotStaged k w.ino w.name e (h.busy i w hi b).1

/-- a step that only moves the program counter of writer `i` -/
theorem finv_pc (cm : List (WareId × List Chunk)) (s : FsState) (i : Nat) (w : FWriter) (pc' : WPC) (h : FInv cm s)
    (hg : s.writers[i]? = some w)
    (hown : Owning w.pc → Owning pc')
    (hbusy : Busy pc' → Busy w.pc ∧ progressOf pc' w.chunks.length = progressOf w.pc w.chunks.length ∧
      (∀ k, pc' = .writing k → k < w.chunks.length)) :
    FInv cm (setFW s i { w with pc := pc' }) := by
  refine ⟨h.stagingLt, h.finalsOk, h.inj, h.finNotStaged, ?_, ?_, ?_, ?_⟩
  · intro a b wa wb ha hb hn
    rcases setFW_lookup s i w _ hg a wa ha with ⟨rfl, rfl⟩ | ⟨hai, ha'⟩ <;>
    rcases setFW_lookup s i w _ hg b wb hb with ⟨rfl, rfl⟩ | ⟨hbi, hb'⟩
    · rfl
    · exact h.names _ _ w wb hg hb' hn
    · exact h.names _ _ wa w ha' hg hn
    · exact h.names _ _ wa wb ha' hb' hn
  · intro n j hn
    obtain ⟨a, wa, ha, hname, hown'⟩ := h.owner n j hn
    by_cases hai : a = i
    · subst hai
      rw [hg] at ha
      cases ha
      exact ⟨a, _, setFW_self s a w _ hg, hname, hown hown'⟩
    · exact ⟨a, wa, by rw [setFW_other s i a _ hai]; exact ha, hname, hown'⟩
  · intro a wa ha hb
    rcases setFW_lookup s i w _ hg a wa ha with ⟨rfl, rfl⟩ | ⟨hai, ha'⟩
    · obtain ⟨b0, hp, hk⟩ := hbusy hb
      obtain ⟨h1, h2, h3, _⟩ := h.busy i w hg b0
      refine ⟨h1, ?_, ?_, hk⟩
      · show s.files w.ino = _
        rw [hp]; exact h2
      · show w.off = _
        rw [hp]; exact h3
    · exact h.busy a wa ha' hb
  · intro a wa ha
    rcases setFW_lookup s i w _ hg a wa ha with ⟨rfl, rfl⟩ | ⟨hai, ha'⟩
    · exact h.static i w hg
    · exact h.static a wa ha'

theorem not_busy_opening : ¬ Busy .opening := by simp [Busy]
theorem not_busy_done (r : Option Cat) : ¬ Busy (.done r) := by simp [Busy]
theorem not_busy_cleanup (r : Option Cat) : ¬ Busy (.cleanup r) := by simp [Busy]
theorem owning_cleanup (r : Option Cat) : Owning (.cleanup r) := ⟨by simp, by intro r'; simp⟩

/-- a writer that has not opened yet owns no staging name -/
theorem opening_unstaged (cm : List (WareId × List Chunk)) (s : FsState) (h : FInv cm s) (i : Nat) (w : FWriter)
    (hg : s.writers[i]? = some w) (hpc : w.pc = .opening) : s.staging w.name = none := by
  cases hs : s.staging w.name with
  | none => rfl
  | some j =>
    obtain ⟨a, wa, ha, hname, hown⟩ := h.owner _ _ hs
    have : a = i := h.names a i wa w ha hg hname
    subst this
    rw [hg] at ha
    cases ha
    exact absurd hpc hown.1

/-- **One step of any writer, with any injected outcome and either open mode, preserves the invariant.** -/
theorem finv_step (cm : List (WareId × List Chunk)) (excl : Bool) (s : FsState) (i : Nat) (f : Fault) (h : FInv cm s) :
    FInv cm (fstep excl s i f) := by
  unfold fstep
  cases hg : s.writers[i]? with
  | none => exact h
  | some w =>
    simp only
    cases hpc : w.pc with
    | done r => exact h
    | opening =>
      simp only
      have hun := opening_unstaged cm s h i w hg hpc
      split
      · exact finv_pc cm s i w _ h hg (fun ho => absurd hpc ho.1) (fun hb => absurd hb (not_busy_done _))
      · rw [hun]
        simp only
        -- create: a fresh inode under the writer's own name
        have hwi : i < s.writers.length := (List.getElem?_eq_some_iff.1 hg).1
        refine ⟨?_, ?_, ?_, ?_, ?_, ?_, ?_, ?_⟩
        · intro n j hn
          show j < s.nextIno + 1
          by_cases hnn : n = w.name
          · subst hnn
            simp only [setFW, upd_same] at hn
            cases hn; omega
          · simp only [setFW] at hn
            rw [upd_other _ _ _ _ hnn] at hn
            have := h.stagingLt n j hn; omega
        · intro k j hk
          simp only [setFW] at hk
          obtain ⟨hlt, ch, hc, hf⟩ := h.finalsOk k j hk
          refine ⟨by show j < s.nextIno + 1; omega, ch, hc, ?_⟩
          show upd s.files s.nextIno [] j = _
          rw [upd_other _ _ _ _ (by omega)]; exact hf
        · intro n1 n2 j h1 h2
          simp only [setFW] at h1 h2
          by_cases e1 : n1 = w.name <;> by_cases e2 : n2 = w.name
          · rw [e1, e2]
          · subst e1
            rw [upd_same] at h1; cases h1
            rw [upd_other _ _ _ _ e2] at h2
            have := h.stagingLt n2 _ h2; omega
          · subst e2
            rw [upd_same] at h2; cases h2
            rw [upd_other _ _ _ _ e1] at h1
            have := h.stagingLt n1 _ h1; omega
          · rw [upd_other _ _ _ _ e1] at h1
            rw [upd_other _ _ _ _ e2] at h2
            exact h.inj _ _ _ h1 h2
        · intro k j n hk
          simp only [setFW] at hk ⊢
          by_cases e : n = w.name
          · subst e
            rw [upd_same]
            intro e'; cases e'
            have := (h.finalsOk k _ hk).1; omega
          · rw [upd_other _ _ _ _ e]
            exact h.finNotStaged k j n hk
        · intro a b wa wb ha hb hn
          rcases setFW_lookup _ i w _ hg a wa ha with ⟨rfl, rfl⟩ | ⟨hai, ha'⟩ <;>
          rcases setFW_lookup _ i w _ hg b wb hb with ⟨rfl, rfl⟩ | ⟨hbi, hb'⟩
          · rfl
          · exact h.names _ _ w wb hg hb' hn
          · exact h.names _ _ wa w ha' hg hn
          · exact h.names _ _ wa wb ha' hb' hn
        · intro n j hn
          simp only [setFW] at hn
          by_cases e : n = w.name
          · subst e
            refine ⟨i, _, setFW_self _ i w _ hg, rfl, ?_⟩
            show Owning (firstPc w)
            unfold firstPc
            split
            · exact ⟨by simp, by intro r; simp⟩
            · exact ⟨by simp, by intro r; simp⟩
          · rw [upd_other _ _ _ _ e] at hn
            obtain ⟨a, wa, ha, hname, hown⟩ := h.owner n j hn
            have hai : a ≠ i := by
              intro e'; subst e'
              rw [hg] at ha; cases ha
              exact e hname.symm
            exact ⟨a, wa, by rw [setFW_other _ i a _ hai]; exact ha, hname, hown⟩
        · intro a wa ha hb
          rcases setFW_lookup _ i w _ hg a wa ha with ⟨rfl, rfl⟩ | ⟨hai, ha'⟩
          · refine ⟨?_, ?_, ?_, ?_⟩
            · show upd s.staging w.name (some s.nextIno) w.name = some s.nextIno
              rw [upd_same]
            · show upd s.files s.nextIno [] s.nextIno = List.map some (List.take (progressOf (firstPc w) w.chunks.length) w.chunks)
              rw [upd_same]
              unfold firstPc
              split
              · rename_i h0
                have : w.chunks = [] := List.length_eq_zero_iff.1 h0
                simp [progressOf, this]
              · simp [progressOf]
            · show 0 = progressOf (firstPc w) w.chunks.length
              unfold firstPc
              split
              · rename_i h0; simp [progressOf, h0]
              · simp [progressOf]
            · intro k hk
              have hk' : firstPc w = .writing k := hk
              unfold firstPc at hk'
              split at hk'
              · cases hk'
              · rename_i h0
                cases hk'
                exact Nat.pos_of_ne_zero h0
          · obtain ⟨h1, h2, h3, h4⟩ := h.busy a wa ha' hb
            have hne : wa.name ≠ w.name := fun e => hai (h.names a i wa w ha' hg e)
            have hlt := h.stagingLt _ _ h1
            refine ⟨?_, ?_, h3, h4⟩
            · show upd s.staging w.name (some s.nextIno) wa.name = _
              rw [upd_other _ _ _ _ hne]; exact h1
            · show upd s.files s.nextIno [] wa.ino = _
              rw [upd_other _ _ _ _ (by omega)]; exact h2
        · intro a wa ha
          rcases setFW_lookup _ i w _ hg a wa ha with ⟨rfl, rfl⟩ | ⟨hai, ha'⟩
          · exact h.static i w hg
          · exact h.static a wa ha'
    | writing k =>
      have hb : Busy w.pc := by rw [hpc]; trivial
      obtain ⟨hst, hfile, hoff, hbound⟩ := h.busy i w hg hb
      have hk : k < w.chunks.length := hbound k hpc
      simp only [hpc, progressOf] at hfile hoff
      simp only
      cases hgk : w.chunks[k]? with
      | none =>
        have := List.getElem?_eq_none_iff.1 hgk
        omega
      | some c =>
        simp only
        split
        · exact finv_pc cm s i w _ h hg (fun _ => owning_cleanup _) (fun hb => absurd hb (not_busy_cleanup _))
        · -- the chunk lands at the end of the writer's own inode
          have hlen : (s.files w.ino).length = w.off := by rw [hfile, hoff]; simp; omega
          have hwr : writeAt (s.files w.ino) w.off c = (w.chunks.take (k + 1)).map some := by
            rw [← hlen, writeAt_end, hfile, List.take_add_one, hgk]
            simp
          refine ⟨h.stagingLt, ?_, h.inj, h.finNotStaged, ?_, ?_, ?_, ?_⟩
          · intro key j hkj
            simp only [setFW] at hkj
            obtain ⟨hlt, ch, hc, hf⟩ := h.finalsOk key j hkj
            refine ⟨hlt, ch, hc, ?_⟩
            have hne : j ≠ w.ino := fun e => busy_not_final cm s h i w hg hb key (e ▸ hkj)
            show upd s.files w.ino _ j = _
            rw [upd_other _ _ _ _ hne]; exact hf
          · intro a b wa wb ha hb' hn
            rcases setFW_lookup _ i w _ hg a wa ha with ⟨rfl, rfl⟩ | ⟨hai, ha'⟩ <;>
            rcases setFW_lookup _ i w _ hg b wb hb' with ⟨rfl, rfl⟩ | ⟨hbi, hb''⟩
            · rfl
            · exact h.names _ _ w wb hg hb'' hn
            · exact h.names _ _ wa w ha' hg hn
            · exact h.names _ _ wa wb ha' hb'' hn
          · intro n j hn
            simp only [setFW] at hn
            obtain ⟨a, wa, ha, hname, hown⟩ := h.owner n j hn
            by_cases hai : a = i
            · subst hai
              rw [hg] at ha; cases ha
              refine ⟨a, _, setFW_self _ a w _ hg, hname, ?_⟩
              show Owning (afterChunkF w k)
              unfold afterChunkF
              split
              · exact ⟨by simp, by intro r; simp⟩
              · exact ⟨by simp, by intro r; simp⟩
            · exact ⟨a, wa, by rw [setFW_other _ i a _ hai]; exact ha, hname, hown⟩
          · intro a wa ha hba
            rcases setFW_lookup _ i w _ hg a wa ha with ⟨rfl, rfl⟩ | ⟨hai, ha'⟩
            · refine ⟨hst, ?_, ?_, ?_⟩
              · show upd s.files w.ino (writeAt (s.files w.ino) w.off c) w.ino = List.map some (List.take (progressOf (afterChunkF w k) w.chunks.length) w.chunks)
                rw [upd_same, hwr]
                unfold afterChunkF
                split
                · simp [progressOf]
                · simp only [progressOf]
                  rw [List.take_of_length_le (by omega), List.take_of_length_le (Nat.le_refl _)]
              · show w.off + 1 = progressOf (afterChunkF w k) w.chunks.length
                unfold afterChunkF
                split
                · simp [progressOf, hoff]
                · simp only [progressOf]; omega
              · intro k' hk'
                have hk'' : afterChunkF w k = .writing k' := hk'
                unfold afterChunkF at hk''
                split at hk''
                · cases hk''; assumption
                · cases hk''
            · obtain ⟨h1, h2, h3, h4⟩ := h.busy a wa ha' hba
              have hne : wa.ino ≠ w.ino := busy_ino_ne cm s h a i wa w ha' hg hba hb hai
              refine ⟨h1, ?_, h3, h4⟩
              show upd s.files w.ino _ wa.ino = _
              rw [upd_other _ _ _ _ hne]; exact h2
          · intro a wa ha
            rcases setFW_lookup _ i w _ hg a wa ha with ⟨rfl, rfl⟩ | ⟨hai, ha'⟩
            · exact h.static i w hg
            · exact h.static a wa ha'
    | closing =>
      simp only
      split
      · exact finv_pc cm s i w _ h hg (fun _ => owning_cleanup _) (fun hb => absurd hb (not_busy_cleanup _))
      · refine finv_pc cm s i w _ h hg (fun _ => ⟨by simp, by intro r; simp⟩) (fun _ => ⟨by rw [hpc]; trivial, ?_, ?_⟩)
        · simp [progressOf, hpc]
        · intro k hk; cases hk
    | mkdirs =>
      simp only
      split
      · exact finv_pc cm s i w _ h hg (fun _ => owning_cleanup _) (fun hb => absurd hb (not_busy_cleanup _))
      · refine finv_pc cm s i w _ h hg (fun _ => ⟨by simp, by intro r; simp⟩) (fun _ => ⟨by rw [hpc]; trivial, ?_, ?_⟩)
        · simp [progressOf, hpc]
        · intro k hk; cases hk
    | moving =>
      have hb : Busy w.pc := by rw [hpc]; trivial
      obtain ⟨hst, hfile, hoff, _⟩ := h.busy i w hg hb
      simp only [hpc, progressOf, List.take_length] at hfile
      simp only
      split
      · exact finv_pc cm s i w _ h hg (fun _ => owning_cleanup _) (fun hb => absurd hb (not_busy_cleanup _))
      · rw [hst]
        simp only
        -- rename: the writer's own, complete inode becomes the final address; the name goes away
        refine ⟨?_, ?_, ?_, ?_, ?_, ?_, ?_, ?_⟩
        · intro n j hn
          simp only [setFW] at hn
          by_cases e : n = w.name
          · subst e; rw [upd_same] at hn; cases hn
          · rw [upd_other _ _ _ _ e] at hn; exact h.stagingLt n j hn
        · intro key j hkj
          simp only [setFW] at hkj
          by_cases e : key = w.key
          · subst e
            rw [upd_same] at hkj; cases hkj
            exact ⟨h.stagingLt _ _ hst, w.chunks, h.static i w hg, hfile⟩
          · rw [upd_other _ _ _ _ e] at hkj
            exact h.finalsOk key j hkj
        · intro n1 n2 j h1 h2
          simp only [setFW] at h1 h2
          by_cases e1 : n1 = w.name
          · subst e1; rw [upd_same] at h1; cases h1
          · by_cases e2 : n2 = w.name
            · subst e2; rw [upd_same] at h2; cases h2
            · rw [upd_other _ _ _ _ e1] at h1
              rw [upd_other _ _ _ _ e2] at h2
              exact h.inj _ _ _ h1 h2
        · intro key j n hkj
          simp only [setFW] at hkj ⊢
          by_cases en : n = w.name
          · subst en; rw [upd_same]; simp
          · rw [upd_other _ _ _ _ en]
            by_cases e : key = w.key
            · subst e
              rw [upd_same] at hkj; cases hkj
              intro e'
              exact en (h.inj _ _ _ e' hst)
            · rw [upd_other _ _ _ _ e] at hkj
              exact h.finNotStaged key j n hkj
        · intro a b wa wb ha hb' hn
          rcases setFW_lookup _ i w _ hg a wa ha with ⟨rfl, rfl⟩ | ⟨hai, ha'⟩ <;>
          rcases setFW_lookup _ i w _ hg b wb hb' with ⟨rfl, rfl⟩ | ⟨hbi, hb''⟩
          · rfl
          · exact h.names _ _ w wb hg hb'' hn
          · exact h.names _ _ wa w ha' hg hn
          · exact h.names _ _ wa wb ha' hb'' hn
        · intro n j hn
          simp only [setFW] at hn
          by_cases e : n = w.name
          · subst e; rw [upd_same] at hn; cases hn
          · rw [upd_other _ _ _ _ e] at hn
            obtain ⟨a, wa, ha, hname, hown⟩ := h.owner n j hn
            have hai : a ≠ i := by
              intro e'; subst e'
              rw [hg] at ha; cases ha
              exact e hname.symm
            exact ⟨a, wa, by rw [setFW_other _ i a _ hai]; exact ha, hname, hown⟩
        · intro a wa ha hba
          rcases setFW_lookup _ i w _ hg a wa ha with ⟨rfl, rfl⟩ | ⟨hai, ha'⟩
          · exact absurd hba (not_busy_cleanup _)
          · obtain ⟨h1, h2, h3, h4⟩ := h.busy a wa ha' hba
            have hne : wa.name ≠ w.name := fun e => hai (h.names a i wa w ha' hg e)
            refine ⟨?_, h2, h3, h4⟩
            show upd s.staging w.name none wa.name = _
            rw [upd_other _ _ _ _ hne]; exact h1
        · intro a wa ha
          rcases setFW_lookup _ i w _ hg a wa ha with ⟨rfl, rfl⟩ | ⟨hai, ha'⟩
          · exact h.static i w hg
          · exact h.static a wa ha'
    | cleanup r =>
      simp only
      -- remove by name: only this writer's own name can be meant
      refine ⟨?_, h.finalsOk, ?_, ?_, ?_, ?_, ?_, ?_⟩
      · intro n j hn
        simp only [setFW] at hn
        by_cases e : n = w.name
        · subst e; rw [upd_same] at hn; cases hn
        · rw [upd_other _ _ _ _ e] at hn; exact h.stagingLt n j hn
      · intro n1 n2 j h1 h2
        simp only [setFW] at h1 h2
        by_cases e1 : n1 = w.name
        · subst e1; rw [upd_same] at h1; cases h1
        · by_cases e2 : n2 = w.name
          · subst e2; rw [upd_same] at h2; cases h2
          · rw [upd_other _ _ _ _ e1] at h1
            rw [upd_other _ _ _ _ e2] at h2
            exact h.inj _ _ _ h1 h2
      · intro key j n hkj
        simp only [setFW] at hkj ⊢
        by_cases en : n = w.name
        · subst en; rw [upd_same]; simp
        · rw [upd_other _ _ _ _ en]; exact h.finNotStaged key j n hkj
      · intro a b wa wb ha hb' hn
        rcases setFW_lookup _ i w _ hg a wa ha with ⟨rfl, rfl⟩ | ⟨hai, ha'⟩ <;>
        rcases setFW_lookup _ i w _ hg b wb hb' with ⟨rfl, rfl⟩ | ⟨hbi, hb''⟩
        · rfl
        · exact h.names _ _ w wb hg hb'' hn
        · exact h.names _ _ wa w ha' hg hn
        · exact h.names _ _ wa wb ha' hb'' hn
      · intro n j hn
        simp only [setFW] at hn
        by_cases e : n = w.name
        · subst e; rw [upd_same] at hn; cases hn
        · rw [upd_other _ _ _ _ e] at hn
          obtain ⟨a, wa, ha, hname, hown⟩ := h.owner n j hn
          have hai : a ≠ i := by
            intro e'; subst e'
            rw [hg] at ha; cases ha
            exact e hname.symm
          exact ⟨a, wa, by rw [setFW_other _ i a _ hai]; exact ha, hname, hown⟩
      · intro a wa ha hba
        rcases setFW_lookup _ i w _ hg a wa ha with ⟨rfl, rfl⟩ | ⟨hai, ha'⟩
        · exact absurd hba (not_busy_done _)
        · obtain ⟨h1, h2, h3, h4⟩ := h.busy a wa ha' hba
          have hne : wa.name ≠ w.name := fun e => hai (h.names a i wa w ha' hg e)
          refine ⟨?_, h2, h3, h4⟩
          show upd s.staging w.name none wa.name = _
          rw [upd_other _ _ _ _ hne]; exact h1
      · intro a wa ha
        rcases setFW_lookup _ i w _ hg a wa ha with ⟨rfl, rfl⟩ | ⟨hai, ha'⟩
        · exact h.static i w hg
        · exact h.static a wa ha'

theorem finv_run (cm : List (WareId × List Chunk)) (excl : Bool) (sched : List (Nat × Fault)) :
    ∀ s, FInv cm s → FInv cm (frun excl s sched) := by
  induction sched with
  | nil => intro s h; exact h
  | cons x xs ih => intro s h; exact ih _ (finv_step cm excl s x.1 x.2 h)

/-- the empty warehouse with writers of pairwise different names satisfies the invariant -/
theorem finv_init (cm : List (WareId × List Chunk)) (ws : List FWriter)
    (hpc : ∀ w ∈ ws, w.pc = .opening) (hc : ∀ w ∈ ws, (w.key, w.chunks) ∈ cm)
    (hn : ∀ (i j : Nat) (wi wj : FWriter), ws[i]? = some wi → ws[j]? = some wj → wi.name = wj.name → i = j) : FInv cm (fsInit ws) := by
  refine ⟨?_, ?_, ?_, ?_, hn, ?_, ?_, ?_⟩
  · intro n j h; simp [fsInit] at h
  · intro k j h; simp [fsInit] at h
  · intro n1 n2 j h; simp [fsInit] at h
  · intro k j n h; simp [fsInit] at h
  · intro n j h; simp [fsInit] at h
  · intro i w hi hb
    have := hpc w (List.mem_of_getElem? hi)
    rw [this] at hb
    exact absurd hb not_busy_opening
  · intro i w hi
    exact hc w (List.mem_of_getElem? hi)

end Rio
