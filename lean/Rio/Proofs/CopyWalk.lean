import Rio.Model.CopyWalk
import Rio.Proofs.Mtimes
namespace Rio

/-- `r` lies in (or is) the object called `a` of directory `p` -/
def Under (p : MPath) (a : Nat) (r : MPath) : Prop := ∃ rest, r = p ++ a :: rest

theorem under_self (p : MPath) (a : Nat) : Under p a (p ++ [a]) := ⟨[], rfl⟩

theorem under_ne_base {p : MPath} {a : Nat} {r : MPath} (h : Under p a r) : r ≠ p := by
  obtain ⟨rest, rfl⟩ := h
  intro e
  have := congrArg List.length e
  simp at this

theorem under_disjoint {p : MPath} {a b : Nat} {r : MPath} (h1 : Under p a r) (h2 : Under p b r) : a = b := by
  obtain ⟨r1, rfl⟩ := h1
  obtain ⟨r2, h⟩ := h2
  have := List.append_cancel_left h
  injection this

theorem under_trans {p : MPath} {a b : Nat} {r : MPath} (h : Under (p ++ [a]) b r) : Under p a r := by
  obtain ⟨rest, rfl⟩ := h
  exact ⟨b :: rest, by simp⟩

theorem under_deeper_ne {p : MPath} {a b : Nat} {r : MPath} (h : Under (p ++ [a]) b r) : r ≠ p ++ [a] :=
  under_ne_base h

theorem parentOf_snoc (p : MPath) (a : Nat) : parentOf (p ++ [a]) = some p := by
  cases h : p ++ [a] with
  | nil => simp at h
  | cons x t => simp [parentOf, ← h]

theorem create_touches {p : MPath} {a m t : Nat} {r : MPath} (h : (MOp.create (p ++ [a]) m t).touches r) :
    r = p ∨ Under p a r := by
  simp only [MOp.touches, parentOf_snoc, Option.some.injEq] at h
  rcases h with h | h
  · exact Or.inr (h ▸ under_self p a)
  · exact Or.inl h.symm

mutual
  /-- frame of a subtree walk: it writes the receiving directory's mtime and paths inside the subtree, nothing else -/
  theorem walkOps_frame (now : MPath → Nat) (post : Bool) : ∀ (n : MNode) (p : MPath) (op : MOp), op ∈ walkOps now post n p →
      ∀ r, op.touches r → r = p ∨ Under p n.name r
    | .file n m, p, op, hop, r, ht => by
      simp only [walkOps, List.mem_singleton] at hop
      subst hop
      exact create_touches ht
    | .dir n m ks, p, op, hop, r, ht => by
      simp only [walkOps, List.mem_cons, List.mem_append] at hop
      rcases hop with rfl | hop | hop
      · exact create_touches ht
      · rcases walkKids_frame now post ks (p ++ [n]) op hop r ht with h | ⟨k, _, h⟩
        · exact Or.inr (h ▸ under_self p n)
        · exact Or.inr (under_trans h)
      · split at hop
        · simp only [List.mem_singleton] at hop
          subst hop
          simp only [MOp.touches] at ht
          exact Or.inr (ht ▸ under_self p n)
        · cases hop
  theorem walkKids_frame (now : MPath → Nat) (post : Bool) : ∀ (ks : List MNode) (p : MPath) (op : MOp), op ∈ walkKids now post ks p →
      ∀ r, op.touches r → r = p ∨ ∃ k ∈ ks, Under p k.name r
    | [], p, op, hop, r, ht => by simp [walkKids] at hop
    | k :: ks, p, op, hop, r, ht => by
      simp only [walkKids, List.mem_append] at hop
      rcases hop with hop | hop
      · rcases walkOps_frame now post k p op hop r ht with h | h
        · exact Or.inl h
        · exact Or.inr ⟨k, List.mem_cons_self, h⟩
      · rcases walkKids_frame now post ks p op hop r ht with h | ⟨k', hk', h⟩
        · exact Or.inl h
        · exact Or.inr ⟨k', List.mem_cons_of_mem _ hk', h⟩
end

mutual
  theorem nodesOf_under : ∀ (n : MNode) (p : MPath) (x : MPath × Nat), x ∈ nodesOf n p → Under p n.name x.1
    | .file n m, p, x, hx => by
      simp only [nodesOf, List.mem_singleton] at hx
      subst hx
      exact under_self p n
    | .dir n m ks, p, x, hx => by
      simp only [nodesOf, List.mem_cons] at hx
      rcases hx with rfl | hx
      · exact under_self p n
      · obtain ⟨k, _, h⟩ := kidsNodes_under ks (p ++ [n]) x hx
        exact under_trans h
  theorem kidsNodes_under : ∀ (ks : List MNode) (p : MPath) (x : MPath × Nat), x ∈ kidsNodes ks p → ∃ k ∈ ks, Under p k.name x.1
    | [], p, x, hx => by simp [kidsNodes] at hx
    | k :: ks, p, x, hx => by
      simp only [kidsNodes, List.mem_append] at hx
      rcases hx with hx | hx
      · exact ⟨k, List.mem_cons_self, nodesOf_under k p x hx⟩
      · obtain ⟨k', hk', h⟩ := kidsNodes_under ks p x hx
        exact ⟨k', List.mem_cons_of_mem _ hk', h⟩
end

mutual
  /-- **the walk with `postVisit` gives every node of the tree its source mtime** -/
  theorem walk_mtimes (now : MPath → Nat) : ∀ (n : MNode) (p : MPath), n.wf → ∀ (s : MFs) (x : MPath × Nat), x ∈ nodesOf n p →
      mrun s (walkOps now true n p) x.1 = some x.2
    | .file n m, p, _, s, x, hx => by
      simp only [nodesOf, List.mem_singleton] at hx
      subst hx
      simp [walkOps, mrun, mexec]
    | .dir n m ks, p, hwf, s, x, hx => by
      simp only [MNode.wf] at hwf
      simp only [nodesOf, List.mem_cons] at hx
      have happ : walkOps now true (.dir n m ks) p =
          [.create (p ++ [n]) m (now (p ++ [n]))] ++ walkKids now true ks (p ++ [n]) ++ [.settime (p ++ [n]) m] := by
        simp [walkOps]
      rw [happ, mrun_append, mrun_append]
      rcases hx with rfl | hx
      · simp [mrun, mexec]
      · have hk := walkKids_mtimes now ks (p ++ [n]) hwf (mrun s [.create (p ++ [n]) m (now (p ++ [n]))]) x hx
        obtain ⟨k, _, hu⟩ := kidsNodes_under ks (p ++ [n]) x hx
        have hne : x.1 ≠ p ++ [n] := under_deeper_ne hu
        simp only [mrun, List.foldl_cons, List.foldl_nil, mexec] at hk ⊢
        rw [upd_other _ _ _ _ hne]
        exact hk
  theorem walkKids_mtimes (now : MPath → Nat) : ∀ (ks : List MNode) (p : MPath), kidsWf ks → ∀ (s : MFs) (x : MPath × Nat),
      x ∈ kidsNodes ks p → mrun s (walkKids now true ks p) x.1 = some x.2
    | [], p, _, s, x, hx => by simp [kidsNodes] at hx
    | k :: ks, p, hwf, s, x, hx => by
      simp only [kidsWf] at hwf
      simp only [kidsNodes, List.mem_append] at hx
      simp only [walkKids]
      rw [mrun_append]
      rcases hx with hx | hx
      · -- the node is in the first subtree: later siblings write only `p` and their own subtrees
        have hu := nodesOf_under k p x hx
        rw [mrun_untouched]
        · exact walk_mtimes now k p hwf.1 s x hx
        · intro op hop ht
          rcases walkKids_frame now true ks p op hop x.1 ht with h | ⟨k', hk', h⟩
          · exact under_ne_base hu h
          · exact hwf.2.1 k' hk' (under_disjoint h hu)
      · exact walkKids_mtimes now ks p hwf.2.2 _ x hx
end

end Rio
