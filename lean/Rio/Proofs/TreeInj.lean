import Rio.Spec.TreeHash
import Rio.Proofs.MetaInj
/-!
# The tree-hash pre-image determines the fileset (files and directories)

For an injective `H` (no collisions; in particular for the recording "hash" `H = id`, whose output *is* the
byte stream fed to the real hash), `specHash H` is injective on trees made of files and directories: equal
hashes force equal hashed attributes of every node, equal file content hashes, and the same children in the
same positions.
-/
namespace Rio

mutual
/-- every node is a regular file or a directory, with Go-representable field sizes (including the length of the
    node's own hash: 48 bytes for SHA-384; for the recording "hash" `id` it is the length of the pre-image) -/
def FD (H : Bytes → Bytes) : Tree → Prop
  | .node r kids => MBounded r.m ∧ r.chash.length < 2 ^ 64 ∧ (r.m.kind = .file ∨ r.m.kind = .dir) ∧
      (∀ h, specHash H (.node r kids) = some h → h.length < 2 ^ 64) ∧ FDF H kids
def FDF (H : Bytes → Bytes) : Forest → Prop
  | .nil => True
  | .cons t f => FD H t ∧ FDF H f
end

mutual
/-- same hashed content: attribute views equal at every node, same content hash for files, and for directories
    the same children, position by position -/
def TEq : Tree → Tree → Prop
  | .node r1 k1, .node r2 k2 =>
    mview r1.m = mview r2.m ∧ (r1.m.kind = .file → r1.chash = r2.chash) ∧ (r1.m.kind = .dir → FEq k1 k2)
def FEq : Forest → Forest → Prop
  | .nil, .nil => True
  | .cons t1 f1, .cons t2 f2 => TEq t1 t2 ∧ FEq f1 f2
  | .nil, .cons _ _ => False
  | .cons _ _, .nil => False
end

theorem decodeHead_break (r : Bytes) : decodeHead (cborBreak :: r) = none := by
  simp [decodeHead, cborBreak]

theorem cborBytes_not_break (h r r' : Bytes) (hl : h.length < 2 ^ 64) : cborBytes h ++ r ≠ cborBreak :: r' := by
  intro e
  have h1 := decodeHead_cborHead cborMajorBytes (by simp [isMajor]) h.length hl (h ++ r)
  unfold cborBytes at e
  rw [List.append_assoc] at e
  rw [e, decodeHead_break] at h1
  cases h1

theorem specHash_some_of_FD (H : Bytes → Bytes) : ∀ t, FD H t → ∃ h, specHash H t = some h ∧ h.length < 2 ^ 64
  | .node r kids, hfd => by
    unfold FD at hfd
    have hl := hfd.2.2.2.1
    rcases hfd.2.2.1 with hk | hk
    · simp only [specHash, hk] at hl ⊢; exact ⟨_, rfl, hl _ rfl⟩
    · simp only [specHash, hk] at hl ⊢; exact ⟨_, rfl, hl _ rfl⟩

mutual
theorem specHash_inj (H : Bytes → Bytes) (hH : ∀ a b, H a = H b → a = b) :
    ∀ (t1 t2 : Tree), FD H t1 → FD H t2 → specHash H t1 = specHash H t2 → TEq t1 t2
  | .node r1 k1, .node r2 k2, h1, h2, he => by
    unfold FD at h1 h2
    obtain ⟨b1, c1, kd1, _, fk1⟩ := h1
    obtain ⟨b2, c2, kd2, _, fk2⟩ := h2
    unfold TEq
    rcases kd1 with hk1 | hk1 <;> rcases kd2 with hk2 | hk2
    · -- file, file
      simp only [specHash, hk1, hk2, Option.some.injEq] at he
      have he := hH _ _ he
      simp only [List.append_assoc] at he
      have he := List.append_cancel_left (List.append_cancel_left he)
      obtain ⟨ev, he⟩ := serMeta_inj r1.m r2.m b1 b2 _ _ he
      have he := List.append_cancel_left he
      have he' : cborBytes r1.chash ++ [] = cborBytes r2.chash ++ [] := by simpa using he
      obtain ⟨ec, _⟩ := cborBytes_inj c1 c2 he'
      exact ⟨ev, fun _ => ec, fun hd => by rw [hk1] at hd; cases hd⟩
    · -- file, dir: the views would have to agree on the type
      exfalso
      simp only [specHash, hk1, hk2, Option.some.injEq] at he
      have he := hH _ _ he
      simp only [List.append_assoc] at he
      have he := List.append_cancel_left (List.append_cancel_left he)
      obtain ⟨ev, _⟩ := serMeta_inj r1.m r2.m b1 b2 _ _ he
      have : r1.m.kind = r2.m.kind := by
        have := congrArg MView.kind ev
        simpa [mview] using this
      rw [hk1, hk2] at this; cases this
    · exfalso
      simp only [specHash, hk1, hk2, Option.some.injEq] at he
      have he := hH _ _ he
      simp only [List.append_assoc] at he
      have he := List.append_cancel_left (List.append_cancel_left he)
      obtain ⟨ev, _⟩ := serMeta_inj r1.m r2.m b1 b2 _ _ he
      have : r1.m.kind = r2.m.kind := by
        have := congrArg MView.kind ev
        simpa [mview] using this
      rw [hk1, hk2] at this; cases this
    · -- dir, dir
      simp only [specHash, hk1, hk2, Option.some.injEq] at he
      have he := hH _ _ he
      simp only [List.append_assoc] at he
      have he := List.append_cancel_left (List.append_cancel_left he)
      obtain ⟨ev, he⟩ := serMeta_inj r1.m r2.m b1 b2 _ _ he
      have he := List.append_cancel_left he
      simp only [List.cons_append, List.nil_append, List.cons.injEq, true_and] at he
      obtain ⟨ef, _⟩ := specKids_inj H hH k1 k2 fk1 fk2 [] [] (by simpa using he)
      exact ⟨ev, fun hf => (by rw [hk1] at hf; cases hf), fun _ => ef⟩
theorem specKids_inj (H : Bytes → Bytes) (hH : ∀ a b, H a = H b → a = b) :
    ∀ (f1 f2 : Forest), FDF H f1 → FDF H f2 → ∀ (r1 r2 : Bytes),
      specKids H f1 ++ cborBreak :: r1 = specKids H f2 ++ cborBreak :: r2 → FEq f1 f2 ∧ r1 = r2
  | .nil, .nil, _, _, r1, r2, he => by
    simp only [specKids, List.nil_append, List.cons.injEq, true_and] at he
    exact ⟨by unfold FEq; trivial, he⟩
  | .nil, .cons t2 f2, _, h2, r1, r2, he => by
    exfalso
    unfold FDF at h2
    obtain ⟨h, hh, hl⟩ := specHash_some_of_FD H t2 h2.1
    simp only [specKids, hh, List.nil_append, List.append_assoc] at he
    exact cborBytes_not_break h _ r1 hl he.symm
  | .cons t1 f1, .nil, h1, _, r1, r2, he => by
    exfalso
    unfold FDF at h1
    obtain ⟨h, hh, hl⟩ := specHash_some_of_FD H t1 h1.1
    simp only [specKids, hh, List.nil_append, List.append_assoc] at he
    exact cborBytes_not_break h _ r2 hl he
  | .cons t1 f1, .cons t2 f2, h1, h2, r1, r2, he => by
    unfold FDF at h1 h2
    obtain ⟨x1, hx1, l1⟩ := specHash_some_of_FD H t1 h1.1
    obtain ⟨x2, hx2, l2⟩ := specHash_some_of_FD H t2 h2.1
    simp only [specKids, hx1, hx2, List.append_assoc] at he
    obtain ⟨ex, he⟩ := cborBytes_inj l1 l2 he
    have et : TEq t1 t2 := specHash_inj H hH t1 t2 h1.1 h2.1 (by rw [hx1, hx2, ex])
    obtain ⟨ef, er⟩ := specKids_inj H hH f1 f2 h1.2 h2.2 r1 r2 he
    exact ⟨by unfold FEq; exact ⟨et, ef⟩, er⟩
end


mutual
/-- files and directories only, Go-representable field sizes (no condition on `H`) -/
def FD0 : Tree → Prop
  | .node r kids => MBounded r.m ∧ r.chash.length < 2 ^ 64 ∧ (r.m.kind = .file ∨ r.m.kind = .dir) ∧ FDF0 kids
def FDF0 : Forest → Prop
  | .nil => True
  | .cons t f => FD0 t ∧ FDF0 f
end

mutual
theorem FD_of_FD0 (H : Bytes → Bytes) (hlen : ∀ x, (H x).length < 2 ^ 64) : ∀ t, FD0 t → FD H t
  | .node r kids, h => by
    unfold FD0 at h
    unfold FD
    refine ⟨h.1, h.2.1, h.2.2.1, ?_, FDF_of_FDF0 H hlen kids h.2.2.2⟩
    intro x hx
    rcases h.2.2.1 with hk | hk <;> simp only [specHash, hk, Option.some.injEq] at hx <;> rw [← hx] <;> exact hlen _
theorem FDF_of_FDF0 (H : Bytes → Bytes) (hlen : ∀ x, (H x).length < 2 ^ 64) : ∀ f, FDF0 f → FDF H f
  | .nil, _ => by unfold FDF; trivial
  | .cons t f, h => by
    unfold FDF0 at h
    unfold FDF
    exact ⟨FD_of_FD0 H hlen t h.1, FDF_of_FDF0 H hlen f h.2⟩
end

/-- **Collision reduction**: for any hash function with bounded output (SHA-384: 48 bytes), two file/directory
    trees with the same tree hash have the same hashed content — or `H` has a collision. -/
theorem specHash_inj_or_collision (H : Bytes → Bytes) (hlen : ∀ x, (H x).length < 2 ^ 64) (t1 t2 : Tree)
    (h1 : FD0 t1) (h2 : FD0 t2) (he : specHash H t1 = specHash H t2) :
    TEq t1 t2 ∨ ∃ a b, a ≠ b ∧ H a = H b := by
  by_cases hc : ∃ a b, a ≠ b ∧ H a = H b
  · exact Or.inr hc
  · left
    have hH : ∀ a b, H a = H b → a = b := by
      intro a b hab
      by_cases e : a = b
      · exact e
      · exact absurd ⟨a, b, e, hab⟩ hc
    exact specHash_inj H hH t1 t2 (FD_of_FD0 H hlen t1 h1) (FD_of_FD0 H hlen t2 h2) he

end Rio
