import Rio.Basic
/-! `bytesLt` is a strict total order; `sortBy` is a sort; on distinct keys its result does not
    depend on the input order. -/
namespace Rio

theorem bytesLt_irrefl (a : Bytes) : bytesLt a a = false := by
  induction a with
  | nil => rfl
  | cons x xs ih => simp [bytesLt, UInt8.lt_irrefl, ih]

theorem bytesLt_asymm {a b : Bytes} (h : bytesLt a b = true) : bytesLt b a = false := by
  induction a generalizing b with
  | nil => cases b <;> simp_all [bytesLt]
  | cons x xs ih =>
    cases b with
    | nil => simp [bytesLt] at h
    | cons y ys =>
      simp only [bytesLt] at h ⊢
      by_cases hxy : x < y
      · rw [if_neg (UInt8.lt_asymm hxy), if_pos hxy]
      · by_cases hyx : y < x
        · rw [if_neg hxy, if_pos hyx] at h; exact absurd h (by simp)
        · rw [if_neg hxy, if_neg hyx] at h; rw [if_neg hyx, if_neg hxy]; exact ih h

theorem bytesLt_trans {a b c : Bytes} (h1 : bytesLt a b = true) (h2 : bytesLt b c = true) :
    bytesLt a c = true := by
  induction a generalizing b c with
  | nil =>
    cases b with
    | nil => simp [bytesLt] at h1
    | cons y ys => cases c with
      | nil => simp [bytesLt] at h2
      | cons z zs => simp [bytesLt]
  | cons x xs ih =>
    cases b with
    | nil => simp [bytesLt] at h1
    | cons y ys =>
      cases c with
      | nil => simp [bytesLt] at h2
      | cons z zs =>
        simp only [bytesLt] at h1 h2 ⊢
        by_cases hxy : x < y
        · by_cases hyz : y < z
          · simp [UInt8.lt_trans hxy hyz]
          · by_cases hzy : z < y
            · simp [hyz, hzy] at h2
            · have : y = z := UInt8.le_antisymm (UInt8.not_lt.1 hzy) (UInt8.not_lt.1 hyz)
              subst this; simp [hxy]
        · by_cases hyx : y < x
          · simp [hxy, hyx] at h1
          · have : x = y := UInt8.le_antisymm (UInt8.not_lt.1 hyx) (UInt8.not_lt.1 hxy)
            subst this
            simp only [hxy, if_false] at h1
            by_cases hxz : x < z
            · simp [hxz]
            · simp only [hxz, if_false] at h2 ⊢
              by_cases hzx : z < x
              · simp [hzx] at h2
              · simp only [hzx, if_false] at h2 ⊢; exact ih h1 h2

theorem bytesLt_total {a b : Bytes} (h : a ≠ b) : bytesLt a b = true ∨ bytesLt b a = true := by
  induction a generalizing b with
  | nil => cases b with
    | nil => exact absurd rfl h
    | cons y ys => simp [bytesLt]
  | cons x xs ih =>
    cases b with
    | nil => simp [bytesLt]
    | cons y ys =>
      simp only [bytesLt]
      by_cases hxy : x < y
      · simp [hxy]
      · by_cases hyx : y < x
        · simp [hyx]
        · have : x = y := UInt8.le_antisymm (UInt8.not_lt.1 hyx) (UInt8.not_lt.1 hxy)
          subst this
          simp only [hxy, if_false]
          exact ih (fun e => h (by rw [e]))

variable {α : Type} (key : α → Bytes)

theorem perm_insertBy (x : α) (l : List α) : (insertBy key x l).Perm (x :: l) := by
  induction l with
  | nil => exact List.Perm.refl _
  | cons q qs ih =>
    simp only [insertBy]
    split
    · exact List.Perm.refl _
    · exact (List.Perm.cons q ih).trans (List.Perm.swap x q qs)

theorem perm_sortBy (l : List α) : (sortBy key l).Perm l := by
  induction l with
  | nil => exact List.Perm.refl _
  | cons x xs ih => exact (perm_insertBy key x _).trans (List.Perm.cons x ih)

/-- insertion commutes for elements with different keys (no sortedness needed). -/
theorem insertBy_comm (a b : α) (hab : key a ≠ key b) (s : List α) :
    insertBy key a (insertBy key b s) = insertBy key b (insertBy key a s) := by
  -- wlog key a < key b, by symmetry of the statement
  have main : ∀ (a b : α), bytesLt (key a) (key b) = true → ∀ s : List α,
      insertBy key a (insertBy key b s) = insertBy key b (insertBy key a s) := by
    intro a b hlt s
    have hba : bytesLt (key b) (key a) = false := bytesLt_asymm hlt
    induction s with
    | nil => simp [insertBy, hlt, hba]
    | cons q qs ih =>
      by_cases haq : bytesLt (key a) (key q) = true
      · by_cases hbq : bytesLt (key b) (key q) = true
        · simp [insertBy, haq, hbq, hlt, hba]
        · simp [insertBy, haq, hbq, hba]
      · by_cases hbq : bytesLt (key b) (key q) = true
        · exact absurd (bytesLt_trans hlt hbq) haq
        · simp [insertBy, haq, hbq, ih]
  rcases bytesLt_total hab with h | h
  · exact main a b h s
  · exact (main b a h s).symm

/-- On distinct keys, the sorted result is independent of the order of the input. -/
theorem sortBy_perm_eq {l₁ l₂ : List α} (hp : l₁.Perm l₂) (hn : (l₁.map key).Nodup) :
    sortBy key l₁ = sortBy key l₂ := by
  induction hp with
  | nil => rfl
  | cons x _ ih =>
    simp only [sortBy]
    rw [ih (List.nodup_cons.1 (by simpa using hn)).2]
  | swap x y l =>
    simp only [sortBy]
    have hn' : (key y :: key x :: l.map key).Nodup := by simpa using hn
    have hxy : key x ≠ key y := by
      intro e
      have := (List.nodup_cons.1 hn').1
      exact this (by simp [e])
    exact (insertBy_comm key x y hxy _).symm
  | trans h₁ _ ih₁ ih₂ =>
    rw [ih₁ hn]
    exact ih₂ ((h₁.map key).nodup_iff.1 hn)

end Rio

namespace Rio

/-- `find?` over a permutation gives the same answer when at most one element satisfies the predicate. -/
theorem find?_perm_unique {α : Type} (p : α → Bool) {l₁ l₂ : List α} (hp : l₁.Perm l₂)
    (huniq : ∀ a ∈ l₁, ∀ b ∈ l₁, p a = true → p b = true → a = b) :
    l₁.find? p = l₂.find? p := by
  cases h1 : l₁.find? p with
  | none =>
    have hn := List.find?_eq_none.1 h1
    symm
    exact List.find?_eq_none.2 (fun x hx => hn x (hp.mem_iff.2 hx))
  | some a =>
    have ha : a ∈ l₁ := List.mem_of_find?_eq_some h1
    have hpa : p a = true := List.find?_some h1
    cases h2 : l₂.find? p with
    | none =>
      have := List.find?_eq_none.1 h2 a (hp.mem_iff.1 ha)
      simp [hpa] at this
    | some b =>
      have hb : b ∈ l₁ := hp.mem_iff.2 (List.mem_of_find?_eq_some h2)
      have hpb : p b = true := List.find?_some h2
      rw [huniq a ha b hb hpa hpb]

end Rio
