import Rio.Model.Hash
import Rio.Proofs.HashRefine
/-!
# `HashBucket` never crashes on a bucket with distinct, root-anchored keys

The bucket's own panics are of two kinds: `ErrInvalidFilesystem` values (missing root, repeated path, missing tree),
which the unpackers recover and report as a corrupt ware, and invariant failures / runtime errors
(`index out of range` on an empty bucket, `visited k of n nodes`, `slice bounds out of range`), which crash the
process.  Here: if the keys are distinct and every key is `.` or starts with `./` (what `MustRelPath` names that do not
go up print as), only the first kind can happen.
-/
namespace Rio

/-- the panics that are *not* recovered -/
def Panic.crashes : Panic → Bool
  | .emptyBucket | .countMismatch | .sliceBounds => true
  | .missingRoot | .repeatedPath | .missingTree => false

theorem popWhile_frames (H : Bytes → Bytes) (n : Bytes) : ∀ (fs : List Frame) (accs : List Bytes) (fin : Bytes),
    (∃ f ∈ fs, hasPrefix n f.name = true) →
    ∃ top rest, (popWhile H n fs accs fin).frames = top :: rest ∧ hasPrefix n top.name = true ∧
      (∀ g ∈ top :: rest, g ∈ fs)
  | [], _, _, h => by obtain ⟨f, hf, _⟩ := h; cases hf
  | f :: fs, accs, fin, h => by
    by_cases hp : hasPrefix n f.name = true
    · exact ⟨f, fs, by simp [popWhile, hp], hp, fun g hg => hg⟩
    · have h' : ∃ g ∈ fs, hasPrefix n g.name = true := by
        obtain ⟨g, hg, hgp⟩ := h
        rcases List.mem_cons.1 hg with rfl | hg
        · exact absurd hgp hp
        · exact ⟨g, hg, hgp⟩
      simp only [popWhile, hp, Bool.false_eq_true, if_false]
      obtain ⟨top, rest, e, ht, hs⟩ := popWhile_frames H n fs _ _ h'
      exact ⟨top, rest, e, ht, fun g hg => List.mem_cons_of_mem _ (hs g hg)⟩

theorem popWhile_keeps (H : Bytes → Bytes) (n : Bytes) : ∀ (fs : List Frame) (accs : List Bytes) (fin : Bytes),
    ∀ f ∈ fs, hasPrefix n f.name = true → f ∈ (popWhile H n fs accs fin).frames
  | [], _, _, f, hf, _ => by cases hf
  | g :: fs, accs, fin, f, hf, hp => by
    by_cases hg : hasPrefix n g.name = true
    · simp only [popWhile, hg, if_true]; exact hf
    · simp only [popWhile, hg, Bool.false_eq_true, if_false]
      rcases List.mem_cons.1 hf with rfl | hf'
      · exact absurd hp hg
      · exact popWhile_keeps H n fs _ _ f hf' hp

theorem visit_frames (H : Bytes → Bytes) (r : Record) (s : St) :
    ∃ d, (visit H r s).frames = ⟨r.name, d⟩ :: s.frames := by
  unfold visit
  cases r.m.kind <;> simp

/-- the walk: with a frame at the bottom whose name prefixes every remaining key, and every frame name strictly
    below every remaining key, `scan` can only fail with `missingTree` -/
theorem scan_no_crash (H : Bytes → Bytes) : ∀ (rs : List Record) (prev : Bytes) (s : St) (root : Bytes),
    (∃ f ∈ s.frames, f.name = root) → (∀ r ∈ rs, hasPrefix r.name root = true) →
    (∀ f ∈ s.frames, ∀ r ∈ rs, bytesLt f.name r.name = true) →
    (∀ r ∈ rs, bytesLt prev r.name = true) → Srt rs →
    ∀ p, scan H rs prev s = .error p → p = .missingTree
  | [], _, _, _, _, _, _, _, _, p, h => by simp [scan] at h
  | r :: rs, prev, s, root, hroot, hpre, hlt, hprev, hsrt, p, h => by
    obtain ⟨fr, hfr, hfrn⟩ := hroot
    have hex : ∃ f ∈ s.frames, hasPrefix r.name f.name = true :=
      ⟨fr, hfr, by rw [hfrn]; exact hpre r (by simp)⟩
    obtain ⟨top, rest, e, htp, hsub⟩ := popWhile_frames H r.name s.frames s.accs s.fin hex
    simp only [scan] at h
    rw [e] at h
    simp only at h
    have hne : prev ≠ r.name := by
      intro e'
      have := hprev r (by simp)
      rw [e', bytesLt_irrefl] at this; cases this
    have htop_lt : bytesLt top.name r.name = true := hlt top (hsub top (by simp)) r (by simp)
    have hlen : ¬ (top.name.length + 1 > r.name.length) := by
      obtain ⟨rem, hrem⟩ := (hasPrefix_iff _ _).1 htp
      have : rem ≠ [] := by
        intro e'
        rw [e', List.append_nil] at hrem
        rw [hrem, bytesLt_irrefl] at htop_lt; cases htop_lt
      rw [← hrem]
      cases rem with
      | nil => exact absurd rfl this
      | cons x xs => simp
    simp only [hne, hlen, if_false] at h
    split at h
    · injection h with h; exact h.symm
    · -- recursion
      simp only [Srt] at hsrt
      obtain ⟨d, hv⟩ := visit_frames H r (popWhile H r.name s.frames s.accs s.fin)
      apply scan_no_crash H rs r.name _ root ?_ (fun x hx => hpre x (by simp [hx])) ?_ hsrt.1 hsrt.2 p h
      · rw [hv, e]
        refine ⟨fr, ?_, hfrn⟩
        -- the root frame survives: it is a prefix of r.name, so popWhile cannot have gone past it
        have := popWhile_keeps H r.name s.frames s.accs s.fin fr hfr (by rw [hfrn]; exact hpre r (by simp))
        rw [e] at this
        exact List.mem_cons_of_mem _ this
      · intro f hf x hx
        rw [hv, e] at hf
        rcases List.mem_cons.1 hf with rfl | hf
        · exact hsrt.1 x hx
        · exact hlt f (hsub f hf) x (by simp [hx])


/-! ## sorting distinct keys gives a strictly sorted list -/

theorem srt_insertBy (x : Record) : ∀ (l : List Record), Srt l → (∀ y ∈ l, x.name ≠ y.name) →
    Srt (insertBy (·.name) x l)
  | [], _, _ => by simp [insertBy, Srt]
  | q :: qs, hs, hne => by
    simp only [Srt] at hs
    simp only [insertBy]
    split
    · rename_i hlt
      simp only [Srt]
      refine ⟨?_, hs⟩
      intro y hy
      rcases List.mem_cons.1 hy with rfl | hy
      · exact hlt
      · exact bytesLt_trans hlt (hs.1 y hy)
    · rename_i hlt
      have hqx : bytesLt q.name x.name = true := by
        rcases bytesLt_total (hne q (by simp)) with h | h
        · exact absurd h hlt
        · exact h
      simp only [Srt]
      refine ⟨?_, srt_insertBy x qs hs.2 (fun y hy => hne y (by simp [hy]))⟩
      intro y hy
      have hy' := (perm_insertBy (fun r : Record => r.name) x qs).mem_iff.1 hy
      rcases List.mem_cons.1 hy' with e | hq
      · rw [e]; exact hqx
      · exact hs.1 y hq

theorem srt_sortBy : ∀ (l : List Record), (l.map (·.name)).Nodup → Srt (sortBy (·.name) l)
  | [], _ => by simp [sortBy, Srt]
  | x :: xs, hn => by
    simp only [List.map_cons, List.nodup_cons, List.mem_map, not_exists, not_and] at hn
    simp only [sortBy]
    apply srt_insertBy x _ (srt_sortBy xs hn.2)
    intro y hy e
    have hy' := (perm_sortBy (fun r : Record => r.name) xs).mem_iff.1 hy
    exact hn.1 y hy' e.symm


/-! ## `hashBucket` -/

/-- the record's key is the one `AddRecord` files it under, and its name prints as `.` or `./…` -/
def Anchored (r : Record) : Prop :=
  r.name = recordName r.m ∧ (r.m.name.str = [dot] ∨ hasPrefix r.m.name.str [dot, slash] = true)

theorem anchored_prefix_dot {r : Record} (h : Anchored r) : hasPrefix r.name [dot] = true := by
  obtain ⟨hk, hs⟩ := h
  rw [hk]; unfold recordName
  rcases hs with e | e
  · split <;> simp [e, hasPrefix]
  · have : hasPrefix r.m.name.str [dot] = true := by
      obtain ⟨t, ht⟩ := (hasPrefix_iff _ _).1 e
      rw [← ht]; simp [hasPrefix]
    split
    · exact (hasPrefix_iff _ _).2 (((hasPrefix_iff _ _).1 this).trans (List.prefix_append _ _))
    · exact this

/-- **`HashBucket` never crashes** on a non-empty bucket with distinct anchored keys: it returns a value or one of the
    recovered `ErrInvalidFilesystem` panics. -/
theorem hashBucket_no_crash (H : Bytes → Bytes) (recs : List Record) (hne : recs ≠ [])
    (hn : (recs.map (·.name)).Nodup) (ha : ∀ r ∈ recs, Anchored r) :
    ∀ p, hashBucket H recs = .error p → p.crashes = false := by
  intro p hp
  unfold hashBucket at hp
  rw [bucketLines_nodup recs hn] at hp
  have hperm := perm_sortBy (fun r : Record => r.name) recs
  have hsrt := srt_sortBy recs hn
  unfold sortRecs at hp
  cases hl : sortBy (fun r : Record => r.name) recs with
  | nil =>
    have := hperm.length_eq
    rw [hl] at this
    cases recs with
    | nil => exact absurd rfl hne
    | cons a b => simp at this
  | cons r0 rs =>
    rw [hl] at hp hsrt
    simp only at hp
    have hmem : ∀ r ∈ r0 :: rs, r ∈ recs := fun r hr => hperm.mem_iff.1 (by rw [hl]; exact hr)
    split at hp
    · injection hp with hp; rw [← hp]; rfl
    · rename_i hroot
      have hroot' : r0.m.name = ⟨[], 0⟩ := by simpa using hroot
      simp only [Srt] at hsrt
      -- the root key prefixes every other key
      have hpre : ∀ r ∈ rs, hasPrefix r.name r0.name = true := by
        intro r hr
        have hr0 := ha r0 (hmem r0 (by simp))
        have hra := ha r (hmem r (by simp [hr]))
        have hlt := hsrt.1 r hr
        have hk0 : r0.name = [dot] ∨ r0.name = [dot, slash] := by
          rw [hr0.1]; unfold recordName
          split
          · right; rw [hroot']; rfl
          · left; rw [hroot']; rfl
        rcases hk0 with e0 | e0
        · rw [e0]; exact anchored_prefix_dot hra
        · rw [e0]
          obtain ⟨hk, hs⟩ := hra
          rcases hs with e | e
          · -- r prints as ".": its key is "." or "./", neither is above "./"
            exfalso
            rw [e0, hk] at hlt
            unfold recordName at hlt
            split at hlt <;> simp [e, bytesLt, dot, slash] at hlt
          · rw [hk]; unfold recordName
            split
            · exact (hasPrefix_iff _ _).2 (((hasPrefix_iff _ _).1 e).trans (List.prefix_append _ _))
            · exact e
      obtain ⟨d, hv⟩ := visit_frames H r0 ⟨[], [], []⟩
      cases hsc : scan H rs r0.name (visit H r0 ⟨[], [], []⟩) with
      | error q =>
        rw [hsc] at hp
        injection hp with hp
        have := scan_no_crash H rs r0.name _ r0.name ⟨⟨r0.name, d⟩, by rw [hv]; simp, rfl⟩ hpre
          (by intro f hf r hr; rw [hv] at hf; simp at hf; rw [hf]; exact hsrt.1 r hr) hsrt.1 hsrt.2 q hsc
        rw [← hp, this]; rfl
      | ok h =>
        rw [hsc] at hp
        simp only at hp
        have hlen : rs.length + 1 = distinctCount (recs.map (·.name)) := by
          rw [distinctCount_nodup _ hn, List.length_map, ← hperm.length_eq, hl]; simp
        simp [hlen] at hp

end Rio
