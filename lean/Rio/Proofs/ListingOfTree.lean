import Rio.Proofs.ScanOfPack
import Rio.Proofs.FilesetTree
/-!
# The pre-order listing of a real fileset is a good listing

For a fileset given by component names (`LTree`, well formed: `LWF`) whose attributes lie in the tar format's domain,
the records in pre-order (a directory before what it contains — the order `fs.Walk` delivers) satisfy `ListingOK`: the
hypothesis of `scan_of_pack`.  So for every such fileset: `scan(pack(F)) = pack(F) = specId(F)`.
-/
namespace Rio

theorem allNormal_clean' {a : List Bytes} (h : ∀ c ∈ a, Normal c) : CleanComps false a :=
  ⟨[], a, by simp, by simp, h, by simp⟩

/-- parents first, relative to the directories already seen -/
def PF : List RelPath → List FsEntry → Prop
  | _, [] => True
  | D, e :: es => (∀ p ∈ e.m.name.splitParent, p ∈ D) ∧ PF (if e.m.kind = .dir then e.m.name :: D else D) es

def dirsAfter : List FsEntry → List RelPath → List RelPath
  | [], D => D
  | e :: es, D => dirsAfter es (if e.m.kind = .dir then e.m.name :: D else D)

theorem dirsAfter_sup : ∀ (es : List FsEntry) (D : List RelPath), ∀ p ∈ D, p ∈ dirsAfter es D
  | [], _, p, hp => hp
  | e :: es, D, p, hp => by
    unfold dirsAfter
    apply dirsAfter_sup es
    split <;> simp [hp]

theorem PF_mono : ∀ (es : List FsEntry) (D D' : List RelPath), (∀ p ∈ D, p ∈ D') → PF D es → PF D' es
  | [], _, _, _, _ => trivial
  | e :: es, D, D', hs, h => by
    obtain ⟨h1, h2⟩ := h
    refine ⟨fun p hp => hs p (h1 p hp), ?_⟩
    apply PF_mono es _ _ _ h2
    intro p hp
    split at hp <;> split <;> simp_all
    · rcases hp with rfl | hp
      · simp
      · exact Or.inr (hs p hp)

theorem PF_append : ∀ (a b : List FsEntry) (D : List RelPath), PF D a → PF (dirsAfter a D) b → PF D (a ++ b)
  | [], b, D, _, hb => hb
  | e :: a, b, D, ha, hb => by
    obtain ⟨h1, h2⟩ := ha
    exact ⟨h1, PF_append a b _ h2 hb⟩

/-- a list-level route to `ListingOK`: good entries, distinct record names (also against what is already filed), no
    path listed both as a directory and as something else, parents first -/
theorem listing_of_list : ∀ (es : List FsEntry) (B : Bucket) (D : List RelPath),
    (∀ e ∈ es, GoodEntry e) → (es.map (fun e => recordName e.m)).Nodup →
    (∀ e ∈ es, recordName e.m ∉ B.map (·.name)) →
    (∀ e ∈ es, ∀ e' ∈ es, recordName e'.m ≠ recordName (twinOf e.m)) →
    (∀ e ∈ es, recordName (twinOf e.m) ∉ B.map (·.name)) → PF D es → ListingOK es B D
  | [], _, _, _, _, _, _, _, _ => trivial
  | e :: es, B, D, hg, hn, hd, ht1, ht2, hp => by
    obtain ⟨p1, p2⟩ := hp
    have hnd : recordName e.m ∉ es.map (fun e => recordName e.m) ∧ (es.map (fun e => recordName e.m)).Nodup := by
      rw [List.map_cons] at hn; exact List.nodup_cons.1 hn
    refine ⟨hg e (by simp), ?_, ?_, fun p hp' => by simpa using p1 p hp', ?_⟩
    · cases hh : B.has e.m with
      | false => rfl
      | true => exact absurd ((has_iff B e.m).1 hh) (hd e (by simp))
    · cases hh : B.has (twinOf e.m) with
      | false => rfl
      | true => exact absurd ((has_iff B (twinOf e.m)).1 hh) (ht2 e (by simp))
    · apply listing_of_list es _ _ (fun x hx => hg x (by simp [hx])) hnd.2 _
        (fun x hx y hy => ht1 x (by simp [hx]) y (by simp [hy])) _ p2
      · intro x hx
        simp only [List.map_append, List.map_cons, List.map_nil, List.mem_append, List.mem_singleton, not_or]
        refine ⟨hd x (by simp [hx]), ?_⟩
        intro e'
        apply hnd.1
        have : (recOf e).name = recordName e.m := rfl
        rw [this] at e'
        rw [← e']
        exact List.mem_map.2 ⟨x, hx, rfl⟩
      · intro x hx
        simp only [List.map_append, List.map_cons, List.map_nil, List.mem_append, List.mem_singleton, not_or]
        refine ⟨ht2 x (by simp [hx]), ?_⟩
        have : (recOf e).name = recordName e.m := rfl
        rw [this]
        exact fun h => ht1 x (by simp [hx]) e (by simp) h.symm

end Rio

namespace Rio

def entOf (r : Record) : FsEntry := ⟨r.m, r.chash⟩

/-- attributes within the tar format's domain, whole-second mtimes, content hashes on files only -/
def AttrsOK (m : Meta) (ch : Bytes) : Prop :=
  m.perms < 4096 ∧ m.uid < 4294967296 ∧ m.gid < 4294967296 ∧
  (m.kind ≠ .socket ∧ m.kind ≠ .invalid ∧ m.kind ≠ .hardlink) ∧ m.mtime.nsec = 0 ∧ (m.kind ≠ .file → ch = [])

mutual
def LGood : LTree → Prop
  | .node _ m ch kids => AttrsOK m ch ∧ LGoodF kids
def LGoodF : LForest → Prop
  | .nil => True
  | .cons t f => LGood t ∧ LGoodF f
end

theorem notUp_ofComps_normal {cs : List Bytes} (h : ∀ c ∈ cs, Normal c) : hasPrefix (ofComps cs).str [dot, dot] = false := by
  by_cases h0 : cs = []
  · subst h0; simp [ofComps, RelPath.str, hasPrefix]
  · rw [str_ofComps_normal h h0]
    simp [hasPrefix, dot, slash]

theorem good_record {cs : List Bytes} (hcs : ∀ c ∈ cs, Normal c) (m : Meta) (ch : Bytes) (ha : AttrsOK m ch) :
    GoodEntry (entOf (mkRecord { m with name := ofComps cs } ch)) ∧
    recOf (entOf (mkRecord { m with name := ofComps cs } ch)) = mkRecord { m with name := ofComps cs } ch := by
  obtain ⟨a1, a2, a3, a4, a5, a6⟩ := ha
  refine ⟨⟨⟨cs, allNormal_clean' hcs, rfl⟩, notUp_ofComps_normal hcs, a1, a2, a3, a4, a5⟩, ?_⟩
  simp only [recOf, entOf, mkRecord, recHash]
  by_cases hf : m.kind = .file
  · simp [hf]
  · simp [hf, a6 hf]

mutual
theorem goodT : ∀ (t : LTree) (pre : List Bytes), (∀ x ∈ pre, Normal x) → LWF t → LGood t →
    ∀ r ∈ flatten (toTree pre t), GoodEntry (entOf r) ∧ recOf (entOf r) = r
  | .node c m ch kids, pre, hpre, hwf, hg => by
    unfold LWF at hwf
    unfold LGood at hg
    have hall : ∀ x ∈ pre ++ [c], Normal x := by
      intro x hx; simp only [List.mem_append, List.mem_singleton] at hx
      rcases hx with hx | rfl
      · exact hpre x hx
      · exact hwf.1
    intro r hr
    simp only [toTree, flatten, List.mem_cons] at hr
    rcases hr with rfl | hr
    · exact good_record hall m ch hg.1
    · exact goodF kids (pre ++ [c]) hall hwf.2.2 hg.2 r hr
theorem goodF : ∀ (f : LForest) (pre : List Bytes), (∀ x ∈ pre, Normal x) → LWFF f → LGoodF f →
    ∀ r ∈ flattenF (toForest pre f), GoodEntry (entOf r) ∧ recOf (entOf r) = r
  | .nil, _, _, _, _ => by simp [toForest, flattenF]
  | .cons t f, pre, hpre, hwf, hg => by
    unfold LWFF at hwf
    unfold LGoodF at hg
    intro r hr
    simp only [toForest, flattenF, List.mem_append] at hr
    rcases hr with hr | hr
    · exact goodT t pre hpre hwf.1 hg.1 r hr
    · exact goodF f pre hpre hwf.2.1 hg.2 r hr
end

mutual
theorem pfT : ∀ (t : LTree) (pre : List Bytes) (D : List RelPath), (∀ x ∈ pre, Normal x) →
    (∀ k, k ≤ pre.length → ofComps (pre.take k) ∈ D) → LWF t → PF D ((flatten (toTree pre t)).map entOf)
  | .node c m ch kids, pre, D, hpre, hD, hwf => by
    unfold LWF at hwf
    have hall : ∀ x ∈ pre ++ [c], Normal x := by
      intro x hx; simp only [List.mem_append, List.mem_singleton] at hx
      rcases hx with hx | rfl
      · exact hpre x hx
      · exact hwf.1
    simp only [toTree, flatten, List.map_cons]
    refine ⟨?_, ?_⟩
    · intro p hp
      simp only [entOf, mkRecord] at hp
      rw [splitParent_ofComps (allNormal_clean' hall)] at hp
      obtain ⟨k, hk, rfl⟩ := List.mem_map.1 hp
      have hk' : k ≤ pre.length := by have := List.mem_range.1 hk; simp at this; omega
      rw [List.take_append_of_le_length hk']
      exact hD k hk'
    · show PF (if m.kind = Kind.dir then ofComps (pre ++ [c]) :: D else D) _
      by_cases hd : m.kind = .dir
      · rw [if_pos hd]
        apply pfF kids (pre ++ [c]) _ hall _ hwf.2.2
        intro k hk
        by_cases hk' : k ≤ pre.length
        · rw [List.take_append_of_le_length hk']
          exact List.mem_cons_of_mem _ (hD k hk')
        · have : k = (pre ++ [c]).length := by simp at hk ⊢; omega
          rw [this, List.take_length]
          exact List.mem_cons_self
      · rw [if_neg hd]
        rw [hwf.2.1 hd]
        simp [toForest, flattenF, PF]
theorem pfF : ∀ (f : LForest) (pre : List Bytes) (D : List RelPath), (∀ x ∈ pre, Normal x) →
    (∀ k, k ≤ pre.length → ofComps (pre.take k) ∈ D) → LWFF f → PF D ((flattenF (toForest pre f)).map entOf)
  | .nil, _, _, _, _, _ => by simp [toForest, flattenF, PF]
  | .cons t f, pre, D, hpre, hD, hwf => by
    unfold LWFF at hwf
    simp only [toForest, flattenF, List.map_append]
    apply PF_append
    · exact pfT t pre D hpre hD hwf.1
    · exact pfF f pre _ hpre (fun k hk => dirsAfter_sup _ D _ (hD k hk)) hwf.2.1
end

end Rio

namespace Rio

theorem root_records_good (m : Meta) (ch : Bytes) (kids : LForest)
    (hshape : (m.kind = .dir ∧ LWFF kids) ∨ (m.kind ≠ .dir ∧ kids = .nil)) (hattr : AttrsOK m ch) (hgood : LGoodF kids) :
    ∀ r ∈ flatten (toRoot m ch kids), GoodEntry (entOf r) ∧ recOf (entOf r) = r := by
  intro r hr
  simp only [toRoot, flatten, List.mem_cons] at hr
  rcases hr with rfl | hr
  · exact good_record (cs := []) (by simp) m ch hattr
  · rcases hshape with ⟨_, hk⟩ | ⟨_, hk⟩
    · exact goodF kids [] (by simp) hk hgood r hr
    · subst hk; simp [toForest, flattenF] at hr

/-- **For every real fileset** (entries named by normal components, only directories have children, siblings in key
    order, no path both a directory and something else — `hpaths`; attributes in the tar format's domain): the walk's pre-order listing packs to the specified tree hash, and
    the scan of the headers that pack wrote reports the same id twice. -/
theorem scan_of_pack_fileset (H : Bytes → Bytes) (mu mg : Nat) (m : Meta) (ch : Bytes) (kids : LForest)
    (hshape : (m.kind = .dir ∧ LWFF kids) ∨ (m.kind ≠ .dir ∧ kids = .nil)) (hattr : AttrsOK m ch) (hgood : LGoodF kids)
    (hpaths : ∀ r ∈ flatten (toRoot m ch kids), ∀ r' ∈ flatten (toRoot m ch kids), r'.name ≠ recordName (twinOf r.m)) :
    packId H .tar losslessPackF ((flatten (toRoot m ch kids)).map entOf) = .ok (specId H (toRoot m ch kids)) ∧
    unpackTar H nilOps mu mg losslessUnpack (hdrsOf ((flatten (toRoot m ch kids)).map entOf)) .eof () =
      .ok ((), specId H (toRoot m ch kids), specId H (toRoot m ch kids)) := by
  have hwf := toRoot_wf m ch kids hshape
  have hrec := root_records_good m ch kids hshape hattr hgood
  have hmap : ((flatten (toRoot m ch kids)).map entOf).map recOf = flatten (toRoot m ch kids) := by
    rw [List.map_map]
    conv => rhs; rw [← List.map_id (flatten (toRoot m ch kids))]
    apply List.map_congr_left
    intro r hr
    exact (hrec r hr).2
  apply scan_of_pack H mu mg _ (by simp [toRoot, flatten]) _ _ hwf (by rw [hmap])
  apply listing_of_list
  · intro e he
    obtain ⟨r, hr, rfl⟩ := List.mem_map.1 he
    exact (hrec r hr).1
  · have hn := nodup_of_Srt _ (srt_root _ hwf)
    have : ((flatten (toRoot m ch kids)).map entOf).map (fun e => recordName e.m) = (flatten (toRoot m ch kids)).map (·.name) := by
      rw [List.map_map]
      apply List.map_congr_left
      intro r hr
      have := (hrec r hr).2
      simp only [Function.comp]
      conv => rhs; rw [← this]
      rfl
    rw [this]; exact hn
  · simp
  · intro e he e' he'
    obtain ⟨r, hr, rfl⟩ := List.mem_map.1 he
    obtain ⟨r', hr', rfl⟩ := List.mem_map.1 he'
    have h2 := (hrec r' hr').2
    have : recordName (entOf r').m = r'.name := by
      conv => rhs; rw [← h2]
      rfl
    rw [this]
    exact hpaths r hr r' hr'
  · simp
  · simp only [toRoot, flatten, List.map_cons]
    refine ⟨?_, ?_⟩
    · intro p hp
      simp only [entOf, mkRecord] at hp
      rw [splitParent_ofComps (cleanComps_nil false)] at hp
      simp at hp
    · show PF (if m.kind = Kind.dir then ofComps [] :: [] else []) _
      rcases hshape with ⟨hd, hk⟩ | ⟨hd, hk⟩
      · rw [if_pos hd]
        apply pfF kids [] _ (by simp) _ hk
        intro k hk'
        have : k = 0 := by simpa using hk'
        subst this
        simp
      · subst hk
        simp [toForest, flattenF, PF]

end Rio
