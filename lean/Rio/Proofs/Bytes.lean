import Rio.Basic
/-! Helper lemmas about the byte-string vocabulary. -/
namespace Rio

theorem hasPrefix_iff (s p : Bytes) : hasPrefix s p = true ↔ p <+: s := by
  induction p generalizing s with
  | nil => simp [hasPrefix]
  | cons y ys ih =>
    cases s with
    | nil => simp [hasPrefix]
    | cons x xs =>
      simp only [hasPrefix, Bool.and_eq_true, beq_iff_eq, ih, List.cons_prefix_cons]
      constructor <;> (intro ⟨a, b⟩; exact ⟨a.symm, b⟩)

theorem lastIndexOf_ge (c : UInt8) (s : Bytes) : -1 ≤ lastIndexOf c s := by
  induction s with
  | nil => simp [lastIndexOf]
  | cons x xs ih =>
    simp only [lastIndexOf]
    split
    · omega
    · split <;> omega

theorem lastIndexOf_lt (c : UInt8) (s : Bytes) : lastIndexOf c s < s.length := by
  induction s with
  | nil => simp [lastIndexOf]
  | cons x xs ih =>
    simp only [lastIndexOf, List.length_cons]
    split
    · omega
    · split <;> omega

theorem lastIndexOf_neg_iff (c : UInt8) (s : Bytes) : lastIndexOf c s = -1 ↔ c ∉ s := by
  induction s with
  | nil => simp [lastIndexOf]
  | cons x xs ih =>
    have h1 := lastIndexOf_ge c xs
    simp only [lastIndexOf, List.mem_cons, not_or]
    split
    · constructor
      · intro h; omega
      · intro ⟨_, h⟩; have := ih.2 h; omega
    · have hxs : lastIndexOf c xs = -1 := by omega
      split
      · rename_i hx; constructor
        · intro h; omega
        · intro ⟨h, _⟩; exact absurd hx.symm h
      · rename_i hx; constructor
        · intro _; exact ⟨fun h => hx h.symm, ih.1 hxs⟩
        · intro _; rfl

/-- `lastIndexOf` of `a ++ c :: b` when `c ∉ b`. -/
theorem lastIndexOf_append_sep (c : UInt8) (a b : Bytes) (hb : c ∉ b) :
    lastIndexOf c (a ++ c :: b) = a.length := by
  induction a with
  | nil =>
    have := (lastIndexOf_neg_iff c b).2 hb
    simp [lastIndexOf, this]
  | cons x xs ih =>
    simp only [List.cons_append, lastIndexOf, ih, List.length_cons]
    split
    · omega
    · omega

end Rio
