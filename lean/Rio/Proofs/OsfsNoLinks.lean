import Rio.Proofs.OsfsTheory
/-!
# The osfs resolver never hands the kernel a path with a symlink in a proper prefix

`Safe t p`: `p` is the canonical value of normal components and no prefix of it (itself included) is a symlink of
the tree; `SafeButLast t p`: the same for the proper prefixes only.  The resolver only ever extends a `Safe` path by
one segment, looks at that location (`readlinkAt`, whose proper prefixes are link free: the kernel resolves it
literally, which is what `.hostFollow` denies), and continues from it only if it is not a link or with the `Safe`
result of the nested resolution.  No fuel and no `seen` reasoning is needed for this invariant.

The tree is assumed *prefix closed* (`TreeWF`: an entry's ancestors are entries too), as every real directory tree is.
-/
namespace Rio

def NotLink (t : Tree_) (q : Bytes) : Prop := ∀ tg, t.get q ≠ some (.link tg)

def TreeWF (t : Tree_) : Prop :=
  ∀ q n, t.get q = some n → ∀ r ∈ properPrefixes q, (t.get r).isSome = true

/-- a decidable criterion: every key's ancestors are present -/
def treeWFb (t : Tree_) : Bool :=
  t.all (fun kv => (properPrefixes kv.1).all (fun r => (t.get r).isSome))

theorem treeWF_of_b {t : Tree_} (h : treeWFb t = true) : TreeWF t := by
  intro q n hq r hr
  unfold Tree_.get at hq
  split at hq
  · rename_i h0; subst h0
    simp [properPrefixes, splitOn] at hr
  · cases hf : t.find? (fun kv => decide (kv.1 = q)) with
    | none => rw [hf] at hq; cases hq
    | some kv =>
      have hm := List.mem_of_find?_eq_some hf
      have hk : kv.1 = q := by simpa using List.find?_some hf
      have := List.all_eq_true.1 h kv hm
      rw [hk] at this
      exact List.all_eq_true.1 this r hr

def SafeButLast (t : Tree_) (p : RelPath) : Prop :=
  ∃ b, (∀ c ∈ b, Normal c) ∧ p = ofComps b ∧ ∀ i, i + 1 < b.length → NotLink t (joinWith slash (b.take (i + 1)))

def Safe (t : Tree_) (p : RelPath) : Prop :=
  ∃ b, (∀ c ∈ b, Normal c) ∧ p = ofComps b ∧ ∀ i, i < b.length → NotLink t (joinWith slash (b.take (i + 1)))

theorem Safe.butLast {t : Tree_} {p : RelPath} (h : Safe t p) : SafeButLast t p := by
  obtain ⟨b, hb, e, hn⟩ := h
  exact ⟨b, hb, e, fun i hi => hn i (by omega)⟩

theorem Safe.inside {t : Tree_} {p : RelPath} (h : Safe t p) : Inside p := by
  obtain ⟨b, hb, e, _⟩ := h
  exact ⟨b, hb, e⟩

theorem SafeButLast.inside {t : Tree_} {p : RelPath} (h : SafeButLast t p) : Inside p := by
  obtain ⟨b, hb, e, _⟩ := h
  exact ⟨b, hb, e⟩

theorem safe_root (t : Tree_) : Safe t ⟨[], 0⟩ :=
  ⟨[], by simp, by simp [ofComps], fun i hi => by simp at hi⟩

theorem root_notLink (t : Tree_) : NotLink t [] := by
  intro tg h; simp [Tree_.get] at h

/-- the proper prefixes of a canonical inside path are the renderings of the proper prefixes of its component list -/
theorem properPrefixes_ofComps {b : List Bytes} (hb : ∀ c ∈ b, Normal c) :
    properPrefixes (ofComps b).path = (List.range (b.length - 1)).map (fun i => joinWith slash (b.take (i + 1))) := by
  by_cases h0 : b = []
  · subst h0
    simp [properPrefixes, ofComps, splitOn]
  · unfold properPrefixes
    rw [ofComps_path h0, splitOn_joinWith slash b h0 (fun x hx => (hb x hx).2.2.2)]

/-- the location the resolver is about to look at has link-free proper prefixes: the kernel resolves it literally -/
theorem readlinkAt_not_host {t : Tree_} {p : RelPath} (h : SafeButLast t p) : readlinkAt t p ≠ .hostFollow := by
  obtain ⟨b, hb, rfl, hn⟩ := h
  intro e
  unfold readlinkAt at e
  simp only at e
  split at e
  · rename_i hany
    obtain ⟨q, hq, hm⟩ := List.any_eq_true.1 hany
    rw [properPrefixes_ofComps hb] at hq
    obtain ⟨i, hi, rfl⟩ := List.mem_map.1 hq
    have hi' : i + 1 < b.length := by have := List.mem_range.1 hi; omega
    split at hm
    · rename_i tg hg
      exact hn i hi' tg hg
    · cases hm
  · split at e
    · cases e
    · split at e
      · cases e
      · split at e <;> cases e

/-- the location is not a symlink when `readlink` says so — `EINVAL`, or `ENOENT` (here the tree must be prefix
    closed: a missing ancestor means a missing entry) -/
theorem not_link_of_readlinkAt {t : Tree_} (hwf : TreeWF t) {p : RelPath}
    (h : readlinkAt t p = .notLink ∨ readlinkAt t p = .err .notExists) : NotLink t p.path := by
  intro tg hl
  unfold readlinkAt at h
  simp only at h
  split at h
  · rcases h with h | h <;> cases h
  · split at h
    · rcases h with h | h <;> cases h
    · split at h
      · rename_i hnone
        obtain ⟨r, hr, hr'⟩ := List.any_eq_true.1 hnone
        have := hwf p.path _ hl r hr
        rw [Option.isNone_iff_eq_none] at hr'
        rw [hr'] at this; cases this
      · rw [hl] at h
        simp at h

theorem SafeButLast.safe {t : Tree_} {p : RelPath} (h : SafeButLast t p) (hl : NotLink t p.path) : Safe t p := by
  obtain ⟨b, hb, rfl, hn⟩ := h
  refine ⟨b, hb, rfl, fun i hi => ?_⟩
  by_cases hlast : i + 1 < b.length
  · exact hn i hlast
  · have : i + 1 = b.length := by omega
    have h0 : b ≠ [] := by intro e; subst e; simp at hi
    rw [this, List.take_length, ← ofComps_path h0]
    exact hl

theorem take_dropLast {α : Type} (b : List α) (k : Nat) (hk : k < b.length) : b.dropLast.take k = b.take k := by
  rw [List.dropLast_eq_take, List.take_take]
  congr 1
  omega

theorem SafeButLast.dir {t : Tree_} {p : RelPath} (h : SafeButLast t p) : Safe t p.dir := by
  obtain ⟨b, hb, rfl, hn⟩ := h
  by_cases h0 : b = []
  · subst h0
    have : (ofComps []).dir = ⟨[], 0⟩ := by simp [RelPath.dir, ofComps]
    rw [this]; exact safe_root t
  · obtain ⟨init, l, rfl⟩ : ∃ init l, b = init ++ [l] :=
      ⟨b.dropLast, b.getLast h0, (List.dropLast_concat_getLast h0).symm⟩
    rw [dir_snoc (allNormal_clean hb)]
    refine ⟨init, fun c hc => hb c (by simp [hc]), rfl, fun i hi => ?_⟩
    have := hn i (by simp; omega)
    rwa [List.take_append_of_le_length (by omega)] at this

/-- one step of either loop: from a `Safe` path and a segment (not the clamped `..` at the base), the next location
    has link-free proper prefixes -/
theorem Safe.join_seg {t : Tree_} {p : RelPath} (h : Safe t p) {s : Bytes} (hs : Seg s)
    (hclamp : ¬ (s = dd ∧ p = ⟨[], 0⟩)) : SafeButLast t (p.join (single s)) := by
  obtain ⟨a, ha, rfl, hn⟩ := h
  obtain ⟨e, hcase⟩ := single_of_seg hs
  rw [e]
  have hb : CleanComps false [s] := by
    rcases hcase with e' | e'
    · exact ⟨[s], [], by simp, by simp [e'], by simp, by simp⟩
    · exact ⟨[], [s], by simp, by simp, by simpa using e', by simp⟩
  rw [join_ofComps (allNormal_clean ha) hb]
  rcases hcase with e' | e'
  · subst e'
    have h0 : a ≠ [] := by
      intro e0; apply hclamp; subst e0; exact ⟨rfl, by simp [ofComps]⟩
    rw [cleanComps_snoc_dd ha h0]
    refine ⟨a.dropLast, fun c hc => ha c (List.dropLast_subset a hc), rfl, fun i hi => ?_⟩
    have hlen : a.dropLast.length = a.length - 1 := List.length_dropLast
    rw [take_dropLast a (i + 1) (by omega)]
    exact hn i (by omega)
  · have hall : ∀ c ∈ a ++ [s], Normal c := by
      intro c hc; simp only [List.mem_append, List.mem_singleton] at hc
      rcases hc with hc | rfl
      · exact ha c hc
      · exact e'
    rw [cleanComps_id false _ (allNormal_clean hall)]
    refine ⟨a ++ [s], hall, rfl, fun i hi => ?_⟩
    have hi' : i < a.length := by simpa using hi
    rw [List.take_append_of_le_length (by omega)]
    exact hn i hi'

/-! ## the recursion -/

def NL (t : Tree_) (r : Resolved) : Prop := r ≠ .hostFollow ∧ ∀ p, r = .ok p → Safe t p

def RecNL (t : Tree_) (rec : Bytes → RelPath → List RelPath → Resolved × List RelPath) : Prop :=
  ∀ tg sa seen, SafeButLast t sa → NL t (rec tg sa seen).1

theorem segs_nl (t : Tree_) (hwf : TreeWF t) (rec : Bytes → RelPath → List RelPath → Resolved × List RelPath)
    (startingAt : RelPath) (hrec : RecNL t rec) :
    ∀ (segs : List Bytes) (path : RelPath) (seen : List RelPath), (∀ s ∈ segs, slash ∉ s) → Safe t path →
      NL t (resolveSegsWith t rec startingAt segs path seen).1
  | [], path, seen, _, hp => by
    simp only [resolveSegsWith]
    exact ⟨(fun e => by cases e), (fun p e => by injection e with e; subst e; exact hp)⟩
  | s :: rest, path, seen, hsl, hp => by
    have hrest : ∀ x ∈ rest, slash ∉ x := fun x hx => hsl x (by simp [hx])
    rw [resolveSegsWith]
    by_cases h1 : s = [] ∨ s = [dot]
    · rw [if_pos h1]; exact segs_nl t hwf rec startingAt hrec rest path seen hrest hp
    · rw [if_neg h1]
      by_cases h2 : s = [dot, dot] ∧ path = ⟨[], 0⟩
      · rw [if_pos h2]; exact segs_nl t hwf rec startingAt hrec rest path seen hrest hp
      · rw [if_neg h2]
        have hseg : Seg s := ⟨fun e => h1 (Or.inl e), fun e => h1 (Or.inr e), hsl s (by simp)⟩
        have hp' : SafeButLast t (path.join (single s)) := hp.join_seg hseg (by simpa [dd] using h2)
        simp only
        by_cases h3 : path.join (single s) = startingAt
        · rw [if_pos h3]
          exact ⟨(fun e => by cases e), (fun p e => by cases e)⟩
        · rw [if_neg h3]
          cases hrl : readlinkAt t (path.join (single s)) with
          | hostFollow => exact absurd hrl (readlinkAt_not_host hp')
          | err c =>
            simp only
            split
            · rename_i hc
              have hnl := not_link_of_readlinkAt hwf (p := path.join (single s)) (Or.inr (by rw [hrl, hc.2]))
              exact ⟨(fun e => by cases e), (fun p e => by injection e with e; subst e; exact hp'.safe hnl)⟩
            · exact ⟨(fun e => by cases e), (fun p e => by cases e)⟩
          | notLink =>
            have hnl := not_link_of_readlinkAt hwf (p := path.join (single s)) (Or.inl hrl)
            exact segs_nl t hwf rec startingAt hrec rest _ seen hrest (hp'.safe hnl)
          | link tg =>
            simp only
            obtain ⟨r1, r2⟩ := hrec tg (path.join (single s)) seen hp'
            cases hr : rec tg (path.join (single s)) seen with
            | mk res seen' =>
              rw [hr] at r1 r2
              simp only at r1 r2
              cases res with
              | ok p' =>
                simp only
                exact segs_nl t hwf rec startingAt hrec rest p' seen' hrest (r2 p' rfl)
              | err c a => exact ⟨(fun e => by cases e), (fun p e => by cases e)⟩
              | hostFollow => exact absurd rfl r1
              | outOfFuel => exact ⟨(fun e => by cases e), (fun p e => by cases e)⟩

theorem resolveLink_nl (t : Tree_) (hwf : TreeWF t) : ∀ (fuel : Nat) (symlink : Bytes) (startingAt : RelPath)
    (seen : List RelPath), SafeButLast t startingAt → NL t (resolveLink t fuel symlink startingAt seen).1
  | 0, _, _, seen, _ => by
    simp only [resolveLink]
    exact ⟨(fun e => by cases e), (fun p e => by cases e)⟩
  | fuel + 1, symlink, startingAt, seen, hsa => by
    rw [resolveLink]
    by_cases hc : seen.contains startingAt = true
    · rw [if_pos hc]
      exact ⟨(fun e => by cases e), (fun p e => by cases e)⟩
    · rw [if_neg hc]
      have hrec : RecNL t (resolveLink t fuel) := fun tg sa seen' hs' => resolveLink_nl t hwf fuel tg sa seen' hs'
      simp only
      have hsegs : ∀ s ∈ (if (splitOn slash symlink).head? = some [] then (splitOn slash symlink).drop 1 else splitOn slash symlink), slash ∉ s := by
        intro s hs'
        split at hs'
        · exact splitOn_mem_nosep slash symlink s (List.mem_of_mem_drop hs')
        · exact splitOn_mem_nosep slash symlink s hs'
      have hstart : Safe t (if (splitOn slash symlink).head? = some [] then (⟨[], 0⟩ : RelPath) else startingAt.dir) := by
        split
        · exact safe_root t
        · exact hsa.dir
      exact segs_nl t hwf (resolveLink t fuel) startingAt hrec _ _ _ hsegs hstart

theorem realpathSegs_nl (t : Tree_) (hwf : TreeWF t) (fuel : Nat) (rl : Bool) :
    ∀ (segs : List Bytes) (resolved : RelPath), (∀ s ∈ segs, Normal s) → Safe t resolved →
      realpathSegs t fuel rl segs resolved ≠ .hostFollow ∧
      (∀ p, realpathSegs t fuel rl segs resolved = .ok p → SafeButLast t p)
  | [], resolved, _, hin => by
    simp only [realpathSegs]
    exact ⟨(fun e => by cases e), (fun p e => by injection e with e; subst e; exact hin.butLast)⟩
  | s :: rest, resolved, hsegs, hin => by
    have hs := hsegs s (by simp)
    have hrest : ∀ x ∈ rest, Normal x := fun x hx => hsegs x (by simp [hx])
    have hin' : SafeButLast t (resolved.join (single s)) :=
      hin.join_seg ⟨hs.1, hs.2.1, hs.2.2.2⟩ (fun e => hs.2.2.1 e.1)
    rw [realpathSegs]
    split
    · exact ⟨(fun e => by cases e), (fun p e => by injection e with e; subst e; exact hin')⟩
    · cases hrl : readlinkAt t (resolved.join (single s)) with
      | hostFollow => exact absurd hrl (readlinkAt_not_host hin')
      | err c => exact ⟨(fun e => by cases e), (fun p e => by cases e)⟩
      | notLink =>
        exact realpathSegs_nl t hwf fuel rl rest _ hrest
          (hin'.safe (not_link_of_readlinkAt hwf (p := resolved.join (single s)) (Or.inl hrl)))
      | link tg =>
        simp only
        obtain ⟨r1, r2⟩ := resolveLink_nl t hwf fuel tg (resolved.join (single s)) [] hin'
        cases hr : (resolveLink t fuel tg (resolved.join (single s)) []).1 with
        | ok p' =>
          simp only
          exact realpathSegs_nl t hwf fuel rl rest p' hrest (r2 p' hr)
        | err c a => exact ⟨(fun e => by cases e), (fun p e => by cases e)⟩
        | hostFollow => exact absurd hr r1
        | outOfFuel => exact ⟨(fun e => by cases e), (fun p e => by cases e)⟩

/-- **No symlink is ever left to the kernel**: on every prefix-closed tree, for every canonical path and both modes,
    no `readlink` the resolver issues names a location with a symlink among its proper prefixes (the model's
    `.hostFollow` is unreachable), and the path it returns for the final system call has link-free proper prefixes too:
    the kernel resolves `B/p` literally, so the object reached lies inside `B`. -/
theorem realpath_nolinks (t : Tree_) (hwf : TreeWF t) (path : RelPath) (rl : Bool) (hc : path.Clean) :
    realpath t path rl ≠ .hostFollow ∧ (∀ p, realpath t path rl = .ok p → SafeButLast t p) := by
  unfold realpath
  cases hu : path.goesUp with
  | true => simp only [if_true]; exact ⟨(fun e => by cases e), (fun p e => by cases e)⟩
  | false =>
    simp only [Bool.false_eq_true, if_false]
    obtain ⟨a, ha, rfl⟩ := inside_of_clean_not_up hc hu
    by_cases h0 : a = []
    · subst h0
      simp only [ofComps, if_true, realpathSegs]
      exact ⟨(fun e => by cases e), (fun p e => by injection e with e; subst e; exact (safe_root t).butLast)⟩
    · have hp : (ofComps a).path = joinWith slash a := ofComps_path h0
      have hne : (ofComps a).path ≠ [] := by rw [hp]; exact (render_facts (allNormal_clean ha) h0).1
      rw [if_neg hne, hp, splitOn_joinWith slash a h0 (fun x hx => (ha x hx).2.2.2)]
      exact realpathSegs_nl t hwf (numLinks t + 2) rl a ⟨[], 0⟩ ha (safe_root t)

end Rio
