import Rio.Model.Path
import Rio.Proofs.Bytes
/-!
# Path theory: `RelPath` values are (isomorphic to) clean component lists

The deep half of C18.  A *clean component list* is `ups ++ names` with every `ups` entry `..`
and every `names` entry a normal component (non-empty, not `.`, not `..`, no `/`).  We show

* `path.Clean` (model `goClean`) always produces the rendering of a clean component list, and is the
  identity on such renderings (idempotence);
* every value built by `MustRelPath` is `ofComps cs` for a clean `cs` (`RelPath.Clean`), and the
  operations `Join`, `Dir`, `Last`, `Split`, `String`, `GoesUp` act on those lists the obvious way.

Everything here is about the model `Rio/Model/Path.lean`; the `path` correspondence stream ties the
model to `fs/path.go`.
-/
namespace Rio

/-! ## splitOn / joinWith -/

theorem splitOn_ne_nil (c : UInt8) (s : Bytes) : splitOn c s ≠ [] := by
  induction s with
  | nil => simp [splitOn]
  | cons x xs ih =>
    simp only [splitOn]
    split
    · simp
    · split <;> simp

theorem splitOn_append_sep (c : UInt8) (a b : Bytes) :
    splitOn c (a ++ c :: b) = splitOn c a ++ splitOn c b := by
  induction a with
  | nil => simp [splitOn]
  | cons x xs ih =>
    simp only [List.cons_append, splitOn, ih]
    split
    · simp
    · cases h : splitOn c xs with
      | nil => exact absurd h (splitOn_ne_nil c xs)
      | cons hd tl => simp

theorem splitOn_nosep (c : UInt8) (s : Bytes) (h : c ∉ s) : splitOn c s = [s] := by
  induction s with
  | nil => simp [splitOn]
  | cons x xs ih =>
    simp only [List.mem_cons, not_or] at h
    have hx : ¬ x = c := fun e => h.1 e.symm
    simp [splitOn, hx, ih h.2]

theorem splitOn_joinWith (c : UInt8) : ∀ (cs : List Bytes), cs ≠ [] → (∀ x ∈ cs, c ∉ x) →
    splitOn c (joinWith c cs) = cs
  | [], h, _ => absurd rfl h
  | [a], _, hn => by simpa [joinWith] using splitOn_nosep c a (hn a (by simp))
  | a :: b :: rest, _, hn => by
    have ih := splitOn_joinWith c (b :: rest) (by simp) (fun x hx => hn x (by simp [hx]))
    have ha := splitOn_nosep c a (hn a (by simp))
    simp only [joinWith, splitOn_append_sep, ha, ih]
    simp

theorem splitOn_mem_nosep (c : UInt8) (s : Bytes) : ∀ x ∈ splitOn c s, c ∉ x := by
  induction s with
  | nil => simp [splitOn]
  | cons y ys ih =>
    simp only [splitOn]
    split
    · intro x hx
      simp only [List.mem_cons] at hx
      rcases hx with rfl | hx
      · simp
      · exact ih x hx
    · rename_i hne
      cases h : splitOn c ys with
      | nil => exact absurd h (splitOn_ne_nil c ys)
      | cons hd tl =>
        rw [h] at ih
        intro x hx
        simp only [List.mem_cons] at hx
        rcases hx with rfl | hx
        · have := ih hd (by simp)
          simp only [List.mem_cons, not_or]
          exact ⟨fun e => hne e.symm, this⟩
        · exact ih x (by simp [hx])

theorem joinWith_splitOn (c : UInt8) (s : Bytes) : joinWith c (splitOn c s) = s := by
  induction s with
  | nil => simp [splitOn, joinWith]
  | cons x xs ih =>
    simp only [splitOn]
    split
    · rename_i hx
      cases h : splitOn c xs with
      | nil => exact absurd h (splitOn_ne_nil c xs)
      | cons hd tl => rw [h] at ih; simp [joinWith, ih, hx]
    · cases h : splitOn c xs with
      | nil => exact absurd h (splitOn_ne_nil c xs)
      | cons hd tl =>
        rw [h] at ih
        cases tl with
        | nil => simp [joinWith] at ih ⊢; exact ih
        | cons t2 tl2 => simp [joinWith] at ih ⊢; exact ih

theorem joinWith_append (c : UInt8) : ∀ (a b : List Bytes), a ≠ [] → b ≠ [] →
    joinWith c (a ++ b) = joinWith c a ++ c :: joinWith c b
  | [], _, h, _ => absurd rfl h
  | [x], b, _, hb => by
    cases b with
    | nil => exact absurd rfl hb
    | cons y ys => simp [joinWith]
  | x :: y :: rest, b, _, hb => by
    have ih := joinWith_append c (y :: rest) b (by simp) hb
    simp only [List.cons_append] at ih ⊢
    simp only [joinWith, ih]
    simp

theorem joinWith_cons_cons (c : UInt8) (a b : Bytes) (rest : List Bytes) :
    joinWith c (a :: b :: rest) = a ++ c :: joinWith c (b :: rest) := rfl

/-! ## clean component lists -/

def dd : Bytes := [dot, dot]

/-- a normal path component -/
def Normal (c : Bytes) : Prop := c ≠ [] ∧ c ≠ [dot] ∧ c ≠ dd ∧ slash ∉ c

/-- `ups ++ names`; for rooted paths there are no `ups`. -/
def CleanComps (rooted : Bool) (cs : List Bytes) : Prop :=
  ∃ ups names, cs = ups ++ names ∧ (∀ c ∈ ups, c = dd) ∧ (∀ c ∈ names, Normal c) ∧ (rooted = true → ups = [])

/-- the reversed working stack of `cleanComps`: names on top of ups -/
def CleanStack (rooted : Bool) (st : List Bytes) : Prop :=
  ∃ names ups, st = names ++ ups ∧ (∀ c ∈ ups, c = dd) ∧ (∀ c ∈ names, Normal c) ∧ (rooted = true → ups = [])

theorem cleanStack_reverse {r : Bool} {st : List Bytes} (h : CleanStack r st) : CleanComps r st.reverse := by
  obtain ⟨names, ups, rfl, hu, hn, hr⟩ := h
  refine ⟨ups.reverse, names.reverse, by simp, ?_, ?_, ?_⟩
  · intro c hc; exact hu c (by simpa using hc)
  · intro c hc; exact hn c (by simpa using hc)
  · intro h; simp [hr h]

theorem cleanComps_reverse {r : Bool} {cs : List Bytes} (h : CleanComps r cs) : CleanStack r cs.reverse := by
  obtain ⟨ups, names, rfl, hu, hn, hr⟩ := h
  refine ⟨names.reverse, ups.reverse, by simp, ?_, ?_, ?_⟩
  · intro c hc; exact hu c (by simpa using hc)
  · intro c hc; exact hn c (by simpa using hc)
  · intro h; simp [hr h]

theorem dd_not_normal : ¬ Normal dd := fun h => h.2.2.1 rfl

theorem cleanStep_normal (r : Bool) (st : List Bytes) (c : Bytes) (h : Normal c) :
    cleanStep r st c = c :: st := by
  obtain ⟨h1, h2, h3, _⟩ := h
  simp only [dd] at h3
  simp [cleanStep, h1, h2, h3]

theorem cleanStep_stack (r : Bool) (st : List Bytes) (c : Bytes) (hc : slash ∉ c) (h : CleanStack r st) :
    CleanStack r (cleanStep r st c) := by
  unfold cleanStep
  split
  · exact h
  · rename_i h0
    simp only [not_or] at h0
    split
    · rename_i hdd
      obtain ⟨names, ups, rfl, hu, hn, hr⟩ := h
      cases names with
      | nil =>
        cases ups with
        | nil =>
          simp only [List.append_nil]
          cases r with
          | true => exact ⟨[], [], by simp, by simp, by simp, by simp⟩
          | false => exact ⟨[], [c], by simp, by simp [hdd, dd], by simp, by simp⟩
        | cons u us =>
          have hud : u = dd := hu u (by simp)
          simp only [List.nil_append, hud, dd, ite_true]
          refine ⟨[], c :: dd :: us, by simp [dd], ?_, by simp, ?_⟩
          · intro x hx
            simp only [List.mem_cons] at hx
            rcases hx with rfl | rfl | hx
            · exact hdd
            · rfl
            · exact hu x (by simp [hx])
          · intro hr'; have := hr hr'; simp at this
      | cons n ns =>
        have hnn : Normal n := hn n (by simp)
        have : ¬ n = [dot, dot] := hnn.2.2.1
        simp only [List.cons_append, this, ite_false]
        exact ⟨ns, ups, rfl, hu, fun x hx => hn x (by simp [hx]), hr⟩
    · rename_i hdd
      obtain ⟨names, ups, rfl, hu, hn, hr⟩ := h
      refine ⟨c :: names, ups, by simp, hu, ?_, hr⟩
      intro x hx
      simp only [List.mem_cons] at hx
      rcases hx with rfl | hx
      · exact ⟨h0.1, h0.2, hdd, hc⟩
      · exact hn x hx

theorem foldl_cleanStep_stack (r : Bool) (cs : List Bytes) (hcs : ∀ c ∈ cs, slash ∉ c) :
    ∀ st, CleanStack r st → CleanStack r (cs.foldl (cleanStep r) st) := by
  induction cs with
  | nil => intro st h; exact h
  | cons c cs ih =>
    intro st h
    simp only [List.foldl_cons]
    exact ih (fun x hx => hcs x (by simp [hx])) _ (cleanStep_stack r st c (hcs c (by simp)) h)

theorem cleanComps_clean (r : Bool) (cs : List Bytes) (hcs : ∀ c ∈ cs, slash ∉ c) :
    CleanComps r (cleanComps r cs) := by
  unfold cleanComps
  exact cleanStack_reverse (foldl_cleanStep_stack r cs hcs [] ⟨[], [], rfl, by simp, by simp, by simp⟩)

theorem foldl_cleanStep_names (r : Bool) (names : List Bytes) (hn : ∀ c ∈ names, Normal c) :
    ∀ st, names.foldl (cleanStep r) st = names.reverse ++ st := by
  induction names with
  | nil => intro st; rfl
  | cons n ns ih =>
    intro st
    simp only [List.foldl_cons, cleanStep_normal r st n (hn n (by simp))]
    rw [ih (fun x hx => hn x (by simp [hx]))]
    simp

theorem foldl_cleanStep_ups (ups : List Bytes) (hu : ∀ c ∈ ups, c = dd) :
    ∀ st, (∀ c ∈ st, c = dd) → ups.foldl (cleanStep false) st = ups.reverse ++ st := by
  induction ups with
  | nil => intro st _; rfl
  | cons u us ih =>
    intro st hst
    have hud : u = dd := hu u (by simp)
    have hstep : cleanStep false st u = u :: st := by
      subst hud
      cases st with
      | nil => simp [cleanStep, dd]
      | cons t ts =>
        have : t = dd := hst t (by simp)
        subst this
        simp [cleanStep, dd]
    simp only [List.foldl_cons, hstep]
    rw [ih (fun x hx => hu x (by simp [hx])) (u :: st)]
    · simp
    · intro x hx
      simp only [List.mem_cons] at hx
      rcases hx with rfl | hx
      · exact hud
      · exact hst x hx

/-- `cleanComps` is the identity on clean component lists. -/
theorem cleanComps_id (r : Bool) (cs : List Bytes) (h : CleanComps r cs) : cleanComps r cs = cs := by
  obtain ⟨ups, names, rfl, hu, hn, hr⟩ := h
  unfold cleanComps
  rw [List.foldl_append]
  cases r with
  | true =>
    have : ups = [] := hr rfl
    subst this
    simp [foldl_cleanStep_names true names hn]
  | false =>
    rw [foldl_cleanStep_ups ups hu [] (by simp), foldl_cleanStep_names false names hn]
    simp

/-- components that are empty or `.` are skipped -/
theorem cleanStep_skip (r : Bool) (st : List Bytes) (c : Bytes) (h : c = [] ∨ c = [dot]) :
    cleanStep r st c = st := by
  simp [cleanStep, h]

theorem cleanComps_append (r : Bool) (a b : List Bytes) :
    cleanComps r (a ++ b) = (b.foldl (cleanStep r) (cleanComps r a).reverse).reverse := by
  simp [cleanComps, List.foldl_append]

/-- cleaning is idempotent on the left part: `clean (a ++ b) = clean (clean a ++ b)` -/
theorem cleanComps_append_left (r : Bool) (a b : List Bytes) (ha : ∀ c ∈ a, slash ∉ c) :
    cleanComps r (a ++ b) = cleanComps r (cleanComps r a ++ b) := by
  rw [cleanComps_append, cleanComps_append, cleanComps_id r _ (cleanComps_clean r a ha)]

end Rio
