import Rio.Model.Path
import Rio.Proofs.Bytes
/-!
# Path theory: `RelPath` values are (isomorphic to) clean component lists

The deep half of C18.  A *clean component list* is `ups ++ names` with every `ups` entry `..`
and every `names` entry a normal component (non-empty, not `.`, not `..`, no `/`).  We show

* `path.Clean` (model `goClean`) always produces the rendering of a clean component list, and is the
  identity on such renderings (idempotence);
* every value built by `MustRelPath` is `ofComps cs` for a clean `cs` (`RelPath.Clean`), and the
  operations `Join`, `Dir`, `Last`, `Split`, `String`, `GoesUp` act on those lists the obvious way.

Everything here is about the model `Rio/Model/Path.lean`; the `path` correspondence stream ties the
model to `fs/path.go`.
-/
namespace Rio

/-! ## splitOn / joinWith -/

theorem splitOn_ne_nil (c : UInt8) (s : Bytes) : splitOn c s ≠ [] := by
  induction s with
  | nil => simp [splitOn]
  | cons x xs ih =>
    simp only [splitOn]
    split
    · simp
    · split <;> simp

theorem splitOn_append_sep (c : UInt8) (a b : Bytes) :
    splitOn c (a ++ c :: b) = splitOn c a ++ splitOn c b := by
  induction a with
  | nil => simp [splitOn]
  | cons x xs ih =>
    simp only [List.cons_append, splitOn, ih]
    split
    · simp
    · cases h : splitOn c xs with
      | nil => exact absurd h (splitOn_ne_nil c xs)
      | cons hd tl => simp

theorem splitOn_nosep (c : UInt8) (s : Bytes) (h : c ∉ s) : splitOn c s = [s] := by
  induction s with
  | nil => simp [splitOn]
  | cons x xs ih =>
    simp only [List.mem_cons, not_or] at h
    have hx : ¬ x = c := fun e => h.1 e.symm
    simp [splitOn, hx, ih h.2]

theorem splitOn_joinWith (c : UInt8) : ∀ (cs : List Bytes), cs ≠ [] → (∀ x ∈ cs, c ∉ x) →
    splitOn c (joinWith c cs) = cs
  | [], h, _ => absurd rfl h
  | [a], _, hn => by simpa [joinWith] using splitOn_nosep c a (hn a (by simp))
  | a :: b :: rest, _, hn => by
    have ih := splitOn_joinWith c (b :: rest) (by simp) (fun x hx => hn x (by simp [hx]))
    have ha := splitOn_nosep c a (hn a (by simp))
    simp only [joinWith, splitOn_append_sep, ha, ih]
    simp

theorem splitOn_mem_nosep (c : UInt8) (s : Bytes) : ∀ x ∈ splitOn c s, c ∉ x := by
  induction s with
  | nil => simp [splitOn]
  | cons y ys ih =>
    simp only [splitOn]
    split
    · intro x hx
      simp only [List.mem_cons] at hx
      rcases hx with rfl | hx
      · simp
      · exact ih x hx
    · rename_i hne
      cases h : splitOn c ys with
      | nil => exact absurd h (splitOn_ne_nil c ys)
      | cons hd tl =>
        rw [h] at ih
        intro x hx
        simp only [List.mem_cons] at hx
        rcases hx with rfl | hx
        · have := ih hd (by simp)
          simp only [List.mem_cons, not_or]
          exact ⟨fun e => hne e.symm, this⟩
        · exact ih x (by simp [hx])

theorem joinWith_splitOn (c : UInt8) (s : Bytes) : joinWith c (splitOn c s) = s := by
  induction s with
  | nil => simp [splitOn, joinWith]
  | cons x xs ih =>
    simp only [splitOn]
    split
    · rename_i hx
      cases h : splitOn c xs with
      | nil => exact absurd h (splitOn_ne_nil c xs)
      | cons hd tl => rw [h] at ih; simp [joinWith, ih, hx]
    · cases h : splitOn c xs with
      | nil => exact absurd h (splitOn_ne_nil c xs)
      | cons hd tl =>
        rw [h] at ih
        cases tl with
        | nil => simp [joinWith] at ih ⊢; exact ih
        | cons t2 tl2 => simp [joinWith] at ih ⊢; exact ih

theorem joinWith_append (c : UInt8) : ∀ (a b : List Bytes), a ≠ [] → b ≠ [] →
    joinWith c (a ++ b) = joinWith c a ++ c :: joinWith c b
  | [], _, h, _ => absurd rfl h
  | [x], b, _, hb => by
    cases b with
    | nil => exact absurd rfl hb
    | cons y ys => simp [joinWith]
  | x :: y :: rest, b, _, hb => by
    have ih := joinWith_append c (y :: rest) b (by simp) hb
    simp only [List.cons_append] at ih ⊢
    simp only [joinWith, ih]
    simp

theorem joinWith_cons_cons (c : UInt8) (a b : Bytes) (rest : List Bytes) :
    joinWith c (a :: b :: rest) = a ++ c :: joinWith c (b :: rest) := rfl

/-! ## clean component lists -/

def dd : Bytes := [dot, dot]

/-- a normal path component -/
def Normal (c : Bytes) : Prop := c ≠ [] ∧ c ≠ [dot] ∧ c ≠ dd ∧ slash ∉ c

/-- `ups ++ names`; for rooted paths there are no `ups`. -/
def CleanComps (rooted : Bool) (cs : List Bytes) : Prop :=
  ∃ ups names, cs = ups ++ names ∧ (∀ c ∈ ups, c = dd) ∧ (∀ c ∈ names, Normal c) ∧ (rooted = true → ups = [])

/-- the reversed working stack of `cleanComps`: names on top of ups -/
def CleanStack (rooted : Bool) (st : List Bytes) : Prop :=
  ∃ names ups, st = names ++ ups ∧ (∀ c ∈ ups, c = dd) ∧ (∀ c ∈ names, Normal c) ∧ (rooted = true → ups = [])

theorem cleanStack_reverse {r : Bool} {st : List Bytes} (h : CleanStack r st) : CleanComps r st.reverse := by
  obtain ⟨names, ups, rfl, hu, hn, hr⟩ := h
  refine ⟨ups.reverse, names.reverse, by simp, ?_, ?_, ?_⟩
  · intro c hc; exact hu c (by simpa using hc)
  · intro c hc; exact hn c (by simpa using hc)
  · intro h; simp [hr h]

theorem cleanComps_reverse {r : Bool} {cs : List Bytes} (h : CleanComps r cs) : CleanStack r cs.reverse := by
  obtain ⟨ups, names, rfl, hu, hn, hr⟩ := h
  refine ⟨names.reverse, ups.reverse, by simp, ?_, ?_, ?_⟩
  · intro c hc; exact hu c (by simpa using hc)
  · intro c hc; exact hn c (by simpa using hc)
  · intro h; simp [hr h]

theorem dd_not_normal : ¬ Normal dd := fun h => h.2.2.1 rfl

theorem cleanStep_normal (r : Bool) (st : List Bytes) (c : Bytes) (h : Normal c) :
    cleanStep r st c = c :: st := by
  obtain ⟨h1, h2, h3, _⟩ := h
  simp only [dd] at h3
  simp [cleanStep, h1, h2, h3]

theorem cleanStep_stack (r : Bool) (st : List Bytes) (c : Bytes) (hc : slash ∉ c) (h : CleanStack r st) :
    CleanStack r (cleanStep r st c) := by
  unfold cleanStep
  split
  · exact h
  · rename_i h0
    simp only [not_or] at h0
    split
    · rename_i hdd
      obtain ⟨names, ups, rfl, hu, hn, hr⟩ := h
      cases names with
      | nil =>
        cases ups with
        | nil =>
          simp only [List.append_nil]
          cases r with
          | true => exact ⟨[], [], by simp, by simp, by simp, by simp⟩
          | false => exact ⟨[], [c], by simp, by simp [hdd, dd], by simp, by simp⟩
        | cons u us =>
          have hud : u = dd := hu u (by simp)
          simp only [List.nil_append, hud, dd, ite_true]
          refine ⟨[], c :: dd :: us, by simp [dd], ?_, by simp, ?_⟩
          · intro x hx
            simp only [List.mem_cons] at hx
            rcases hx with rfl | rfl | hx
            · exact hdd
            · rfl
            · exact hu x (by simp [hx])
          · intro hr'; have := hr hr'; simp at this
      | cons n ns =>
        have hnn : Normal n := hn n (by simp)
        have : ¬ n = [dot, dot] := hnn.2.2.1
        simp only [List.cons_append, this, ite_false]
        exact ⟨ns, ups, rfl, hu, fun x hx => hn x (by simp [hx]), hr⟩
    · rename_i hdd
      obtain ⟨names, ups, rfl, hu, hn, hr⟩ := h
      refine ⟨c :: names, ups, by simp, hu, ?_, hr⟩
      intro x hx
      simp only [List.mem_cons] at hx
      rcases hx with rfl | hx
      · exact ⟨h0.1, h0.2, hdd, hc⟩
      · exact hn x hx

theorem foldl_cleanStep_stack (r : Bool) (cs : List Bytes) (hcs : ∀ c ∈ cs, slash ∉ c) :
    ∀ st, CleanStack r st → CleanStack r (cs.foldl (cleanStep r) st) := by
  induction cs with
  | nil => intro st h; exact h
  | cons c cs ih =>
    intro st h
    simp only [List.foldl_cons]
    exact ih (fun x hx => hcs x (by simp [hx])) _ (cleanStep_stack r st c (hcs c (by simp)) h)

theorem cleanComps_clean (r : Bool) (cs : List Bytes) (hcs : ∀ c ∈ cs, slash ∉ c) :
    CleanComps r (cleanComps r cs) := by
  unfold cleanComps
  exact cleanStack_reverse (foldl_cleanStep_stack r cs hcs [] ⟨[], [], rfl, by simp, by simp, by simp⟩)

theorem foldl_cleanStep_names (r : Bool) (names : List Bytes) (hn : ∀ c ∈ names, Normal c) :
    ∀ st, names.foldl (cleanStep r) st = names.reverse ++ st := by
  induction names with
  | nil => intro st; rfl
  | cons n ns ih =>
    intro st
    simp only [List.foldl_cons, cleanStep_normal r st n (hn n (by simp))]
    rw [ih (fun x hx => hn x (by simp [hx]))]
    simp

theorem foldl_cleanStep_ups (ups : List Bytes) (hu : ∀ c ∈ ups, c = dd) :
    ∀ st, (∀ c ∈ st, c = dd) → ups.foldl (cleanStep false) st = ups.reverse ++ st := by
  induction ups with
  | nil => intro st _; rfl
  | cons u us ih =>
    intro st hst
    have hud : u = dd := hu u (by simp)
    have hstep : cleanStep false st u = u :: st := by
      subst hud
      cases st with
      | nil => simp [cleanStep, dd]
      | cons t ts =>
        have : t = dd := hst t (by simp)
        subst this
        simp [cleanStep, dd]
    simp only [List.foldl_cons, hstep]
    rw [ih (fun x hx => hu x (by simp [hx])) (u :: st)]
    · simp
    · intro x hx
      simp only [List.mem_cons] at hx
      rcases hx with rfl | hx
      · exact hud
      · exact hst x hx

/-- `cleanComps` is the identity on clean component lists. -/
theorem cleanComps_id (r : Bool) (cs : List Bytes) (h : CleanComps r cs) : cleanComps r cs = cs := by
  obtain ⟨ups, names, rfl, hu, hn, hr⟩ := h
  unfold cleanComps
  rw [List.foldl_append]
  cases r with
  | true =>
    have : ups = [] := hr rfl
    subst this
    simp [foldl_cleanStep_names true names hn]
  | false =>
    rw [foldl_cleanStep_ups ups hu [] (by simp), foldl_cleanStep_names false names hn]
    simp

/-- components that are empty or `.` are skipped -/
theorem cleanStep_skip (r : Bool) (st : List Bytes) (c : Bytes) (h : c = [] ∨ c = [dot]) :
    cleanStep r st c = st := by
  simp [cleanStep, h]

theorem cleanComps_append (r : Bool) (a b : List Bytes) :
    cleanComps r (a ++ b) = (b.foldl (cleanStep r) (cleanComps r a).reverse).reverse := by
  simp [cleanComps, List.foldl_append]

/-- cleaning is idempotent on the left part: `clean (a ++ b) = clean (clean a ++ b)` -/
theorem cleanComps_append_left (r : Bool) (a b : List Bytes) (ha : ∀ c ∈ a, slash ∉ c) :
    cleanComps r (a ++ b) = cleanComps r (cleanComps r a ++ b) := by
  rw [cleanComps_append, cleanComps_append, cleanComps_id r _ (cleanComps_clean r a ha)]


/-! ## rendering clean component lists -/

theorem lastIndexOf_append_sep' (c : UInt8) (a b : Bytes) :
    lastIndexOf c (a ++ c :: b) = (a.length : Int) + lastIndexOf c b + 1 := by
  induction a with
  | nil =>
    have := lastIndexOf_ge c b
    simp only [List.nil_append, lastIndexOf, List.length_nil]
    split
    · simp
    · simp; omega
  | cons x xs ih =>
    have := lastIndexOf_ge c b
    simp only [List.cons_append, lastIndexOf, ih, List.length_cons]
    split <;> omega

theorem cleanComps_mem {r : Bool} {cs : List Bytes} (h : CleanComps r cs) :
    ∀ c ∈ cs, c ≠ [] ∧ c ≠ [dot] ∧ slash ∉ c := by
  obtain ⟨ups, names, rfl, hu, hn, _⟩ := h
  intro c hc
  simp only [List.mem_append] at hc
  rcases hc with hc | hc
  · have := hu c hc; subst this; simp [dd, dot, slash]
  · obtain ⟨a, b, _, d⟩ := hn c hc; exact ⟨a, b, d⟩

theorem joinWith_cons_ne_nil (c : UInt8) (a : Bytes) (rest : List Bytes) (ha : a ≠ []) :
    joinWith c (a :: rest) ≠ [] := by
  cases rest with
  | nil => simpa [joinWith] using ha
  | cons b bs => simp [joinWith, ha]

theorem joinWith_cons_head (c : UInt8) (a : Bytes) (rest : List Bytes) (ha : a ≠ []) :
    (joinWith c (a :: rest)).head? = a.head? := by
  cases a with
  | nil => exact absurd rfl ha
  | cons x xs =>
    cases rest with
    | nil => simp [joinWith]
    | cons b bs => simp [joinWith]

/-- the rendering of a non-empty clean list is not `.`, not empty, and does not start with `/` or `./` -/
theorem render_facts {cs : List Bytes} (h : CleanComps false cs) (hne : cs ≠ []) :
    joinWith slash cs ≠ [] ∧ joinWith slash cs ≠ [dot] ∧ (joinWith slash cs).head? ≠ some slash ∧
    ¬ ([dot, slash] <+: joinWith slash cs) := by
  cases cs with
  | nil => exact absurd rfl hne
  | cons a rest =>
    obtain ⟨ha0, had, has⟩ := cleanComps_mem h a (by simp)
    refine ⟨joinWith_cons_ne_nil slash a rest ha0, ?_, ?_, ?_⟩
    · cases rest with
      | nil => simpa [joinWith] using had
      | cons b bs =>
        simp only [joinWith]
        intro hh
        have := congrArg List.length hh
        cases a with
        | nil => exact ha0 rfl
        | cons x xs => simp at this
    · rw [joinWith_cons_head slash a rest ha0]
      cases a with
      | nil => exact absurd rfl ha0
      | cons x xs =>
        simp only [List.head?_cons]
        intro hx; injection hx with hx; subst hx; simp at has
    · cases a with
      | nil => exact absurd rfl ha0
      | cons x xs =>
        cases xs with
        | nil =>
          cases rest with
          | nil => simp [joinWith]
          | cons b bs =>
            simp only [joinWith, List.cons_append, List.nil_append, List.cons_prefix_cons]
            intro ⟨hx, _⟩
            subst hx
            exact had rfl
        | cons y ys =>
          have hy : y ≠ slash := by
            intro e; subst e; simp at has
          cases rest with
          | nil =>
            simp only [joinWith, List.cons_prefix_cons]
            intro ⟨_, hh, _⟩; exact hy hh.symm
          | cons b bs =>
            simp only [joinWith, List.cons_append, List.cons_prefix_cons]
            intro ⟨_, hh, _⟩; exact hy hh.symm

/-- the value `MustRelPath` builds for a clean component list -/
def ofComps (cs : List Bytes) : RelPath :=
  if cs = [] then ⟨[], 0⟩ else ⟨joinWith slash cs, lastIndexOf slash (joinWith slash cs)⟩

/-- A canonical relative path value. -/
def RelPath.Clean (p : RelPath) : Prop := ∃ cs, CleanComps false cs ∧ p = ofComps cs

theorem cleanComps_nil (r : Bool) : CleanComps r [] := ⟨[], [], rfl, by simp, by simp, by simp⟩

theorem ofComps_path_nil {cs : List Bytes} (h : CleanComps false cs) : (ofComps cs).path = [] ↔ cs = [] := by
  unfold ofComps
  split
  · rename_i h0; simp [h0]
  · rename_i h0
    simp only [h0, iff_false]
    exact (render_facts h h0).1

theorem ofComps_inj {a b : List Bytes} (ha : CleanComps false a) (hb : CleanComps false b)
    (h : ofComps a = ofComps b) : a = b := by
  have hp : (ofComps a).path = (ofComps b).path := by rw [h]
  by_cases ha0 : a = []
  · subst ha0
    have : (ofComps b).path = [] := by rw [← hp]; simp [ofComps]
    exact ((ofComps_path_nil hb).1 this).symm
  · by_cases hb0 : b = []
    · subst hb0
      have : (ofComps a).path = [] := by rw [hp]; simp [ofComps]
      exact absurd ((ofComps_path_nil ha).1 this) ha0
    · simp only [ofComps, ha0, hb0, if_false] at hp
      have h1 := splitOn_joinWith slash a ha0 (fun x hx => (cleanComps_mem ha x hx).2.2)
      have h2 := splitOn_joinWith slash b hb0 (fun x hx => (cleanComps_mem hb x hx).2.2)
      rw [← h1, ← h2, hp]

/-! ## `path.Clean` and `MustRelPath` -/

theorem cleanComps_splitOn_clean (r : Bool) (s : Bytes) : CleanComps r (cleanComps r (splitOn slash s)) :=
  cleanComps_clean r _ (splitOn_mem_nosep slash s)

/-- `MustRelPath` of anything not starting with `/` is `ofComps` of the cleaned components -/
theorem mustRel_eq (s : Bytes) (h : s.head? ≠ some slash) :
    mustRel s = some (ofComps (cleanComps false (splitOn slash s))) := by
  cases s with
  | nil => simp [mustRel, goClean, ofComps, cleanComps, splitOn, cleanStep, dot, slash]
  | cons c t =>
    have hc : ¬ c = slash := by simpa using h
    have hcl := cleanComps_splitOn_clean false (c :: t)
    generalize hcs : cleanComps false (splitOn slash (c :: t)) = cs at hcl
    have hg : goClean (c :: t) = if joinWith slash cs = [] then [dot] else joinWith slash cs := by
      simp [goClean, hc, hcs]
    by_cases h0 : cs = []
    · subst h0
      simp [mustRel, hg, joinWith, ofComps, dot, slash]
    · obtain ⟨f1, f2, f3, _⟩ := render_facts hcl h0
      simp [mustRel, hg, f1, f2, f3, ofComps, h0]

theorem mustRel_rooted (s : Bytes) (h : s.head? = some slash) : mustRel s = none := by
  cases s with
  | nil => simp at h
  | cons c t =>
    have hc : c = slash := by simpa using h
    simp [mustRel, goClean, hc]

/-- **Every value `MustRelPath` produces is canonical.** -/
theorem mustRel_clean (s : Bytes) (p : RelPath) (h : mustRel s = some p) : p.Clean := by
  by_cases hs : s.head? = some slash
  · rw [mustRel_rooted s hs] at h; cases h
  · rw [mustRel_eq s hs] at h
    injection h with h
    exact ⟨_, cleanComps_splitOn_clean false s, h.symm⟩

/-- `path.Clean` is idempotent on relative inputs (stated through `MustRelPath`): re-parsing a rendering gives
    the same value -/
theorem mustRel_render {cs : List Bytes} (h : CleanComps false cs) (hne : cs ≠ []) :
    mustRel (joinWith slash cs) = some (ofComps cs) := by
  rw [mustRel_eq _ (render_facts h hne).2.2.1,
    splitOn_joinWith slash cs hne (fun x hx => (cleanComps_mem h x hx).2.2), cleanComps_id false cs h]


/-! ## the operations, on component lists -/

theorem cleanComps_cons_skip (r : Bool) (c : Bytes) (cs : List Bytes) (h : c = [] ∨ c = [dot]) :
    cleanComps r (c :: cs) = cleanComps r cs := by
  simp [cleanComps, List.foldl_cons, cleanStep_skip r [] c h]

theorem cleanComps_prefix {r : Bool} {a b : List Bytes} (h : CleanComps r (a ++ b)) : CleanComps r a := by
  obtain ⟨ups, names, he, hu, hn, hr⟩ := h
  rcases List.append_eq_append_iff.1 he with ⟨a', h1, h2⟩ | ⟨c', h1, h2⟩
  · -- ups = a ++ a'
    refine ⟨a, [], by simp, ?_, by simp, ?_⟩
    · intro c hc; exact hu c (by rw [h1]; simp [hc])
    · intro hh; have := hr hh; rw [this] at h1; simp at h1; exact h1.1
  · -- a = ups ++ c'
    refine ⟨ups, c', h1, hu, ?_, hr⟩
    intro c hc; exact hn c (by rw [h2]; simp [hc])

theorem cleanComps_suffix {a b : List Bytes} (h : CleanComps false (a ++ b)) : CleanComps false b := by
  obtain ⟨ups, names, he, hu, hn, _⟩ := h
  rcases List.append_eq_append_iff.1 he with ⟨a', h1, h2⟩ | ⟨c', h1, h2⟩
  · refine ⟨a', names, h2, ?_, hn, by simp⟩
    intro c hc; exact hu c (by rw [h1]; simp [hc])
  · refine ⟨[], b, by simp, by simp, ?_, by simp⟩
    intro c hc; exact hn c (by rw [h2]; simp [hc])

theorem RelPath.str_cases' (r : RelPath) :
    (r.path = [] ∧ r.str = [dot]) ∨ (r.path ≠ [] ∧ r.str = r.path) ∨ (r.path ≠ [] ∧ r.str = dot :: slash :: r.path) := by
  unfold RelPath.str
  by_cases h0 : r.path = []
  · left; simp [h0]
  · right
    simp only [h0, if_false]
    split
    · left; exact ⟨h0, rfl⟩
    · split
      · left; exact ⟨h0, rfl⟩
      · right; exact ⟨h0, rfl⟩

/-- `String()` followed by `MustRelPath` is the identity on canonical values. -/
theorem mustRel_str {cs : List Bytes} (h : CleanComps false cs) : mustRel (ofComps cs).str = some (ofComps cs) := by
  by_cases h0 : cs = []
  · subst h0
    have : mustRel [dot] = some (ofComps (cleanComps false (splitOn slash [dot]))) :=
      mustRel_eq [dot] (by simp [dot, slash])
    simpa [ofComps, RelPath.str, splitOn, cleanComps, cleanStep, dot, slash] using this
  · have hf := render_facts h h0
    have hsp := splitOn_joinWith slash cs h0 (fun x hx => (cleanComps_mem h x hx).2.2)
    have hp : (ofComps cs).path = joinWith slash cs := by simp [ofComps, h0]
    rcases (ofComps cs).str_cases' with ⟨e, _⟩ | ⟨_, e⟩ | ⟨_, e⟩
    · exact absurd ((ofComps_path_nil h).1 e) h0
    · rw [e, hp]; exact mustRel_render h h0
    · rw [e, hp]
      rw [mustRel_eq _ (by simp [dot, slash])]
      have : dot :: slash :: joinWith slash cs = [dot] ++ slash :: joinWith slash cs := rfl
      rw [this, splitOn_append_sep, hsp]
      simp only [splitOn_nosep slash [dot] (by simp [dot, slash]), List.singleton_append]
      rw [cleanComps_cons_skip false [dot] cs (Or.inr rfl), cleanComps_id false cs h]


theorem mustRel_unfold (s : Bytes) (v : RelPath) (h : mustRel s = some v) :
    (if goClean s = [dot] then (⟨[], 0⟩ : RelPath) else ⟨goClean s, lastIndexOf slash (goClean s)⟩) = v := by
  unfold mustRel at h
  simp only at h
  split at h
  · cases h
  · split at h
    · rename_i h1; injection h with h; simp [h1, h]
    · rename_i h1; injection h with h; simp [h1, h]

theorem ofComps_path {cs : List Bytes} (h0 : cs ≠ []) : (ofComps cs).path = joinWith slash cs := by
  simp [ofComps, h0]

theorem ofComps_lastSplit {cs : List Bytes} (h0 : cs ≠ []) :
    (ofComps cs).lastSplit = lastIndexOf slash (joinWith slash cs) := by
  simp [ofComps, h0]

/-- a clean list whose rendering does not start with `.` has no `..` entries -/
theorem all_normal_of_head {b : List Bytes} (hb : CleanComps false b) (h0 : b ≠ [])
    (hh : (joinWith slash b).head? ≠ some dot) : ∀ c ∈ b, Normal c := by
  obtain ⟨ups, names, rfl, hu, hn, _⟩ := hb
  cases ups with
  | nil => simpa using hn
  | cons u us =>
    exfalso
    have : u = dd := hu u (by simp)
    subst this
    apply hh
    rw [List.cons_append, joinWith_cons_head slash dd _ (by simp [dd])]
    rfl

theorem cleanComps_append_normal {a b : List Bytes} (ha : CleanComps false a) (hb : ∀ c ∈ b, Normal c) :
    CleanComps false (a ++ b) := by
  obtain ⟨ups, names, rfl, hu, hn, _⟩ := ha
  refine ⟨ups, names ++ b, by simp, hu, ?_, by simp⟩
  intro c hc
  simp only [List.mem_append] at hc
  rcases hc with hc | hc
  · exact hn c hc
  · exact hb c hc

/-- **Join agrees with concatenate-then-clean**, on component lists. -/
theorem join_ofComps {a b : List Bytes} (ha : CleanComps false a) (hb : CleanComps false b) :
    (ofComps a).join (ofComps b) = ofComps (cleanComps false (a ++ b)) := by
  by_cases hb0 : b = []
  · subst hb0
    simp [RelPath.join, ofComps, cleanComps_id false a ha]
  · have fb := render_facts hb hb0
    by_cases ha0 : a = []
    · subst ha0
      have : (ofComps b).path ≠ [] := by rw [ofComps_path hb0]; exact fb.1
      simp only [List.nil_append, cleanComps_id false b hb]
      unfold RelPath.join
      simp only [this, if_false]
      simp [ofComps]
    · have fa := render_facts ha ha0
      have hpa : (ofComps a).path ≠ [] := by rw [ofComps_path ha0]; exact fa.1
      have hpb : (ofComps b).path ≠ [] := by rw [ofComps_path hb0]; exact fb.1
      have hsa := splitOn_joinWith slash a ha0 (fun x hx => (cleanComps_mem ha x hx).2.2)
      have hsb := splitOn_joinWith slash b hb0 (fun x hx => (cleanComps_mem hb x hx).2.2)
      unfold RelPath.join
      simp only [hpa, hpb, if_false]
      rw [ofComps_path ha0, ofComps_path hb0, ofComps_lastSplit hb0]
      split
      · -- re-cleaning branch
        have hhead : (joinWith slash a ++ slash :: joinWith slash b).head? ≠ some slash := by
          cases hj : joinWith slash a with
          | nil => exact absurd hj fa.1
          | cons x xs =>
            have := fa.2.2.1
            rw [hj] at this
            simpa using this
        have hm := mustRel_eq _ hhead
        rw [splitOn_append_sep, hsa, hsb] at hm
        exact mustRel_unfold _ _ hm
      · rename_i hd
        have hn := all_normal_of_head hb hb0 hd
        have hcl := cleanComps_append_normal ha hn
        rw [cleanComps_id false _ hcl]
        have hne : a ++ b ≠ [] := by simp [ha0]
        simp only [ofComps, hne, if_false, joinWith_append slash a b ha0 hb0, lastIndexOf_append_sep']


/-- shape of a non-empty clean list's rendering: everything before the last component, `/`, the last component -/
theorem render_snoc {init : List Bytes} {l : Bytes} (h : CleanComps false (init ++ [l])) :
    (init = [] ∧ joinWith slash (init ++ [l]) = l ∧ lastIndexOf slash l = -1) ∨
    (init ≠ [] ∧ joinWith slash (init ++ [l]) = joinWith slash init ++ slash :: l ∧
      lastIndexOf slash (joinWith slash (init ++ [l])) = ((joinWith slash init).length : Int)) := by
  have hl : slash ∉ l := (cleanComps_mem h l (by simp)).2.2
  by_cases h0 : init = []
  · left; subst h0
    exact ⟨rfl, by simp [joinWith], (lastIndexOf_neg_iff slash l).2 hl⟩
  · right
    have hj := joinWith_append slash init [l] h0 (by simp)
    simp only [joinWith] at hj
    exact ⟨h0, hj, by rw [hj]; exact lastIndexOf_append_sep slash _ l hl⟩

/-- **Dir drops the last component.** -/
theorem dir_snoc {init : List Bytes} {l : Bytes} (h : CleanComps false (init ++ [l])) :
    (ofComps (init ++ [l])).dir = ofComps init := by
  have hne : init ++ [l] ≠ [] := by simp
  have hf := render_facts h hne
  unfold RelPath.dir
  rw [ofComps_path hne, ofComps_lastSplit hne]
  simp only [hf.1, if_false]
  rcases render_snoc h with ⟨h0, hj, hl⟩ | ⟨h0, hj, hl⟩
  · subst h0
    simp only [List.nil_append] at hj
    simp [hj, hl, ofComps]
  · rw [hl]
    have hnn : ¬ (((joinWith slash init).length : Int) = -1) := by omega
    simp only [hnn, if_false, hj, Int.toNat_natCast, List.take_left']
    simp [ofComps, h0]

/-- **Last is the last component.** -/
theorem last_snoc {init : List Bytes} {l : Bytes} (h : CleanComps false (init ++ [l])) :
    (ofComps (init ++ [l])).last = l := by
  have hne : init ++ [l] ≠ [] := by simp
  have hf := render_facts h hne
  unfold RelPath.last
  rw [ofComps_path hne, ofComps_lastSplit hne]
  simp only [hf.1, if_false]
  rcases render_snoc h with ⟨h0, hj, hl⟩ | ⟨h0, hj, hl⟩
  · subst h0
    simp only [List.nil_append] at hj
    simp [hj, hl]
  · rw [hl]
    have hnn : ¬ (((joinWith slash init).length : Int) = -1) := by omega
    have h1 : (((joinWith slash init).length : Int) + 1).toNat = (joinWith slash init).length + 1 := by
      generalize (joinWith slash init).length = n
      omega
    simp only [hnn, if_false, hj, h1]
    have : joinWith slash init ++ slash :: l = (joinWith slash init ++ [slash]) ++ l := by simp
    rw [this, List.drop_left' (by simp)]

/-- **GoesUp** on component lists: the first component is `..` -/
theorem goesUp_ofComps {cs : List Bytes} (h : CleanComps false cs) :
    (ofComps cs).goesUp = true ↔ cs.head? = some dd := by
  cases cs with
  | nil => simp [ofComps, RelPath.goesUp, hasPrefix]
  | cons a rest =>
    obtain ⟨ha0, _, has⟩ := cleanComps_mem h a (by simp)
    have hp : (ofComps (a :: rest)).path = joinWith slash (a :: rest) := ofComps_path (by simp)
    simp only [RelPath.goesUp, hp, Bool.or_eq_true, decide_eq_true_eq, hasPrefix_iff, List.head?_cons,
      Option.some.injEq]
    cases rest with
    | nil =>
      simp only [joinWith]
      constructor
      · rintro (e | ⟨t, e⟩)
        · exact e
        · exfalso; apply has; rw [← e]; simp
      · intro e; left; exact e
    | cons b bs =>
      simp only [joinWith]
      constructor
      · rintro (e | ⟨t, e⟩)
        · exfalso
          have := congrArg List.length e
          cases a with
          | nil => exact ha0 rfl
          | cons x xs =>
            cases xs with
            | nil =>
              simp only [List.cons_append, List.nil_append, List.cons.injEq] at e
              -- e : x = dot ∧ slash = dot ∧ ...
              exact absurd e.2.1 (by decide)
            | cons y ys => simp at this
        · -- [dot,dot,slash] ++ t = a ++ slash :: rest', a has no slash
          cases a with
          | nil => exact absurd rfl ha0
          | cons x xs =>
            cases xs with
            | nil =>
              simp only [List.cons_append, List.nil_append, List.cons.injEq] at e
              exact absurd e.2.1.symm (by decide)
            | cons y ys =>
              cases ys with
              | nil =>
                simp only [List.cons_append, List.nil_append, List.cons.injEq] at e
                rw [← e.1, ← e.2.1]; rfl
              | cons z zs =>
                simp only [List.cons_append, List.nil_append, List.cons.injEq] at e
                exfalso; apply has; rw [← e.2.2.1]; simp
      · intro e; right; subst e; exact ⟨joinWith slash (b :: bs), rfl⟩


/-! ## Split -/

theorem take_succ_snoc {α : Type} (cs : List α) (k : Nat) (hk : k < cs.length) :
    cs.take (k + 1) = cs.take k ++ [cs[k]] := by
  rw [List.take_add_one, List.getElem?_eq_getElem hk]; rfl

theorem dir_take {cs : List Bytes} (h : CleanComps false cs) (k : Nat) (hk : k < cs.length) :
    (ofComps (cs.take (k + 1))).dir = ofComps (cs.take k) := by
  rw [take_succ_snoc cs k hk]
  apply dir_snoc
  rw [← take_succ_snoc cs k hk]
  have : cs = cs.take (k + 1) ++ cs.drop (k + 1) := (List.take_append_drop _ _).symm
  rw [this] at h
  exact cleanComps_prefix h

theorem dirChain_take {cs : List Bytes} (h : CleanComps false cs) :
    ∀ (n k : Nat) (acc : List RelPath), n ≤ k → k ≤ cs.length →
      RelPath.dirChain n (ofComps (cs.take k)) acc =
        (List.range' (k - n) n).map (fun j => ofComps (cs.take j)) ++ acc := by
  intro n
  induction n with
  | zero => intro k acc _ _; simp [RelPath.dirChain]
  | succ n ih =>
    intro k acc hn hk
    obtain ⟨k', rfl⟩ : ∃ k', k = k' + 1 := ⟨k - 1, by omega⟩
    simp only [RelPath.dirChain]
    rw [dir_take h k' (by omega), ih k' _ (by omega) (by omega)]
    have e1 : k' + 1 - (n + 1) = k' - n := by omega
    rw [e1, List.range'_concat (s := k' - n) (n := n)]
    have e2 : k' - n + n = k' := by omega
    simp [e2]

theorem count_joinWith : ∀ (cs : List Bytes), cs ≠ [] → (∀ x ∈ cs, slash ∉ x) →
    RelPath.countSlash (joinWith slash cs) + 1 = cs.length
  | [], h, _ => absurd rfl h
  | [a], _, hn => by
    have := hn a (by simp)
    simp [RelPath.countSlash, joinWith, List.count_eq_zero.2 this]
  | a :: b :: rest, _, hn => by
    have ih := count_joinWith (b :: rest) (by simp) (fun x hx => hn x (by simp [hx]))
    have ha := hn a (by simp)
    simp only [RelPath.countSlash] at ih ⊢
    simp only [joinWith, List.count_append, List.count_cons_self, List.count_eq_zero.2 ha, List.length_cons] at ih ⊢
    omega

/-- **Split yields exactly the chain of ancestors**: the root, then every proper prefix, then the path itself. -/
theorem split_ofComps {cs : List Bytes} (h : CleanComps false cs) :
    (ofComps cs).split = (List.range (cs.length + 1)).map (fun k => ofComps (cs.take k)) := by
  by_cases h0 : cs = []
  · subst h0; simp [RelPath.split, ofComps]
  · have hf := render_facts h h0
    have hcnt := count_joinWith cs h0 (fun x hx => (cleanComps_mem h x hx).2.2)
    obtain ⟨init, l, rfl⟩ : ∃ init l, cs = init ++ [l] :=
      ⟨cs.dropLast, cs.getLast h0, (List.dropLast_concat_getLast h0).symm⟩
    unfold RelPath.split
    rw [ofComps_path h0, ofComps_lastSplit h0]
    simp only [hf.1, if_false]
    rcases render_snoc h with ⟨hi, hj, hl⟩ | ⟨hi, hj, hl⟩
    · subst hi
      simp only [List.nil_append] at hj ⊢
      simp [hj, hl, ofComps, List.range_succ]
    · rw [hl]
      have hnn : ¬ (((joinWith slash init).length : Int) = -1) := by omega
      simp only [hnn, if_false]
      rw [hcnt]
      have := dirChain_take h (init ++ [l]).length (init ++ [l]).length [ofComps (init ++ [l])] (Nat.le_refl _) (Nat.le_refl _)
      rw [List.take_length] at this
      rw [this, List.range_succ, List.map_append]
      have e3 : (init ++ [l]).length = init.length + 1 := by simp
      have e4 : List.take (init.length + 1) (init ++ [l]) = init ++ [l] := by
        rw [← e3]; exact List.take_length
      simp [List.range_eq_range', e4]


/-! ## printing, then concatenating, then parsing -/

theorem foldl_skip (r : Bool) (pre : List Bytes) (hp : ∀ c ∈ pre, c = [] ∨ c = [dot]) :
    ∀ st, pre.foldl (cleanStep r) st = st := by
  induction pre with
  | nil => intro st; rfl
  | cons c cs ih =>
    intro st
    simp only [List.foldl_cons, cleanStep_skip r st c (hp c (by simp))]
    exact ih (fun x hx => hp x (by simp [hx])) st

theorem cleanComps_skip_mid (r : Bool) (x pre y : List Bytes) (hp : ∀ c ∈ pre, c = [] ∨ c = [dot]) :
    cleanComps r (x ++ pre ++ y) = cleanComps r (x ++ y) := by
  simp [cleanComps, List.foldl_append, foldl_skip r pre hp]

/-- what `String()` splits into: the components, possibly behind a `.` -/
theorem splitOn_str {a : List Bytes} (h : CleanComps false a) :
    ∃ pre, (∀ c ∈ pre, c = [] ∨ c = [dot]) ∧ splitOn slash (ofComps a).str = pre ++ a := by
  by_cases h0 : a = []
  · subst h0
    exact ⟨[[dot]], by simp, by simp [ofComps, RelPath.str, splitOn, dot, slash]⟩
  · have hsp := splitOn_joinWith slash a h0 (fun x hx => (cleanComps_mem h x hx).2.2)
    have hp : (ofComps a).path = joinWith slash a := ofComps_path h0
    rcases (ofComps a).str_cases' with ⟨e, _⟩ | ⟨_, e⟩ | ⟨_, e⟩
    · exact absurd ((ofComps_path_nil h).1 e) h0
    · exact ⟨[], by simp, by rw [e, hp, hsp]; rfl⟩
    · refine ⟨[[dot]], by simp, ?_⟩
      rw [e, hp]
      have : dot :: slash :: joinWith slash a = [dot] ++ slash :: joinWith slash a := rfl
      rw [this, splitOn_append_sep, hsp, splitOn_nosep slash [dot] (by simp [dot, slash])]

theorem str_head_not_slash {a : List Bytes} (h : CleanComps false a) : (ofComps a).str.head? ≠ some slash := by
  by_cases h0 : a = []
  · subst h0; simp [ofComps, RelPath.str, dot, slash]
  · have hp : (ofComps a).path = joinWith slash a := ofComps_path h0
    rcases (ofComps a).str_cases' with ⟨e, _⟩ | ⟨_, e⟩ | ⟨_, e⟩
    · exact absurd ((ofComps_path_nil h).1 e) h0
    · rw [e, hp]; exact (render_facts h h0).2.2.1
    · rw [e]; simp [dot, slash]

/-- **Join = print both, concatenate with `/`, parse** -/
theorem join_eq_parse_concat {a b : List Bytes} (ha : CleanComps false a) (hb : CleanComps false b) :
    mustRel ((ofComps a).str ++ slash :: (ofComps b).str) = some ((ofComps a).join (ofComps b)) := by
  have hh : ((ofComps a).str ++ slash :: (ofComps b).str).head? ≠ some slash := by
    have := str_head_not_slash ha
    cases hs : (ofComps a).str with
    | nil => simp [RelPath.str] at hs; split at hs <;> try split at hs <;> try split at hs
             all_goals simp_all
    | cons x xs => rw [hs] at this; simpa using this
  rw [mustRel_eq _ hh, splitOn_append_sep, join_ofComps ha hb]
  obtain ⟨pa, hpa, ea⟩ := splitOn_str ha
  obtain ⟨pb, hpb, eb⟩ := splitOn_str hb
  rw [ea, eb]
  have e1 : pa ++ a ++ (pb ++ b) = ([] ++ pa ++ (a ++ (pb ++ b))) := by simp
  have e2 : a ++ (pb ++ b) = a ++ pb ++ b := by simp
  rw [e1, cleanComps_skip_mid false [] pa _ hpa, List.nil_append, e2, cleanComps_skip_mid false a pb b hpb]

end Rio
