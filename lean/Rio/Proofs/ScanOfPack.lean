import Rio.Model.Pack
import Rio.Props.C02
import Rio.Props.C05
import Rio.Proofs.UnpackNoPanic
/-!
# What `pack` writes, `scan` reads back to the same wareID — and both are the specified tree hash

For a listing of a fileset (every entry once, parents before their children, attributes within the ranges Go's types
allow, whole-second mtimes, no sockets / hard links), the tar unpack model applied to the headers the pack model writes
files exactly the records the pack model files; so `scan(pack(F)) = pack(F)`, and when the records are those of a
well-formed tree both equal the recursive specification `specId` (by `C05_refine`).
-/
namespace Rio

def losslessUnpack : UnpackFilter := ⟨true, ffKeep, ffKeep, ffKeep, ffKeep, ffKeep, ffKeep⟩
def losslessPackF : PackFilter := ⟨true, ffKeep, ffKeep, ffKeep, ffKeep, ffKeep, ffKeep⟩

theorem applyPackFilter_lossless (m : Meta) : applyPackFilter losslessPackF m = .ok m := by
  simp [applyPackFilter, losslessPackF, ffKeep, ffReject]

theorem applyUnpackFilter_lossless (mu mg : Nat) (m : Meta) : applyUnpackFilter mu mg losslessUnpack m = .ok m := by
  simp [applyUnpackFilter, losslessUnpack, ffKeep, ffReject, ffContext]

/-- an entry the tar format carries faithfully -/
structure GoodEntry (e : FsEntry) : Prop where
  clean : e.m.name.Clean
  notUp : hasPrefix e.m.name.str [dot, dot] = false
  perms : e.m.perms < 4096
  uid : e.m.uid < 4294967296
  gid : e.m.gid < 4294967296
  kind : e.m.kind ≠ .socket ∧ e.m.kind ≠ .invalid ∧ e.m.kind ≠ .hardlink
  secs : e.m.mtime.nsec = 0

/-- the content hash a record carries: files only -/
def recHash (e : FsEntry) : Bytes := if e.m.kind = .file then e.chash else []

def recOf (e : FsEntry) : Record := mkRecord e.m (recHash e)

theorem metaToTarHdr_some (e : FsEntry) (hg : GoodEntry e) : ∃ h, metaToTarHdr e.m e.chash = some h := by
  unfold metaToTarHdr
  have := hg.kind
  cases hk : e.m.kind <;> simp_all [fsTypeToTarType]

/-- header round trip as an equation: what `MetadataToTarHdr` writes, `TarHdrToMetadata` reads back to the same metadata -/
theorem tarHdr_roundtrip (e : FsEntry) (hg : GoodEntry e) (h : TarHdr) (h1 : metaToTarHdr e.m e.chash = some h) :
    tarHdrToMeta h = .meta_ e.m ∧ h.chash = e.chash ∧ h.bodyOk = true := by
  have hx : ∃ m', tarHdrToMeta h = .meta_ m' := by
    unfold metaToTarHdr at h1
    cases hk : fsTypeToTarType e.m.kind with
    | none => simp [hk] at h1
    | some t =>
      simp only [hk, Option.map_some, Option.some.injEq] at h1
      subst h1
      unfold tarHdrToMeta
      have hparse : mustRel (if e.m.kind = Kind.dir then e.m.name.str ++ [slash] else e.m.name.str) = some e.m.name := by
        obtain ⟨cs, hcs, ee⟩ := hg.clean
        split
        · rw [mustRel_trailing_slash _ (by rw [ee]; exact str_head_not_slash hcs) (by
            rw [ee]; intro e0
            rcases (ofComps cs).str_cases' with ⟨_, e1⟩ | ⟨e1, e2⟩ | ⟨_, e2⟩
            · rw [e1] at e0; cases e0
            · rw [e2] at e0; exact e1 e0
            · rw [e2] at e0; cases e0)]
          rw [ee]; exact mustRel_str hcs
        · rw [ee]; exact mustRel_str hcs
      simp only [hparse, C02_type_roundtrip e.m.kind t hk]
      exact ⟨_, rfl⟩
  obtain ⟨m', hm'⟩ := hx
  have f := C02_hdr_fields e.m e.chash h m' hg.perms hg.uid hg.gid h1 hm'
  have n := C02_hdr_name e.m e.chash h m' hg.clean h1 hm'
  have : m' = e.m := by
    obtain ⟨a1, a2, a3, a4, a5, a6, a7, a8, a9, a10⟩ := f
    cases m'; cases hem : e.m
    simp only [hem] at n a1 a2 a3 a4 a5 a6 a7 a8 a9 a10
    simp_all
  rw [this] at hm'
  refine ⟨hm', ?_, ?_⟩
  · unfold metaToTarHdr at h1
    cases hk : fsTypeToTarType e.m.kind with
    | none => simp [hk] at h1
    | some t => simp only [hk, Option.map_some, Option.some.injEq] at h1; subst h1; rfl
  · unfold metaToTarHdr at h1
    cases hk : fsTypeToTarType e.m.kind with
    | none => simp [hk] at h1
    | some t => simp only [hk, Option.map_some, Option.some.injEq] at h1; subst h1; rfl

theorem conjure_known {σ : Type} (ops : FsOps σ) (mu mg : Nat) (filt : UnpackFilter) :
    ∀ (ps : List RelPath) (st : UnpackSt σ), (∀ p ∈ ps, st.dirs.contains p = true) →
      conjureParents ops mu mg filt ps st = .ok st
  | [], st, _ => rfl
  | p :: ps, st, h => by
    rw [conjureParents, if_pos (h p (by simp))]
    exact conjure_known ops mu mg filt ps st (fun q hq => h q (by simp [hq]))

end Rio

namespace Rio

theorem packEntry_good (e : FsEntry) (hg : GoodEntry e) (b : Bucket) :
    packEntry .tar losslessPackF e b = .ok (b ++ [recOf e]) := by
  unfold packEntry
  rw [applyPackFilter_lossless]
  simp only
  rw [if_neg hg.kind.2.1]
  have hm : ({ e.m with mtime := ⟨e.m.mtime.sec, 0⟩ } : Meta) = e.m := by
    have := hg.secs
    cases hem : e.m with
    | mk n k p u g s l dM dm mt x =>
      rw [hem] at this
      cases mt with
      | mk sec nsec => simp only at this; subst this; rfl
  simp only [hm]
  rw [if_neg hg.kind.1]
  obtain ⟨h, hh⟩ := metaToTarHdr_some e hg
  have : ∃ h', metaToTarHdr e.m (e.chash) = some h' := ⟨h, hh⟩
  rw [hh]
  simp only [Bucket.add, recOf, recHash]

theorem nilOps_place_good (m : Meta) (ch : Bytes) (hk : m.kind ≠ .socket ∧ m.kind ≠ .hardlink) :
    nilOps.place () m ch true = ((), none) := by
  obtain ⟨h1, h2⟩ := hk
  cases hkk : m.kind <;> simp_all [nilOps]

/-- one entry of a good listing through the unpack loop: the same record goes into both buckets -/
theorem unpackEntry_good (mu mg : Nat) (e : FsEntry) (hg : GoodEntry e) (h : TarHdr)
    (h1 : metaToTarHdr e.m e.chash = some h) (B : Bucket) (D : List RelPath)
    (hfresh : B.has e.m = false) (htwin : B.has (twinOf e.m) = false)
    (hpar : ∀ p ∈ e.m.name.splitParent, D.contains p = true) :
    unpackEntry nilOps mu mg losslessUnpack h ⟨(), B, B, D⟩ =
      .ok ⟨(), B ++ [recOf e], B ++ [recOf e], if e.m.kind = .dir then e.m.name :: D else D⟩ := by
  obtain ⟨rt, hch, hbo⟩ := tarHdr_roundtrip e hg h h1
  unfold unpackEntry
  rw [rt]
  simp only
  rw [if_neg (by rw [hg.notUp]; exact fun e => by cases e)]
  rw [if_neg (by rw [hfresh]; exact fun e => by cases e.2)]
  rw [if_neg (by rw [htwin]; exact fun e => by cases e)]
  rw [conjure_known nilOps mu mg losslessUnpack _ ⟨(), B, B, D⟩ hpar]
  simp only
  rw [applyUnpackFilter_lossless]
  simp only
  rw [if_neg hg.kind.2.1]
  by_cases hf : e.m.kind = .file
  · rw [if_pos hf, hbo, hch]
    have := nilOps_place_good e.m e.chash ⟨hg.kind.1, hg.kind.2.2⟩
    simp only [this, Bucket.add, recOf, recHash, hf, if_true]
    simp
  · rw [if_neg hf]
    have := nilOps_place_good e.m [] ⟨hg.kind.1, hg.kind.2.2⟩
    simp only [this, hfresh, Bool.false_and, Bucket.add, recOf, recHash, hf, if_false]
    simp

end Rio

namespace Rio

/-- a listing of a fileset as the walk delivers it: every entry within the format's domain, no path twice (neither as the same kind of
    record nor as directory-and-something-else), every
    entry's parent directories listed (as directories) before it.  `B` / `D`: the records and directories so far. -/
def ListingOK : List FsEntry → Bucket → List RelPath → Prop
  | [], _, _ => True
  | e :: es, B, D => GoodEntry e ∧ B.has e.m = false ∧ B.has (twinOf e.m) = false ∧
      (∀ p ∈ e.m.name.splitParent, D.contains p = true) ∧
      ListingOK es (B ++ [recOf e]) (if e.m.kind = .dir then e.m.name :: D else D)

/-- the headers the pack writes for a listing -/
def hdrsOf (es : List FsEntry) : List TarHdr := es.filterMap (fun e => metaToTarHdr e.m e.chash)

theorem entries_good (mu mg : Nat) : ∀ (es : List FsEntry) (B : Bucket) (D : List RelPath), ListingOK es B D →
    packEntries .tar losslessPackF es B = .ok (B ++ es.map recOf) ∧
    ∃ D', unpackEntries nilOps mu mg losslessUnpack (hdrsOf es) ⟨(), B, B, D⟩ = .ok ⟨(), B ++ es.map recOf, B ++ es.map recOf, D'⟩
  | [], B, D, _ => by simp [packEntries, hdrsOf, unpackEntries]
  | e :: es, B, D, h => by
    obtain ⟨hg, hfresh, htwin, hpar, hrest⟩ := h
    obtain ⟨hd, hh⟩ := metaToTarHdr_some e hg
    obtain ⟨ih1, D', ih2⟩ := entries_good mu mg es _ _ hrest
    constructor
    · rw [packEntries, packEntry_good e hg B]
      simp only
      rw [ih1]
      simp
    · refine ⟨D', ?_⟩
      have : hdrsOf (e :: es) = hd :: hdrsOf es := by simp [hdrsOf, hh]
      rw [this, unpackEntries, unpackEntry_good mu mg e hg hd hh B D hfresh htwin hpar]
      simp only
      rw [ih2]
      simp

theorem applySetTimes_nil (l : List (RelPath × Time)) : applySetTimes nilOps l () = ((), none) := by
  induction l with
  | nil => rfl
  | cons x xs ih =>
    obtain ⟨p, t⟩ := x
    simp only [applySetTimes, nilOps]
    exact ih

/-- **`scan(pack(F)) = pack(F) = specId(F)`** (model level): for a listing of a fileset whose records are those of a
    well-formed tree `t`, the pack model's wareID, and both wareIDs the unpack/scan model computes from the headers the
    pack wrote (lossless filter, the nil filesystem scan uses), are the recursive specification of `t`. -/
theorem scan_of_pack (H : Bytes → Bytes) (mu mg : Nat) (es : List FsEntry) (hne : es ≠ [])
    (hok : ListingOK es [] []) (t : Tree) (hwf : WFRoot t) (hp : (es.map recOf).Perm (flatten t)) :
    packId H .tar losslessPackF es = .ok (specId H t) ∧
    unpackTar H nilOps mu mg losslessUnpack (hdrsOf es) .eof () = .ok ((), specId H t, specId H t) := by
  obtain ⟨p1, D', p2⟩ := entries_good mu mg es [] [] hok
  simp only [List.nil_append] at p1 p2
  have hb : ∀ H', hashBucket H' (es.map recOf) = .ok (specId H' t) := fun H' => C05_refine H' t hwf _ hp
  constructor
  · unfold packId
    rw [p1]
    simp only
    have hne0 : (es.map recOf).isEmpty = false := by
      cases es with
      | nil => exact absurd rfl hne
      | cons a l => rfl
    rw [hne0]
    simp only [Bool.false_eq_true, if_false]
    rw [hb H]
  · unfold unpackTar
    rw [if_neg (by decide)]
    rw [p2]
    simp only
    rw [if_neg (by decide)]
    have hne' : es.map recOf ≠ [] := by
      intro e; apply hne; cases es with
      | nil => rfl
      | cons x xs => simp at e
    rw [if_neg hne', if_neg hne']
    rw [hb (fun _ => [])]
    simp only
    rw [applySetTimes_nil]
    simp only
    rw [hb H]
    simp [losslessUnpack, UnpackFilter.altering]

end Rio
