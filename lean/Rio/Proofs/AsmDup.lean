import Rio.Model.Asm14
namespace Rio

/-- no later element has a smaller key -/
def SortedByPath (l : List AsmInput) : Prop := l.Pairwise (fun a b => bytesLt b.path a.path = false)

theorem sorted_insertBy (x : AsmInput) (l : List AsmInput) (h : SortedByPath l) :
    SortedByPath (insertBy (·.path) x l) := by
  induction l with
  | nil => simp [insertBy, SortedByPath]
  | cons q qs ih =>
    simp only [SortedByPath, List.pairwise_cons] at h
    simp only [insertBy]
    split
    · rename_i hlt
      simp only [SortedByPath, List.pairwise_cons]
      refine ⟨?_, h.1, h.2⟩
      intro b hb
      rcases List.mem_cons.1 hb with rfl | hb
      · exact bytesLt_asymm hlt
      · cases hbx : bytesLt b.path x.path with
        | false => rfl
        | true =>
          have := bytesLt_trans hbx hlt
          rw [h.1 b hb] at this
          cases this
    · rename_i hnlt
      simp only [SortedByPath, List.pairwise_cons]
      refine ⟨?_, ih h.2⟩
      intro b hb
      have hb' := (perm_insertBy (·.path) x qs).subset hb
      rcases List.mem_cons.1 hb' with rfl | hb'
      · simpa using hnlt
      · exact h.1 b hb'

theorem sorted_sortInputs (xs : List AsmInput) : SortedByPath (sortInputs xs) := by
  induction xs with
  | nil => simp [sortInputs, sortBy, SortedByPath]
  | cons x xs ih => exact sorted_insertBy x _ ih

/-- in a sorted list, "no two neighbours share a path" is "no two inputs share a path" -/
theorem dupCheck_none_iff : ∀ (s : List AsmInput), SortedByPath s → (dupCheck s = none ↔ (s.map (·.path)).Nodup)
  | [], _ => by simp [dupCheck]
  | [a], _ => by simp [dupCheck]
  | a :: b :: rest, hs => by
    simp only [SortedByPath, List.pairwise_cons] at hs
    have ih := dupCheck_none_iff (b :: rest) (by simpa [SortedByPath, List.pairwise_cons] using hs.2)
    simp only [dupCheck]
    by_cases hab : a.path = b.path
    · simp [hab]
    · simp only [hab, if_false, ih, List.map_cons, List.nodup_cons]
      constructor
      · intro h
        refine ⟨?_, h⟩
        have hlt : bytesLt a.path b.path = true := by
          rcases bytesLt_total hab with h1 | h1
          · exact h1
          · rw [hs.1 b List.mem_cons_self] at h1; cases h1
        intro hmem
        rcases List.mem_cons.1 hmem with h1 | h1
        · exact hab h1
        · obtain ⟨c, hc, hce⟩ := List.mem_map.1 h1
          have h2 := hs.2.1 c hc
          rw [hce] at h2
          rw [h2] at hlt
          cases hlt
      · intro h
        exact h.2

/-- **`Run` refuses for a duplicate exactly when two inputs share a path**, whatever the listing order -/
theorem asm_duplicate_iff (xs : List AsmInput) :
    (∃ d, asmVerdict xs = .duplicate d) ↔ ¬ (xs.map (·.path)).Nodup := by
  have hiff := dupCheck_none_iff (sortInputs xs) (sorted_sortInputs xs)
  have hperm : ((sortInputs xs).map (·.path)).Nodup ↔ (xs.map (·.path)).Nodup :=
    ((perm_sortBy (·.path) xs).map _).nodup_iff
  unfold asmVerdict
  cases hd : dupCheck (sortInputs xs) with
  | some d =>
    have hnd : ¬ (xs.map (·.path)).Nodup := by
      intro h
      have := hiff.2 (hperm.2 h)
      rw [hd] at this
      cases this
    simp only [hnd, not_false_eq_true, iff_true]
    exact ⟨d, by simp only [hd]⟩
  | none =>
    have : (xs.map (·.path)).Nodup := hperm.1 (hiff.1 hd)
    simp only [this, not_true_eq_false, iff_false]
    rintro ⟨d, h⟩
    cases hm : mountCheck (sortInputs xs) [] <;> simp [hm, hd] at h

end Rio
