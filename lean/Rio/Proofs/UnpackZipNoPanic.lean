import Rio.Model.Zip
import Rio.Proofs.UnpackNoPanic
import Rio.Proofs.ZipHdr
/-!
# The zip unpack model never panics

Same invariant (`UInv`) as for tar; the per-entry step differs in the header conversion (owner blocks, `os.FileMode`),
in reading a symlink's target from its body, and in refusing every type but file, symlink and directory.
-/
namespace Rio

theorem zipHdrToMeta_meta (h : ZipHdr) (m : Meta) (e : zipHdrToMeta h = .meta_ m) :
    mustRel h.name = some m.name ∧ m.kind ≠ .invalid := by
  unfold zipHdrToMeta at e
  cases hn : mustRel h.name with
  | none => simp [hn] at e
  | some name =>
    simp only [hn] at e
    split at e
    · cases e
    · rename_i hk
      cases ho : zipOwnership h.extra with
      | panic => simp [ho] at e
      | corrupt => simp [ho] at e
      | ok uid gid =>
        simp only [ho] at e
        injection e with e
        subst e
        exact ⟨rfl, hk⟩

theorem zipHdrToMeta_no_panic (h : ZipHdr) : zipHdrToMeta h ≠ .panic := by
  unfold zipHdrToMeta
  cases mustRel h.name with
  | none => simp
  | some name =>
    simp only
    split
    · simp
    · cases ho : zipOwnership h.extra with
      | panic => exact absurd ho (zipOwnership_never_panics _)
      | corrupt => simp
      | ok uid gid => simp

theorem recordName_linkname (m : Meta) (l : Bytes) : recordName { m with linkname := l } = recordName m := rfl

theorem has_linkname (b : Bucket) (m : Meta) (l : Bytes) : b.has { m with linkname := l } = b.has m := rfl

theorem zentry_inv {σ : Type} (ops : FsOps σ) (myUid myGid : Nat) (filt : UnpackFilter) (h : ZipHdr)
    (st : UnpackSt σ) (hi : UInv filt st) :
    (∀ w, unpackZipEntry ops myUid myGid filt h st ≠ .panic w) ∧
    (∀ st', unpackZipEntry ops myUid myGid filt h st = .ok st' → UInv filt st') := by
  unfold unpackZipEntry
  cases hm : zipHdrToMeta h with
  | panic => exact absurd hm (zipHdrToMeta_no_panic h)
  | skip => exact ⟨fun w e => (by cases e), fun st' e => (by injection e with e; subst e; exact hi)⟩
  | halt c => exact ⟨fun w e => (by cases e), fun st' e => (by cases e)⟩
  | meta_ fmeta =>
    simp only
    obtain ⟨hname, hkinv⟩ := zipHdrToMeta_meta h fmeta hm
    have hclean : fmeta.name.Clean := mustRel_clean _ _ hname
    by_cases hup : hasPrefix fmeta.name.str [dot, dot] = true
    · simp only [hup, if_true]
      exact ⟨fun w e => (by cases e), fun st' e => (by cases e)⟩
    · simp only [hup, Bool.false_eq_true, if_false]
      have hgood : GoodName fmeta.name := ⟨hclean, by simpa using hup⟩
      by_cases hdup : fmeta.kind ≠ .dir ∧ st.pre.has fmeta = true
      · simp only [hdup, ne_eq, not_false_eq_true, and_self, if_true]
        exact ⟨fun w e => (by cases e), fun st' e => (by cases e)⟩
      · rw [if_neg hdup]
        by_cases htwin : st.pre.has (twinOf fmeta) = true
        · simp only [htwin, if_true]
          exact ⟨fun w e => (by cases e), fun st' e => (by cases e)⟩
        simp only [htwin, Bool.false_eq_true, if_false]
        obtain ⟨cp1, cp2⟩ := conjure_inv ops myUid myGid filt fmeta.name.splitParent st hi (splitParent_good _ hgood)
        cases hcj : conjureParents ops myUid myGid filt fmeta.name.splitParent st with
        | panic w => exact absurd hcj (cp1 w)
        | err c => exact ⟨fun w e => (by cases e), fun st' e => (by cases e)⟩
        | ok st1 =>
          simp only
          obtain ⟨hi1, hdirs1, hfresh1⟩ := cp2 st1 hcj
          have hfreshND : fmeta.kind ≠ .dir → st1.pre.has fmeta = false := by
            intro hk
            apply hfresh1 fmeta hk hgood
            cases hh : st.pre.has fmeta with
            | false => rfl
            | true => exact absurd ⟨hk, hh⟩ hdup
          cases hf : applyUnpackFilter myUid myGid filt fmeta with
          | panic w => exact absurd hf (applyUnpackFilter_no_panic _ _ _ _ w)
          | err c => exact ⟨fun w e => (by cases e), fun st' e => (by cases e)⟩
          | ok filtered =>
            simp only
            obtain ⟨fn, fk⟩ := applyUnpackFilter_ok _ _ _ _ _ hf
            have fsame : filt.altering = false → filtered = fmeta := fun hna => applyUnpackFilter_nonaltering _ _ _ _ _ hna hf
            by_cases hinv : filtered.kind = .invalid
            · simp only [hinv, if_true]
              refine ⟨fun w e => (by cases e), fun st' e => ?_⟩
              injection e with e; subst e
              have hdev : isDevKind fmeta.kind = true := by
                rcases fk with fk | ⟨_, fk⟩
                · rw [hinv] at fk; exact absurd fk.symm hkinv
                · exact fk
              have hnd : fmeta.kind ≠ .dir := by
                intro e; rw [e] at hdev; simp [isDevKind] at hdev
              have halt : filt.altering = true := by
                cases ha : filt.altering with
                | true => rfl
                | false =>
                  have := fsame ha
                  rw [this] at hinv; exact absurd hinv hkinv
              exact uinv_add_pre hi1 fmeta [] hgood (hfreshND hnd) hnd halt
            · simp only [hinv, if_false]
              have fk' : filtered.kind = fmeta.kind := by
                rcases fk with fk | ⟨fk, _⟩
                · exact fk
                · exact absurd fk hinv
              by_cases hfile : fmeta.kind = .file
              · simp only [hfile, if_true]
                split
                · exact ⟨fun w e => (by cases e), fun st' e => (by cases e)⟩
                · cases hpl : ops.place st1.fs filtered h.chash h.bodyOk with
                  | mk fs' e =>
                    have hpl' : ops.1 st1.fs filtered h.chash h.bodyOk = (fs', e) := hpl
                    simp only [hpl']
                    cases e with
                    | some c => exact ⟨fun w e => (by cases e), fun st' e => (by cases e)⟩
                    | none =>
                      simp only
                      refine ⟨fun w e => (by cases e), fun st' e => ?_⟩
                      injection e with e; subst e
                      exact uinv_add hi1 fmeta filtered h.chash fs' st1.dirs hgood
                        (hfreshND (by rw [hfile]; exact fun e => by cases e)) fn fk' fsame (fun p hp => hp)
                        (fun hd => by rw [hfile] at hd; cases hd)
              · simp only [hfile, if_false]
                by_cases hlink : fmeta.kind = .symlink
                · rw [if_pos hlink]
                  split
                  · exact ⟨fun w e => (by cases e), fun st' e => (by cases e)⟩
                  · cases hpl : ops.place st1.fs { filtered with linkname := h.body } [] true with
                    | mk fs' e =>
                      have hpl' : ops.1 st1.fs { filtered with linkname := h.body } [] true = (fs', e) := hpl
                      simp only [hpl']
                      cases e with
                      | some c => exact ⟨fun w e => (by cases e), fun st' e => (by cases e)⟩
                      | none =>
                        simp only
                        refine ⟨fun w e => (by cases e), fun st' e => ?_⟩
                        injection e with e; subst e
                        have hnd : fmeta.kind ≠ .dir := by rw [hlink]; exact fun e => by cases e
                        exact uinv_add hi1 { fmeta with linkname := h.body } { filtered with linkname := h.body } [] fs' st1.dirs
                          hgood (by rw [has_linkname]; exact hfreshND hnd) fn fk'
                          (fun hna => by rw [fsame hna]) (fun p hp => hp)
                          (fun hd => absurd hd hnd)
                · simp only [hlink, if_false]
                  by_cases hdir : fmeta.kind = .dir
                  · simp only [hdir, if_true]
                    cases hpl : ops.place st1.fs filtered [] true with
                    | mk fs' e =>
                      have hpl' : ops.1 st1.fs filtered [] true = (fs', e) := hpl
                      simp only [hpl']
                      cases e with
                      | some c => exact ⟨fun w e => (by cases e), fun st' e => (by cases e)⟩
                      | none =>
                        simp only
                        by_cases hupd : st1.pre.has fmeta = true
                        · rw [if_pos hupd]
                          refine ⟨fun w e => (by cases e), fun st' e => ?_⟩
                          injection e with e; subst e
                          exact uinv_update hi1 fmeta filtered [] fs' _ hgood fn fk' fsame
                            (fun p hp => by simp [hp]) (by simp)
                        · rw [if_neg hupd]
                          refine ⟨fun w e => (by cases e), fun st' e => ?_⟩
                          injection e with e; subst e
                          have hfr : st1.pre.has fmeta = false := by
                            cases hh : st1.pre.has fmeta with
                            | false => rfl
                            | true => exact absurd hh hupd
                          exact uinv_add hi1 fmeta filtered [] fs' _ hgood hfr fn fk' fsame
                            (fun p hp => by simp [hp]) (fun _ => by simp)
                  · simp only [hdir, if_false]
                    exact ⟨fun w e => (by cases e), fun st' e => (by cases e)⟩

theorem zentries_inv {σ : Type} (ops : FsOps σ) (myUid myGid : Nat) (filt : UnpackFilter) :
    ∀ (hs : List ZipHdr) (st : UnpackSt σ), UInv filt st →
    (∀ w, unpackZipEntries ops myUid myGid filt hs st ≠ .panic w) ∧
    (∀ st', unpackZipEntries ops myUid myGid filt hs st = .ok st' → UInv filt st')
  | [], st, hi => by
    simp only [unpackZipEntries]
    exact ⟨fun w e => (by cases e), fun st' e => (by injection e with e; subst e; exact hi)⟩
  | h :: hs, st, hi => by
    obtain ⟨e1, e2⟩ := zentry_inv ops myUid myGid filt h st hi
    simp only [unpackZipEntries]
    cases he : unpackZipEntry ops myUid myGid filt h st with
    | panic w => exact absurd he (e1 w)
    | err c => exact ⟨fun w e => (by cases e), fun st' e => (by cases e)⟩
    | ok st1 => exact zentries_inv ops myUid myGid filt hs st1 (e2 st1 he)

/-- what follows the entry loop never panics on a state that satisfies the loop invariant -/
theorem finishUnpack_never_panics {σ : Type} (H : Bytes → Bytes) (ops : FsOps σ) (filt : UnpackFilter) (st : UnpackSt σ)
    (hi : UInv filt st) (w : String) : finishUnpack H ops filt st ≠ .panic w := by
  unfold finishUnpack
  obtain ⟨apre, apost⟩ := uinv_anchored hi
  split
  · exact fun e => by cases e
  · rename_i hpre
    split
    · exact fun e => by cases e
    · rename_i hpost
      have nc_post : ∀ (H' : Bytes → Bytes) p, hashBucket H' st.post = .error p → p.isInvalidFilesystem = true :=
        fun H' p hp => (crashes_iff p).1 (hashBucket_no_crash H' st.post hpost hi.postNodup apost p hp)
      have nc_pre : ∀ p, hashBucket H st.pre = .error p → p.isInvalidFilesystem = true :=
        fun p hp => (crashes_iff p).1 (hashBucket_no_crash H st.pre hpre hi.preNodup apre p hp)
      cases h1 : hashBucket (fun _ => []) st.post with
      | error p =>
        simp only [nc_post _ p h1, if_true]
        exact fun e => by cases e
      | ok _ =>
        simp only
        cases hst : applySetTimes ops (repaveDirs (bucketLines st.post)) st.fs with
        | mk fs' e =>
          cases e with
          | some c => simp only; exact fun e => by cases e
          | none =>
            simp only
            cases h2 : hashBucket H st.pre with
            | error p =>
              simp only [nc_pre p h2, if_true]
              exact fun e => by cases e
            | ok a =>
              cases h3 : hashBucket H st.post with
              | error p =>
                simp only [nc_post H p h3, if_true]
                exact fun e => by cases e
              | ok b =>
                simp only
                by_cases hna : filt.altering = false
                · have : st.post = st.pre := hi.same hna
                  rw [this, h2] at h3
                  injection h3 with h3
                  simp [hna, h3]
                · have : filt.altering = true := by
                    cases hh : filt.altering with
                    | true => rfl
                    | false => exact absurd hh hna
                  simp [this]

/-- **The zip unpack model never panics**, for every entry list `archive/zip` can hand over (any names, `os.FileMode`s,
    extra fields, times, bodies that fail to open or to read), every filter, every behaviour of the filesystem
    operations and every hash function. -/
theorem unpackZip_never_panics {σ : Type} (H : Bytes → Bytes) (ops : FsOps σ) (myUid myGid : Nat) (filt : UnpackFilter)
    (hdrs : List ZipHdr) (readable : Bool) (s0 : σ) (w : String) :
    unpackZip H ops myUid myGid filt hdrs readable s0 ≠ .panic w := by
  unfold unpackZip
  split
  · exact fun e => by cases e
  · obtain ⟨e1, e2⟩ := zentries_inv ops myUid myGid filt hdrs ⟨s0, [], [], []⟩ (uinv_init filt s0)
    cases he : unpackZipEntries ops myUid myGid filt hdrs ⟨s0, [], [], []⟩ with
    | panic w' => exact absurd he (e1 w')
    | err c => exact fun e => by cases e
    | ok st => exact finishUnpack_never_panics H ops filt st (e2 st he) w

end Rio
