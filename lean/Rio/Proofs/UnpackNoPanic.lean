import Rio.Model.Tar
import Rio.Proofs.NoCrash
import Rio.Props.C18
/-!
# The tar unpack loop never panics (model level)

Invariant of the entry loop: the keys of the prefilter and of the filtered bucket are distinct, every key is the
`AddRecord` key of its metadata and prints as `.` or `./…`, the filtered keys are among the prefilter keys, every
directory record is in the `dirs` set, and with a non-altering filter the two buckets are equal.  With that,
`hashBucket_no_crash` applies to both buckets and the paranoia check (`prefilterHash != filteredHash`) cannot fire.
-/
namespace Rio

/-! ## filters, rule by rule -/

def fUid (myUid : Nat) (ff : UnpackFilter) (m : Meta) : Meta :=
  if ff.uid = ffContext then { m with uid := myUid } else if ff.uid ≠ ffKeep then { m with uid := toU32 ff.uid } else m
def fGid (myGid : Nat) (ff : UnpackFilter) (m : Meta) : Meta :=
  if ff.gid = ffContext then { m with gid := myGid } else if ff.gid ≠ ffKeep then { m with gid := toU32 ff.gid } else m
def fMtime (ff : UnpackFilter) (m : Meta) : Meta :=
  if ff.mtime ≠ ffKeep then { m with mtime := ⟨ff.mtime, 0⟩ } else m
def fSticky (ff : UnpackFilter) (m : Meta) : Meta :=
  if ff.sticky ≠ ffKeep then { m with perms := clearBits m.perms permSticky } else m
def fSetid (ff : UnpackFilter) (m : Meta) : Meta :=
  if ff.setid ≠ ffReject ∧ ff.setid ≠ ffKeep then { m with perms := clearBits m.perms (permSetuid ||| permSetgid) } else m
def fDev (ff : UnpackFilter) (m : Meta) : Meta :=
  if ff.dev ≠ ffReject ∧ ff.dev ≠ ffKeep ∧ isDevKind m.kind then { m with kind := .invalid } else m

theorem applyUnpackFilter_eq (myUid myGid : Nat) (ff : UnpackFilter) (m : Meta) :
    applyUnpackFilter myUid myGid ff m =
      (if ff.mtime = ffContext then .err .usage else
       if ff.setid = ffReject ∧ (fSticky ff (fMtime ff (fGid myGid ff (fUid myUid ff m)))).kind ≠ .symlink ∧
           (fSticky ff (fMtime ff (fGid myGid ff (fUid myUid ff m)))).perms &&& (permSetuid ||| permSetgid) ≠ 0
         then .err .filterRejection else
       if ff.dev = ffReject ∧ isDevKind (fSetid ff (fSticky ff (fMtime ff (fGid myGid ff (fUid myUid ff m))))).kind
         then .err .filterRejection else
       .ok (fDev ff (fSetid ff (fSticky ff (fMtime ff (fGid myGid ff (fUid myUid ff m))))))) := rfl

theorem applyUidGid_eq (myUid myGid : Nat) (ff : UnpackFilter) (m : Meta) :
    applyUidGid myUid myGid ff m = fGid myGid ff (fUid myUid ff m) := rfl

theorem fUid_nk (myUid : Nat) (ff : UnpackFilter) (m : Meta) : (fUid myUid ff m).name = m.name ∧ (fUid myUid ff m).kind = m.kind := by
  unfold fUid; split <;> (try split) <;> simp
theorem fGid_nk (myGid : Nat) (ff : UnpackFilter) (m : Meta) : (fGid myGid ff m).name = m.name ∧ (fGid myGid ff m).kind = m.kind := by
  unfold fGid; split <;> (try split) <;> simp
theorem fMtime_nk (ff : UnpackFilter) (m : Meta) : (fMtime ff m).name = m.name ∧ (fMtime ff m).kind = m.kind := by
  unfold fMtime; split <;> simp
theorem fSticky_nk (ff : UnpackFilter) (m : Meta) : (fSticky ff m).name = m.name ∧ (fSticky ff m).kind = m.kind := by
  unfold fSticky; split <;> simp
theorem fSetid_nk (ff : UnpackFilter) (m : Meta) : (fSetid ff m).name = m.name ∧ (fSetid ff m).kind = m.kind := by
  unfold fSetid; split <;> simp
theorem fDev_nk (ff : UnpackFilter) (m : Meta) :
    (fDev ff m).name = m.name ∧ ((fDev ff m).kind = m.kind ∨ ((fDev ff m).kind = .invalid ∧ isDevKind m.kind = true)) := by
  unfold fDev; split
  · rename_i h; exact ⟨rfl, Or.inr ⟨rfl, h.2.2⟩⟩
  · exact ⟨rfl, Or.inl rfl⟩

/-- what a successful filter application can have changed -/
theorem applyUnpackFilter_ok (myUid myGid : Nat) (ff : UnpackFilter) (m m' : Meta)
    (h : applyUnpackFilter myUid myGid ff m = .ok m') :
    m'.name = m.name ∧ (m'.kind = m.kind ∨ (m'.kind = .invalid ∧ isDevKind m.kind = true)) := by
  rw [applyUnpackFilter_eq] at h
  split at h
  · cases h
  · split at h
    · cases h
    · split at h
      · cases h
      · injection h with h
        subst h
        have a := fUid_nk myUid ff m
        have b := fGid_nk myGid ff (fUid myUid ff m)
        have c := fMtime_nk ff (fGid myGid ff (fUid myUid ff m))
        have d := fSticky_nk ff (fMtime ff (fGid myGid ff (fUid myUid ff m)))
        have e := fSetid_nk ff (fSticky ff (fMtime ff (fGid myGid ff (fUid myUid ff m))))
        have f := fDev_nk ff (fSetid ff (fSticky ff (fMtime ff (fGid myGid ff (fUid myUid ff m)))))
        refine ⟨by rw [f.1, e.1, d.1, c.1, b.1, a.1], ?_⟩
        rcases f.2 with g | ⟨g1, g2⟩
        · left; rw [g, e.2, d.2, c.2, b.2, a.2]
        · right; exact ⟨g1, by rw [e.2, d.2, c.2, b.2, a.2] at g2; exact g2⟩

theorem applyUnpackFilter_no_panic (myUid myGid : Nat) (ff : UnpackFilter) (m : Meta) (w : String) :
    applyUnpackFilter myUid myGid ff m ≠ .panic w := by
  rw [applyUnpackFilter_eq]
  split
  · exact fun h => by cases h
  · split
    · exact fun h => by cases h
    · split <;> exact fun h => by cases h

/-- a non-altering filter changes nothing -/
theorem nonaltering_fields {ff : UnpackFilter} (h : ff.altering = false) :
    ff.uid = ffKeep ∧ ff.gid = ffKeep ∧ ff.mtime = ffKeep ∧ ff.sticky = ffKeep ∧
    (ff.setid = ffKeep ∨ ff.setid = ffReject) ∧ (ff.dev = ffKeep ∨ ff.dev = ffReject) := by
  unfold UnpackFilter.altering at h
  simp only [Bool.or_eq_false_iff, Bool.and_eq_false_iff, bne_eq_false_iff_eq] at h
  obtain ⟨⟨⟨⟨⟨a, b⟩, c⟩, d⟩, e⟩, f⟩ := h
  exact ⟨a, b, c, d, e, f⟩

theorem applyUnpackFilter_nonaltering (myUid myGid : Nat) (ff : UnpackFilter) (m m' : Meta)
    (hna : ff.altering = false) (h : applyUnpackFilter myUid myGid ff m = .ok m') : m' = m := by
  obtain ⟨a, b, c, d, e, f⟩ := nonaltering_fields hna
  rw [applyUnpackFilter_eq] at h
  have hk : ffKeep ≠ ffContext := by decide
  have h1 : fUid myUid ff m = m := by unfold fUid; rw [a]; simp [hk]
  have h2 : fGid myGid ff m = m := by unfold fGid; rw [b]; simp [hk]
  have h3 : fMtime ff m = m := by unfold fMtime; rw [c]; simp
  have h4 : fSticky ff m = m := by unfold fSticky; rw [d]; simp
  have h5 : fSetid ff m = m := by
    unfold fSetid; rcases e with e | e <;> rw [e] <;> simp
  have h6 : fDev ff m = m := by
    unfold fDev; rcases f with f | f <;> rw [f] <;> simp
  rw [h1, h2, h3, h4, h5, h6] at h
  split at h
  · cases h
  · split at h
    · cases h
    · split at h
      · cases h
      · injection h with h; exact h.symm

theorem applyUidGid_nonaltering (myUid myGid : Nat) (ff : UnpackFilter) (m : Meta) (hna : ff.altering = false) :
    applyUidGid myUid myGid ff m = m := by
  obtain ⟨a, b, _⟩ := nonaltering_fields hna
  have hk : ffKeep ≠ ffContext := by decide
  rw [applyUidGid_eq]
  have h1 : fUid myUid ff m = m := by unfold fUid; rw [a]; simp [hk]
  rw [h1]; unfold fGid; rw [b]; simp [hk]


/-! ## names and keys -/

theorem anchored_of_not_dotdot (p : RelPath) (h : hasPrefix p.str [dot, dot] = false) :
    p.str = [dot] ∨ hasPrefix p.str [dot, slash] = true := by
  unfold RelPath.str at h ⊢
  split
  · left; rfl
  · rename_i h0
    simp only [h0, if_false] at h
    split
    · rename_i h2
      rw [if_pos h2] at h
      exfalso
      have : hasPrefix p.path [dot, dot] = true := by
        rw [hasPrefix_iff]; rw [← h2.2]; exact List.take_prefix 2 p.path
      rw [this] at h; cases h
    · rename_i h2
      rw [if_neg h2] at h
      split
      · rename_i h3
        rw [if_pos h3] at h
        exfalso
        have : hasPrefix p.path [dot, dot] = true := by
          rw [hasPrefix_iff]
          have h4 : [dot, dot, slash] <+: p.path := by rw [← h3.2]; exact List.take_prefix 3 p.path
          exact (List.prefix_append [dot, dot] [slash]).trans h4
        rw [this] at h; cases h
      · right; simp [hasPrefix]

theorem splitParent_ofComps {cs : List Bytes} (h : CleanComps false cs) :
    (ofComps cs).splitParent = (List.range cs.length).map (fun k => ofComps (cs.take k)) := by
  by_cases h0 : cs = []
  · subst h0; simp [RelPath.splitParent, ofComps]
  · have hf := render_facts h h0
    have hcnt := count_joinWith cs h0 (fun x hx => (cleanComps_mem h x hx).2.2)
    obtain ⟨init, l, rfl⟩ : ∃ init l, cs = init ++ [l] :=
      ⟨cs.dropLast, cs.getLast h0, (List.dropLast_concat_getLast h0).symm⟩
    unfold RelPath.splitParent
    rw [ofComps_path h0, ofComps_lastSplit h0]
    simp only [hf.1, if_false]
    rcases render_snoc h with ⟨hi, hj, hl⟩ | ⟨hi, hj, hl⟩
    · subst hi
      simp only [List.nil_append] at hj ⊢
      simp [hj, hl, ofComps]
    · rw [hl]
      have hnn : ¬ (((joinWith slash init).length : Int) = -1) := by omega
      simp only [hnn, if_false]
      have hcs : RelPath.countSlash (joinWith slash (init ++ [l])) = init.length := by
        simp only [List.length_append, List.length_singleton] at hcnt; omega
      rw [hcs, dir_snoc h]
      have hti : init = (init ++ [l]).take init.length := by simp
      have := dirChain_take h init.length init.length [ofComps init] (Nat.le_refl _) (by simp)
      rw [← hti] at this
      rw [this]
      simp only [Nat.sub_self, List.length_append, List.length_singleton, List.range_succ, List.map_append,
        List.map_cons, List.map_nil, ← hti, List.range_eq_range']

/-- a canonical name does not print with a trailing `/` -/
theorem str_no_trailing_slash {cs : List Bytes} (h : CleanComps false cs) (t : Bytes) :
    (ofComps cs).str ≠ t ++ [slash] := by
  by_cases h0 : cs = []
  · subst h0
    intro e
    have : (ofComps []).str = [dot] := by simp [ofComps, RelPath.str]
    rw [this] at e
    have := congrArg List.getLast? e
    simp [dot, slash] at this
  · obtain ⟨init, l, rfl⟩ : ∃ init l, cs = init ++ [l] :=
      ⟨cs.dropLast, cs.getLast h0, (List.dropLast_concat_getLast h0).symm⟩
    have hl : l ≠ [] ∧ slash ∉ l := by
      have := cleanComps_mem h l (by simp); exact ⟨this.1, this.2.2⟩
    -- the rendering ends with `l`
    have hend : ∃ pre, joinWith slash (init ++ [l]) = pre ++ l := by
      rcases render_snoc h with ⟨_, hj, _⟩ | ⟨_, hj, _⟩
      · exact ⟨[], by simpa using hj⟩
      · exact ⟨joinWith slash init ++ [slash], by rw [hj]; simp⟩
    obtain ⟨pre, hpre⟩ := hend
    have hp : (ofComps (init ++ [l])).path = pre ++ l := by rw [ofComps_path h0, hpre]
    intro e
    have hstr : ∃ pre2, (ofComps (init ++ [l])).str = pre2 ++ l := by
      rcases (ofComps (init ++ [l])).str_cases' with ⟨e0, _⟩ | ⟨_, e1⟩ | ⟨_, e1⟩
      · rw [hp] at e0; simp [hl.1] at e0
      · exact ⟨pre, by rw [e1, hp]⟩
      · exact ⟨dot :: slash :: pre, by rw [e1, hp]; simp⟩
    obtain ⟨pre2, hs⟩ := hstr
    rw [hs] at e
    have := congrArg List.getLast? e
    rw [List.getLast?_concat, List.getLast?_append] at this
    cases hll : l.getLast? with
    | none =>
      cases l with
      | nil => exact hl.1 rfl
      | cons x xs => simp at hll
    | some z =>
      rw [hll] at this
      have hz : z = slash := by
        cases hh : pre2.getLast? <;> simp [hh] at this <;> exact this
      exact hl.2 (hz ▸ List.mem_of_getLast? hll)


/-- a name the unpacker accepts: canonical, and not printed with a leading `..` -/
def GoodName (p : RelPath) : Prop := p.Clean ∧ hasPrefix p.str [dot, dot] = false

theorem recordName_dir_ne_nondir (m1 m2 : Meta) (g2 : GoodName m2.name)
    (k1 : m1.kind = .dir) (k2 : m2.kind ≠ .dir) : recordName m1 ≠ recordName m2 := by
  unfold recordName
  rw [if_pos k1, if_neg k2]
  obtain ⟨cs, hc, e⟩ := g2.1
  intro h
  rw [e] at h
  exact str_no_trailing_slash hc _ h.symm

theorem recordName_dir_inj (m1 m2 : Meta) (g1 : GoodName m1.name) (g2 : GoodName m2.name)
    (k1 : m1.kind = .dir) (k2 : m2.kind = .dir) (h : recordName m1 = recordName m2) : m1.name = m2.name := by
  unfold recordName at h
  rw [if_pos k1, if_pos k2] at h
  have : m1.name.str = m2.name.str := List.append_cancel_right h
  exact (C18_canonical_eq _ _ g1.1 g2.1).2 this

theorem has_iff (b : Bucket) (m : Meta) : b.has m = true ↔ recordName m ∈ b.map (·.name) := by
  unfold Bucket.has
  simp only [List.any_eq_true, decide_eq_true_eq, List.mem_map]

theorem update_names (b : Bucket) (m : Meta) (ch : Bytes) : (b.update m ch).map (·.name) = b.map (·.name) := by
  unfold Bucket.update
  rw [List.map_map]
  apply List.map_congr_left
  intro r _
  simp only [Function.comp]
  split
  · rename_i h; simp [mkRecord, h]
  · rfl

structure UInv {σ : Type} (filt : UnpackFilter) (st : UnpackSt σ) : Prop where
  preNodup : (st.pre.map (·.name)).Nodup
  postNodup : (st.post.map (·.name)).Nodup
  preOk : ∀ r ∈ st.pre, r.name = recordName r.m ∧ GoodName r.m.name
  postOk : ∀ r ∈ st.post, r.name = recordName r.m ∧ GoodName r.m.name
  postSub : ∀ r ∈ st.post, r.name ∈ st.pre.map (·.name)
  dirsOk : ∀ r ∈ st.pre, r.m.kind = .dir → r.m.name ∈ st.dirs
  same : filt.altering = false → st.post = st.pre

theorem uinv_init {σ : Type} (filt : UnpackFilter) (s0 : σ) : UInv filt (⟨s0, [], [], []⟩ : UnpackSt σ) :=
  ⟨by simp, by simp, by simp, by simp, by simp, by simp, fun _ => rfl⟩

/-- adding a fresh entry to both buckets -/
theorem uinv_add {σ : Type} {filt : UnpackFilter} {st : UnpackSt σ} (hi : UInv filt st) (m m' : Meta) (ch : Bytes)
    (fs' : σ) (dirs' : List RelPath)
    (hg : GoodName m.name) (hfresh : st.pre.has m = false) (hn : m'.name = m.name) (hk : m'.kind = m.kind)
    (hsame : filt.altering = false → m' = m)
    (hd : ∀ p ∈ st.dirs, p ∈ dirs') (hdm : m.kind = .dir → m.name ∈ dirs') :
    UInv filt { fs := fs', pre := st.pre.add m ch, post := st.post.add m' ch, dirs := dirs' } := by
  have hkey' : recordName m' = recordName m := by unfold recordName; rw [hn, hk]
  have hnotin : recordName m ∉ st.pre.map (·.name) := by
    intro h; rw [← has_iff, hfresh] at h; cases h
  refine ⟨?_, ?_, ?_, ?_, ?_, ?_, ?_⟩
  · simp only [Bucket.add, List.map_append, List.map_cons, List.map_nil, mkRecord]
    exact List.nodup_append.2 ⟨hi.preNodup, by simp, by
      intro a ha b hb; simp at hb; subst hb; intro e; subst e; exact hnotin ha⟩
  · simp only [Bucket.add, List.map_append, List.map_cons, List.map_nil, mkRecord]
    refine List.nodup_append.2 ⟨hi.postNodup, by simp, ?_⟩
    intro a ha b hb; simp at hb; subst hb; intro e; subst e
    obtain ⟨r, hr, e⟩ := List.mem_map.1 ha
    rw [hkey'] at e
    exact hnotin (e ▸ hi.postSub r hr)
  · intro r hr
    simp only [Bucket.add, List.mem_append, List.mem_singleton] at hr
    rcases hr with hr | rfl
    · exact hi.preOk r hr
    · exact ⟨rfl, hg⟩
  · intro r hr
    simp only [Bucket.add, List.mem_append, List.mem_singleton] at hr
    rcases hr with hr | rfl
    · exact hi.postOk r hr
    · exact ⟨rfl, by simp only [mkRecord]; rw [hn]; exact hg⟩
  · intro r hr
    simp only [Bucket.add, List.mem_append, List.mem_singleton] at hr
    simp only [Bucket.add, List.map_append, List.mem_append]
    rcases hr with hr | rfl
    · left; exact hi.postSub r hr
    · right; simp [mkRecord, hkey']
  · intro r hr hkd
    simp only [Bucket.add, List.mem_append, List.mem_singleton] at hr
    rcases hr with hr | rfl
    · exact hd _ (hi.dirsOk r hr hkd)
    · exact hdm hkd
  · intro hna
    simp only [Bucket.add]
    rw [hi.same hna, hsame hna]

/-- adding an entry the filter ejects (prefilter bucket only; only possible with an altering filter) -/
theorem uinv_add_pre {σ : Type} {filt : UnpackFilter} {st : UnpackSt σ} (hi : UInv filt st) (m : Meta) (ch : Bytes)
    (hg : GoodName m.name) (hfresh : st.pre.has m = false) (hk : m.kind ≠ .dir) (halt : filt.altering = true) :
    UInv filt { st with pre := st.pre.add m ch } := by
  have hnotin : recordName m ∉ st.pre.map (·.name) := by
    intro h; rw [← has_iff, hfresh] at h; cases h
  refine ⟨?_, hi.postNodup, ?_, hi.postOk, ?_, ?_, ?_⟩
  · simp only [Bucket.add, List.map_append, List.map_cons, List.map_nil, mkRecord]
    exact List.nodup_append.2 ⟨hi.preNodup, by simp, by
      intro a ha b hb; simp at hb; subst hb; intro e; subst e; exact hnotin ha⟩
  · intro r hr
    simp only [Bucket.add, List.mem_append, List.mem_singleton] at hr
    rcases hr with hr | rfl
    · exact hi.preOk r hr
    · exact ⟨rfl, hg⟩
  · intro r hr
    simp only [Bucket.add, List.map_append, List.mem_append]
    left; exact hi.postSub r hr
  · intro r hr hkd
    simp only [Bucket.add, List.mem_append, List.mem_singleton] at hr
    rcases hr with hr | rfl
    · exact hi.dirsOk r hr hkd
    · exact absurd hkd hk
  · intro hna; rw [halt] at hna; cases hna

/-- replacing the record of a directory that is stated again -/
theorem uinv_update {σ : Type} {filt : UnpackFilter} {st : UnpackSt σ} (hi : UInv filt st) (m m' : Meta) (ch : Bytes)
    (fs' : σ) (dirs' : List RelPath)
    (hg : GoodName m.name) (hn : m'.name = m.name) (hk : m'.kind = m.kind) (hsame : filt.altering = false → m' = m)
    (hd : ∀ p ∈ st.dirs, p ∈ dirs') (hdm : m.name ∈ dirs') :
    UInv filt { fs := fs', pre := st.pre.update m ch, post := st.post.update m' ch, dirs := dirs' } := by
  have hkey' : recordName m' = recordName m := by unfold recordName; rw [hn, hk]
  refine ⟨?_, ?_, ?_, ?_, ?_, ?_, ?_⟩
  · simp only [update_names]; exact hi.preNodup
  · simp only [update_names]; exact hi.postNodup
  · intro r hr
    simp only [Bucket.update, List.mem_map] at hr
    obtain ⟨r0, hr0, e⟩ := hr
    split at e
    · subst e; exact ⟨rfl, hg⟩
    · subst e; exact hi.preOk r0 hr0
  · intro r hr
    simp only [Bucket.update, List.mem_map] at hr
    obtain ⟨r0, hr0, e⟩ := hr
    split at e
    · subst e; exact ⟨rfl, by simp only [mkRecord]; rw [hn]; exact hg⟩
    · subst e; exact hi.postOk r0 hr0
  · intro r hr
    simp only [update_names]
    have : r.name ∈ (st.post.update m' ch).map (·.name) := List.mem_map.2 ⟨r, hr, rfl⟩
    rw [update_names] at this
    obtain ⟨r0, hr0, e⟩ := List.mem_map.1 this
    rw [← e]; exact hi.postSub r0 hr0
  · intro r hr hkd
    simp only [Bucket.update, List.mem_map] at hr
    obtain ⟨r0, hr0, e⟩ := hr
    split at e
    · subst e; exact hdm
    · subst e; exact hd _ (hi.dirsOk r0 hr0 hkd)
  · intro hna
    simp only
    rw [hi.same hna, hsame hna]


/-! ## the loop -/

theorem goodName_default (p : RelPath) (h : GoodName p) : GoodName (defaultDirMeta p).name := h

theorem fresh_dir_of_not_in_dirs {σ : Type} {filt : UnpackFilter} {st : UnpackSt σ} (hi : UInv filt st) (p : RelPath)
    (hg : GoodName p) (hp : p ∉ st.dirs) : st.pre.has (defaultDirMeta p) = false := by
  cases hh : st.pre.has (defaultDirMeta p) with
  | false => rfl
  | true =>
    exfalso
    obtain ⟨r, hr, e⟩ := List.mem_map.1 ((has_iff _ _).1 hh)
    obtain ⟨hk, hgr⟩ := hi.preOk r hr
    rw [hk] at e
    by_cases hd : r.m.kind = .dir
    · have e2 : r.m.name = p := recordName_dir_inj r.m (defaultDirMeta p) hgr hg hd rfl e
      exact hp (e2 ▸ hi.dirsOk r hr hd)
    · exact recordName_dir_ne_nondir (defaultDirMeta p) r.m hgr rfl hd e.symm

theorem conjFiltered_props (myUid myGid : Nat) (filt : UnpackFilter) (p : RelPath) :
    (conjFiltered myUid myGid filt (defaultDirMeta p)).name = p ∧
    (conjFiltered myUid myGid filt (defaultDirMeta p)).kind = .dir ∧
    (filt.altering = false → conjFiltered myUid myGid filt (defaultDirMeta p) = defaultDirMeta p) := by
  unfold conjFiltered
  cases hf : applyUnpackFilter myUid myGid filt (defaultDirMeta p) with
  | panic w => exact absurd hf (applyUnpackFilter_no_panic _ _ _ _ w)
  | err c =>
    simp only
    refine ⟨?_, ?_, ?_⟩
    · rw [applyUidGid_eq, (fGid_nk _ _ _).1, (fUid_nk _ _ _).1]; rfl
    · rw [applyUidGid_eq, (fGid_nk _ _ _).2, (fUid_nk _ _ _).2]; rfl
    · intro hna; exact applyUidGid_nonaltering _ _ _ _ hna
  | ok c =>
    simp only
    obtain ⟨a, b⟩ := applyUnpackFilter_ok _ _ _ _ _ hf
    refine ⟨a, ?_, fun hna => applyUnpackFilter_nonaltering _ _ _ _ _ hna hf⟩
    rcases b with b | ⟨_, b⟩
    · exact b
    · simp [defaultDirMeta, isDevKind] at b

theorem conjure_inv {σ : Type} (ops : FsOps σ) (myUid myGid : Nat) (filt : UnpackFilter) :
    ∀ (ps : List RelPath) (st : UnpackSt σ), UInv filt st → (∀ p ∈ ps, GoodName p) →
    (∀ w, conjureParents ops myUid myGid filt ps st ≠ .panic w) ∧
    (∀ st', conjureParents ops myUid myGid filt ps st = .ok st' →
      UInv filt st' ∧ (∀ p ∈ st.dirs, p ∈ st'.dirs) ∧
      (∀ m : Meta, m.kind ≠ .dir → GoodName m.name → st.pre.has m = false → st'.pre.has m = false))
  | [], st, hi, _ => by
    simp only [conjureParents]
    refine ⟨fun w h => (by cases h), fun st' h => ?_⟩
    injection h with h; subst h
    exact ⟨hi, fun p hp => hp, fun _ _ _ h => h⟩
  | p :: ps, st, hi, hps => by
    have hgp := hps p (by simp)
    have hps' : ∀ q ∈ ps, GoodName q := fun q hq => hps q (by simp [hq])
    rw [conjureParents]
    by_cases hc : st.dirs.contains p = true
    · simp only [hc, if_true]
      exact conjure_inv ops myUid myGid filt ps st hi hps'
    · simp only [hc, Bool.false_eq_true, if_false]
      by_cases hfile : st.pre.has { defaultDirMeta p with kind := .file } = true
      · simp only [hfile, if_true]
        exact ⟨fun w h => (by cases h), fun st' h => (by cases h)⟩
      simp only [hfile, Bool.false_eq_true, if_false]
      have hpn : p ∉ st.dirs := by simpa using hc
      obtain ⟨hn, hk, hsame⟩ := conjFiltered_props myUid myGid filt p
      generalize conjFiltered myUid myGid filt (defaultDirMeta p) = conj' at hn hk hsame ⊢
      cases hpl : ops.place st.fs conj' [] true with
      | mk fs' e =>
        cases e with
        | some c =>
          have hpl' : ops.1 st.fs conj' [] true = (fs', some c) := hpl
          simp only [hpl']
          exact ⟨fun w h => (by cases h), fun st' h => (by cases h)⟩
        | none =>
          have hpl' : ops.1 st.fs conj' [] true = (fs', none) := hpl
          simp only [hpl']
          have hfresh := fresh_dir_of_not_in_dirs hi p hgp hpn
          have hi1 : UInv filt { fs := fs', pre := st.pre.add (defaultDirMeta p) [], post := st.post.add conj' [], dirs := p :: st.dirs } :=
            uinv_add hi (defaultDirMeta p) conj' [] fs' (p :: st.dirs) hgp hfresh hn hk hsame
              (fun q hq => by simp [hq]) (fun _ => by simp [defaultDirMeta])
          obtain ⟨ih1, ih2⟩ := conjure_inv ops myUid myGid filt ps _ hi1 hps'
          refine ⟨ih1, fun st' h => ?_⟩
          obtain ⟨a, b, c⟩ := ih2 st' h
          refine ⟨a, fun q hq => b q (by simp [hq]), fun m hmk hmg hmf => c m hmk hmg ?_⟩
          -- the conjured key ends with `/`, a non-directory key does not
          cases hh : (st.pre.add (defaultDirMeta p) []).has m with
          | false => rfl
          | true =>
            exfalso
            have := (has_iff _ _).1 hh
            simp only [Bucket.add, List.map_append, List.mem_append, List.map_cons, List.map_nil, List.mem_singleton, mkRecord] at this
            rcases this with h1 | h1
            · rw [← has_iff, hmf] at h1; cases h1
            · exact recordName_dir_ne_nondir (defaultDirMeta p) m hmg rfl hmk h1.symm


theorem tarType_kind_ne_invalid (t : UInt8) (k : Kind) (h : tarTypeToFsType t = .kind k) : k ≠ .invalid := by
  unfold tarTypeToFsType at h
  repeat' split at h
  all_goals first
    | (injection h with h; subst h; exact fun e => by cases e)
    | cases h

theorem tarHdrToMeta_meta (h : TarHdr) (m : Meta) (e : tarHdrToMeta h = .meta_ m) :
    mustRel h.name = some m.name ∧ m.kind ≠ .invalid := by
  unfold tarHdrToMeta at e
  cases ht : tarTypeToFsType h.typeflag with
  | skip => simp [ht] at e
  | invalid =>
    simp only [ht] at e
    cases hn : mustRel h.name <;> simp [hn] at e
  | kind k =>
    simp only [ht] at e
    cases hn : mustRel h.name with
    | none => simp [hn] at e
    | some name =>
      simp only [hn] at e
      injection e with e
      subst e
      exact ⟨rfl, tarType_kind_ne_invalid _ _ ht⟩

theorem tarHdrToMeta_no_panic (h : TarHdr) : tarHdrToMeta h ≠ .panic := by
  unfold tarHdrToMeta
  cases tarTypeToFsType h.typeflag with
  | skip => simp
  | invalid => cases mustRel h.name <;> simp
  | kind k => cases mustRel h.name <;> simp

/-- canonical and not printed with a leading `..`  ⇔  canonical and the first component is not `..` -/
theorem goodName_iff_comps {cs : List Bytes} (hc : CleanComps false cs) :
    GoodName (ofComps cs) ↔ cs.head? ≠ some dd := by
  constructor
  · intro hg hh
    have hup := (goesUp_ofComps hc).2 hh
    rcases (ofComps cs).str_cases with ⟨_, e⟩ | ⟨_, _, e⟩ | ⟨_, hu, _⟩
    · have : (ofComps cs).path = [] := by assumption
      rw [(ofComps_path_nil hc).1 this] at hh; cases hh
    · rcases (C18_goesup _).1 hup with e2 | ⟨t, e2⟩
      · have := hg.2; rw [e, e2] at this; simp [hasPrefix] at this
      · have := hg.2; rw [e, ← e2] at this; simp [hasPrefix] at this
    · rw [hup] at hu; cases hu
  · intro hh
    refine ⟨⟨cs, hc, rfl⟩, ?_⟩
    have hup : (ofComps cs).goesUp = false := by
      cases hg : (ofComps cs).goesUp with
      | false => rfl
      | true => exact absurd ((goesUp_ofComps hc).1 hg) hh
    rcases (ofComps cs).str_cases with ⟨_, e⟩ | ⟨_, hu, _⟩ | ⟨_, _, e⟩
    · rw [e]; simp [hasPrefix]
    · rw [hup] at hu; cases hu
    · rw [e]; simp [hasPrefix, dot, slash]

theorem splitParent_good (p : RelPath) (hg : GoodName p) : ∀ q ∈ p.splitParent, GoodName q := by
  obtain ⟨cs, hc, rfl⟩ := hg.1
  have hh := (goodName_iff_comps hc).1 hg
  intro q hq
  rw [splitParent_ofComps hc] at hq
  obtain ⟨k, _, rfl⟩ := List.mem_map.1 hq
  have hck : CleanComps false (cs.take k) := by
    have : cs = cs.take k ++ cs.drop k := (List.take_append_drop k cs).symm
    rw [this] at hc; exact cleanComps_prefix hc
  apply (goodName_iff_comps hck).2
  intro e
  apply hh
  cases k with
  | zero => simp at e
  | succ k =>
    cases cs with
    | nil => simp at e
    | cons x xs => simpa using e


theorem entry_inv {σ : Type} (ops : FsOps σ) (myUid myGid : Nat) (filt : UnpackFilter) (h : TarHdr)
    (st : UnpackSt σ) (hi : UInv filt st) :
    (∀ w, unpackEntry ops myUid myGid filt h st ≠ .panic w) ∧
    (∀ st', unpackEntry ops myUid myGid filt h st = .ok st' → UInv filt st') := by
  unfold unpackEntry
  cases hm : tarHdrToMeta h with
  | panic => exact absurd hm (tarHdrToMeta_no_panic h)
  | skip => exact ⟨fun w e => (by cases e), fun st' e => (by injection e with e; subst e; exact hi)⟩
  | halt c => exact ⟨fun w e => (by cases e), fun st' e => (by cases e)⟩
  | meta_ fmeta =>
    simp only
    obtain ⟨hname, hkinv⟩ := tarHdrToMeta_meta h fmeta hm
    have hclean : fmeta.name.Clean := mustRel_clean _ _ hname
    by_cases hup : hasPrefix fmeta.name.str [dot, dot] = true
    · simp only [hup, if_true]
      exact ⟨fun w e => (by cases e), fun st' e => (by cases e)⟩
    · simp only [hup, Bool.false_eq_true, if_false]
      have hgood : GoodName fmeta.name := ⟨hclean, by simpa using hup⟩
      by_cases hdup : fmeta.kind ≠ .dir ∧ st.pre.has fmeta = true
      · simp only [hdup, ne_eq, not_false_eq_true, and_self, if_true]
        exact ⟨fun w e => (by cases e), fun st' e => (by cases e)⟩
      · rw [if_neg hdup]
        by_cases htwin : st.pre.has (twinOf fmeta) = true
        · simp only [htwin, if_true]
          exact ⟨fun w e => (by cases e), fun st' e => (by cases e)⟩
        simp only [htwin, Bool.false_eq_true, if_false]
        obtain ⟨cp1, cp2⟩ := conjure_inv ops myUid myGid filt fmeta.name.splitParent st hi (splitParent_good _ hgood)
        cases hcj : conjureParents ops myUid myGid filt fmeta.name.splitParent st with
        | panic w => exact absurd hcj (cp1 w)
        | err c => exact ⟨fun w e => (by cases e), fun st' e => (by cases e)⟩
        | ok st1 =>
          simp only
          obtain ⟨hi1, hdirs1, hfresh1⟩ := cp2 st1 hcj
          -- non-directories were checked against the bucket before the parents were conjured
          have hfreshND : fmeta.kind ≠ .dir → st1.pre.has fmeta = false := by
            intro hk
            apply hfresh1 fmeta hk hgood
            cases hh : st.pre.has fmeta with
            | false => rfl
            | true => exact absurd ⟨hk, hh⟩ hdup
          cases hf : applyUnpackFilter myUid myGid filt fmeta with
          | panic w => exact absurd hf (applyUnpackFilter_no_panic _ _ _ _ w)
          | err c => exact ⟨fun w e => (by cases e), fun st' e => (by cases e)⟩
          | ok filtered =>
            simp only
            obtain ⟨fn, fk⟩ := applyUnpackFilter_ok _ _ _ _ _ hf
            have fsame : filt.altering = false → filtered = fmeta := fun hna => applyUnpackFilter_nonaltering _ _ _ _ _ hna hf
            by_cases hinv : filtered.kind = .invalid
            · -- ejected by the filter: prefilter bucket only
              simp only [hinv, if_true]
              refine ⟨fun w e => (by cases e), fun st' e => ?_⟩
              injection e with e; subst e
              have hdev : isDevKind fmeta.kind = true := by
                rcases fk with fk | ⟨_, fk⟩
                · rw [hinv] at fk; exact absurd fk.symm hkinv
                · exact fk
              have hnd : fmeta.kind ≠ .dir := by
                intro e; rw [e] at hdev; simp [isDevKind] at hdev
              have halt : filt.altering = true := by
                cases ha : filt.altering with
                | true => rfl
                | false =>
                  have := fsame ha
                  rw [this] at hinv; exact absurd hinv hkinv
              exact uinv_add_pre hi1 fmeta [] hgood (hfreshND hnd) hnd halt
            · simp only [hinv, if_false]
              have fk' : filtered.kind = fmeta.kind := by
                rcases fk with fk | ⟨fk, _⟩
                · exact fk
                · exact absurd fk hinv
              by_cases hfile : fmeta.kind = .file
              · simp only [hfile, if_true]
                cases hpl : ops.place st1.fs filtered h.chash h.bodyOk with
                | mk fs' e =>
                  have hpl' : ops.1 st1.fs filtered h.chash h.bodyOk = (fs', e) := hpl
                  simp only [hpl']
                  cases e with
                  | some c => exact ⟨fun w e => (by cases e), fun st' e => (by cases e)⟩
                  | none =>
                    simp only
                    refine ⟨fun w e => (by cases e), fun st' e => ?_⟩
                    injection e with e; subst e
                    exact uinv_add hi1 fmeta filtered h.chash fs' st1.dirs hgood
                      (hfreshND (by rw [hfile]; exact fun e => by cases e)) fn fk' fsame (fun p hp => hp)
                      (fun hd => by rw [hfile] at hd; cases hd)
              · simp only [hfile, if_false]
                cases hpl : ops.place st1.fs filtered [] true with
                | mk fs' e =>
                  have hpl' : ops.1 st1.fs filtered [] true = (fs', e) := hpl
                  simp only [hpl']
                  cases e with
                  | some c => exact ⟨fun w e => (by cases e), fun st' e => (by cases e)⟩
                  | none =>
                    simp only
                    by_cases hupd : (st1.pre.has fmeta && decide (fmeta.kind = .dir)) = true
                    · rw [if_pos hupd]
                      refine ⟨fun w e => (by cases e), fun st' e => ?_⟩
                      injection e with e; subst e
                      have hd : fmeta.kind = .dir := by
                        simp only [Bool.and_eq_true, decide_eq_true_eq] at hupd; exact hupd.2
                      exact uinv_update hi1 fmeta filtered [] fs' _ hgood fn fk' fsame
                        (fun p hp => by simp [hd, hp]) (by simp [hd])
                    · rw [if_neg hupd]
                      refine ⟨fun w e => (by cases e), fun st' e => ?_⟩
                      injection e with e; subst e
                      have hfr : st1.pre.has fmeta = false := by
                        by_cases hd : fmeta.kind = .dir
                        · cases hh : st1.pre.has fmeta with
                          | false => rfl
                          | true => exact absurd (by simp [hh, hd]) hupd
                        · exact hfreshND hd
                      exact uinv_add hi1 fmeta filtered [] fs' _ hgood hfr fn fk' fsame
                        (fun p hp => by split <;> simp [hp]) (fun hd => by simp [hd])

theorem entries_inv {σ : Type} (ops : FsOps σ) (myUid myGid : Nat) (filt : UnpackFilter) :
    ∀ (hs : List TarHdr) (st : UnpackSt σ), UInv filt st →
    (∀ w, unpackEntries ops myUid myGid filt hs st ≠ .panic w) ∧
    (∀ st', unpackEntries ops myUid myGid filt hs st = .ok st' → UInv filt st')
  | [], st, hi => by
    simp only [unpackEntries]
    exact ⟨fun w e => (by cases e), fun st' e => (by injection e with e; subst e; exact hi)⟩
  | h :: hs, st, hi => by
    obtain ⟨e1, e2⟩ := entry_inv ops myUid myGid filt h st hi
    simp only [unpackEntries]
    cases he : unpackEntry ops myUid myGid filt h st with
    | panic w => exact absurd he (e1 w)
    | err c => exact ⟨fun w e => (by cases e), fun st' e => (by cases e)⟩
    | ok st1 => exact entries_inv ops myUid myGid filt hs st1 (e2 st1 he)


theorem crashes_iff (p : Panic) : p.crashes = false ↔ p.isInvalidFilesystem = true := by
  cases p <;> simp [Panic.crashes, Panic.isInvalidFilesystem]

theorem uinv_anchored {σ : Type} {filt : UnpackFilter} {st : UnpackSt σ} (hi : UInv filt st) :
    (∀ r ∈ st.pre, Anchored r) ∧ (∀ r ∈ st.post, Anchored r) :=
  ⟨fun r hr => ⟨(hi.preOk r hr).1, anchored_of_not_dotdot _ (hi.preOk r hr).2.2⟩,
   fun r hr => ⟨(hi.postOk r hr).1, anchored_of_not_dotdot _ (hi.postOk r hr).2.2⟩⟩

/-- **The tar unpack model never panics**, for every header list, stream end, filter, filesystem behaviour and hash
    function: every outcome is `ok` or an error category. -/
theorem unpackTar_never_panics {σ : Type} (H : Bytes → Bytes) (ops : FsOps σ) (myUid myGid : Nat) (filt : UnpackFilter)
    (hdrs : List TarHdr) (fin : StreamEnd) (s0 : σ) (head : Bytes) (w : String) :
    unpackTar H ops myUid myGid filt hdrs fin s0 head ≠ .panic w := by
  unfold unpackTar
  split
  · exact fun e => by cases e
  · obtain ⟨e1, e2⟩ := entries_inv ops myUid myGid filt hdrs ⟨s0, [], [], []⟩ (uinv_init filt s0)
    cases he : unpackEntries ops myUid myGid filt hdrs ⟨s0, [], [], []⟩ with
    | panic w' => exact absurd he (e1 w')
    | err c => exact fun e => by cases e
    | ok st =>
      simp only
      have hi := e2 st he
      obtain ⟨apre, apost⟩ := uinv_anchored hi
      split
      · exact fun e => by cases e
      · split
        · exact fun e => by cases e
        · rename_i hpre
          split
          · exact fun e => by cases e
          · rename_i hpost
            have nc_post : ∀ (H' : Bytes → Bytes) p, hashBucket H' st.post = .error p → p.isInvalidFilesystem = true :=
              fun H' p hp => (crashes_iff p).1 (hashBucket_no_crash H' st.post hpost hi.postNodup apost p hp)
            have nc_pre : ∀ p, hashBucket H st.pre = .error p → p.isInvalidFilesystem = true :=
              fun p hp => (crashes_iff p).1 (hashBucket_no_crash H st.pre hpre hi.preNodup apre p hp)
            cases h1 : hashBucket (fun _ => []) st.post with
            | error p =>
              simp only [nc_post _ p h1, if_true]
              exact fun e => by cases e
            | ok _ =>
              simp only
              cases hst : applySetTimes ops (repaveDirs (bucketLines st.post)) st.fs with
              | mk fs' e =>
                cases e with
                | some c => simp only; exact fun e => by cases e
                | none =>
                  simp only
                  cases h2 : hashBucket H st.pre with
                  | error p =>
                    simp only [nc_pre p h2, if_true]
                    exact fun e => by cases e
                  | ok a =>
                    cases h3 : hashBucket H st.post with
                    | error p =>
                      simp only [nc_post H p h3, if_true]
                      exact fun e => by cases e
                    | ok b =>
                      simp only
                      by_cases hna : filt.altering = false
                      · have : st.post = st.pre := hi.same hna
                        rw [this, h2] at h3
                        injection h3 with h3
                        simp [hna, h3]
                      · have : filt.altering = true := by
                          cases hh : filt.altering with
                          | true => rfl
                          | false => exact absurd hh hna
                        simp [this]

end Rio

namespace Rio

/-- the record key of "the name `p` as a non-directory" -/
def fileTwin (p : RelPath) : Meta := { defaultDirMeta p with kind := .file }

theorem has_add_mono (b : Bucket) (m x : Meta) (ch : Bytes) (h : b.has m = true) : (b.add x ch).has m = true := by
  unfold Bucket.has Bucket.add at *
  simp only [List.any_append, Bool.or_eq_true]
  exact Or.inl h

/-- **Nothing is conjured below a name that an earlier entry supplied as a non-directory**: if some parent of the
    entry is not a known directory while the bucket holds that very name as a file / symlink / device, the parent
    loop does not come back with success (it answers corrupt-ware, or an earlier parent already failed). -/
theorem conjure_not_ok {σ : Type} (ops : FsOps σ) (myUid myGid : Nat) (filt : UnpackFilter) :
    ∀ (ps : List RelPath) (st : UnpackSt σ), (∃ p ∈ ps, p ∉ st.dirs ∧ st.pre.has (fileTwin p) = true) →
      ∀ st', conjureParents ops myUid myGid filt ps st ≠ .ok st'
  | [], st, h, st' => by obtain ⟨p, hp, _⟩ := h; cases hp
  | q :: ps, st, h, st' => by
    obtain ⟨p, hp, hnd, hhas⟩ := h
    rw [conjureParents]
    by_cases hc : st.dirs.contains q = true
    · simp only [hc, if_true]
      have hpq : p ≠ q := fun e => hnd (by rw [e]; simpa using hc)
      have hp' : p ∈ ps := by
        rcases List.mem_cons.1 hp with e | e
        · exact absurd e hpq
        · exact e
      exact conjure_not_ok ops myUid myGid filt ps st ⟨p, hp', hnd, hhas⟩ st'
    · simp only [hc, Bool.false_eq_true, if_false]
      by_cases hf : st.pre.has { defaultDirMeta q with kind := .file } = true
      · simp [hf]
      · simp only [hf, Bool.false_eq_true, if_false]
        have hpq : p ≠ q := fun e => hf (by rw [← e]; exact hhas)
        have hp' : p ∈ ps := by
          rcases List.mem_cons.1 hp with e | e
          · exact absurd e hpq
          · exact e
        cases hpl : ops.place st.fs (conjFiltered myUid myGid filt (defaultDirMeta q)) [] true with
        | mk fs' e =>
          have hpl' : ops.1 st.fs (conjFiltered myUid myGid filt (defaultDirMeta q)) [] true = (fs', e) := hpl
          cases e with
          | some c => simp [hpl']
          | none =>
            simp only [hpl']
            apply conjure_not_ok ops myUid myGid filt ps _ ⟨p, hp', ?_, ?_⟩ st'
            · simp only [List.mem_cons, not_or]
              exact ⟨hpq, hnd⟩
            · exact has_add_mono _ _ _ _ hhas

end Rio
