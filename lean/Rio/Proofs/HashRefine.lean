import Rio.Spec.TreeHash
import Rio.Proofs.Bytes
import Rio.Proofs.Sort
import Rio.Proofs.HashOrder
/-!
# Refinement: the `HashBucket` stack machine computes the recursive tree hash

`scan` (Rio/Model/Hash.lean) models the iterator/visitor control flow of `fshash.HashBucket`: frames are
popped lazily, when the *next* record arrives, and frames of non-directories may linger on the stack for
as long as their name is a prefix of the following names (`trick` / `tricky`).  `specHash`
(Rio/Spec/TreeHash.lean) is the three-line recursive format.  This file proves that on well-formed
trees the machine computes the specification, for every hash function `H`.

Method: an *eager* variant `scanE` of the machine (frames are settled for the upcoming record right after
each visit), shown equal to `scan`; then mutual structural recursion over `Tree`/`Forest`.
-/
namespace Rio

/-! ## the eager machine -/

def nextName : List Record → Option Bytes
  | [] => none
  | r :: _ => some r.name

/-- settle the stack for the upcoming record (`some n`) or for the end of the list (`none`) -/
def settle (H : Bytes → Bytes) : Option Bytes → St → St
  | some n, s => popWhile H n s.frames s.accs s.fin
  | none, s => ⟨[], [], closeAll H s.frames s.accs s.fin⟩

def scanE (H : Bytes → Bytes) : List Record → Bytes → St → Except Panic Bytes
  | [], _, s => .ok s.fin
  | r :: rs, prev, s =>
    match s.frames with
    | [] => .error .countMismatch
    | top :: _ =>
      if prev = r.name then .error .repeatedPath
      else if top.name.length + 1 > r.name.length then .error .sliceBounds
      else if missingTree r.name top.name then .error .missingTree
      else scanE H rs r.name (settle H (nextName rs) (visit H r s))

theorem scan_eq_scanE (H : Bytes → Bytes) : ∀ (rs : List Record) (prev : Bytes) (s : St),
    scan H rs prev s = scanE H rs prev (settle H (nextName rs) s)
  | [], _, s => by simp [scan, scanE, settle, nextName]
  | r :: rs, prev, s => by
    simp only [scan, scanE, settle, nextName]
    cases hf : (popWhile H r.name s.frames s.accs s.fin).frames with
    | nil => rfl
    | cons top fs =>
      simp only
      split
      · rfl
      · split
        · rfl
        · split
          · rfl
          · exact scan_eq_scanE H rs r.name _

/-! ## popping -/

/-- "`name` is not a prefix of the upcoming name" (vacuous at the end of the list) -/
def NoPfxO (nx : Option Bytes) (name : Bytes) : Prop :=
  match nx with
  | some y => hasPrefix y name = false
  | none => True

theorem settle_pop_nondir (H : Bytes → Bytes) (nx : Option Bytes) (f : Frame) (fs : List Frame)
    (accs : List Bytes) (fin : Bytes) (hd : f.isDir = false) (hn : NoPfxO nx f.name) :
    settle H nx ⟨f :: fs, accs, fin⟩ = settle H nx ⟨fs, accs, fin⟩ := by
  cases nx with
  | some y =>
    simp only [NoPfxO] at hn
    simp [settle, popWhile, hn, closeFrame, hd]
  | none => simp [settle, closeAll, closeFrame, hd]

theorem settle_pop_dir (H : Bytes → Bytes) (nx : Option Bytes) (f : Frame) (fs : List Frame)
    (a : Bytes) (as : List Bytes) (fin : Bytes) (hd : f.isDir = true) (hn : NoPfxO nx f.name) :
    settle H nx ⟨f :: fs, a :: as, fin⟩ =
      settle H nx ⟨fs, (deliver (H (a ++ [cborBreak])) as fin).1, (deliver (H (a ++ [cborBreak])) as fin).2⟩ := by
  cases nx with
  | some y =>
    simp only [NoPfxO] at hn
    simp [settle, popWhile, hn, closeFrame, hd]
  | none => simp [settle, closeAll, closeFrame, hd]

theorem settle_pop_list (H : Bytes → Bytes) (nx : Option Bytes) : ∀ (L : List Frame) (fs : List Frame)
    (accs : List Bytes) (fin : Bytes), (∀ l ∈ L, l.isDir = false ∧ NoPfxO nx l.name) →
    settle H nx ⟨L ++ fs, accs, fin⟩ = settle H nx ⟨fs, accs, fin⟩
  | [], _, _, _, _ => rfl
  | l :: L, fs, accs, fin, h => by
    rw [List.cons_append, settle_pop_nondir H nx l _ accs fin (h l (by simp)).1 (h l (by simp)).2]
    exact settle_pop_list H nx L fs accs fin (fun x hx => h x (by simp [hx]))

theorem settle_stop (H : Bytes → Bytes) (y : Bytes) (f : Frame) (fs : List Frame) (accs : List Bytes) (fin : Bytes)
    (hp : hasPrefix y f.name = true) : settle H (some y) ⟨f :: fs, accs, fin⟩ = ⟨f :: fs, accs, fin⟩ := by
  simp [settle, popWhile, hp]

/-- settling a run of lingering non-directory frames that sits on a directory frame whose name is a prefix of
    the upcoming name: some of the lingerers go, the directory stays, nothing is delivered -/
theorem settle_linger (H : Bytes → Bytes) (y : Bytes) (b : Frame) (fs : List Frame) (accs : List Bytes) (fin : Bytes)
    (hb : hasPrefix y b.name = true) : ∀ (L : List Frame), (∀ l ∈ L, l.isDir = false) →
    ∃ L1, (∀ l ∈ L1, l ∈ L) ∧ settle H (some y) ⟨L ++ b :: fs, accs, fin⟩ = ⟨L1 ++ b :: fs, accs, fin⟩ ∧
      (∀ top, (L1 ++ b :: fs).head? = some top → hasPrefix y top.name = true ∧ (top ∈ L ∨ top = b))
  | [], _ => ⟨[], by simp, by simpa using settle_stop H y b fs accs fin hb, by
      intro top ht; simp at ht; subst ht; exact ⟨hb, Or.inr rfl⟩⟩
  | l :: L, h => by
    by_cases hp : hasPrefix y l.name = true
    · refine ⟨l :: L, by simp, by simpa using settle_stop H y l (L ++ b :: fs) accs fin hp, ?_⟩
      intro top ht; simp at ht; subst ht; exact ⟨hp, Or.inl (by simp)⟩
    · obtain ⟨L1, h1, h2, h3⟩ := settle_linger H y b fs accs fin hb L (fun x hx => h x (by simp [hx]))
      refine ⟨L1, fun x hx => by simp [h1 x hx], ?_, ?_⟩
      · rw [List.cons_append, settle_pop_nondir H (some y) l _ accs fin (h l (by simp)) (by simpa [NoPfxO] using hp)]
        exact h2
      · intro top ht
        obtain ⟨a, b'⟩ := h3 top ht
        exact ⟨a, b'.elim (fun m => Or.inl (by simp [m])) Or.inr⟩


/-! ## well-formed trees -/

def Tree.key : Tree → Bytes
  | .node r _ => r.name

def Tree.isDir : Tree → Bool
  | .node r _ => decide (r.m.kind = .dir)

def rootKeys : Forest → List Bytes
  | .nil => []
  | .cons t f => t.key :: rootKeys f

mutual
/-- `t` is a well-formed subtree of the directory whose bucket key is `P`: its key is `P ++ c` (plus a trailing `/`
    for a directory) for a non-empty slash-free component `c`; only directories have children; siblings are listed
    in strictly increasing key order -/
def WFT (P : Bytes) : Tree → Prop
  | .node r kids => ∃ c, c ≠ [] ∧ slash ∉ c ∧
      ((r.m.kind = .dir ∧ r.name = P ++ c ++ [slash] ∧ WFF r.name kids) ∨
       (r.m.kind ≠ .dir ∧ r.name = P ++ c ∧ kids = .nil))
def WFF (P : Bytes) : Forest → Prop
  | .nil => True
  | .cons t f => WFT P t ∧ WFF P f ∧ ∀ k ∈ rootKeys f, bytesLt t.key k = true
end

mutual
def lastKey : Tree → Bytes
  | .node r kids => lastKeyF kids r.name
def lastKeyF : Forest → Bytes → Bytes
  | .nil, d => d
  | .cons t f, _ => lastKeyF f (lastKey t)
end

/-- what a child contributes to its parent's `leaves` array -/
def contrib (H : Bytes → Bytes) (t : Tree) : Bytes :=
  match specHash H t with
  | some h => cborBytes h
  | none => []

/-- the frame a finished child leaves on the stack (a non-directory may linger; a directory is closed) -/
def tf (t : Tree) : List Frame := if t.isDir then [] else [⟨t.key, false⟩]

/-- the machine state while the children of the directory with key `P` are being walked -/
def stOf (L : List Frame) (P : Bytes) (fs : List Frame) (acc : Bytes) (accs : List Bytes) (fin : Bytes) : St :=
  ⟨L ++ ⟨P, true⟩ :: fs, acc :: accs, fin⟩

/-! ### prefix facts -/

theorem hasPrefix_append_self (a b : Bytes) : hasPrefix (a ++ b) a = true :=
  (hasPrefix_iff _ _).2 (List.prefix_append a b)

theorem hasPrefix_of_append {y a b : Bytes} (h : hasPrefix y (a ++ b) = true) : hasPrefix y a = true :=
  (hasPrefix_iff _ _).2 ((List.prefix_append a b).trans ((hasPrefix_iff _ _).1 h))

theorem noPfxO_append {nx : Option Bytes} {a : Bytes} (b : Bytes) (h : NoPfxO nx a) : NoPfxO nx (a ++ b) := by
  cases nx with
  | none => trivial
  | some y =>
    simp only [NoPfxO] at h ⊢
    cases hh : hasPrefix y (a ++ b) with
    | false => rfl
    | true => rw [hasPrefix_of_append hh] at h; cases h

/-- the two run-time checks of `NextChild` pass for a frame `T` (the parent directory `P`, or a lingering sibling
    `P ++ c'`) that is a proper prefix of the upcoming key `P ++ X`, `X` slash-free except possibly at its end -/
theorem checks_pass (k T P X c' : Bytes) (hk : k = P ++ X) (hX : slash ∉ X.dropLast) (hT : T = P ++ c')
    (hp : hasPrefix k T = true) (hne : T ≠ k) :
    ¬ (T.length + 1 > k.length) ∧ missingTree k T = false := by
  obtain ⟨rem, hrem⟩ := (hasPrefix_iff _ _).1 hp
  have hr0 : rem ≠ [] := by
    intro e; apply hne; rw [← hrem, e]; simp
  have hX' : X = c' ++ rem := by
    have : P ++ X = P ++ (c' ++ rem) := by rw [← hk, ← hrem, hT]; simp
    exact List.append_cancel_left this
  constructor
  · rw [← hrem]; simp
    cases rem with
    | nil => exact absurd rfl hr0
    | cons x xs => simp
  · unfold missingTree
    have hd : k.drop T.length = rem := by rw [← hrem]; simp
    rw [hd]
    have : X.dropLast = c' ++ rem.dropLast := by rw [hX', List.dropLast_append_of_ne_nil hr0]
    rw [this] at hX
    simp only [List.mem_append, not_or] at hX
    simpa using hX.2

/-- a directory's key is not a prefix of a different sibling key -/
theorem dir_not_prefix (P c X : Bytes) (hX : slash ∉ X.dropLast) (hne : P ++ c ++ [slash] ≠ P ++ X) :
    hasPrefix (P ++ X) (P ++ c ++ [slash]) = false := by
  cases hh : hasPrefix (P ++ X) (P ++ c ++ [slash]) with
  | false => rfl
  | true =>
    exfalso
    obtain ⟨rem, hrem⟩ := (hasPrefix_iff _ _).1 hh
    have hX' : X = c ++ [slash] ++ rem := by
      have : P ++ X = P ++ (c ++ [slash] ++ rem) := by rw [← hrem]; simp
      exact List.append_cancel_left this
    by_cases hr : rem = []
    · apply hne; rw [hX', hr]; simp
    · rw [hX', List.dropLast_append_of_ne_nil hr] at hX
      apply hX; simp


theorem hasPrefix_refl (a : Bytes) : hasPrefix a a = true := (hasPrefix_iff _ _).2 (List.prefix_refl a)

theorem hasPrefix_trans {a b c : Bytes} (h1 : hasPrefix a b = true) (h2 : hasPrefix b c = true) :
    hasPrefix a c = true :=
  (hasPrefix_iff _ _).2 (((hasPrefix_iff _ _).1 h2).trans ((hasPrefix_iff _ _).1 h1))

/-- shape of a well-formed tree's key -/
theorem WFT.key_shape {P : Bytes} : ∀ {t : Tree}, WFT P t →
    ∃ X, t.key = P ++ X ∧ X ≠ [] ∧ slash ∉ X.dropLast ∧ (t.isDir = true → ∃ c, X = c ++ [slash])
  | .node r kids, h => by
    unfold WFT at h
    obtain ⟨c, hc0, hcs, h⟩ := h
    rcases h with ⟨hk, hn, _⟩ | ⟨hk, hn, _⟩
    · refine ⟨c ++ [slash], by simp [Tree.key, hn], by simp, by simpa using hcs, fun _ => ⟨c, rfl⟩⟩
    · refine ⟨c, by simp [Tree.key, hn], hc0, ?_, ?_⟩
      · intro hm; exact hcs (List.dropLast_subset c hm)
      · intro hd; simp [Tree.isDir, hk] at hd

theorem WFT.key_prefix {P : Bytes} {t : Tree} (h : WFT P t) : hasPrefix t.key P = true := by
  obtain ⟨X, hx, _⟩ := h.key_shape
  rw [hx]; exact hasPrefix_append_self P X

theorem WFT.key_ne {P : Bytes} {t : Tree} (h : WFT P t) : P ≠ t.key := by
  obtain ⟨X, hx, hx0, _⟩ := h.key_shape
  intro e
  rw [hx] at e
  have := congrArg List.length e
  simp only [List.length_append] at this
  exact hx0 (List.eq_nil_of_length_eq_zero (by omega))

mutual
theorem lastKey_prefix : ∀ (t : Tree) (P : Bytes), WFT P t → hasPrefix (lastKey t) t.key = true
  | .node r kids, P, h => by
    unfold WFT at h
    obtain ⟨c, _, _, h⟩ := h
    rcases h with ⟨_, _, hk⟩ | ⟨_, _, hk⟩
    · simp only [lastKey, Tree.key]
      exact lastKeyF_prefix kids r.name r.name hk (hasPrefix_refl _)
    · subst hk
      simp [lastKey, lastKeyF, Tree.key, hasPrefix_refl]
theorem lastKeyF_prefix : ∀ (f : Forest) (P d : Bytes), WFF P f → hasPrefix d P = true →
    hasPrefix (lastKeyF f d) P = true
  | .nil, _, _, _, hd => by simpa [lastKeyF] using hd
  | .cons t f, P, d, h, _ => by
    unfold WFF at h
    simp only [lastKeyF]
    exact lastKeyF_prefix f P (lastKey t) h.2.1 (hasPrefix_trans (lastKey_prefix t P h.1) h.1.key_prefix)
end


/-! ## the refinement, by mutual recursion over trees and forests -/

/-- visiting a non-directory: its frame goes on top, and its contribution (a file's hash; nothing for any other
    kind) reaches the open directory -/
theorem visit_nondir (H : Bytes → Bytes) (r : Record) (fr : List Frame) (acc : Bytes) (accs : List Bytes) (fin : Bytes)
    (hk : r.m.kind ≠ .dir) :
    visit H r ⟨fr, acc :: accs, fin⟩ = ⟨⟨r.name, false⟩ :: fr, (acc ++ contrib H (.node r .nil)) :: accs, fin⟩ := by
  cases hkk : r.m.kind <;> first
    | exact absurd hkk hk
    | simp [visit, hkk, contrib, specHash, nodeOpen, deliver, List.append_assoc]

theorem visit_dir (H : Bytes → Bytes) (r : Record) (fr : List Frame) (accs : List Bytes) (fin : Bytes)
    (hk : r.m.kind = .dir) :
    visit H r ⟨fr, accs, fin⟩ = ⟨⟨r.name, true⟩ :: fr, nodeOpen r :: accs, fin⟩ := by
  simp [visit, hk]

theorem contrib_dir (H : Bytes → Bytes) (r : Record) (kids : Forest) (hk : r.m.kind = .dir) :
    contrib H (.node r kids) = cborBytes (H ((nodeOpen r ++ specKids H kids) ++ [cborBreak])) := by
  simp [contrib, specHash, hk, nodeOpen, List.append_assoc]

theorem specKids_cons (H : Bytes → Bytes) (t : Tree) (f : Forest) :
    specKids H (Forest.cons t f) = contrib H t ++ specKids H f := by
  rw [specKids]; unfold contrib
  cases specHash H t <;> rfl

theorem flatten_head : ∀ (t : Tree), ∃ r more, flatten t = r :: more ∧ r.name = t.key
  | .node r k => ⟨r, flattenF k, by simp [flatten], rfl⟩

theorem flattenF_cons_head (t : Tree) (f : Forest) (rest : List Record) :
    ∃ r more, flattenF (Forest.cons t f) ++ rest = r :: more ∧ r.name = t.key := by
  obtain ⟨r, more, h1, h2⟩ := flatten_head t
  exact ⟨r, more ++ flattenF f ++ rest, by simp [flattenF, h1], h2⟩

mutual
theorem scanT (H : Bytes → Bytes) : ∀ (t : Tree) (P : Bytes) (L fs : List Frame) (acc : Bytes) (accs : List Bytes)
    (fin : Bytes) (rest : List Record) (prev : Bytes),
    WFT P t →
    (∀ l ∈ L, l.isDir = false ∧ (∃ c', l.name = P ++ c') ∧ l.name ≠ t.key) →
    prev ≠ t.key →
    (t.isDir = true → NoPfxO (nextName rest) t.key) →
    ∃ L1, (∀ l ∈ L1, l ∈ L) ∧
      scanE H (flatten t ++ rest) prev (settle H (some t.key) (stOf L P fs acc accs fin))
      = scanE H rest (lastKey t) (settle H (nextName rest) (stOf (tf t ++ L1) P fs (acc ++ contrib H t) accs fin))
  | .node r kids, P, L, fs, acc, accs, fin, rest, prev, hwf, hL, hprev, hnx => by
    obtain ⟨X, hkx, hx0, hxs, hxd⟩ := hwf.key_shape
    have hkne := hwf.key_ne
    simp only [Tree.key] at hkx hL hprev hnx hkne
    obtain ⟨L1, hL1, hset, htop⟩ := settle_linger H r.name ⟨P, true⟩ fs (acc :: accs) fin
      (by rw [hkx]; exact hasPrefix_append_self P X) L (fun l hl => (hL l hl).1)
    refine ⟨L1, hL1, ?_⟩
    obtain ⟨top, tl, hfr⟩ : ∃ top tl, L1 ++ (⟨P, true⟩ : Frame) :: fs = top :: tl := by
      cases L1 with
      | nil => exact ⟨_, _, rfl⟩
      | cons a b => exact ⟨a, b ++ (⟨P, true⟩ : Frame) :: fs, rfl⟩
    obtain ⟨htp, htm⟩ := htop top (by rw [hfr]; rfl)
    have hchk : ¬ (top.name.length + 1 > r.name.length) ∧ missingTree r.name top.name = false := by
      rcases htm with hm | rfl
      · obtain ⟨_, ⟨c', hc'⟩, hne⟩ := hL top hm
        exact checks_pass r.name top.name P X c' hkx hxs hc' htp hne
      · exact checks_pass r.name P P X [] hkx hxs (by simp) htp hkne
    have hstep : ∀ (more : List Record),
        scanE H (r :: more) prev ⟨L1 ++ (⟨P, true⟩ : Frame) :: fs, acc :: accs, fin⟩ =
        scanE H more r.name (settle H (nextName more) (visit H r ⟨L1 ++ (⟨P, true⟩ : Frame) :: fs, acc :: accs, fin⟩)) := by
      intro more
      rw [hfr]
      simp [scanE, hprev, hchk.1, hchk.2]
    simp only [Tree.key, stOf, flatten, List.cons_append]
    rw [hset, hstep]
    have hwf' := hwf
    unfold WFT at hwf'
    obtain ⟨c, hc0, hcs, hcase⟩ := hwf'
    rcases hcase with ⟨hk, hn, hkids⟩ | ⟨hk, hn, hkids⟩
    · -- a directory
      have hdir : (Tree.node r kids).isDir = true := by simp [Tree.isDir, hk]
      have hnx' := hnx hdir
      rw [visit_dir H r _ _ _ hk]
      -- walk the children
      have hprevK : ∀ k, (rootKeys kids).head? = some k → r.name ≠ k := by
        intro k hk'
        cases kids with
        | nil => simp [rootKeys] at hk'
        | cons t2 f2 =>
          simp only [rootKeys, List.head?_cons, Option.some.injEq] at hk'
          unfold WFF at hkids
          rw [← hk']; exact hkids.1.key_ne
      obtain ⟨L', hL', heq⟩ := scanF H kids r.name [] (L1 ++ (⟨P, true⟩ : Frame) :: fs) (nodeOpen r) (acc :: accs) fin rest r.name
        hkids (by simp) hprevK hnx'
      simp only [stOf, List.nil_append] at heq
      rw [heq]
      -- close the lingering children and the directory itself
      have hpopL : ∀ l ∈ L', l.isDir = false ∧ NoPfxO (nextName rest) l.name := by
        intro l hl
        obtain ⟨a, c', hc'⟩ := hL' l hl
        exact ⟨a, by rw [hc']; exact noPfxO_append c' hnx'⟩
      rw [settle_pop_list H (nextName rest) L' _ _ _ hpopL,
        settle_pop_dir H (nextName rest) ⟨r.name, true⟩ _ _ _ _ rfl hnx']
      simp only [lastKey, tf, hdir, if_true, List.nil_append, deliver, contrib_dir H r kids hk]
    · -- anything else: no children
      subst hkids
      have hnd : (Tree.node r Forest.nil).isDir = false := by simp [Tree.isDir, hk]
      rw [visit_nondir H r _ _ _ _ hk]
      simp [flattenF, lastKey, lastKeyF, tf, hnd, Tree.key]
theorem scanF (H : Bytes → Bytes) : ∀ (f : Forest) (P : Bytes) (L fs : List Frame) (acc : Bytes) (accs : List Bytes)
    (fin : Bytes) (rest : List Record) (prev : Bytes),
    WFF P f →
    (∀ l ∈ L, l.isDir = false ∧ (∃ c', l.name = P ++ c') ∧ ∀ k ∈ rootKeys f, l.name ≠ k) →
    (∀ k, (rootKeys f).head? = some k → prev ≠ k) →
    NoPfxO (nextName rest) P →
    ∃ L', (∀ l ∈ L', l.isDir = false ∧ ∃ c', l.name = P ++ c') ∧
      scanE H (flattenF f ++ rest) prev (settle H (nextName (flattenF f ++ rest)) (stOf L P fs acc accs fin))
      = scanE H rest (lastKeyF f prev) (settle H (nextName rest) (stOf L' P fs (acc ++ specKids H f) accs fin))
  | .nil, P, L, fs, acc, accs, fin, rest, prev, _, hL, _, _ => by
    refine ⟨L, fun l hl => ⟨(hL l hl).1, (hL l hl).2.1⟩, ?_⟩
    simp [flattenF, lastKeyF, specKids]
  | .cons t f, P, L, fs, acc, accs, fin, rest, prev, hwf, hL, hprev, hnx => by
    unfold WFF at hwf
    obtain ⟨hwt, hwf', hsorted⟩ := hwf
    have hne_t : ∀ k ∈ rootKeys f, t.key ≠ k := by
      intro k hk e
      have := hsorted k hk
      rw [e, bytesLt_irrefl] at this; cases this
    -- the tree `t`
    have hnxT : t.isDir = true → NoPfxO (nextName (flattenF f ++ rest)) t.key := by
      intro hd
      obtain ⟨X, hkx, _, _, hxd⟩ := hwt.key_shape
      obtain ⟨c, hc⟩ := hxd hd
      cases f with
      | nil =>
        simp only [flattenF, List.nil_append]
        rw [hkx]; exact noPfxO_append X hnx
      | cons t2 f2 =>
        unfold WFF at hwf'
        obtain ⟨X2, hkx2, _, hxs2, _⟩ := hwf'.1.key_shape
        obtain ⟨r2, more, hfl, hr2⟩ := flattenF_cons_head t2 f2 rest
        rw [hfl]
        simp only [nextName, NoPfxO, hr2, hkx2, hkx, hc]
        rw [← List.append_assoc]
        apply dir_not_prefix P c X2 hxs2
        rw [List.append_assoc, ← hc, ← hkx, ← hkx2]
        exact hne_t t2.key (by simp [rootKeys])
    obtain ⟨L1, hL1, heqT⟩ := scanT H t P L fs acc accs fin (flattenF f ++ rest) prev hwt
      (fun l hl => ⟨(hL l hl).1, (hL l hl).2.1, (hL l hl).2.2 t.key (by simp [rootKeys])⟩)
      (hprev t.key (by simp [rootKeys])) hnxT
    obtain ⟨r0, more0, hfl0, hr0⟩ := flatten_head t
    have hnn : nextName (flattenF (Forest.cons t f) ++ rest) = some t.key := by
      simp [flattenF, hfl0, nextName, hr0]
    rw [hnn]
    have hassoc : flattenF (Forest.cons t f) ++ rest = flatten t ++ (flattenF f ++ rest) := by
      simp [flattenF, List.append_assoc]
    rw [hassoc, heqT]
    -- the remaining siblings
    have hL2 : ∀ l ∈ tf t ++ L1, l.isDir = false ∧ (∃ c', l.name = P ++ c') ∧ ∀ k ∈ rootKeys f, l.name ≠ k := by
      intro l hl
      simp only [List.mem_append] at hl
      rcases hl with hl | hl
      · unfold tf at hl
        split at hl
        · simp at hl
        · simp only [List.mem_singleton] at hl
          subst hl
          obtain ⟨X, hkx, _⟩ := hwt.key_shape
          exact ⟨rfl, ⟨X, hkx⟩, hne_t⟩
      · have := hL l (hL1 l hl)
        exact ⟨this.1, this.2.1, fun k hk => this.2.2 k (by simp [rootKeys, hk])⟩
    have hprev2 : ∀ k, (rootKeys f).head? = some k → lastKey t ≠ k := by
      intro k hk e
      have hkm : k ∈ rootKeys f := List.mem_of_mem_head? (by rw [hk]; rfl)
      cases hd : t.isDir with
      | false =>
        -- no children: lastKey t = t.key
        have : lastKey t = t.key := by
          cases t with
          | node r kk =>
            unfold WFT at hwt
            obtain ⟨c, _, _, hcase⟩ := hwt
            rcases hcase with ⟨hk1, _, _⟩ | ⟨_, _, hk3⟩
            · simp [Tree.isDir, hk1] at hd
            · subst hk3; simp [lastKey, lastKeyF, Tree.key]
        rw [this] at e
        exact hne_t k hkm e
      | true =>
        -- t.key is a prefix of lastKey t but not of the sibling key
        have h1 := lastKey_prefix t P hwt
        rw [e] at h1
        cases f with
        | nil => simp [rootKeys] at hkm
        | cons t2 f2 =>
          simp only [rootKeys, List.head?_cons, Option.some.injEq] at hk
          have := hnxT hd
          obtain ⟨r2, more, hfl, hr2⟩ := flattenF_cons_head t2 f2 rest
          rw [hfl] at this
          simp only [nextName, NoPfxO, hr2, hk] at this
          rw [h1] at this; cases this
    obtain ⟨L', hL', heqF⟩ := scanF H f P (tf t ++ L1) fs (acc ++ contrib H t) accs fin rest (lastKey t) hwf' hL2 hprev2 hnx
    refine ⟨L', hL', ?_⟩
    rw [heqF, specKids_cons, List.append_assoc]
    simp [lastKeyF]
end


/-! ## from the root -/

/-- a well-formed fileset tree: the root record carries the root name; a directory root has the bucket key `./`
    and well-formed children below it; any other root has no children -/
def WFRoot : Tree → Prop
  | .node r kids => r.m.name = ⟨[], 0⟩ ∧
      ((r.m.kind = .dir ∧ r.name = [dot, slash] ∧ WFF r.name kids) ∨ (r.m.kind ≠ .dir ∧ kids = .nil))

/-- **The walk computes the specification.** -/
theorem scan_root (H : Bytes → Bytes) : ∀ (t : Tree), WFRoot t → ∃ r0 rs, flatten t = r0 :: rs ∧
    r0.m.name = ⟨[], 0⟩ ∧ scan H rs r0.name (visit H r0 ⟨[], [], []⟩) = .ok (specId H t)
  | .node r kids, hwf => by
    refine ⟨r, flattenF kids, by simp [flatten], hwf.1, ?_⟩
    rcases hwf.2 with ⟨hk, hn, hkids⟩ | ⟨hk, hkids⟩
    · rw [visit_dir H r _ _ _ hk, scan_eq_scanE]
      have hprev : ∀ k, (rootKeys kids).head? = some k → r.name ≠ k := by
        intro k hk'
        cases kids with
        | nil => simp [rootKeys] at hk'
        | cons t2 f2 =>
          simp only [rootKeys, List.head?_cons, Option.some.injEq] at hk'
          unfold WFF at hkids
          rw [← hk']; exact hkids.1.key_ne
      obtain ⟨L', hL', heq⟩ := scanF H kids r.name [] [] (nodeOpen r) [] [] [] r.name hkids (by simp) hprev trivial
      simp only [stOf, List.nil_append, List.append_nil] at heq
      rw [heq]
      have hpopL : ∀ l ∈ L', l.isDir = false ∧ NoPfxO (nextName ([] : List Record)) l.name :=
        fun l hl => ⟨(hL' l hl).1, trivial⟩
      rw [settle_pop_list H (nextName ([] : List Record)) L' _ _ _ hpopL,
        settle_pop_dir H (nextName ([] : List Record)) ⟨r.name, true⟩ _ _ _ _ rfl (by simp [nextName, NoPfxO])]
      simp [scanE, settle, nextName, closeAll, deliver, specId, specHash, hk, nodeOpen, List.append_assoc]
    · subst hkids
      cases hkk : r.m.kind <;> first
        | exact absurd hkk hk
        | simp [flattenF, scan, visit, hkk, closeAll, closeFrame, deliver, specId, specHash, nodeOpen, List.append_assoc]


/-! ## the pre-order listing of a well-formed tree is sorted by key -/

theorem bytesLt_proper_prefix (a b : Bytes) (hb : b ≠ []) : bytesLt a (a ++ b) = true := by
  induction a with
  | nil =>
    cases b with
    | nil => exact absurd rfl hb
    | cons x xs => simp [bytesLt]
  | cons x xs ih => simp [bytesLt, UInt8.lt_irrefl, ih]

theorem bytesLt_append_right {a b : Bytes} (v : Bytes) (h : bytesLt a b = true) : bytesLt a (b ++ v) = true := by
  induction a generalizing b with
  | nil =>
    cases b with
    | nil => simp [bytesLt] at h
    | cons y ys => simp [bytesLt]
  | cons x xs ih =>
    cases b with
    | nil => simp [bytesLt] at h
    | cons y ys =>
      simp only [bytesLt, List.cons_append] at h ⊢
      by_cases hxy : x < y
      · simp [hxy]
      · by_cases hyx : y < x
        · simp [hxy, hyx] at h
        · simp only [hxy, hyx, if_false] at h ⊢
          exact ih h

theorem bytesLt_append_both {a b : Bytes} (u v : Bytes) (h : bytesLt a b = true) (hp : hasPrefix b a = false) :
    bytesLt (a ++ u) (b ++ v) = true := by
  induction a generalizing b with
  | nil => simp [hasPrefix] at hp
  | cons x xs ih =>
    cases b with
    | nil => simp [bytesLt] at h
    | cons y ys =>
      simp only [bytesLt, List.cons_append] at h ⊢
      by_cases hxy : x < y
      · simp [hxy]
      · by_cases hyx : y < x
        · simp [hxy, hyx] at h
        · simp only [hxy, hyx, if_false] at h ⊢
          have hxe : x = y := UInt8.le_antisymm (UInt8.not_lt.1 hyx) (UInt8.not_lt.1 hxy)
          subst hxe
          simp only [hasPrefix, beq_self_eq_true, Bool.true_and] at hp
          exact ih h hp

/-- strictly increasing keys, pairwise -/
def Srt : List Record → Prop
  | [] => True
  | r :: rs => (∀ x ∈ rs, bytesLt r.name x.name = true) ∧ Srt rs

theorem Srt_append {a b : List Record} (ha : Srt a) (hb : Srt b)
    (hab : ∀ x ∈ a, ∀ y ∈ b, bytesLt x.name y.name = true) : Srt (a ++ b) := by
  induction a with
  | nil => simpa using hb
  | cons x xs ih =>
    simp only [Srt, List.cons_append] at ha ⊢
    refine ⟨?_, ih ha.2 (fun p hp => hab p (by simp [hp]))⟩
    intro z hz
    simp only [List.mem_append] at hz
    rcases hz with hz | hz
    · exact ha.1 z hz
    · exact hab x (by simp) z hz

theorem sortBy_of_Srt : ∀ (l : List Record), Srt l → sortBy (·.name) l = l
  | [], _ => rfl
  | [x], _ => by simp [sortBy, insertBy]
  | x :: y :: rest, h => by
    simp only [Srt] at h
    have ih := sortBy_of_Srt (y :: rest) h.2
    simp only [sortBy] at ih ⊢
    rw [ih]
    simp [insertBy, h.1 y (by simp)]

theorem nodup_of_Srt : ∀ (l : List Record), Srt l → (l.map (·.name)).Nodup
  | [], _ => by simp
  | x :: xs, h => by
    simp only [Srt] at h
    simp only [List.map_cons, List.nodup_cons, List.mem_map, not_exists, not_and]
    refine ⟨?_, nodup_of_Srt xs h.2⟩
    intro y hy e
    have := h.1 y hy
    rw [e, bytesLt_irrefl] at this; cases this

mutual
theorem sortedT : ∀ (t : Tree) (P : Bytes), WFT P t →
    Srt (flatten t) ∧ ∀ x ∈ flatten t, ∃ u, x.name = t.key ++ u ∧ (t.isDir = false → u = [])
  | .node r kids, P, hwf => by
    have hwf' := hwf
    unfold WFT at hwf'
    obtain ⟨c, hc0, hcs, hcase⟩ := hwf'
    rcases hcase with ⟨hk, hn, hkids⟩ | ⟨hk, hn, hkids⟩
    · obtain ⟨hs, hp⟩ := sortedF kids r.name hkids
      simp only [flatten, Srt, Tree.key, List.mem_cons]
      refine ⟨⟨?_, hs⟩, ?_⟩
      · intro x hx
        obtain ⟨u, hu, hu0⟩ := hp x hx
        rw [hu]; exact bytesLt_proper_prefix r.name u hu0
      · intro x hx
        rcases hx with rfl | hx
        · exact ⟨[], by simp, fun _ => rfl⟩
        · obtain ⟨u, hu, _⟩ := hp x hx
          exact ⟨u, hu, fun hd => by simp [Tree.isDir, hk] at hd⟩
    · subst hkids
      simp only [flatten, flattenF, Srt, Tree.key, List.mem_singleton]
      exact ⟨⟨by simp, trivial⟩, fun x hx => ⟨[], by simp [hx], fun _ => rfl⟩⟩
theorem sortedF : ∀ (f : Forest) (P : Bytes), WFF P f →
    Srt (flattenF f) ∧ ∀ x ∈ flattenF f, ∃ u, x.name = P ++ u ∧ u ≠ []
  | .nil, _, _ => by simp [flattenF, Srt]
  | .cons t f, P, hwf => by
    unfold WFF at hwf
    obtain ⟨hwt, hwf', hsorted⟩ := hwf
    obtain ⟨hs1, hp1⟩ := sortedT t P hwt
    obtain ⟨hs2, hp2⟩ := sortedF f P hwf'
    obtain ⟨X, hkx, hx0, hxs, hxd⟩ := hwt.key_shape
    simp only [flattenF]
    refine ⟨Srt_append hs1 hs2 ?_, ?_⟩
    · intro a ha b hb
      obtain ⟨u, hu, hu0⟩ := hp1 a ha
      -- b lies in the subtree of a later sibling with key k
      obtain ⟨k, hk, v, hv⟩ := memF_key f P hwf' b hb
      have hlt := hsorted k hk
      rw [hu, hv]
      cases hd : t.isDir with
      | false => rw [hu0 hd, List.append_nil]; exact bytesLt_append_right v hlt
      | true =>
        obtain ⟨c, hc⟩ := hxd hd
        obtain ⟨X2, hk2, _, hxs2⟩ := rootKey_shape f P hwf' k hk
        apply bytesLt_append_both u v hlt
        rw [hkx, hc, hk2, ← List.append_assoc]
        apply dir_not_prefix P c X2 hxs2
        rw [List.append_assoc, ← hc, ← hkx, ← hk2]
        intro e
        rw [e, bytesLt_irrefl] at hlt; cases hlt
    · intro x hx
      simp only [List.mem_append] at hx
      rcases hx with hx | hx
      · obtain ⟨u, hu, _⟩ := hp1 x hx
        refine ⟨X ++ u, by rw [hu, hkx]; simp, by simp [hx0]⟩
      · exact hp2 x hx
/-- every record of a well-formed forest lies in the subtree of one of its roots -/
theorem memF_key : ∀ (f : Forest) (P : Bytes), WFF P f → ∀ x ∈ flattenF f, ∃ k ∈ rootKeys f, ∃ v, x.name = k ++ v
  | .nil, _, _ => by simp [flattenF]
  | .cons t f, P, hwf => by
    unfold WFF at hwf
    intro x hx
    simp only [flattenF, List.mem_append] at hx
    rcases hx with hx | hx
    · obtain ⟨u, hu, _⟩ := (sortedT t P hwf.1).2 x hx
      exact ⟨t.key, by simp [rootKeys], u, hu⟩
    · obtain ⟨k, hk, v, hv⟩ := memF_key f P hwf.2.1 x hx
      exact ⟨k, by simp [rootKeys, hk], v, hv⟩
theorem rootKey_shape : ∀ (f : Forest) (P : Bytes), WFF P f → ∀ k ∈ rootKeys f,
    ∃ X, k = P ++ X ∧ X ≠ [] ∧ slash ∉ X.dropLast
  | .nil, _, _ => by simp [rootKeys]
  | .cons t f, P, hwf => by
    unfold WFF at hwf
    intro k hk
    simp only [rootKeys, List.mem_cons] at hk
    rcases hk with rfl | hk
    · obtain ⟨X, h1, h2, h3, _⟩ := hwf.1.key_shape
      exact ⟨X, h1, h2, h3⟩
    · exact rootKey_shape f P hwf.2.1 k hk
end


theorem srt_root : ∀ (t : Tree), WFRoot t → Srt (flatten t)
  | .node r kids, hwf => by
    rcases hwf.2 with ⟨_, _, hkids⟩ | ⟨_, hkids⟩
    · obtain ⟨hs, hp⟩ := sortedF kids r.name hkids
      simp only [flatten, Srt]
      refine ⟨?_, hs⟩
      intro x hx
      obtain ⟨u, hu, hu0⟩ := hp x hx
      rw [hu]; exact bytesLt_proper_prefix r.name u hu0
    · subst hkids; simp [flatten, flattenF, Srt]

/-- `HashBucket` over the pre-order listing of a well-formed tree returns the specified tree hash -/
theorem hashBucket_flatten (H : Bytes → Bytes) (t : Tree) (hwf : WFRoot t) :
    hashBucket H (flatten t) = .ok (specId H t) := by
  have hs := srt_root t hwf
  have hn := nodup_of_Srt _ hs
  obtain ⟨r0, rs, hfl, hroot, hscan⟩ := scan_root H t hwf
  unfold hashBucket
  rw [bucketLines_nodup _ hn]
  unfold sortRecs
  rw [sortBy_of_Srt _ hs, hfl]
  simp only [hroot, ne_eq, not_true_eq_false, if_false, hscan]
  rw [← hfl, distinctCount_nodup _ hn, List.length_map, hfl]
  simp

/-- … and so does any permutation of it (any walk order, readdir order or archive entry order) -/
theorem hashBucket_refines (H : Bytes → Bytes) (t : Tree) (hwf : WFRoot t) (recs : List Record)
    (hp : recs.Perm (flatten t)) : hashBucket H recs = .ok (specId H t) := by
  have hs := srt_root t hwf
  have hn2 := nodup_of_Srt _ hs
  have hn : (recs.map (·.name)).Nodup := (hp.map (·.name)).nodup_iff.2 hn2
  have hc : distinctCount (recs.map (·.name)) = distinctCount ((flatten t).map (·.name)) := by
    rw [distinctCount_nodup _ hn, distinctCount_nodup _ hn2, List.length_map, List.length_map, hp.length_eq]
  rw [← hashBucket_flatten H t hwf]
  unfold hashBucket
  rw [bucketLines_nodup recs hn, bucketLines_nodup _ hn2, hc]
  unfold sortRecs
  rw [sortBy_perm_eq (·.name) hp hn]

end Rio
