import Rio.Proofs.ListingOfTree
/-!
# In a fileset whose siblings have distinct names, no path is both a directory and something else

`LWFF` orders siblings by their *sort key* (`a` for a file, `a/` for a directory), which lets a file `a` and a directory
`a` stand side by side: no file system holds that.  `LDistF` adds what a directory really guarantees — the component
names below one directory are pairwise distinct — and this file derives the `hpaths` hypothesis of
`scan_of_pack_fileset` from it.
-/
namespace Rio

def LForest.comps : LForest → List Bytes
  | .nil => []
  | .cons t f => t.comp :: f.comps

mutual
/-- component names below each directory are pairwise distinct -/
def LDist : LTree → Prop
  | .node _ _ _ kids => LDistF kids
def LDistF : LForest → Prop
  | .nil => True
  | .cons t f => LDist t ∧ LDistF f ∧ ∀ c ∈ f.comps, c ≠ t.comp
end

mutual
/-- the component paths of the nodes, in `flatten` order -/
def compsOf (pre : List Bytes) : LTree → List (List Bytes)
  | .node c _ _ kids => (pre ++ [c]) :: compsOfF (pre ++ [c]) kids
def compsOfF (pre : List Bytes) : LForest → List (List Bytes)
  | .nil => []
  | .cons t f => compsOf pre t ++ compsOfF pre f
end

mutual
theorem names_eq_comps : ∀ (t : LTree) (pre : List Bytes),
    (flatten (toTree pre t)).map (fun r => r.m.name) = (compsOf pre t).map ofComps
  | .node c m ch kids, pre => by
    simp only [toTree, flatten, compsOf, List.map_cons, mkRecord]
    rw [namesF_eq_comps kids (pre ++ [c])]
theorem namesF_eq_comps : ∀ (f : LForest) (pre : List Bytes),
    (flattenF (toForest pre f)).map (fun r => r.m.name) = (compsOfF pre f).map ofComps
  | .nil, _ => by simp [toForest, flattenF, compsOfF]
  | .cons t f, pre => by
    simp only [toForest, flattenF, compsOfF, List.map_append]
    rw [names_eq_comps t pre, namesF_eq_comps f pre]
end

mutual
theorem compsOf_shape : ∀ (t : LTree) (pre : List Bytes) (p : List Bytes), p ∈ compsOf pre t → ∃ rest, p = pre ++ t.comp :: rest
  | .node c m ch kids, pre, p, hp => by
    simp only [compsOf, List.mem_cons] at hp
    rcases hp with rfl | hp
    · exact ⟨[], by simp [LTree.comp]⟩
    · obtain ⟨c', _, rest, rfl⟩ := compsOfF_shape kids (pre ++ [c]) p hp
      exact ⟨c' :: rest, by simp [LTree.comp]⟩
theorem compsOfF_shape : ∀ (f : LForest) (pre : List Bytes) (p : List Bytes), p ∈ compsOfF pre f →
    ∃ c ∈ f.comps, ∃ rest, p = pre ++ c :: rest
  | .nil, _, p, hp => by simp [compsOfF] at hp
  | .cons t f, pre, p, hp => by
    simp only [compsOfF, List.mem_append] at hp
    rcases hp with hp | hp
    · obtain ⟨rest, h⟩ := compsOf_shape t pre p hp
      exact ⟨t.comp, by simp [LForest.comps], rest, h⟩
    · obtain ⟨c, hc, rest, h⟩ := compsOfF_shape f pre p hp
      exact ⟨c, by simp [LForest.comps, hc], rest, h⟩
end

mutual
theorem compsOf_normal : ∀ (t : LTree) (pre : List Bytes), (∀ x ∈ pre, Normal x) → LWF t →
    ∀ p ∈ compsOf pre t, ∀ x ∈ p, Normal x
  | .node c m ch kids, pre, hpre, hwf, p, hp => by
    unfold LWF at hwf
    have hall : ∀ x ∈ pre ++ [c], Normal x := by
      intro x hx; simp only [List.mem_append, List.mem_singleton] at hx
      rcases hx with hx | rfl
      · exact hpre x hx
      · exact hwf.1
    simp only [compsOf, List.mem_cons] at hp
    rcases hp with rfl | hp
    · exact hall
    · exact compsOfF_normal kids (pre ++ [c]) hall hwf.2.2 p hp
theorem compsOfF_normal : ∀ (f : LForest) (pre : List Bytes), (∀ x ∈ pre, Normal x) → LWFF f →
    ∀ p ∈ compsOfF pre f, ∀ x ∈ p, Normal x
  | .nil, _, _, _, p, hp => by simp [compsOfF] at hp
  | .cons t f, pre, hpre, hwf, p, hp => by
    unfold LWFF at hwf
    simp only [compsOfF, List.mem_append] at hp
    rcases hp with hp | hp
    · exact compsOf_normal t pre hpre hwf.1 p hp
    · exact compsOfF_normal f pre hpre hwf.2.1 p hp
end

mutual
/-- **every path once** -/
theorem compsOf_nodup : ∀ (t : LTree) (pre : List Bytes), LDist t → (compsOf pre t).Nodup
  | .node c m ch kids, pre, hd => by
    unfold LDist at hd
    simp only [compsOf, List.nodup_cons]
    refine ⟨?_, compsOfF_nodup kids (pre ++ [c]) hd⟩
    intro hmem
    obtain ⟨c', _, rest, h⟩ := compsOfF_shape kids (pre ++ [c]) _ hmem
    have := congrArg List.length h
    simp at this
theorem compsOfF_nodup : ∀ (f : LForest) (pre : List Bytes), LDistF f → (compsOfF pre f).Nodup
  | .nil, _, _ => by simp [compsOfF]
  | .cons t f, pre, hd => by
    unfold LDistF at hd
    simp only [compsOfF]
    rw [List.nodup_append]
    refine ⟨compsOf_nodup t pre hd.1, compsOfF_nodup f pre hd.2.1, ?_⟩
    intro a ha b hb hab
    subst hab
    obtain ⟨r1, h1⟩ := compsOf_shape t pre a ha
    obtain ⟨c, hc, r2, h2⟩ := compsOfF_shape f pre a hb
    rw [h1] at h2
    have := List.append_cancel_left h2
    injection this with h3 _
    exact hd.2.2 c hc h3.symm
end

/-- every record of the flattened tree is `mkRecord` of its own metadata, whose name is `ofComps` of a normal component path -/
theorem flatten_root_names (m : Meta) (ch : Bytes) (kids : LForest) :
    (flatten (toRoot m ch kids)).map (fun r => r.m.name) = ([] :: compsOfF [] kids).map ofComps := by
  simp only [toRoot, flatten, List.map_cons, mkRecord]
  rw [namesF_eq_comps kids []]

theorem recordName_twin_ne (a b : Meta) (ca cb : List Bytes) (ha : a.name = ofComps ca) (hb : b.name = ofComps cb)
    (hca : CleanComps false ca) (hcb : CleanComps false cb) (h : recordName b = recordName (twinOf a)) :
    b.name = a.name ∧ (b.kind = .dir ↔ a.kind ≠ .dir) := by
  unfold recordName twinOf at h
  by_cases hka : a.kind = .dir <;> by_cases hkb : b.kind = .dir <;> simp only [hka, hkb, if_true, if_false] at h
  · -- both directories: b.str ++ "/" = a.str
    simp at h
    exact absurd h.symm (by rw [ha]; exact str_no_trailing_slash hca _)
  · simp at h
    refine ⟨?_, by simp [hka, hkb]⟩
    have h1 : mustRel a.name.str = some a.name := by rw [ha]; exact mustRel_str hca
    have h2 : mustRel b.name.str = some b.name := by rw [hb]; exact mustRel_str hcb
    rw [h, h1] at h2
    exact (Option.some.inj h2).symm
  · simp at h
    refine ⟨?_, by simp [hka, hkb]⟩
    have h1 : mustRel a.name.str = some a.name := by rw [ha]; exact mustRel_str hca
    have h2 : mustRel b.name.str = some b.name := by rw [hb]; exact mustRel_str hcb
    rw [h, h1] at h2
    exact (Option.some.inj h2).symm
  · exact absurd h (by rw [hb]; exact str_no_trailing_slash hcb _)

theorem nodup_map_on {α β : Type} (f : α → β) : ∀ (l : List α), l.Nodup →
    (∀ a ∈ l, ∀ b ∈ l, f a = f b → a = b) → (l.map f).Nodup
  | [], _, _ => by simp
  | x :: xs, hn, hinj => by
    rw [List.nodup_cons] at hn
    rw [List.map_cons, List.nodup_cons]
    refine ⟨?_, nodup_map_on f xs hn.2 (fun a ha b hb => hinj a (List.mem_cons_of_mem _ ha) b (List.mem_cons_of_mem _ hb))⟩
    intro hmem
    obtain ⟨y, hy, hye⟩ := List.mem_map.1 hmem
    have := hinj y (List.mem_cons_of_mem _ hy) x List.mem_cons_self hye
    subst this
    exact hn.1 hy

mutual
theorem flatten_names_ok : ∀ (t : LTree) (pre : List Bytes), ∀ r ∈ flatten (toTree pre t), r.name = recordName r.m
  | .node c m ch kids, pre, r, hr => by
    simp only [toTree, flatten, List.mem_cons] at hr
    rcases hr with rfl | hr
    · rfl
    · exact flattenF_names_ok kids (pre ++ [c]) r hr
theorem flattenF_names_ok : ∀ (f : LForest) (pre : List Bytes), ∀ r ∈ flattenF (toForest pre f), r.name = recordName r.m
  | .nil, _, r, hr => by simp [toForest, flattenF] at hr
  | .cons t f, pre, r, hr => by
    simp only [toForest, flattenF, List.mem_append] at hr
    rcases hr with hr | hr
    · exact flatten_names_ok t pre r hr
    · exact flattenF_names_ok f pre r hr
end

/-- **`hpaths` holds for every fileset whose directories hold each name once** -/
theorem hpaths_of_distinct (m : Meta) (ch : Bytes) (kids : LForest)
    (hshape : (m.kind = .dir ∧ LWFF kids) ∨ (m.kind ≠ .dir ∧ kids = .nil)) (hd : LDistF kids) :
    ∀ r ∈ flatten (toRoot m ch kids), ∀ r' ∈ flatten (toRoot m ch kids), r'.name ≠ recordName (twinOf r.m) := by
  have hwfk : LWFF kids := by
    rcases hshape with ⟨_, h⟩ | ⟨_, h⟩
    · exact h
    · subst h; unfold LWFF; trivial
  have hnames := flatten_root_names m ch kids
  have hP : ∀ p ∈ ([] :: compsOfF [] kids), CleanComps false p := by
    intro p hp
    rcases List.mem_cons.1 hp with rfl | hp
    · exact cleanComps_nil false
    · exact allNormal_clean' (compsOfF_normal kids [] (by simp) hwfk p hp)
  have hnd : ([] :: compsOfF [] kids).Nodup := by
    rw [List.nodup_cons]
    refine ⟨?_, compsOfF_nodup kids [] hd⟩
    intro hmem
    obtain ⟨c, _, rest, h⟩ := compsOfF_shape kids [] _ hmem
    simp at h
  have hndm : (([] :: compsOfF [] kids).map ofComps).Nodup := by
    apply nodup_map_on ofComps _ hnd
    intro a ha b hb hab
    exact ofComps_inj (hP a ha) (hP b hb) hab
  have hndn : ((flatten (toRoot m ch kids)).map (fun r => r.m.name)).Nodup := by rw [hnames]; exact hndm
  have hcomps : ∀ r ∈ flatten (toRoot m ch kids), ∃ p, CleanComps false p ∧ r.m.name = ofComps p := by
    intro r hr
    have : r.m.name ∈ (flatten (toRoot m ch kids)).map (fun r => r.m.name) := List.mem_map.2 ⟨r, hr, rfl⟩
    rw [hnames] at this
    obtain ⟨p, hp, hpe⟩ := List.mem_map.1 this
    exact ⟨p, hP p hp, hpe.symm⟩
  have hnameok : ∀ r ∈ flatten (toRoot m ch kids), r.name = recordName r.m := by
    intro r hr
    simp only [toRoot, flatten, List.mem_cons] at hr
    rcases hr with rfl | hr
    · rfl
    · exact flattenF_names_ok kids [] r hr
  intro r hr r' hr' h
  obtain ⟨p, hpc, hpe⟩ := hcomps r hr
  obtain ⟨p', hpc', hpe'⟩ := hcomps r' hr'
  rw [hnameok r' hr'] at h
  obtain ⟨hn, hk⟩ := recordName_twin_ne r.m r'.m p p' hpe hpe' hpc hpc' h
  have := inj_of_nodup_map (fun r => r.m.name) _ hndn hr' hr hn
  subst this
  by_cases hkd : r'.m.kind = .dir
  · exact (hk.1 hkd) hkd
  · exact hkd (hk.2 hkd)

end Rio
