import Rio.Proofs.HashRefine
import Rio.Props.C18
/-!
# Real filesets give well-formed trees

A fileset is a tree of entries named by path *components*; the records `AddRecord` files for it carry the names
`MustRelPath` builds (`ofComps` of the component path) and the keys `recordName` derives from them.  This file
shows that those records form a `WFRoot` tree — the hypothesis of `C05_refine` / `C04_impl_inj_or_collision` —
provided components are normal (`Normal`: non-empty, no `/`, not `.` or `..`), only directories have children and
siblings are listed in key order.
-/
namespace Rio

mutual
inductive LTree where
  | node (c : Bytes) (m : Meta) (chash : Bytes) (kids : LForest)
inductive LForest where
  | nil
  | cons (t : LTree) (f : LForest)
end

/-- the bucket key of the entry at component path `cs` -/
def keyOf (cs : List Bytes) (isDir : Bool) : Bytes :=
  if isDir then (ofComps cs).str ++ [slash] else (ofComps cs).str

mutual
/-- the records of a logical tree below the component path `pre` -/
def toTree (pre : List Bytes) : LTree → Tree
  | .node c m ch kids =>
    .node (mkRecord { m with name := ofComps (pre ++ [c]) } ch) (toForest (pre ++ [c]) kids)
def toForest (pre : List Bytes) : LForest → Forest
  | .nil => .nil
  | .cons t f => .cons (toTree pre t) (toForest pre f)
end

def LTree.comp : LTree → Bytes
  | .node c _ _ _ => c
def LTree.isDir : LTree → Bool
  | .node _ m _ _ => decide (m.kind = .dir)
/-- sibling sort key: the component, with a trailing `/` for directories -/
def LTree.skey : LTree → Bytes
  | .node c m _ _ => if m.kind = .dir then c ++ [slash] else c
def LForest.skeys : LForest → List Bytes
  | .nil => []
  | .cons t f => t.skey :: f.skeys

mutual
/-- components normal, only directories have children, siblings strictly increasing by sort key -/
def LWF : LTree → Prop
  | .node c m _ kids => Normal c ∧ (m.kind ≠ .dir → kids = .nil) ∧ LWFF kids
def LWFF : LForest → Prop
  | .nil => True
  | .cons t f => LWF t ∧ LWFF f ∧ ∀ k ∈ f.skeys, bytesLt t.skey k = true
end

theorem str_ofComps_normal {cs : List Bytes} (h : ∀ c ∈ cs, Normal c) (h0 : cs ≠ []) :
    (ofComps cs).str = dot :: slash :: joinWith slash cs := by
  have hc : CleanComps false cs := ⟨[], cs, by simp, by simp, h, by simp⟩
  have hup : (ofComps cs).goesUp = false := by
    cases hg : (ofComps cs).goesUp with
    | false => rfl
    | true =>
      have := (goesUp_ofComps hc).1 hg
      cases cs with
      | nil => exact absurd rfl h0
      | cons x xs =>
        simp only [List.head?_cons, Option.some.injEq] at this
        exact absurd (this ▸ h x (by simp)) dd_not_normal
  rcases (ofComps cs).str_cases with ⟨e, _⟩ | ⟨_, hu, _⟩ | ⟨_, _, e⟩
  · exact absurd ((ofComps_path_nil hc).1 e) h0
  · rw [hup] at hu; cases hu
  · rw [e, ofComps_path h0]

/-- the key of a child is the key of its parent directory followed by the child's component -/
theorem keyOf_child (pre : List Bytes) (c : Bytes) (hpre : ∀ x ∈ pre, Normal x) (hc : Normal c) (isDir : Bool) :
    keyOf (pre ++ [c]) isDir = keyOf pre true ++ c ++ (if isDir then [slash] else []) := by
  have hall : ∀ x ∈ pre ++ [c], Normal x := by
    intro x hx; simp only [List.mem_append, List.mem_singleton] at hx
    rcases hx with hx | rfl
    · exact hpre x hx
    · exact hc
  have hs := str_ofComps_normal hall (by simp)
  by_cases h0 : pre = []
  · subst h0
    have hroot : (ofComps ([] : List Bytes)).str = [dot] := by simp [ofComps, RelPath.str]
    simp only [List.nil_append, joinWith] at hs
    cases isDir <;> simp [keyOf, hs, hroot]
  · have hp := str_ofComps_normal hpre h0
    have hj := joinWith_append slash pre [c] h0 (by simp)
    simp only [joinWith] at hj
    cases isDir <;> simp [keyOf, hs, hp, hj]

theorem bytesLt_append_left (p : Bytes) {a b : Bytes} (h : bytesLt a b = true) : bytesLt (p ++ a) (p ++ b) = true := by
  induction p with
  | nil => simpa using h
  | cons x xs ih => simp [bytesLt, UInt8.lt_irrefl, ih]

mutual
theorem toTree_wf : ∀ (t : LTree) (pre : List Bytes), (∀ x ∈ pre, Normal x) → LWF t →
    WFT (keyOf pre true) (toTree pre t) ∧ (toTree pre t).key = keyOf pre true ++ t.skey
  | .node c m ch kids, pre, hpre, hwf => by
    unfold LWF at hwf
    obtain ⟨hc, hnk, hkids⟩ := hwf
    have hall : ∀ x ∈ pre ++ [c], Normal x := by
      intro x hx; simp only [List.mem_append, List.mem_singleton] at hx
      rcases hx with hx | rfl
      · exact hpre x hx
      · exact hc
    by_cases hd : m.kind = .dir
    · have hk : (mkRecord { m with name := ofComps (pre ++ [c]) } ch).name = keyOf pre true ++ c ++ [slash] := by
        have := keyOf_child pre c hpre hc true
        simp only [if_true] at this
        rw [← this]; simp [mkRecord, recordName, hd, keyOf]
      constructor
      · unfold toTree WFT
        refine ⟨c, hc.1, hc.2.2.2, Or.inl ⟨hd, hk, ?_⟩⟩
        rw [hk]
        have := toForest_wf kids (pre ++ [c]) hall hkids
        have hke : keyOf (pre ++ [c]) true = keyOf pre true ++ c ++ [slash] := by
          have := keyOf_child pre c hpre hc true; simpa using this
        rw [← hke]; exact this
      · simp only [toTree, Tree.key]
        rw [hk]; simp [LTree.skey, hd]
    · have hk : (mkRecord { m with name := ofComps (pre ++ [c]) } ch).name = keyOf pre true ++ c := by
        have := keyOf_child pre c hpre hc false
        simp only [Bool.false_eq_true, if_false, List.append_nil] at this
        rw [← this]; simp [mkRecord, recordName, hd, keyOf]
      have hkn := hnk hd
      subst hkn
      constructor
      · unfold toTree WFT
        exact ⟨c, hc.1, hc.2.2.2, Or.inr ⟨hd, hk, by simp [toForest]⟩⟩
      · simp only [toTree, Tree.key]
        rw [hk]; simp [LTree.skey, hd]
theorem toForest_wf : ∀ (f : LForest) (pre : List Bytes), (∀ x ∈ pre, Normal x) → LWFF f →
    WFF (keyOf pre true) (toForest pre f)
  | .nil, _, _, _ => by unfold toForest WFF; trivial
  | .cons t f, pre, hpre, hwf => by
    unfold LWFF at hwf
    obtain ⟨ht, hf, hs⟩ := hwf
    unfold toForest WFF
    refine ⟨(toTree_wf t pre hpre ht).1, toForest_wf f pre hpre hf, ?_⟩
    intro k hk
    obtain ⟨sk, hsk, rfl⟩ := rootKeys_toForest f pre hpre hf k hk
    rw [(toTree_wf t pre hpre ht).2]
    exact bytesLt_append_left _ (hs sk hsk)
theorem rootKeys_toForest : ∀ (f : LForest) (pre : List Bytes), (∀ x ∈ pre, Normal x) → LWFF f →
    ∀ k ∈ rootKeys (toForest pre f), ∃ sk ∈ f.skeys, k = keyOf pre true ++ sk
  | .nil, _, _, _ => by simp [toForest, rootKeys]
  | .cons t f, pre, hpre, hwf => by
    unfold LWFF at hwf
    intro k hk
    simp only [toForest, rootKeys, List.mem_cons] at hk
    rcases hk with rfl | hk
    · exact ⟨t.skey, by simp [LForest.skeys], (toTree_wf t pre hpre hwf.1).2⟩
    · obtain ⟨sk, hsk, e⟩ := rootKeys_toForest f pre hpre hwf.2.1 k hk
      exact ⟨sk, by simp [LForest.skeys, hsk], e⟩
end


/-- the records of a whole fileset: root metadata `m` (content hash `ch` if the root is a file) and the entries below -/
def toRoot (m : Meta) (ch : Bytes) (kids : LForest) : Tree :=
  .node (mkRecord { m with name := ofComps [] } ch) (toForest [] kids)

theorem toRoot_wf (m : Meta) (ch : Bytes) (kids : LForest)
    (h : (m.kind = .dir ∧ LWFF kids) ∨ (m.kind ≠ .dir ∧ kids = .nil)) : WFRoot (toRoot m ch kids) := by
  unfold toRoot WFRoot
  refine ⟨by simp [mkRecord, ofComps], ?_⟩
  rcases h with ⟨hd, hk⟩ | ⟨hd, hk⟩
  · left
    have hkey : (mkRecord { m with name := ofComps [] } ch).name = [dot, slash] := by
      simp [mkRecord, recordName, hd, ofComps, RelPath.str]
    refine ⟨by simp [mkRecord, hd], hkey, ?_⟩
    rw [hkey]
    have := toForest_wf kids [] (by simp) hk
    have hk0 : keyOf [] true = [dot, slash] := by simp [keyOf, ofComps, RelPath.str]
    rw [hk0] at this; exact this
  · right
    subst hk
    exact ⟨by simpa [mkRecord] using hd, by simp [toForest]⟩

end Rio
