import Rio.Model.Hash
import Rio.Proofs.Sort
/-! With distinct bucket keys, `bucketLines` is just the sorted record list, hence independent of
    the order in which records were added. -/
namespace Rio

theorem distinctCount_nodup (ns : List Bytes) (h : ns.Nodup) : distinctCount ns = ns.length := by
  induction ns with
  | nil => rfl
  | cons n ns ih =>
    have ⟨h1, h2⟩ := List.nodup_cons.1 h
    simp [distinctCount, h1, ih h2]

theorem inj_of_nodup_map {α β : Type} (f : α → β) (l : List α) (h : (l.map f).Nodup)
    {a b : α} (ha : a ∈ l) (hb : b ∈ l) (e : f a = f b) : a = b := by
  induction l with
  | nil => cases ha
  | cons x xs ih =>
    simp only [List.map_cons, List.nodup_cons, List.mem_map, not_exists, not_and] at h
    rcases List.mem_cons.1 ha with rfl | ha' <;> rcases List.mem_cons.1 hb with rfl | hb'
    · rfl
    · exact absurd e.symm (h.1 b hb')
    · exact absurd e (h.1 a ha')
    · exact ih h.2 ha' hb'

theorem latestRec_of_mem (recs : List Record) (hn : (recs.map (·.name)).Nodup) {r : Record}
    (hr : r ∈ recs) : latestRec recs r.name = some r := by
  unfold latestRec
  cases hf : recs.reverse.find? (fun x => decide (x.name = r.name)) with
  | none =>
    have := List.find?_eq_none.1 hf r (List.mem_reverse.2 hr)
    simp at this
  | some x =>
    have hx : x ∈ recs := List.mem_reverse.1 (List.mem_of_find?_eq_some hf)
    have hp : x.name = r.name := by simpa using List.find?_some hf
    rw [inj_of_nodup_map (·.name) recs hn hx hr hp]

theorem bucketLines_nodup (recs : List Record) (hn : (recs.map (·.name)).Nodup) :
    bucketLines recs = sortRecs recs := by
  unfold bucketLines
  have hk : distinctCount (recs.map (·.name)) = recs.length := by
    rw [distinctCount_nodup _ hn, List.length_map]
  simp only [hk, List.take_length, List.drop_length, List.append_nil]
  have hall : ∀ r ∈ sortRecs recs, latestRec recs r.name = some r := fun r hr =>
    latestRec_of_mem recs hn ((perm_sortBy (fun r : Record => r.name) recs).mem_iff.1 hr)
  generalize sortRecs recs = l at hall
  induction l with
  | nil => rfl
  | cons x xs ih =>
    simp only [List.filterMap_cons, hall x List.mem_cons_self]
    rw [ih (fun r hr => hall r (List.mem_cons_of_mem _ hr))]

end Rio
