import Rio.Model.ZipHdr
/-!
# zip owner blocks: the parser never indexes out of range, and reads back what the packer wrote
-/
namespace Rio

theorem le16At_some {b : Bytes} {i : Nat} (h : i + 2 ≤ b.length) : ∃ v, le16At b i = some v := by
  unfold le16At; rw [if_pos h]; exact ⟨_, rfl⟩

theorem le32At_some {b : Bytes} {i : Nat} (h : i + 4 ≤ b.length) : ∃ v, le32At b i = some v := by
  unfold le32At; rw [if_pos h]; exact ⟨_, rfl⟩

theorem parseUnix3_no_panic (hdr : Bytes) : parseUnix3 hdr ≠ .panic := by
  unfold parseUnix3
  split
  · intro e; cases e
  · rename_i hlen
    simp only
    split
    · intro e; cases e
    · rename_i hsz
      have hsz' : (hdr.getD 1 0).toNat = 2 ∨ (hdr.getD 1 0).toNat = 4 := by omega
      have huid : ∃ v, (if (hdr.getD 1 0).toNat = 2 then le16At hdr 2 else le32At hdr 2) = some v := by
        split
        · exact le16At_some (by omega)
        · exact le32At_some (by omega)
      obtain ⟨uid, hu⟩ := huid
      rw [hu]
      simp only [orPanic]
      rw [if_pos (by omega)]
      split
      · intro e; cases e
      · rename_i hl2
        split
        · rename_i hg
          obtain ⟨g, hg'⟩ := le16At_some (b := hdr) (i := 3 + (hdr.getD 1 0).toNat) (by omega)
          rw [hg']; intro e; cases e
        · split
          · rename_i hg
            obtain ⟨g, hg'⟩ := le32At_some (b := hdr) (i := 3 + (hdr.getD 1 0).toNat) (by omega)
            rw [hg']; intro e; cases e
          · intro e; cases e

theorem parseUnix2_no_panic (hdr : Bytes) : parseUnix2 hdr ≠ .panic := by
  unfold parseUnix2
  split
  · intro e; cases e
  · rename_i hlen
    obtain ⟨u, hu⟩ := le16At_some (b := hdr) (i := 0) (by omega)
    obtain ⟨g, hg⟩ := le16At_some (b := hdr) (i := 2) (by omega)
    rw [hu, hg]
    simp only [orPanic]
    intro e; cases e

theorem parseExtraFrom_no_panic (extra : Bytes) : ∀ (fuel i : Nat) (acc : List (Nat × Bytes)),
    parseExtraFrom extra fuel i acc ≠ .panic
  | 0, _, _ => by simp [parseExtraFrom]
  | fuel + 1, i, acc => by
    rw [parseExtraFrom]
    split
    · rename_i hi
      obtain ⟨a, ha⟩ := le16At_some (b := extra) (i := i) (by omega)
      obtain ⟨l, hl⟩ := le16At_some (b := extra) (i := i + 2) (by omega)
      rw [ha, hl]
      simp only
      split
      · intro e; cases e
      · exact parseExtraFrom_no_panic extra fuel _ _
    · intro e; cases e

/-- **The owner parser of a zip entry never indexes out of range**, whatever bytes the extra field holds. -/
theorem zipOwnership_never_panics (extra : Bytes) : zipOwnership extra ≠ .panic := by
  unfold zipOwnership
  have := parseExtraFrom_no_panic extra (extra.length + 1) 0 []
  unfold parseExtra
  cases h : parseExtraFrom extra (extra.length + 1) 0 [] with
  | corrupt => intro e; cases e
  | panic => exact absurd h this
  | ok bs =>
    simp only
    split
    · exact parseUnix3_no_panic _
    · split
      · split
        · intro e; cases e
        · exact parseUnix2_no_panic _
      · intro e; cases e

/-! ## what the packer writes is read back -/

theorem u8_ofNat_mod (v : Nat) : (UInt8.ofNat (v % 256)).toNat = v % 256 := by
  simp [UInt8.toNat_ofNat']

theorem le32_recompose (v : Nat) (h : v < 2 ^ 32) :
    v % 256 + 256 * (v / 256 % 256) + 65536 * (v / 65536 % 256) + 16777216 * (v / 16777216 % 256) = v := by
  omega

theorem parseUnix3_written (uid gid : Nat) (hu : uid < 2 ^ 32) (hg : gid < 2 ^ 32) :
    parseUnix3 ([1, 4] ++ le32Bytes uid ++ [4] ++ le32Bytes gid) = .ok uid gid := by
  simp [parseUnix3, le32Bytes, le32At, le16At, orPanic, u8_ofNat_mod]
  constructor
  · have := le32_recompose uid hu; omega
  · have := le32_recompose gid hg; omega

end Rio

namespace Rio

theorem le16_recompose (v : Nat) (h : v < 65536) : v % 256 + 256 * (v / 256 % 256) = v := by omega

/-- **Owner round trip through the zip header**: the extra field `MetadataToZipHdr` writes for any 32-bit uid and gid
    (a Unix2 block when both fit 16 bits, then a Unix3 block) is read back by `zipFileOwnership` as exactly that pair. -/
theorem zipOwnership_written (uid gid : Nat) (hu : uid < 2 ^ 32) (hg : gid < 2 ^ 32) :
    zipOwnership (ownerExtra uid gid) = .ok uid gid := by
  have h3 := parseUnix3_written uid gid hu hg
  unfold ownerExtra unix2Extra
  split
  · simp [zipOwnership, parseExtra, parseExtraFrom, unix3Extra, le16Bytes, le32Bytes, le16At, lookupLast] at h3 ⊢
    simpa [le32Bytes] using h3
  · simp [zipOwnership, parseExtra, parseExtraFrom, unix3Extra, le16Bytes, le32Bytes, le16At, lookupLast] at h3 ⊢
    simpa [le32Bytes] using h3

end Rio

namespace Rio

/-- **A unix2-only extra field (Info-ZIP `zip -X`-era archives: block 0x7855 with a four-byte data section) is read
    as its 16-bit uid and gid** — the statement `fix:` c3ebb55 made true: before it `parseUnix2Header` demanded eight
    bytes and every such archive was refused as corrupt. -/
theorem zipOwnership_unix2_only (uid gid : Nat) (hu : uid < 65536) (hg : gid < 65536) :
    zipOwnership (unix2Extra uid gid) = .ok uid gid := by
  have hu' := le16_recompose uid hu
  have hg' := le16_recompose gid hg
  simp [unix2Extra, hu, hg, zipOwnership, parseExtra, parseExtraFrom, le16Bytes, le16At, lookupLast, parseUnix2, orPanic,
    u8_ofNat_mod]
  omega

/-- and a unix2 block cut short of its four data bytes is refused, never a panic -/
theorem parseUnix2_short (hdr : Bytes) (h : hdr.length < 4) : parseUnix2 hdr = .corrupt := by
  simp [parseUnix2, h]

/-- … except the *empty* one, which is the central-directory form Info-ZIP 2.x writes (the ids are in the local header
    only): it says nothing about the owner, and the entry gets the default owner like one without any owner block -/
theorem zipOwnership_unix2_central_form : zipOwnership [0x55, 0x78, 0, 0] = .ok 1000 1000 ∧ zipOwnership [] = .ok 1000 1000 := by
  decide

end Rio
