import Rio.Model.DevModes
/-! `devSplit ∘ devJoin = id` on 12-bit majors and 20-bit minors (what `mknod` then `lstat` round-trips). -/
namespace Rio

theorem and_ff (x : Nat) : x &&& 0xff = x % 256 := by
  have := Nat.and_two_pow_sub_one_eq_mod x 8
  simpa using this

theorem and_fff (x : Nat) : x &&& 0xfff = x % 4096 := by
  have := Nat.and_two_pow_sub_one_eq_mod x 12
  simpa using this

theorem and_fff00 (x : Nat) : x &&& 0xfff00 = (x / 256 % 4096) * 256 := by
  apply Nat.eq_of_testBit_eq
  intro i
  have hm : (0xfff00 : Nat) = (2^12 - 1) <<< 8 := by decide
  rw [hm, Nat.testBit_and, Nat.testBit_shiftLeft, Nat.testBit_two_pow_sub_one]
  have : (x / 256 % 4096) * 256 = (x / 2^8 % 2^12) <<< 8 := by simp [Nat.shiftLeft_eq]
  rw [this, Nat.testBit_shiftLeft, Nat.testBit_mod_two_pow, Nat.testBit_div_two_pow]
  by_cases h : 8 ≤ i
  · simp [h]
    by_cases h2 : i - 8 < 12
    · simp [h2]
    · simp [h2]
  · simp [h]

/-- `(h <<< k) ||| l = h * 2^k + l` for `l < 2^k` -/
theorem shl_or (h l k : Nat) (hl : l < 2 ^ k) : (h <<< k) ||| l = h * 2 ^ k + l := by
  rw [← Nat.shiftLeft_add_eq_or_of_lt hl, Nat.shiftLeft_eq]

theorem dev_hi (b major a : Nat) (hb : b < 4096) (hM : major < 4096) (ha : a < 256) :
    ((b * 1048576 + major * 256 + a) / 4096) / 256 % 4096 * 256 = b * 256 := by
  have e1 : (b * 1048576 + major * 256 + a) / 4096 = b * 256 + major / 16 := by omega
  rw [e1]
  have hq : major / 16 < 256 := by omega
  generalize major / 16 = q at hq ⊢
  have e2 : (b * 256 + q) / 256 = b := by
    rw [Nat.mul_comm, Nat.mul_add_div (by decide : 0 < 256), Nat.div_eq_of_lt hq, Nat.add_zero]
  have e3 : b % 4096 = b := Nat.mod_eq_of_lt hb
  rw [e2, e3]

theorem dev_mid (b major a : Nat) (hM : major < 4096) (ha : a < 256) :
    ((b * 1048576 + major * 256 + a) / 256) % 4096 = major := by
  have e1 : (b * 1048576 + major * 256 + a) / 256 = b * 4096 + major := by omega
  rw [e1]; omega

/-- **Device numbers survive `mknod` + `lstat`**: splitting the joined number gives back major and minor. -/
theorem dev_roundtrip (major minor : Nat) (h1 : major < 4096) (h2 : minor < 2 ^ 20) :
    devSplit (devJoin major minor) = (major, minor) := by
  simp only [Nat.reducePow] at h2
  have hj : devJoin major minor = (minor / 256) * 1048576 + major * 256 + minor % 256 := by
    unfold devJoin
    rw [and_fff00, and_fff, and_ff]
    have e1 : (minor / 256 % 4096 * 256) <<< 12 = (minor / 256) <<< 20 := by
      simp only [Nat.shiftLeft_eq, Nat.reducePow]; omega
    have e2 : major % 4096 = major := Nat.mod_eq_of_lt h1
    rw [e1, e2, Nat.or_assoc, shl_or major (minor % 256) 8 (by simp only [Nat.reducePow]; omega),
      shl_or (minor / 256) (major * 2 ^ 8 + minor % 256) 20 (by simp only [Nat.reducePow]; omega)]
    simp only [Nat.reducePow]
    omega
  unfold devSplit
  rw [hj, and_fff, and_ff, and_fff00]
  simp only [Nat.shiftRight_eq_div_pow, Nat.reducePow]
  generalize hb : minor / 256 = b
  generalize ha : minor % 256 = a
  have hb4 : b < 4096 := by omega
  have ha8 : a < 256 := by omega
  have hmin : minor = 256 * b + a := by omega
  have hm := dev_mid b major a h1 ha8
  have hlo : (b * 1048576 + major * 256 + a) % 256 = a := by omega
  have hhi := dev_hi b major a hb4 h1 ha8
  rw [hm, hlo, hhi, Nat.or_comm]
  have : b * 256 ||| a = b * 256 + a := by
    have hlt : a < 2 ^ 8 := by simp only [Nat.reducePow]; exact ha8
    have := shl_or b a 8 hlt
    simp only [Nat.shiftLeft_eq, Nat.reducePow] at this
    exact this
  rw [this, hmin]
  rw [Nat.mul_comm b 256]

end Rio
