import Rio.Model.Path
namespace Rio.Driver
open Rio

def showRel (p : RelPath) : String := s!"{toHex p.path},{p.lastSplit}"
def showAbs (p : AbsPath) : String := s!"{toHex p.path},{p.lastSplit}"
def showRels (ps : List RelPath) : String := ";".intercalate (ps.map showRel)
private def b01 (b : Bool) : String := if b then "1" else "0"

def pathEngine : List String → String
  | ["clean", h] => match fromHex h with
    | some s => toHex (goClean s)
    | none => "bad-op"
  | ["rel", h] => match fromHex h with
    | some s => match mustRel s with
      | none => "panic"
      | some p => s!"p={showRel p} str={toHex p.str} dir={showRel p.dir} last={toHex p.last} up={b01 p.goesUp} split={showRels p.split} sp={showRels p.splitParent}"
    | none => "bad-op"
  | ["join", a, b] => match fromHex a, fromHex b with
    | some a, some b => match mustRel a, mustRel b with
      | some p, some q => showRel (p.join q)
      | _, _ => "panic"
    | _, _ => "bad-op"
  | ["joinraw", a, b] => -- second operand is the raw struct {name, -1} as fs.Walk builds it
    match fromHex a, fromHex b with
    | some a, some b => match mustRel a with
      | some p => showRel (p.join ⟨b, -1⟩)
      | none => "panic"
    | _, _ => "bad-op"
  | ["abs", h] => match fromHex h with
    | some s => match parseAbs s with
      | none => "err"
      | some p => s!"p={showAbs p} str={toHex p.str} dir={showAbs p.dir} last={toHex p.last} rel={match p.coerceRelative with | some r => showRel r | none => "panic"}"
    | none => "bad-op"
  | ["absjoin", a, b] => match fromHex a, fromHex b with
    | some a, some b => match parseAbs a, mustRel b with
      | some p, some q => showAbs (p.join q)
      | none, _ => "err"
      | _, none => "panic"
    | _, _ => "bad-op"
  | _ => "bad-op"

end Rio.Driver
