import Rio.Model.Hash
import Rio.Model.Sha
import Rio.Spec.TreeHash
namespace Rio.Driver
open Rio

def b01 (b : Bool) : String := if b then "1" else "0"

def kindOfTok : String → Option Kind
  | "f" => some .file | "d" => some .dir | "L" => some .symlink | "p" => some .fifo
  | "S" => some .socket | "D" => some .device | "c" => some .chardev | "h" => some .hardlink
  | "0" => some .invalid | _ => none

def kindTok : Kind → String
  | .file => "f" | .dir => "d" | .symlink => "L" | .fifo => "p" | .socket => "S"
  | .device => "D" | .chardev => "c" | .hardlink => "h" | .invalid => "0"

def parseXattrs (s : String) : Option (List (Bytes × Bytes)) :=
  if s = "-" then some [] else
  (s.splitOn "|").mapM (fun kv => match kv.splitOn ":" with
    | [k, v] => do pure ((← fromHex k), (← fromHex v))
    | _ => none)

def showXattrs (xs : List (Bytes × Bytes)) : String :=
  if xs.isEmpty then "-" else "|".intercalate (xs.map (fun kv => toHex kv.1 ++ ":" ++ toHex kv.2))

/-- A metadata token: `name,kind,perms,uid,gid,link,maj,min,sec,nsec,xattrs,size` — `name` is the raw
    string handed to `MustRelPath`. Result `none` = malformed token, `some none` = MustRelPath panics. -/
def parseMeta (tok : String) : Option (Option Meta) :=
  match tok.splitOn "," with
  | [n, k, p, u, g, l, dM, dm, s, ns, x, sz] => do
    let n ← fromHex n
    let k ← kindOfTok k
    let p ← p.toNat?
    let u ← u.toNat?
    let g ← g.toNat?
    let l ← fromHex l
    let dM ← dM.toInt?
    let dm ← dm.toInt?
    let s ← s.toInt?
    let ns ← ns.toNat?
    let x ← parseXattrs x
    let sz ← sz.toInt?
    match mustRel n with
    | none => pure none
    | some rp => pure (some { name := rp, kind := k, perms := p, uid := u, gid := g, size := sz, linkname := l,
                               devmajor := dM, devminor := dm, mtime := ⟨s, ns⟩, xattrs := x })
  | _ => none

def showMeta (m : Meta) : String :=
  s!"{toHex m.name.path},{kindTok m.kind},{m.perms},{m.uid},{m.gid},{toHex m.linkname},{m.devmajor},{m.devminor},{m.mtime.sec},{m.mtime.nsec},{showXattrs m.xattrs},{m.size}"

/-- record token = `meta/chash` -/
def parseRecord (tok : String) : Option (Option Record) :=
  match tok.splitOn "/" with
  | [mt, ch] => do
    let m ← parseMeta mt
    let ch ← fromHex ch
    pure (m.map (fun m => mkRecord m ch))
  | _ => none

def parseRecords (s : String) : Option (Option (List Record)) :=
  if s = "-" then some (some []) else do
  let rs ← (s.splitOn ";").mapM parseRecord
  pure (rs.mapM id)

def panicTok : Panic → String
  | .emptyBucket => "empty-bucket" | .missingRoot => "missing-root" | .repeatedPath => "repeated-path"
  | .missingTree => "missing-tree" | .countMismatch => "count-mismatch" | .sliceBounds => "slice-bounds"

def hashFn : String → Option (Bytes → Bytes)
  | "id" => some id
  | "sha" => some Sha.sha384
  | _ => none

/-- tree tokens: `(` record kids… `)`; returns the tree and the remaining tokens (fuel = token count). -/
def parseTree : Nat → List String → Option (Option Tree × List String)
  | 0, _ => none
  | fuel + 1, "(" :: rt :: rest => do
    let r ← parseRecord rt
    let rec kidsLoop : Nat → List String → Option (Option Forest × List String)
      | 0, _ => none
      | f + 1, ")" :: rest => some (some .nil, rest)
      | f + 1, toks => do
        let (t, rest) ← parseTree fuel toks
        let (ks, rest') ← kidsLoop f rest
        pure ((do let t ← t; let ks ← ks; pure (Forest.cons t ks)), rest')
    let (ks, rest') ← kidsLoop (rest.length + 1) rest
    pure ((do let r ← r; let ks ← ks; pure (Tree.node r ks)), rest')
  | _, _ => none

def hashEngine : List String → String
  | "spec" :: h :: toks => match hashFn h, parseTree (toks.length + 1) toks with
    | some H, some (some t, []) =>
      let x := specId H t
      if h = "sha" then "ok " ++ base58Encode x else "ok " ++ toHex x
    | some _, some (none, []) => "panic mustrel"
    | _, _ => "bad-op"
  | ["bucket", h, recs] => match hashFn h, parseRecords recs with
    | some H, some (some rs) => match hashBucket H rs with
      | .ok x => if h = "sha" then "ok " ++ base58Encode x else "ok " ++ toHex x
      | .error p => "panic " ++ panicTok p
    | some _, some none => "panic mustrel"
    | _, _ => "bad-op"
  | ["sha", x] => match fromHex x with
    | some b => toHex (Sha.sha384 b)
    | none => "bad-op"
  | ["b58", x] => match fromHex x with
    | some b => let s := base58Encode b; if s.isEmpty then "-" else s
    | none => "bad-op"
  | ["sermeta", mt] => match parseMeta mt with
    | some (some m) => toHex (serMeta m)
    | some none => "panic mustrel"
    | none => "bad-op"
  | _ => "bad-op"

end Rio.Driver
