import Rio.Model.MirrorStore
import Rio.Model.KvfsFs
import Driver.Parse
import Rio.Model.ZipHdr
import Rio.Model.Zip
import Rio.Model.Pack
import Rio.Model.Warehouse
import Rio.Model.Fetch
import Rio.Model.Cache
import Rio.Model.Kvfs
import Rio.Model.Asm
import Rio.Model.Osfs
import Rio.Model.Git
import Rio.Model.Asm14
namespace Rio.Driver
open Rio

def parseInts (s : String) : Option (List Int) := (s.splitOn ",").mapM (·.toInt?)

def parsePackFilter (s : String) : Option PackFilter :=
  match parseInts s with
  | some [i, u, g, m, st, si, d] => some ⟨i ≠ 0, u, g, m, st, si, d⟩
  | _ => none
def parseUnpackFilter (s : String) : Option UnpackFilter :=
  match parseInts s with
  | some [i, u, g, m, st, si, d] => some ⟨i ≠ 0, u, g, m, st, si, d⟩
  | _ => none
def showPF (f : PackFilter) : String := s!"{if f.initialized then 1 else 0},{f.uid},{f.gid},{f.mtime},{f.sticky},{f.setid},{f.dev}"
def showUF (f : UnpackFilter) : String := s!"{if f.initialized then 1 else 0},{f.uid},{f.gid},{f.mtime},{f.sticky},{f.setid},{f.dev}"

/-- `name,typeflag,mode,uid,gid,size,link,maj,min,sec,nsec,xattrs,chash,bodyok` -/
def parseTarHdr (tok : String) : Option TarHdr :=
  match tok.splitOn "," with
  | [n, tf, mode, u, g, sz, l, dM, dm, s, ns, x, ch, bo] => do
    pure { name := ← fromHex n, typeflag := UInt8.ofNat (← tf.toNat?), mode := ← mode.toInt?, uid := ← u.toInt?,
           gid := ← g.toInt?, size := ← sz.toInt?, linkname := ← fromHex l, devmajor := ← dM.toInt?,
           devminor := ← dm.toInt?, mtime := ⟨← s.toInt?, ← ns.toNat?⟩, xattrs := ← parseXattrs x,
           chash := ← fromHex ch, bodyOk := bo = "1" }
  | _ => none

def parseTarHdrs (s : String) : Option (List TarHdr) :=
  if s = "-" then some [] else (s.splitOn ";").mapM parseTarHdr

def parseEntry (tok : String) : Option (Option FsEntry) :=
  match tok.splitOn "/" with
  | [mt, ch] => do
    let m ← parseMeta mt
    let ch ← fromHex ch
    pure (m.map (fun m => ⟨m, ch⟩))
  | _ => none

def showOutcomeId (o : Outcome Bytes) : String :=
  match o with
  | .ok h => "ok " ++ (let s := base58Encode h; if s.isEmpty then "-" else s)
  | .err c => "err " ++ c.tok
  | .panic _ => "panic"

def filtEngine : List String → String
  | ["pack", f, mt] => match parsePackFilter f, parseMeta mt with
    | some ff, some (some m) => match applyPackFilter ff m with
      | .ok m' => "ok " ++ showMeta m'
      | .error c => "err " ++ c.tok
    | _, _ => "bad-op"
  | ["unpack", f, mu, mg, mt] => match parseUnpackFilter f, mu.toNat?, mg.toNat?, parseMeta mt with
    | some ff, some mu, some mg, some (some m) => match applyUnpackFilter mu mg ff m with
      | .ok m' => "ok " ++ showMeta m'
      | .err c => "err " ++ c.tok
      | .panic _ => "panic"
    | _, _, _, _ => "bad-op"
  | ["applyp", a, b] => match parsePackFilter a, parsePackFilter b with
    | some a, some b => let r := a.apply b; s!"{showPF r} complete={b01 r.isComplete}"
    | _, _ => "bad-op"
  | ["applyu", a, b] => match parseUnpackFilter a, parseUnpackFilter b with
    | some a, some b => let r := a.apply b; s!"{showUF r} complete={b01 r.isComplete} altering={b01 r.altering}"
    | _, _ => "bad-op"
  | _ => "bad-op"

/-- `name,mode,extra,sec,nsec,size,chash,body,openok,bodyok` -/
def parseZipHdr (tok : String) : Option ZipHdr :=
  match tok.splitOn "," with
  | [n, mode, ex, s, ns, sz, ch, body, oo, bo] => do
    pure { name := ← fromHex n, mode := ← mode.toNat?, extra := ← fromHex ex, mtime := ⟨← s.toInt?, ← ns.toNat?⟩,
           size := ← sz.toInt?, chash := ← fromHex ch, body := ← fromHex body, openOk := oo = "1", bodyOk := bo = "1" }
  | _ => none

def parseZipHdrs (s : String) : Option (List ZipHdr) :=
  if s = "-" then some [] else (s.splitOn ";").mapM parseZipHdr

def unpackEngine : List String → String
  | ["zip", f, mu, mg, readable, hs] =>
    match parseUnpackFilter f, mu.toNat?, mg.toNat?, parseZipHdrs hs with
    | some ff, some mu, some mg, some hdrs =>
      match unpackZip Sha.sha384 nilOps mu mg ff hdrs (readable = "1") () with
      | .ok (_, a, b) =>
        let s58 (h : Bytes) := (let s := base58Encode h; if s.isEmpty then "-" else s)
        s!"ok {s58 a} {s58 b}"
      | .err c => "err " ++ c.tok
      | .panic _ => "panic"
    | _, _, _, _ => "bad-op"
  | ["tar", f, mu, mg, head, fin, hs] =>
    match parseUnpackFilter f, mu.toNat?, mg.toNat?, fromHex head, parseTarHdrs hs with
    | some ff, some mu, some mg, some head, some hdrs =>
      let e := if fin = "eof" then StreamEnd.eof else .corrupt
      match unpackTar Sha.sha384 nilOps mu mg ff hdrs e () head with
      | .ok (_, a, b) =>
        let s58 (h : Bytes) := (let s := base58Encode h; if s.isEmpty then "-" else s)
        s!"ok {s58 a} {s58 b}"
      | .err c => "err " ++ c.tok
      | .panic _ => "panic"
    | _, _, _, _, _ => "bad-op"
  | _ => "bad-op"

def packEngine : List String → String
  | [fmt, f, es] =>
    match parsePackFilter f, (if es = "-" then some [] else (es.splitOn ";").mapM parseEntry) with
    | some ff, some es =>
      match es.mapM id with
      | none => "panic"
      | some es =>
        let fm := if fmt = "zip" then PackFmt.zip else .tar
        showOutcomeId (packId Sha.sha384 fm ff es)
    | _, _ => "bad-op"
  | _ => "bad-op"

/-- base58 decode is not needed: requested ids are compared as base58 strings of the model's hash bytes -/
def fetchEngine : List String → String
  | ["tar", req, f, mu, mg, head, fin, hs] =>
    match parseUnpackFilter f, mu.toNat?, mg.toNat?, fromHex head, parseTarHdrs hs with
    | some ff, some mu, some mg, some head, some hdrs =>
      let e := if fin = "eof" then StreamEnd.eof else .corrupt
      let s58 (h : Bytes) := (let s := base58Encode h; if s.isEmpty then "-" else s)
      -- compare in base58 space: run the unpack model, then `prefilter != requested`
      match unpackTar Sha.sha384 nilOps mu mg ff hdrs e () head with
      | .ok (_, a, b) => if s58 a ≠ req then "err " ++ Cat.hashMismatch.tok else s!"ok {s58 b}"
      | .err c => "err " ++ c.tok
      | .panic _ => "panic"
    | _, _, _, _, _ => "bad-op"
  | ["mirror", req, head, fin, hs] =>
    match fromHex head, parseTarHdrs hs with
    | some head, some hdrs =>
      let e := if fin = "eof" then StreamEnd.eof else .corrupt
      let s58 (h : Bytes) := (let s := base58Encode h; if s.isEmpty then "-" else s)
      match unpackTar Sha.sha384 nilOps 0 0 ⟨true, ffKeep, ffKeep, ffKeep, ffKeep, ffKeep, ffKeep⟩ hdrs e () head with
      | .ok (_, a, _) => if s58 a ≠ req then "err " ++ Cat.hashMismatch.tok else "ok"
      | .err c => "err " ++ c.tok
      | .panic _ => "panic"
    | _, _ => "bad-op"
  | _ => "bad-op"

def catOfTok (t : String) : Cat :=
  ([Cat.usage, .whUnavailable, .whUnwritable, .wareNotFound, .wareCorrupt, .hashMismatch, .cancelled, .localCache,
    .assemblyInvalid, .packInvalid, .inoperablePath, .filterRejection, .rpcBreakdown, .errcatRejection].find? (·.tok = t)).getD .uncategorized

def modeOfTok : String → Option Mode
  | "direct" => some .direct | "copy" => some .copy | "none" => some .none_ | "mount" => some .mount | _ => none

def showURes : URes → String
  | .ok rid => "ok:" ++ (String.ofList (rid.map (fun b => Char.ofNat b.toNat)))
  | .error c => "err:" ++ c.tok

/-- `cache <shelf,shelf|-> <req,alt,mode,ok|err,val;...> <pid,pid,...|->` — ids are plain ASCII tokens -/
def cacheEngine : List String → String
  | [shelves, procs, sched] =>
    let ids (s : String) : Bytes := s.toList.map (fun c => UInt8.ofNat c.toNat)
    let sh := if shelves = "-" then [] else (shelves.splitOn ",").map ids
    let ps := (procs.splitOn ";").mapM (fun t => match t.splitOn "," with
      | [req, alt, mode, yk, yv] => do
        let m ← modeOfTok mode
        pure (mkProc (ids req) (alt = "1") m (if yk = "ok" then .ok (ids yv) else .error (catOfTok yv)))
      | _ => none)
    let sc := if sched = "-" then some [] else (sched.splitOn ",").mapM (·.toNat?)
    match ps, sc with
    | some ps, some sc =>
      let s := runSchedule (initState ps sh) sc
      let showId (b : Bytes) := String.ofList (b.map (fun x => Char.ofNat x.toNat))
      let outs := s.procs.map (fun p => match p.pc with
        | .done r => showURes r
        | _ => "blocked")
      let shs := (s.shelves.map (fun kc => showId kc.1 ++ (match kc.2 with | .complete f => (if f = kc.1 then "=ok" else "=other") | .partial_ => "=partial")))
      let shsSorted := (sortBy (fun (x : String) => x.toUTF8.toList) shs)
      let tmps := (s.procs.filter (·.tmp.isSome)).length
      s!"outs={",".intercalate outs} shelves={",".intercalate shsSorted} tmps={tmps}"
    | _, _ => "bad-op"
  | _ => "bad-op"

/-- `kvfs <checkFlush 0|1> <chunks e.g. bbff|-> <faults e.g. ok,ok,fail,...|->` — one writer, stepped once per fault token -/
def kvfsEngine : List String → String
  | [cf, chunks, faults] =>
    let cs : List Chunk := if chunks = "-" then [] else (chunks.toList.zipIdx.map (fun (c, i) => if c = 'f' then Chunk.flush i else Chunk.body i))
    let fs : List Fault := if faults = "-" then [] else (faults.splitOn ",").map (fun t => if t = "fail" then Fault.fail else .ok)
    let w := mkWriter [1] cs (cf = "1")
    let s := wrun ⟨[], [([1], cs)], [w]⟩ (fs.map (fun f => (0, f)))
    let res := match s.writers[0]? with
      | some w => (match w.pc with
        | .done none => "ok"
        | .done (some c) => "err " ++ c.tok
        | _ => "running")
      | none => "?"
    let fin := match s.finals.find? (·.1 = [1]) with
      | none => "absent"
      | some kv => if kv.2 = cs then "complete" else "partial"
    let stg := match s.writers[0]? with
      | some w => if w.staged.isSome then "1" else "0"
      | none => "?"
    s!"res={res} final={fin} staging={stg}"
  | _ => "bad-op"

/-- `kvfs2 <excl 0|1> <sameName 0|1> <sameWare 0|1> <nA> <nB> <pause>` — two writers on one address over the shared
    staging namespace (Rio/Model/KvfsFs.lean): A opens and writes `pause` chunks, B runs from open to cleanup, A runs
    to its end. Reports both outcomes, what a reader finds after B and after A, and the staging names left. -/
def kvfs2Engine : List String → String
  | [ex, sn, sw, na, nb, pz] =>
    match na.toNat?, nb.toNat?, pz.toNat? with
    | some nA, some nB, some pause =>
      if pause ≥ nA then "bad-op" else
      let csA : List Chunk := (List.range nA).map (fun i => Chunk.body (100 + i))
      let csB : List Chunk := if sw = "1" then csA else (List.range nB).map (fun i => Chunk.body (200 + i))
      let a := mkFWriter [1] 1 csA
      let b := mkFWriter [1] (if sn = "1" then 1 else 2) csB
      let excl := ex = "1"
      let stepsA1 : List (Nat × Fault) := List.replicate (1 + pause) (0, .ok)
      let stepsB : List (Nat × Fault) := List.replicate (1 + csB.length + 4) (1, .ok)
      let stepsA2 : List (Nat × Fault) := List.replicate (nA - pause + 4) (0, .ok)
      let s1 := frun excl (fsInit [a, b]) (stepsA1 ++ stepsB)
      let s2 := frun excl s1 stepsA2
      let label (s : FsState) : String := match readFinal s [1] with
        | none => "absent"
        | some cells => if cells = csA.map some then "X" else if cells = csB.map some then "Y" else "partial"
      let res (s : FsState) (i : Nat) : String := match s.writers[i]? with
        | some w => (match w.pc with
          | .done none => "ok"
          | .done (some c) => "err " ++ c.tok
          | _ => "running")
        | none => "?"
      let stg := ([1, 2].filter (fun n => (s2.staging n).isSome)).length
      s!"resA={res s2 0} resB={res s1 1} afterB={label s1} afterA={label s2} staging={stg}"
    | _, _, _ => "bad-op"
  | _ => "bad-op"

def showOutcomeU (o : Outcome Unit) : String :=
  match o with
  | .ok _ => "ok"
  | .err c => "err " ++ c.tok
  | .panic _ => "panic"

/-- `mirrorstore <ca|mono> <empty|other> <good|other|corrupt|none:<cat>>` — `CreateMirror` of ware W against a target
    store (Rio/Model/MirrorStore.lean): the answer, what a fetch of W from the target alone then finds, and the answer
    of mirroring again with no source. W and the other ware are two fixed small wares (identity hash). -/
def mirrorStoreEngine : List String → String
  | [kind, tstate, src] =>
    let H : Bytes → Bytes := fun b => b
    let mkH (name : Bytes) (tf : UInt8) (ch : Bytes) : TarHdr :=
      { name := name, typeflag := tf, mode := 0o644, uid := 0, gid := 0, size := 1, linkname := [], devmajor := 0, devminor := 0,
        mtime := ⟨1000000000, 0⟩, xattrs := [], chash := ch, bodyOk := true }
    let wareO : Stored := ⟨[mkH [46, 47] 53 [], mkH [97] 48 [1]], .eof, List.replicate 10 0⟩
    let wareW : Stored := ⟨[mkH [46, 47] 53 [], mkH [97] 48 [2]], .eof, List.replicate 10 0⟩
    let idOf (s : Stored) : Bytes := match scanId H s with | .ok i => i | _ => []
    let k : TgtKind := if kind = "ca" then .ca else .mono
    let t0 : Target := ⟨k, fun _ => none⟩
    let t : Target := if tstate = "other" then t0.put (idOf wareO) wareO else t0
    let cats : List Cat := [.wareNotFound, .whUnavailable, .usage, .whUnwritable]
    let (pick, obj) : PickRes × Stored :=
      if src = "good" then (.opened 0, wareW)
      else if src = "other" then (.opened 0, wareO)
      else if src = "corrupt" then (.opened 0, { wareW with fin := .corrupt })
      else if src = "corrupt-body" then   -- the stream breaks off inside a file body
        (.opened 0, ⟨[mkH [46, 47] 53 [], { mkH [97] 48 [2] with bodyOk := false }], .corrupt, List.replicate 10 0⟩)
      else
        let c := (cats.find? (fun c => "none:" ++ c.tok = src)).getD .wareNotFound
        (.err c, wareW)
    let r := mirrorStore H (idOf wareW) t true pick obj true
    match r.1 with
    | .ok _ =>
      let alone := fetchAlone H r.2 (idOf wareW)
      let again := mirrorStore H (idOf wareW) r.2 true (.err .wareNotFound) wareW true
      s!"res=ok alone={showOutcomeU alone} again={showOutcomeU again.1}"
    | o => s!"res={showOutcomeU o} alone=- again=-"
  | _ => "bad-op"

/-- `tarhdr <hex of the first block>` — `isTarHeader` and `Decompress`'s decision on it -/
def tarHdrEngine : List String → String
  | [hexBlock] =>
    match fromHex hexBlock with
    | some b =>
      -- `Decompress` peeks at ten bytes first: a shorter stream is an error before any detection happens
      let k := if b.length < 10 then "short" else match decompressKind b with
        | .uncompressed => "plain" | .bzip2 => "bzip2" | .gzip => "gzip" | .xz => "xz"
      s!"{isTarHeader b} {k}"
    | none => "bad-op"
  | _ => "bad-op"

def showTd : TdEv → String
  | .attempt i => s!"A{i}"
  | .skip i => s!"S{i}"
def showAsmEv : AsmEv → String
  | .parents i => s!"P{i}"
  | .place i => s!"X{i}"
  | .td e => showTd e

/-- `asm15 <failing janitor ids|-> <id,alwaysTry,unpackF,parentF,placeF;...>` -/
def asm15Engine : List String → String
  | [tdf, parts] =>
    let fails : List Nat := if tdf = "-" then [] else (tdf.splitOn ",").filterMap (·.toNat?)
    let ps := (parts.splitOn ";").mapM (fun t => match t.splitOn "," with
      | [i, a, u, p, x] => do pure (⟨← i.toNat?, a = "1", u = "1", p = "1", x = "1"⟩ : Part)
      | _ => none)
    match ps with
    | some ps =>
      let (evs, res, stack) := asmRun (fun i => fails.contains i) ps
      -- observable projection: placement calls (X) and teardown attempts (A); parents steps and skips are
      -- not visible to the injected placer/janitors
      let obs (e : AsmEv) : Option String := match e with
        | .place i => some s!"X{i}"
        | .td (.attempt i) => some s!"A{i}"
        | _ => none
      let r := match res with
        | .ok => "ok"
        | .failed _ _ => "failed"
      let td := match res with
        | .ok => let (e, fe) := teardown (fun i => fails.contains i) stack
                 s!" td={",".intercalate (e.filterMap (fun (x : TdEv) => match x with | TdEv.attempt i => some s!"A{i}" | _ => none))} tderr={match fe with | some i => toString i | none => "false"}"
        | _ => ""
      s!"evs={",".intercalate (evs.filterMap obs)} res={r}{td}"
    | none => "bad-op"
  | _ => "bad-op"

def parseTree_ (s : String) : Option Tree_ :=
  if s = "-" then some [] else (s.splitOn ",").mapM (fun t => match t.splitOn "=" with
    | [p, "d"] => do pure ((← fromHex p), Node.dir)
    | [p, "f"] => do pure ((← fromHex p), Node.file)
    | [p, l] => match l.splitOn ":" with
      | ["L", tg] => do pure ((← fromHex p), Node.link (← fromHex tg))
      | _ => none
    | _ => none)

def showResolved : Resolved → String
  | .ok p => "ok " ++ toHex p.path
  | .err c _ => "err " ++ c.tok
  | .hostFollow => "hostfollow"
  | .outOfFuel => "out-of-fuel"

/-- `osfs <tree> realpath <0|1> <path>` / `osfs <tree> resolvelink <target> <startingAt>` -/
def osfsEngine : List String → String
  | [tr, "realpath", rl, p] => match parseTree_ tr, fromHex p with
    | some t, some p => match mustRel p with
      | some rp => showResolved (realpath t rp (rl = "1"))
      | none => "panic"
    | _, _ => "bad-op"
  | [tr, "resolvelink", tg, st] => match parseTree_ tr, fromHex tg, fromHex st with
    | some t, some tg, some st => match mustRel st with
      | some sp => showResolved (resolveLinkTop t tg sp)
      | none => "panic"
    | _, _, _ => "bad-op"
  | _ => "bad-op"

/-- `git <filterints> <myuid> <mygid> <name:mode:blob;...|->` → the listing the unpack must produce -/
def gitEngine : List String → String
  | [f, mu, mg, es] =>
    let parsed := if es = "-" then some [] else (es.splitOn ";").mapM (fun t => match t.splitOn ":" with
      | [n, m, b] => do
        let mode := match m with
          | "d" => GitMode.dir | "f" => .regular | "x" => .executable | "L" => .symlink | "s" => .submodule
          | "g" => .deprecated | "r" => .oddRegular | "X" => .oddExecutable | _ => .other
        pure (⟨← fromHex n, mode, ← fromHex b⟩ : GitEntry)
      | _ => none)
    match parseUnpackFilter f, mu.toNat?, mg.toNat?, parsed with
    | some ff, some mu, some mg, some es => match gitUnpackMetas es with
      | .panic => "panic"
      | .corrupt => "err rio-ware-corrupt"
      | .ok ms =>
        -- filters are applied to every entry; a filter that cannot be applied (mtime=now) is the unpack's error (since
        -- the `fix:`; before, git dropped the error). The final re-paving gives every directory the mtime the filter gave
        -- the conjured root (since the `fix:`; before, the default time whatever the mtime filter said)
        let rs := ms.map (fun m => applyUnpackFilter mu mg ff m)
        match rs.findSome? (fun r => match r with | .err c => some c | _ => none) with
        | some c => "err " ++ c.tok
        | none =>
          let ms' := (ms.zip rs).map (fun (m, r) => match r with
            | .ok m' => m'
            | _ => m)
          let lines := ms'.map (fun m => s!"{toHex m.name.path}|{kindTok m.kind}|{m.perms}|{m.uid}|{m.gid}|{m.mtime.sec}|{toHex m.linkname}")
          ",".intercalate (sortBy (fun (x : String) => x.toUTF8.toList) lines)
    | _, _, _, _ => "bad-op"
  | _ => "bad-op"

/-- `zipowner <extrahex|->` → what `zipFileOwnership` answers for that extra field -/
def zipOwnerEngine : List String → String
  | [e] =>
    match (if e = "-" then some [] else fromHex e) with
    | some extra => match zipOwnership extra with
      | .ok u g => s!"ok {u} {g}"
      | .corrupt => "err rio-ware-corrupt"
      | .panic => "panic"
    | none => "bad-op"
  | _ => "bad-op"

/-- `zipextra <uid> <gid>` → the owner blocks `MetadataToZipHdr` writes -/
def zipExtraEngine : List String → String
  | [u, g] => match u.toNat?, g.toNat? with
    | some u, some g => toHex (ownerExtra u g)
    | _, _ => "bad-op"
  | _ => "bad-op"

/-- `asm14 <pathhex:isMount:tag;...>` → processing order and the mount rule's verdict -/
def asm14Engine : List String → String
  | [ins] =>
    let parsed := (ins.splitOn ";").mapM (fun t => match t.splitOn ":" with
      | [p, m, tg] => do pure (⟨← fromHex p, m = "1", ← tg.toNat?⟩ : AsmInput)
      | _ => none)
    match parsed with
    | some xs =>
      match asmVerdict xs with
      | .duplicate _ => "duplicate"
      | .underMount x => s!"refused={x.tag}"
      | .proceed s => s!"order={",".intercalate (s.map (fun x => toString x.tag))}"
    | none => "bad-op"
  | _ => "bad-op"

def schemeOfTok : String → Option Scheme
  | "file" => some .file | "ca+file" => some .caFile | "http" => some .http | "ca+http" => some .caHttp
  | "https" => some .https | "ca+https" => some .caHttps | "other" => some .other | "unparsable" => some .unparsable
  | _ => none
def condOfTok : String → Option WhCond
  | "missingdir" => some .missingDir | "lacking" => some .lacking | "holding" => some .holding
  | "servererror" => some .serverError | "refused" => some .refused | _ => none

def pickEngine : List String → String
  | [mono, ws] =>
    let parsed := if ws = "-" then some [] else (ws.splitOn ";").mapM (fun t => match t.splitOn ":" with
      | [s, c] => do pure (⟨← schemeOfTok s, ← condOfTok c⟩ : Wh)
      | _ => none)
    match parsed with
    | some l => match pickReader (mono = "1") l 0 false with
      | .opened i => s!"opened {i}"
      | .err c => "err " ++ c.tok
    | none => "bad-op"
  | _ => "bad-op"

end Rio.Driver
