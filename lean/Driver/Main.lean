import Driver.PathEngine
import Driver.Parse
import Driver.Engines2
open Rio Rio.Driver

def dispatch (line : String) : String :=
  match (line.trimAscii.toString.splitOn " ").filter (· ≠ "") with
  | ["skip"] => "skip"
  | "path" :: rest => pathEngine rest
  | "hash" :: rest => hashEngine rest
  | "filt" :: rest => filtEngine rest
  | "unpack" :: rest => unpackEngine rest
  | "pack" :: rest => packEngine rest
  | "pick" :: rest => pickEngine rest
  | "fetch" :: rest => fetchEngine rest
  | "cache" :: rest => cacheEngine rest
  | "kvfs" :: rest => kvfsEngine rest
  | "kvfs2" :: rest => kvfs2Engine rest
  | "mirrorstore" :: rest => mirrorStoreEngine rest
  | "tarhdr" :: rest => tarHdrEngine rest
  | "asm15" :: rest => asm15Engine rest
  | "osfs" :: rest => osfsEngine rest
  | "git" :: rest => gitEngine rest
  | "asm14" :: rest => asm14Engine rest
  | "zipowner" :: rest => zipOwnerEngine rest
  | "zipextra" :: rest => zipExtraEngine rest
  | _ => "bad-op"

partial def loop (hin hout : IO.FS.Stream) : IO Unit := do
  let line ← hin.getLine
  if line.isEmpty then return ()
  hout.putStrLn (dispatch line)
  loop hin hout

def main : IO Unit := do
  let hin ← IO.getStdin
  let hout ← IO.getStdout
  loop hin hout
  hout.flush
