-- Root of the `Rio` library: models, generated facts, proofs, property theorems, audits.
import Rio.Basic
import Rio.Model.Path
