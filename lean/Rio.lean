-- Root of the `Rio` library: models, specs, proofs and property theorems.
import Rio.Basic
import Rio.Model.Path
import Rio.Model.Hash
import Rio.Model.Sha
import Rio.Model.Pack
import Rio.Spec.TreeHash
import Rio.Props.C01
import Rio.Props.C04
import Rio.Props.C05
import Rio.Props.C12
import Rio.Props.C17
import Rio.Props.C18
