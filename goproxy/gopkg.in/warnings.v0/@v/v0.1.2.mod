module gopkg.in/warnings.v0
