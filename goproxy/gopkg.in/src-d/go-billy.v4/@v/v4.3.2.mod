module gopkg.in/src-d/go-billy.v4

require (
	github.com/kr/pretty v0.1.0 // indirect
	github.com/kr/pty v1.1.8 // indirect
	golang.org/x/sys v0.0.0-20190726091711-fc99dfbffb4e
	gopkg.in/check.v1 v1.0.0-20180628173108-788fd7840127
)
