module gopkg.in/src-d/go-git.v4

require (
	github.com/alcortesm/tgz v0.0.0-20161220082320-9c5fe88206d7 // indirect
	github.com/anmitsu/go-shlex v0.0.0-20161002113705-648efa622239 // indirect
	github.com/armon/go-socks5 v0.0.0-20160902184237-e75332964ef5
	github.com/emirpasic/gods v1.12.0
	github.com/flynn/go-shlex v0.0.0-20150515145356-3f9db97f8568 // indirect
	github.com/gliderlabs/ssh v0.2.2
	github.com/google/go-cmp v0.3.0
	github.com/jbenet/go-context v0.0.0-20150711004518-d14ea06fba99
	github.com/jessevdk/go-flags v1.4.0
	github.com/kevinburke/ssh_config v0.0.0-20190725054713-01f96b0aa0cd
	github.com/mitchellh/go-homedir v1.1.0
	github.com/pelletier/go-buffruneio v0.2.0 // indirect
	github.com/pkg/errors v0.8.1 // indirect
	github.com/sergi/go-diff v1.0.0
	github.com/src-d/gcfg v1.4.0
	github.com/stretchr/objx v0.2.0 // indirect
	github.com/xanzy/ssh-agent v0.2.1
	golang.org/x/crypto v0.0.0-20190701094942-4def268fd1a4
	golang.org/x/net v0.0.0-20190724013045-ca1201d0de80
	golang.org/x/text v0.3.2
	golang.org/x/tools v0.0.0-20190729092621-ff9f1409240a // indirect
	gopkg.in/check.v1 v1.0.0-20180628173108-788fd7840127
	gopkg.in/src-d/go-billy.v4 v4.3.2
	gopkg.in/src-d/go-git-fixtures.v3 v3.5.0
	gopkg.in/warnings.v0 v0.1.2 // indirect
)
