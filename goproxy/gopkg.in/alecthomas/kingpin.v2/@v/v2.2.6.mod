module gopkg.in/alecthomas/kingpin.v2
