package main

import (
	"crypto/sha256"
	"encoding/hex"
	"fmt"
	"go/ast"
	"go/token"
	"sort"
	"strings"
)

var osPkgs = map[string]bool{"os": true, "syscall": true, "ioutil": true, "unix": true, "exec": true}

// ---- C20 / C01: what the pack, scan and mirror paths call ----
func genPackPath(r *repo, o *out) {
	fm := map[string]bool{}
	for _, m := range r.fsInterfaceMethods() {
		fm[m] = true
	}
	type site struct{ dir, recv, name string }
	packSites := []site{
		{"transmat/tar", "", "packTar"}, {"transmat/zip", "", "packZip"},
		{"fs", "", "Walk"}, {"fs", "", "newFileWalkNode"}, {"fs", "FilewalkNode", "prepareChildren"}, {"fs", "FilewalkNode", "forgetChildren"}, {"fs", "FilewalkNode", "NextChild"},
		{"fsOp", "", "ScanFile"}, {"transmat/mixins/filters", "", "ApplyPackFilter"},
	}
	var meth, pk, flags []string
	for _, s := range packSites {
		m, p, f := r.callsIn(r.funcDecl(s.dir, s.recv, s.name), fm, osPkgs)
		meth, pk, flags = append(meth, m...), append(pk, p...), append(flags, f...)
	}
	// Pack itself (the wrapper): what it does to the *source* filesystem handle `afs`
	for _, dir := range []string{"transmat/tar", "transmat/zip"} {
		m, p, f := r.callsIn(r.funcDecl(dir, "", "Pack"), fm, osPkgs)
		meth, pk, flags = append(meth, m...), append(pk, p...), append(flags, f...)
	}
	o.def("packFsCalls", "List String", leanStrList(uniqSorted(meth)), "fs.FS methods invoked anywhere on the pack path (packTar, packZip, Pack, fs.Walk and its node methods, ScanFile, ApplyPackFilter)")
	o.def("packOsCalls", "List String", leanStrList(uniqSorted(pk)), "os/syscall/ioutil functions called directly on the pack path")
	o.def("packOpenFlags", "List String", leanStrList(uniqSorted(flags)), "flag arguments of OpenFile calls on the pack path")
	// nilfs: imports
	var imps []string
	for _, f := range r.pkgs["fs/nilfs"] {
		for _, im := range f.Imports {
			imps = append(imps, strings.Trim(im.Path.Value, "\""))
		}
	}
	o.def("nilfsImports", "List String", leanStrList(uniqSorted(imps)), "imports of fs/nilfs (no os, no syscall: its methods cannot touch the host)")
	// scanner / mirror: which filesystem they construct
	var scanFs, mirrorFs []string
	for _, nm := range []string{"CreateScanner", "CreateMirror"} {
		fd := r.funcDecl("transmat/util", "", nm)
		ast.Inspect(fd, func(x ast.Node) bool {
			ce, ok := x.(*ast.CallExpr)
			if !ok {
				return true
			}
			if se, ok := ce.Fun.(*ast.SelectorExpr); ok {
				if id, ok := se.X.(*ast.Ident); ok && (id.Name == "nilFS" || id.Name == "osfs") && se.Sel.Name == "New" {
					s := id.Name + ".New(" + argsSrc(r, ce) + ")"
					if nm == "CreateScanner" {
						scanFs = append(scanFs, s)
					} else {
						mirrorFs = append(mirrorFs, s)
					}
				}
			}
			return true
		})
	}
	o.def("scannerFs", "List String", leanStrList(scanFs), "filesystem constructors in util.CreateScanner")
	o.def("mirrorFs", "List String", leanStrList(mirrorFs), "filesystem constructors in util.CreateMirror")
	// kvfs.OpenReader flags
	_, _, _ = fm, pk, flags
	var rflags []string
	ast.Inspect(r.funcDecl("warehouse/impl/kvfs", "Controller", "OpenReader"), func(x ast.Node) bool {
		if ce, ok := x.(*ast.CallExpr); ok {
			if se, ok := ce.Fun.(*ast.SelectorExpr); ok && se.Sel.Name == "OpenFile" && len(ce.Args) >= 2 {
				rflags = append(rflags, r.src(ce.Args[1]))
			}
		}
		return true
	})
	o.def("kvfsReaderFlags", "List String", leanStrList(rflags), "flags with which kvfs.OpenReader opens the ware")
	// cache.Unpack: the condition of the first `if` whose body returns a usage error about the ware ID, when it stands
	// before the first use of ShelfFor
	guard := "absent"
	if fd := r.funcDecl("transmat/mixins/cache", "cache", "Unpack"); fd != nil {
		seenShelf := false
		ast.Inspect(fd, func(x ast.Node) bool {
			switch n := x.(type) {
			case *ast.CallExpr:
				if id, ok := n.Fun.(*ast.Ident); ok && id.Name == "ShelfFor" {
					seenShelf = true
				}
			case *ast.IfStmt:
				if !seenShelf && guard == "absent" && strings.Contains(r.src(n.Cond), "wareID.Hash") && strings.Contains(r.src(n.Body), "rio.ErrUsage") {
					guard = r.src(n.Cond)
				}
			}
			return true
		})
	}
	o.def("cacheUnpackHashGuard", "String", leanStr(guard), "cache.Unpack: the guard on wareID.Hash that precedes ShelfFor")
}

func argsSrc(r *repo, ce *ast.CallExpr) string {
	var a []string
	for _, x := range ce.Args {
		a = append(a, r.src(x))
	}
	return strings.Join(a, ", ")
}

// ---- C01: package-level state of the packages on the pack path ----
func genPkgVars(r *repo, o *out) {
	dirs := []string{"transmat/tar", "transmat/zip", "transmat/mixins/fshash", "transmat/mixins/filters", "transmat/util", "fs", "fsOp", "lib/treewalk", "fs/osfs"}
	var rows []string
	for _, d := range dirs {
		vars := map[string]bool{}
		for _, f := range r.pkgs[d] {
			for _, dcl := range f.Decls {
				gd, ok := dcl.(*ast.GenDecl)
				if !ok || gd.Tok != token.VAR {
					continue
				}
				for _, sp := range gd.Specs {
					vs := sp.(*ast.ValueSpec)
					for _, nm := range vs.Names {
						if nm.Name != "_" {
							vars[nm.Name] = true
						}
					}
				}
			}
		}
		var names []string
		for v := range vars {
			names = append(names, v)
		}
		sort.Strings(names)
		for _, v := range names {
			// functions (other than init) that assign to, or call a method on, the variable
			var users []string
			for _, f := range r.pkgs[d] {
				for _, dcl := range f.Decls {
					fd, ok := dcl.(*ast.FuncDecl)
					if !ok || fd.Body == nil || fd.Name.Name == "init" {
						continue
					}
					uses := false
					ast.Inspect(fd.Body, func(x ast.Node) bool {
						switch y := x.(type) {
						case *ast.AssignStmt:
							for _, l := range y.Lhs {
								if id, ok := l.(*ast.Ident); ok && id.Name == v && y.Tok == token.ASSIGN {
									uses = true
								}
							}
						case *ast.CallExpr:
							if se, ok := y.Fun.(*ast.SelectorExpr); ok {
								if id, ok := se.X.(*ast.Ident); ok && id.Name == v && id.Obj == nil {
									uses = true
								}
							}
						}
						return true
					})
					if uses {
						users = append(users, fd.Name.Name)
					}
				}
			}
			sort.Strings(users)
			rows = append(rows, fmt.Sprintf("(%s, %s, %s)", leanStr(d), leanStr(v), leanStrList(users)))
		}
	}
	o.def("pkgVars", "List (String × String × List String)", "[\n  "+strings.Join(rows, ",\n  ")+"]",
		"package-level variables of the packages on the pack path: (package, name, functions that assign to it or call a method on it)")
	// forbidden identifiers: environment / clock / identity sources
	forbidden := []string{"time.Local", "time.LoadLocation", "os.Getwd", "os.Getenv", "time.Now", "os.Hostname", "rand."}
	var hits []string
	for _, d := range []string{"transmat/tar", "transmat/zip", "transmat/mixins/fshash", "transmat/mixins/filters", "fsOp"} {
		for _, f := range r.pkgs[d] {
			for _, dcl := range f.Decls {
				fd, ok := dcl.(*ast.FuncDecl)
				if !ok || fd.Body == nil {
					continue
				}
				nm := fd.Name.Name
				if !(nm == "packTar" || nm == "packZip" || nm == "Pack" || nm == "HashBucket" || nm == "marshalMetadata" || nm == "ScanFile" || nm == "ApplyPackFilter" || nm == "AddRecord" || nm == "Iterator") {
					continue
				}
				s := r.src(fd.Body)
				for _, fb := range forbidden {
					if strings.Contains(s, fb) {
						hits = append(hits, d+"."+nm+":"+fb)
					}
				}
			}
		}
	}
	o.def("packEnvReads", "List String", leanStrList(uniqSorted(hits)), "uses of clock / time zone / environment / cwd / randomness inside the hashing and packing functions")
}

// ---- C01 / C04: which Metadata fields exist, which are filled from the host, which are hashed ----
func genMetadata(r *repo, o *out) {
	var fields []string
	for _, f := range r.pkgs["fs"] {
		ast.Inspect(f, func(n ast.Node) bool {
			ts, ok := n.(*ast.TypeSpec)
			if !ok || ts.Name.Name != "Metadata" {
				return true
			}
			if st, ok := ts.Type.(*ast.StructType); ok {
				for _, fl := range st.Fields.List {
					for _, nm := range fl.Names {
						fields = append(fields, nm.Name)
					}
				}
			}
			return false
		})
	}
	o.def("metadataFields", "List String", leanStrList(fields), "fields of fs.Metadata, in declaration order")
	// fields of `m` read by marshalMetadata, and the string keys it emits, in order
	mm := r.funcDecl("transmat/mixins/fshash", "", "marshalMetadata")
	var reads, keys []string
	ast.Inspect(mm, func(n ast.Node) bool {
		switch x := n.(type) {
		case *ast.SelectorExpr:
			if id, ok := x.X.(*ast.Ident); ok && id.Name == "m" {
				reads = append(reads, x.Sel.Name)
			}
		case *ast.CompositeLit:
			// &tok.Token{Type: tok.TString, Str: "n"}
			var isStr bool
			var lit string
			for _, e := range x.Elts {
				if kv, ok := e.(*ast.KeyValueExpr); ok {
					k := r.src(kv.Key)
					if k == "Type" && r.src(kv.Value) == "tok.TString" {
						isStr = true
					}
					if k == "Str" {
						if bl, ok := kv.Value.(*ast.BasicLit); ok {
							lit = strings.Trim(bl.Value, "\"")
						}
					}
				}
			}
			if isStr && lit != "" {
				keys = append(keys, lit)
			}
		}
		return true
	})
	o.def("marshalReads", "List String", leanStrList(uniqSorted(reads)), "fields of the metadata that marshalMetadata reads")
	o.def("marshalKeys", "List String", leanStrList(keys), "map keys marshalMetadata emits, in source order")
	// fields assigned by osFS.convertFileinfo
	cf := r.funcDecl("fs/osfs", "osFS", "convertFileinfo")
	var writes []string
	ast.Inspect(cf, func(n ast.Node) bool {
		switch x := n.(type) {
		case *ast.AssignStmt:
			for _, l := range x.Lhs {
				if se, ok := l.(*ast.SelectorExpr); ok {
					if id, ok := se.X.(*ast.Ident); ok && id.Name == "fmeta" {
						writes = append(writes, se.Sel.Name)
					}
				}
			}
		case *ast.CompositeLit:
			if r.src(x.Type) == "fs.Metadata" {
				for _, e := range x.Elts {
					if kv, ok := e.(*ast.KeyValueExpr); ok {
						writes = append(writes, r.src(kv.Key))
					}
				}
			}
		}
		return true
	})
	o.def("convertFileinfoWrites", "List String", leanStrList(uniqSorted(writes)), "fields of fs.Metadata that osfs.convertFileinfo fills from the host's stat result")
	// which fi.* / sys.* accessors convertFileinfo reads (no Atim/Ctim/Ino)
	var statReads []string
	ast.Inspect(cf, func(n ast.Node) bool {
		if se, ok := n.(*ast.SelectorExpr); ok {
			if id, ok := se.X.(*ast.Ident); ok && (id.Name == "fi" || id.Name == "sys" || id.Name == "fm") {
				statReads = append(statReads, id.Name+"."+se.Sel.Name)
			}
		}
		return true
	})
	o.def("convertFileinfoReads", "List String", leanStrList(uniqSorted(statReads)), "accessors of the stat result that convertFileinfo reads")
	// HashBucket.preVisit: per kind, is the hash delivered to the parent?
	hb := r.funcDecl("transmat/mixins/fshash", "", "HashBucket")
	var delivers []string
	ast.Inspect(hb, func(n ast.Node) bool {
		cc, ok := n.(*ast.CaseClause)
		if !ok {
			return true
		}
		body := ""
		for _, s := range cc.Body {
			body += r.src(s) + "\n"
		}
		if strings.Contains(body, "upsubs.Peek()(") || strings.Contains(body, "upsubs.Push(") {
			for _, e := range cc.List {
				delivers = append(delivers, r.src(e))
			}
		}
		return true
	})
	o.def("hashDeliveringKinds", "List String", leanStrList(uniqSorted(delivers)), "type-switch cases of HashBucket whose body hands a hash to the parent (upsubs.Peek / Push)")
}

// ---- C08: are the results of the flushing Close calls in Pack looked at? ----
func genCloseChecks(r *repo, o *out) {
	for _, t := range []struct{ dir, name string }{{"transmat/tar", "tarPackCloses"}, {"transmat/zip", "zipPackCloses"}} {
		fd := r.funcDecl(t.dir, "", "Pack")
		var rows []string
		for _, st := range fd.Body.List {
			switch s := st.(type) {
			case *ast.ExprStmt: // result dropped
				if ce, ok := s.X.(*ast.CallExpr); ok {
					if se, ok := ce.Fun.(*ast.SelectorExpr); ok && se.Sel.Name == "Close" {
						rows = append(rows, fmt.Sprintf("(%s, false)", leanStr(r.src(se.X))))
					}
				}
			case *ast.AssignStmt:
				if len(s.Rhs) == 1 {
					if ce, ok := s.Rhs[0].(*ast.CallExpr); ok {
						if se, ok := ce.Fun.(*ast.SelectorExpr); ok && se.Sel.Name == "Close" {
							rows = append(rows, fmt.Sprintf("(%s, true)", leanStr(r.src(se.X))))
						}
					}
				}
			case *ast.IfStmt:
				if as, ok := s.Init.(*ast.AssignStmt); ok && len(as.Rhs) == 1 {
					if ce, ok := as.Rhs[0].(*ast.CallExpr); ok {
						if se, ok := ce.Fun.(*ast.SelectorExpr); ok && se.Sel.Name == "Close" {
							rows = append(rows, fmt.Sprintf("(%s, true)", leanStr(r.src(se.X))))
						}
					}
				}
			}
		}
		o.def(t.name, "List (String × Bool)", "["+strings.Join(rows, ", ")+"]", "top-level `X.Close()` statements of "+t.dir+".Pack before Commit: (receiver, is the returned error bound and checked)")
	}
	// kvfs write path: ordered os.* calls per method
	for _, m := range []string{"OpenWriter", "Commit", "Close"} {
		recv := "WriteController"
		if m == "OpenWriter" {
			recv = "Controller"
		}
		fd := r.funcDecl("warehouse/impl/kvfs", recv, m)
		var calls []string
		ast.Inspect(fd, func(n ast.Node) bool {
			if ce, ok := n.(*ast.CallExpr); ok {
				if se, ok := ce.Fun.(*ast.SelectorExpr); ok {
					if id, ok := se.X.(*ast.Ident); ok && id.Name == "os" && se.Sel.Name != "IsExist" {
						calls = append(calls, "os."+se.Sel.Name)
					}
					if r.src(se.X) == "wc.stream" {
						calls = append(calls, "stream."+se.Sel.Name)
					}
				}
			}
			return true
		})
		o.def("kvfs"+m+"Steps", "List String", leanStrList(calls), "os.* and stream.* calls of kvfs "+m+", in source order")
	}
	// kvfs.OpenWriter: the open flags, and for every assignment of the staging name whether a fresh guid is part of it
	{
		fd := r.funcDecl("warehouse/impl/kvfs", "Controller", "OpenWriter")
		var wflags []string
		var fresh []string
		ast.Inspect(fd, func(n ast.Node) bool {
			switch x := n.(type) {
			case *ast.CallExpr:
				if se, ok := x.Fun.(*ast.SelectorExpr); ok && se.Sel.Name == "OpenFile" && len(x.Args) >= 2 {
					for _, fl := range strings.Split(r.src(x.Args[1]), "|") {
						wflags = append(wflags, strings.TrimSpace(fl))
					}
				}
			case *ast.AssignStmt:
				for i, lhs := range x.Lhs {
					if id, ok := lhs.(*ast.Ident); ok && id.Name == "tmpName" && i < len(x.Rhs) {
						src := r.src(x.Rhs[i])
						if strings.Contains(src, "guid.New()") {
							fresh = append(fresh, "guid")
						} else {
							fresh = append(fresh, "fixed:"+src)
						}
					}
				}
			}
			return true
		})
		sort.Strings(wflags)
		o.def("kvfsWriterFlags", "List String", leanStrList(wflags), "flags with which kvfs.OpenWriter opens the staging file (sorted)")
		o.def("kvfsStagingNames", "List String", leanStrList(fresh), "per assignment of the staging name in kvfs.OpenWriter: does it contain a fresh guid")
	}
}

// ---- C06 / C07: per osfs method, the resolveLast argument and the host call ----
func genOsfs(r *repo, o *out) {
	var rows []string
	for _, f := range r.pkgs["fs/osfs"] {
		for _, d := range f.Decls {
			fd, ok := d.(*ast.FuncDecl)
			if !ok || fd.Recv == nil || fd.Body == nil {
				continue
			}
			var resolveLast []string
			var host []string
			ast.Inspect(fd.Body, func(n ast.Node) bool {
				ce, ok := n.(*ast.CallExpr)
				if !ok {
					return true
				}
				if se, ok := ce.Fun.(*ast.SelectorExpr); ok {
					if se.Sel.Name == "realpath" && len(ce.Args) == 2 {
						resolveLast = append(resolveLast, r.src(ce.Args[1]))
					}
					if id, ok := se.X.(*ast.Ident); ok && (id.Name == "os" || id.Name == "syscall" || id.Name == "unix") {
						switch se.Sel.Name {
						case "IsNotExist", "FileMode", "Getuid":
						default:
							host = append(host, id.Name+"."+se.Sel.Name)
						}
					}
				}
				return true
			})
			if len(resolveLast) == 0 || !ast.IsExported(fd.Name.Name) {
				continue
			}
			rows = append(rows, fmt.Sprintf("(%s, %s, %s)", leanStr(fd.Name.Name), leanStrList(resolveLast), leanStrList(uniqSorted(host))))
		}
	}
	sort.Strings(rows)
	o.def("osfsMethods", "List (String × List String × List String)", "[\n  "+strings.Join(rows, ",\n  ")+"]", "per exported osFS method: (name, literal resolveLast arguments of its realpath calls, host calls made on the resolved path)")
}

// ---- C14 / C15: assembler and janitors ----
func genStitch(r *repo, o *out) {
	var rows []string
	for _, f := range r.pkgs["stitch/placer"] {
		for _, d := range f.Decls {
			fd, ok := d.(*ast.FuncDecl)
			if !ok || fd.Recv == nil || fd.Name.Name != "AlwaysTry" || fd.Body == nil {
				continue
			}
			recv := r.src(fd.Recv.List[0].Type)
			ret := ""
			for _, s := range fd.Body.List {
				if rs, ok := s.(*ast.ReturnStmt); ok && len(rs.Results) == 1 {
					ret = r.src(rs.Results[0])
				}
			}
			rows = append(rows, fmt.Sprintf("(%s, %s)", leanStr(recv), ret))
		}
	}
	sort.Strings(rows)
	o.def("janitorAlwaysTry", "List (String × Bool)", "["+strings.Join(rows, ", ")+"]", "AlwaysTry() of every janitor type (linux build)")
	run := r.funcDecl("stitch", "Assembler", "Run")
	// the mount-containment test
	var mountTest string
	var less string
	ast.Inspect(run, func(n ast.Node) bool {
		if is, ok := n.(*ast.IfStmt); ok {
			c := r.src(is.Cond)
			if strings.Contains(c, "mount") && strings.Contains(c, "part.Path") && mountTest == "" {
				mountTest = c
			}
		}
		return true
	})
	lf := r.funcDecl("stitch", "UnpackSpecByPath", "Less")
	for _, s := range lf.Body.List {
		if rs, ok := s.(*ast.ReturnStmt); ok {
			less = r.src(rs.Results[0])
		}
	}
	o.def("asmMountTest", "String", leanStr(mountTest), "the condition under which Assembler.Run refuses an input as lying under a mount")
	o.def("asmSortLess", "String", leanStr(less), "UnpackSpecByPath.Less")
	// error returns inside the placement loop: is hk.Teardown() called first?
	var sites []string
	ast.Inspect(run, func(n ast.Node) bool {
		fs, ok := n.(*ast.RangeStmt)
		if !ok || !strings.Contains(r.src(fs.X), "parts") {
			return true
		}
		body := r.src(fs.Body)
		if !strings.Contains(body, "hk.append") {
			return true
		}
		for _, st := range fs.Body.List {
			is, ok := st.(*ast.IfStmt)
			if !ok {
				continue
			}
			b := r.src(is.Body)
			if strings.Contains(b, "return nil, err") {
				what := "placement"
				if strings.Contains(r.src(is), "Ensure parent") || strings.Contains(r.src(is), "parentPath") {
					what = "parent-creation"
				}
				sites = append(sites, fmt.Sprintf("(%s, %v)", leanStr(what), strings.Contains(b, "hk.Teardown()")))
			}
		}
		return false
	})
	o.def("asmRollbackSites", "List (String × Bool)", "["+strings.Join(sites, ", ")+"]", "error returns of the placement loop of Assembler.Run: (which step failed, is hk.Teardown() called before returning)")
}

// ---- C10 / C11: placer dispatch and mount flags ----
func genPlacers(r *repo, o *out) {
	// overlay placer: which placer handles which source type when writable
	var rows []string
	var roShortcut string
	for _, f := range r.pkgs["stitch/placer"] {
		for _, d := range f.Decls {
			fd, ok := d.(*ast.FuncDecl)
			if !ok || fd.Name.Name != "NewOverlayPlacer" {
				continue
			}
			ast.Inspect(fd, func(n ast.Node) bool {
				switch x := n.(type) {
				case *ast.IfStmt:
					if strings.Contains(r.src(x.Cond), "writable == false") || strings.Contains(r.src(x.Cond), "!writable") {
						roShortcut = firstLine(r.src(x.Body))
					}
				case *ast.SwitchStmt:
					if !strings.Contains(r.src(x.Tag), "srcStat.Type") {
						return true
					}
					for _, st := range x.Body.List {
						cc := st.(*ast.CaseClause)
						var kinds []string
						for _, e := range cc.List {
							kinds = append(kinds, r.src(e))
						}
						action := "continue"
						for _, b := range cc.Body {
							if rs, ok := b.(*ast.ReturnStmt); ok && len(rs.Results) > 0 {
								if ce, ok := rs.Results[0].(*ast.CallExpr); ok {
									action = r.src(ce.Fun)
									if len(ce.Args) == 3 { // a placer call: which writability is asked for
										action += ":" + r.src(ce.Args[2])
									}
								}
							}
							if es, ok := b.(*ast.ExprStmt); ok {
								if ce, ok := es.X.(*ast.CallExpr); ok && r.src(ce.Fun) == "panic" {
									action = "panic"
								}
							}
						}
						if len(kinds) == 0 {
							kinds = []string{"default"}
						}
						rows = append(rows, fmt.Sprintf("(%s, %s)", leanStrList(kinds), leanStr(action)))
					}
					return false
				}
				return true
			})
		}
	}
	o.def("overlayDispatch", "List (List String × String)", "["+strings.Join(rows, ", ")+"]", "NewOverlayPlacer, writable=true: source type cases and the placer that handles them (continue = the overlay mount itself)")
	o.def("overlayReadonlyShortcut", "String", leanStr(roShortcut), "what NewOverlayPlacer does when writable == false")
	// bind placer: mount flag expressions
	bp := r.funcDecl("stitch/placer", "", "BindPlacer")
	var flags []string
	ast.Inspect(bp, func(n ast.Node) bool {
		if as, ok := n.(*ast.AssignStmt); ok && len(as.Lhs) == 1 && r.src(as.Lhs[0]) == "flags" {
			flags = append(flags, as.Tok.String()+" "+r.src(as.Rhs[0]))
		}
		return true
	})
	o.def("bindFlags", "List String", leanStrList(flags), "assignments to `flags` in BindPlacer (the second one is guarded by !writable)")
	// overlay mount option string
	var opt string
	for _, f := range r.pkgs["stitch/placer"] {
		ast.Inspect(f, func(n ast.Node) bool {
			if bl, ok := n.(*ast.BasicLit); ok && strings.Contains(bl.Value, "lowerdir=") {
				opt = strings.Trim(bl.Value, "\"")
			}
			return true
		})
	}
	o.def("overlayOptions", "String", leanStr(opt), "the overlay mount option format string")
	// cache.place: mode -> placer
	pl := r.funcDecl("transmat/mixins/cache", "cache", "place")
	var prow []string
	ast.Inspect(pl, func(n ast.Node) bool {
		cc, ok := n.(*ast.CaseClause)
		if !ok {
			return true
		}
		var ks []string
		for _, e := range cc.List {
			ks = append(ks, r.src(e))
		}
		act := "return nil"
		body := ""
		for _, b := range cc.Body {
			body += r.src(b) + "\n"
		}
		switch {
		case strings.Contains(body, "CopyPlacer("):
			act = "CopyPlacer"
		case strings.Contains(body, "GetMountPlacer("):
			act = "GetMountPlacer"
		case strings.Contains(body, "panic("):
			act = "panic"
		}
		if len(ks) == 0 {
			ks = []string{"default"}
		}
		prow = append(prow, fmt.Sprintf("(%s, %s)", leanStrList(ks), leanStr(act)))
		return true
	})
	o.def("cachePlaceSwitch", "List (List String × String)", "["+strings.Join(prow, ", ")+"]", "cache.place: placement mode -> what places the shelf at the destination")
	// CopyPlacer: the directory re-timing of postVisit and the position of the parent-mtime repair
	cp := r.funcDecl("stitch/placer", "", "CopyPlacer")
	postVisit := ""
	var repairPos, removePos token.Pos
	ast.Inspect(cp, func(n ast.Node) bool {
		switch x := n.(type) {
		case *ast.AssignStmt:
			if len(x.Lhs) == 1 && r.src(x.Lhs[0]) == "postVisit" {
				if fl, ok := x.Rhs[0].(*ast.FuncLit); ok {
					var parts []string
					for _, st := range fl.Body.List {
						if is, ok := st.(*ast.IfStmt); ok {
							call := ""
							ast.Inspect(is.Body, func(m ast.Node) bool {
								if ce, ok := m.(*ast.CallExpr); ok && strings.HasSuffix(r.src(ce.Fun), ".SetTimesNano") {
									call = "SetTimesNano(" + argsSrc(r, ce) + ")"
								}
								return true
							})
							parts = append(parts, "if "+r.src(is.Cond)+" { "+call+" }")
						} else if _, ok := st.(*ast.ReturnStmt); !ok {
							parts = append(parts, r.src(st))
						}
					}
					postVisit = strings.Join(parts, "; ")
				}
			}
		case *ast.DeferStmt:
			if strings.Contains(r.src(x.Call), "RepairMtime(") && repairPos == 0 {
				repairPos = x.Pos()
			}
		case *ast.CallExpr:
			if r.src(x.Fun) == "os.RemoveAll" && removePos == 0 {
				removePos = x.Pos()
			}
		}
		return true
	})
	// git unpackOneRepo: the sub-tree presence check comes before the tree walker is made
	{
		uo := r.funcDecl("transmat/git", "", "unpackOneRepo")
		var checkPos, walkPos token.Pos
		if uo != nil {
			ast.Inspect(uo, func(n ast.Node) bool {
				if ce, ok := n.(*ast.CallExpr); ok {
					switch r.src(ce.Fun) {
					case "checkSubtreesPresent":
						if checkPos == 0 {
							checkPos = ce.Pos()
						}
					case "object.NewTreeWalker":
						if walkPos == 0 {
							walkPos = ce.Pos()
						}
					}
				}
				return true
			})
		}
		o.def("gitCheckBeforeWalk", "Bool", fmt.Sprint(checkPos != 0 && walkPos != 0 && checkPos < walkPos), "unpackOneRepo calls checkSubtreesPresent before object.NewTreeWalker")
	}
	o.def("copyPlacerPostVisit", "String", leanStr(postVisit), "CopyPlacer's postVisit: which nodes are re-timed and to what")
	o.def("copyPlacerRepairBeforeRemove", "Bool", fmt.Sprint(repairPos != 0 && removePos != 0 && repairPos < removePos), "the deferred RepairMtime of the destination's parent is set up before the destination is cleared")
}

// ---- C03: the hash comparison guards success / Commit ----
func genWrapCompare(r *repo, o *out) {
	w := r.funcDecl("transmat/util", "", "wrapUnpacker")
	var cmp []string
	ast.Inspect(w, func(n ast.Node) bool {
		if is, ok := n.(*ast.IfStmt); ok {
			c := r.src(is.Cond)
			if strings.Contains(c, "wareID") && strings.Contains(c, "!=") {
				cmp = append(cmp, c+" => "+firstLine(r.src(is.Body)))
			}
		}
		return true
	})
	o.def("wrapUnpackerCompare", "List String", leanStrList(cmp), "hash comparisons in util.wrapUnpacker and what they guard")
	m := r.funcDecl("transmat/util", "", "CreateMirror")
	var mc []string
	commitAfter := false
	seenCmp := false
	ast.Inspect(m, func(n ast.Node) bool {
		switch x := n.(type) {
		case *ast.IfStmt:
			c := r.src(x.Cond)
			if strings.Contains(c, "gotWare") && strings.Contains(c, "!=") {
				mc = append(mc, c)
				seenCmp = true
			}
		case *ast.CallExpr:
			if se, ok := x.Fun.(*ast.SelectorExpr); ok && se.Sel.Name == "Commit" {
				commitAfter = seenCmp
			}
		}
		return true
	})
	o.def("mirrorCompare", "List String", leanStrList(mc), "hash comparisons in util.CreateMirror")
	o.def("mirrorCommitAfterCompare", "Bool", fmt.Sprint(commitAfter), "the only Commit call of CreateMirror comes after the comparison in source order")
	// cache.populate: rename after the error return of the unpack tool
	p := r.funcDecl("transmat/mixins/cache", "cache", "populate")
	order := []string{}
	for _, st := range p.Body.List {
		s := r.src(st)
		switch {
		case strings.Contains(s, "c.unpackTool("):
			order = append(order, "unpack")
		case strings.HasPrefix(s, "if err != nil") && len(order) > 0 && order[len(order)-1] == "unpack":
			order = append(order, "return-on-error")
		case strings.Contains(s, "os.Rename("):
			order = append(order, "rename")
		case strings.Contains(s, "ShelfFor("):
			order = append(order, "shelf:"+strings.TrimSpace(strings.SplitN(strings.SplitN(s, "ShelfFor(", 2)[1], ")", 2)[0]))
		case strings.Contains(s, "defer os.RemoveAll("):
			order = append(order, "defer-remove-tmp")
		}
	}
	o.def("populateOrder", "List String", leanStrList(order), "order of the key statements of cache.populate")
}

func firstLine(s string) string {
	s = strings.TrimSpace(strings.Trim(strings.TrimSpace(s), "{}"))
	if i := strings.IndexByte(s, '\n'); i >= 0 {
		s = s[:i]
	}
	return strings.TrimSpace(s)
}

// genGuid: lock discipline of guid.New — the temp-dir names of cache.populate are unique within a process only if
// every access to the generator's shared state happens between mu.Lock() and mu.Unlock().
func genGuid(r *repo, o *out) {
	fd := r.funcDecl("lib/guid", "", "New")
	shared := map[string]bool{}
	for _, f := range r.pkgs["lib/guid"] {
		for _, d := range f.Decls {
			gd, ok := d.(*ast.GenDecl)
			if !ok || gd.Tok.String() != "var" {
				continue
			}
			for _, sp := range gd.Specs {
				vs := sp.(*ast.ValueSpec)
				mutex := vs.Type != nil && strings.Contains(r.src(vs.Type), "Mutex")
				for _, nm := range vs.Names {
					if !mutex && nm.Name != "pushChars" && nm.Name != "_" {
						shared[nm.Name] = true
					}
				}
			}
		}
	}
	locked := false
	var outside []string
	var events []string
	for _, st := range fd.Body.List {
		s := strings.TrimSpace(r.src(st))
		switch {
		case strings.HasSuffix(s, ".Lock()") && !strings.HasPrefix(s, "defer"):
			locked = true
			events = append(events, "lock")
			continue
		case strings.HasSuffix(s, ".Unlock()") && !strings.HasPrefix(s, "defer"):
			locked = false
			events = append(events, "unlock")
			continue
		case strings.HasPrefix(s, "defer") && strings.HasSuffix(s, ".Unlock()"):
			events = append(events, "defer-unlock")
			continue
		}
		if locked {
			continue
		}
		ast.Inspect(st, func(n ast.Node) bool {
			if id, ok := n.(*ast.Ident); ok && shared[id.Name] {
				outside = append(outside, id.Name)
			}
			return true
		})
	}
	o.def("guidSharedOutsideLock", "List String", leanStrList(uniqSorted(outside)), "package-level state of lib/guid touched by guid.New outside its mu.Lock()/mu.Unlock() section")
	o.def("guidLockEvents", "List String", leanStrList(events), "Lock/Unlock statements at the top level of guid.New, in order")
	p := r.funcDecl("transmat/mixins/cache", "cache", "populate")
	tmpFromGuid := false
	ast.Inspect(p, func(n ast.Node) bool {
		if as, ok := n.(*ast.AssignStmt); ok {
			s := r.src(as)
			if strings.Contains(s, ".tmp.unpack.") && strings.Contains(s, "guid.New()") {
				tmpFromGuid = true
			}
		}
		return true
	})
	o.def("populateTmpFromGuid", "Bool", fmt.Sprint(tmpFromGuid), "cache.populate names its temp dir \".tmp.unpack.\" + guid.New()")
}

// genDevModes: the two device-number expressions, verbatim (the Lean model `Rio/Model/DevModes.lean` mirrors them)
func genDevModes(r *repo, o *out) {
	ret := func(name string) string {
		fd := r.funcDecl("fs/osfs", "", name)
		s := ""
		ast.Inspect(fd, func(n ast.Node) bool {
			if rs, ok := n.(*ast.ReturnStmt); ok && s == "" {
				var parts []string
				for _, e := range rs.Results {
					parts = append(parts, r.src(e))
				}
				s = strings.Join(parts, " ; ")
			}
			return true
		})
		return s
	}
	o.def("devModesJoinExpr", "String", leanStr(ret("devModesJoin")), "return expression of osfs.devModesJoin(major, minor)")
	o.def("devModesSplitExpr", "String", leanStr(ret("devModesSplit")), "return expressions of osfs.devModesSplit(rdev) (linux)")
}

// genModelledFuncs: a digest of the source text (comments excluded) of every function the hand-written Lean models
// mirror.  Each property pins the digests of "its" functions (theorems `Cxx_source_tie`): any edit of such a function —
// harmless or not — breaks that tie and makes the check search for a failing input.
func genModelledFuncs(r *repo, o *out) {
	type fn struct{ dir, recv, name string }
	fns := []fn{
		{"fs", "", "MustRelPath"}, {"fs", "", "ParseAbsolutePath"},
		{"fs", "RelPath", "String"}, {"fs", "RelPath", "Dir"}, {"fs", "RelPath", "Last"}, {"fs", "RelPath", "Join"}, {"fs", "RelPath", "GoesUp"},
		{"fs", "RelPath", "Split"}, {"fs", "RelPath", "SplitParent"},
		{"fs", "AbsolutePath", "String"}, {"fs", "AbsolutePath", "Dir"}, {"fs", "AbsolutePath", "Last"}, {"fs", "AbsolutePath", "Join"}, {"fs", "AbsolutePath", "CoerceRelative"},
		{"fs/osfs", "osFS", "realpath"}, {"fs/osfs", "osFS", "_realpath"}, {"fs/osfs", "osFS", "resolveLink"}, {"fs/osfs", "osFS", "ResolveLink"},
		{"fs/osfs", "osFS", "OpenFile"}, {"fs/osfs", "osFS", "LStat"}, {"fs/osfs", "osFS", "Stat"}, {"fs/osfs", "osFS", "convertFileinfo"}, {"fs/osfs", "osFS", "Readlink"},
		{"fs/osfs", "", "devModesJoin"}, {"fs/osfs", "", "devModesSplit"},
		{"fsOp", "", "PlaceFile"}, {"fsOp", "", "ScanFile"}, {"fsOp", "", "MkdirAll"}, {"fsOp", "", "RemoveDirContent"}, {"fsOp", "", "RepairMtime"},
		{"transmat/mixins/filters", "", "ApplyPackFilter"}, {"transmat/mixins/filters", "", "ApplyUnpackFilter"},
		{"transmat/mixins/fshash", "", "HashBucket"}, {"transmat/mixins/fshash", "", "marshalMetadata"},
		{"transmat/mixins/fshash", "MemoryBucket", "AddRecord"}, {"transmat/mixins/fshash", "MemoryBucket", "UpdateRecord"}, {"transmat/mixins/fshash", "MemoryBucket", "HasRecord"},
		{"transmat/mixins/fshash", "MemoryBucket", "Iterator"}, {"transmat/mixins/fshash", "MemoryBucket", "Length"}, {"transmat/mixins/fshash", "memoryBucketIterator", "NextChild"},
		{"transmat/tar", "", "TarHdrToMetadata"}, {"transmat/tar", "", "MetadataToTarHdr"}, {"transmat/tar", "", "unpackTar"}, {"transmat/tar", "", "packTar"},
		{"transmat/tar", "", "Decompress"}, {"transmat/tar", "", "DetectCompression"},
		{"transmat/zip", "", "ZipHdrToMetadata"}, {"transmat/zip", "", "MetadataToZipHdr"},
		{"transmat/zip", "", "parseZipExtraHeader"}, {"transmat/zip", "", "parseUnix3Header"}, {"transmat/zip", "", "parseUnix2Header"}, {"transmat/zip", "", "zipFileOwnership"},
		{"transmat/zip", "", "zipUnix2ExtraHeader"}, {"transmat/zip", "", "zipUnix3ExtraHeader"}, {"transmat/zip", "", "unpackZip"}, {"transmat/zip", "", "packZip"},
		{"transmat/util", "", "PickReader"}, {"transmat/util", "", "wrapUnpacker"}, {"transmat/util", "", "CreateMirror"}, {"warehouse/util", "", "ChunkifyHash"},
		{"transmat/util", "flippingReader", "Read"},
		{"transmat/mixins/cache", "cache", "Unpack"}, {"transmat/mixins/cache", "cache", "populate"}, {"transmat/mixins/cache", "cache", "place"}, {"cache", "", "ShelfFor"},
		{"transmat/mixins/buffer", "", "SectionReader"},
		{"lib/guid", "", "New"},
		{"warehouse/impl/kvfs", "", "NewController"}, {"warehouse/impl/kvfs", "Controller", "OpenReader"}, {"warehouse/impl/kvfs", "Controller", "OpenWriter"},
		{"warehouse/impl/kvfs", "WriteController", "Write"}, {"warehouse/impl/kvfs", "WriteController", "Commit"}, {"warehouse/impl/kvfs", "WriteController", "Close"},
		{"warehouse/impl/kvhttp", "Controller", "OpenReader"},
		{"stitch", "Assembler", "Run"}, {"stitch", "housekeeping", "Teardown"}, {"stitch", "housekeeping", "append"}, {"stitch", "", "isUnderPath"}, {"stitch", "", "PackMulti"},
		{"stitch/placer", "", "CopyPlacer"}, {"stitch/placer", "", "BindPlacer"}, {"stitch/placer", "", "NewOverlayPlacer"}, {"stitch/placer", "", "mkDest"},
		{"stitch/placer", "copyJanitor", "AlwaysTry"}, {"stitch/placer", "bindJanitor", "AlwaysTry"}, {"stitch/placer", "overlayJanitor", "AlwaysTry"},
		{"stitch/placer", "copyJanitor", "Teardown"}, {"stitch/placer", "bindJanitor", "Teardown"}, {"stitch/placer", "overlayJanitor", "Teardown"},
		{"transmat/git", "", "unpack"}, {"transmat/git", "", "unpackOneRepo"}, {"transmat/git", "", "pick"},
		{"warehouse/impl/git", "Controller", "Contains"}, {"warehouse/impl/git", "Controller", "setCacheStorage"},
	}
	var rows []string
	for _, f := range fns {
		fd := r.funcDeclOpt(f.dir, f.recv, f.name)
		q := f.dir + ":" + f.recv + "." + f.name
		if fd == nil {
			rows = append(rows, fmt.Sprintf("(%s, %s)", leanStr(q), leanStr("absent")))
			continue
		}
		doc := fd.Doc
		fd.Doc = nil
		src := r.src(fd)
		fd.Doc = doc
		sum := sha256.Sum256([]byte(src))
		rows = append(rows, fmt.Sprintf("(%s, %s)", leanStr(q), leanStr(hex.EncodeToString(sum[:8]))))
	}
	o.def("modelledFuncs", "List (String × String)", "[\n  "+strings.Join(rows, ",\n  ")+"]", "digest (first 8 bytes of SHA-256 of the printed source, comments excluded) of every function the Lean models mirror")
}
