// Command factgen (T-fact) regenerates, from /repo's current Go source, the fact tables the Lean
// models rely on, as Lean literals in Rio/Generated/Facts.lean. Next to each table the library holds a
// theorem (`Rio/Props/*.lean`, `Rio/Proofs/Facts*.lean`) relating it to the hand-written model; a
// structural edit of the code changes a table and breaks that theorem. Only go/parser + go/ast are used.
package main

import (
	"flag"
	"fmt"
	"go/ast"
	"go/parser"
	"go/printer"
	"go/token"
	"os"
	"path/filepath"
	"sort"
	"strings"
)

type repo struct {
	root string
	fset *token.FileSet
	pkgs map[string][]*ast.File // dir (relative) -> files (non-test)
}

func load(root string) *repo {
	r := &repo{root: root, fset: token.NewFileSet(), pkgs: map[string][]*ast.File{}}
	filepath.Walk(root, func(p string, info os.FileInfo, err error) error {
		if err != nil {
			return nil
		}
		if info.IsDir() {
			if strings.HasPrefix(info.Name(), ".") && p != root {
				return filepath.SkipDir
			}
			return nil
		}
		if !strings.HasSuffix(p, ".go") || strings.HasSuffix(p, "_test.go") {
			return nil
		}
		if strings.Contains(p, "_darwin") || strings.HasSuffix(p, "verif_export.go") {
			return nil
		}
		f, err := parser.ParseFile(r.fset, p, nil, parser.ParseComments)
		if err != nil {
			fail("parse %s: %v", p, err)
		}
		// honour the `!verif` / `verif` build tags: facts describe the hooked build minus hook files
		for _, cg := range f.Comments {
			for _, c := range cg.List {
				if strings.HasPrefix(c.Text, "//go:build verif") {
					return nil
				}
			}
		}
		rel, _ := filepath.Rel(root, filepath.Dir(p))
		r.pkgs[rel] = append(r.pkgs[rel], f)
		return nil
	})
	return r
}

func fail(f string, a ...interface{}) {
	fmt.Fprintf(os.Stderr, "factgen: "+f+"\n", a...)
	os.Exit(1)
}

// funcDecl finds a function (recv == "" for plain functions) in a package directory.
func (r *repo) funcDecl(dir, recv, name string) *ast.FuncDecl {
	for _, f := range r.pkgs[dir] {
		for _, d := range f.Decls {
			fd, ok := d.(*ast.FuncDecl)
			if !ok || fd.Name.Name != name {
				continue
			}
			if recv == "" && fd.Recv == nil {
				return fd
			}
			if recv != "" && fd.Recv != nil && len(fd.Recv.List) == 1 {
				t := fd.Recv.List[0].Type
				if s, ok := t.(*ast.StarExpr); ok {
					t = s.X
				}
				if id, ok := t.(*ast.Ident); ok && id.Name == recv {
					return fd
				}
			}
		}
	}
	fail("function %s.%s not found in %s (the code moved: broken tie)", recv, name, dir)
	return nil
}

// funcDeclOpt is funcDecl without the fatal error (nil when the function is not there).
func (r *repo) funcDeclOpt(dir, recv, name string) *ast.FuncDecl {
	for _, f := range r.pkgs[dir] {
		for _, d := range f.Decls {
			fd, ok := d.(*ast.FuncDecl)
			if !ok || fd.Name.Name != name {
				continue
			}
			if recv == "" && fd.Recv == nil {
				return fd
			}
			if recv != "" && fd.Recv != nil && len(fd.Recv.List) == 1 {
				t := fd.Recv.List[0].Type
				if s, ok := t.(*ast.StarExpr); ok {
					t = s.X
				}
				if id, ok := t.(*ast.Ident); ok && id.Name == recv {
					return fd
				}
			}
		}
	}
	return nil
}

func (r *repo) src(n ast.Node) string {
	var sb strings.Builder
	printer.Fprint(&sb, r.fset, n)
	return sb.String()
}

func leanStr(s string) string {
	s = strings.ReplaceAll(s, "\\", "\\\\")
	s = strings.ReplaceAll(s, "\"", "\\\"")
	s = strings.ReplaceAll(s, "\n", "\\n")
	s = strings.ReplaceAll(s, "\t", " ")
	return "\"" + s + "\""
}
func leanStrList(ss []string) string {
	q := make([]string, len(ss))
	for i, s := range ss {
		q[i] = leanStr(s)
	}
	return "[" + strings.Join(q, ", ") + "]"
}
func uniqSorted(ss []string) []string {
	m := map[string]bool{}
	for _, s := range ss {
		m[s] = true
	}
	var out []string
	for s := range m {
		out = append(out, s)
	}
	sort.Strings(out)
	return out
}

// fsInterfaceMethods parses fs/interface.go for the method set of fs.FS.
func (r *repo) fsInterfaceMethods() []string {
	var ms []string
	for _, f := range r.pkgs["fs"] {
		ast.Inspect(f, func(n ast.Node) bool {
			ts, ok := n.(*ast.TypeSpec)
			if !ok || ts.Name.Name != "FS" {
				return true
			}
			if it, ok := ts.Type.(*ast.InterfaceType); ok {
				for _, m := range it.Methods.List {
					for _, nm := range m.Names {
						ms = append(ms, nm.Name)
					}
				}
			}
			return false
		})
	}
	if len(ms) == 0 {
		fail("fs.FS interface not found")
	}
	return ms
}

// callsIn collects, inside node n: fs.FS method names invoked on any receiver, pkg-qualified calls of the
// given packages, and the flag argument texts of OpenFile calls.
func (r *repo) callsIn(n ast.Node, fsMethods map[string]bool, pkgs map[string]bool) (meth, pkgcalls, openFlags []string) {
	ast.Inspect(n, func(x ast.Node) bool {
		ce, ok := x.(*ast.CallExpr)
		if !ok {
			return true
		}
		se, ok := ce.Fun.(*ast.SelectorExpr)
		if !ok {
			return true
		}
		if id, ok := se.X.(*ast.Ident); ok && pkgs[id.Name] {
			pkgcalls = append(pkgcalls, id.Name+"."+se.Sel.Name)
			return true
		}
		if fsMethods[se.Sel.Name] {
			meth = append(meth, se.Sel.Name)
			if se.Sel.Name == "OpenFile" && len(ce.Args) >= 2 {
				openFlags = append(openFlags, r.src(ce.Args[1]))
			}
		}
		return true
	})
	return
}

type out struct{ sb strings.Builder }

func (o *out) def(name, typ, val, doc string) {
	fmt.Fprintf(&o.sb, "/-- %s -/\ndef %s : %s := %s\n\n", doc, name, typ, val)
}

func main() {
	repoDir := flag.String("repo", "/repo", "")
	outDir := flag.String("out", "", "")
	flag.Parse()
	if *outDir == "" {
		fail("--out required")
	}
	r := load(*repoDir)
	o := &out{}
	o.sb.WriteString("/- GENERATED by /verif/translate (factgen) from the Go source on every run. Do not edit. -/\nnamespace Rio.Generated\n\n")
	genPackPath(r, o)
	genPkgVars(r, o)
	genMetadata(r, o)
	genCloseChecks(r, o)
	genOsfs(r, o)
	genStitch(r, o)
	genWrapCompare(r, o)
	genPlacers(r, o)
	genGuid(r, o)
	genDevModes(r, o)
	genModelledFuncs(r, o)
	o.sb.WriteString("end Rio.Generated\n")
	must(os.MkdirAll(*outDir, 0755))
	must(os.WriteFile(filepath.Join(*outDir, "Facts.lean"), []byte(o.sb.String()), 0644))
	fmt.Println("factgen: wrote Facts.lean")
}

func must(err error) {
	if err != nil {
		fail("%v", err)
	}
}
