module verif/harness

go 1.18

require (
	github.com/polydawn/go-timeless-api v0.0.0-20220821201550-b93919e12c56
	github.com/polydawn/refmt v0.0.0-20201211092308-30ac6d18308e
	github.com/polydawn/rio v0.0.0
	github.com/warpfork/go-errcat v0.0.0-20180917083543-335044ffc86e
	golang.org/x/sys v0.0.0-20190726091711-fc99dfbffb4e
)

require (
	github.com/emirpasic/gods v1.12.0 // indirect
	github.com/jbenet/go-context v0.0.0-20150711004518-d14ea06fba99 // indirect
	github.com/kevinburke/ssh_config v0.0.0-20190725054713-01f96b0aa0cd // indirect
	github.com/mitchellh/go-homedir v1.1.0 // indirect
	github.com/sergi/go-diff v1.0.0 // indirect
	github.com/src-d/gcfg v1.4.0 // indirect
	github.com/xanzy/ssh-agent v0.2.1 // indirect
	github.com/xi2/xz v0.0.0-20171230120015-48954b6210f8 // indirect
	golang.org/x/crypto v0.0.0-20190701094942-4def268fd1a4 // indirect
	golang.org/x/net v0.0.0-20190724013045-ca1201d0de80 // indirect
	gopkg.in/src-d/go-billy.v4 v4.3.2 // indirect
	gopkg.in/src-d/go-git.v4 v4.13.1 // indirect
	gopkg.in/warnings.v0 v0.1.2 // indirect
)

replace github.com/polydawn/rio => /repo
