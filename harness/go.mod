module verif/harness

go 1.18

require (
	github.com/polydawn/go-timeless-api v0.0.0-20220821201550-b93919e12c56
	github.com/polydawn/refmt v0.0.0-20201211092308-30ac6d18308e
	github.com/polydawn/rio v0.0.0
	github.com/warpfork/go-errcat v0.0.0-20180917083543-335044ffc86e
	golang.org/x/sys v0.0.0-20190726091711-fc99dfbffb4e
)

require github.com/xi2/xz v0.0.0-20171230120015-48954b6210f8 // indirect

replace github.com/polydawn/rio => /repo
