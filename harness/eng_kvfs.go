package main

import (
	"bytes"
	"context"
	"errors"
	"fmt"
	"net"
	"os"
	"path/filepath"
	"runtime"
	"strings"
	"sync"
	"syscall"
	"time"

	api "github.com/polydawn/go-timeless-api"
	"github.com/polydawn/go-timeless-api/rio"
	"github.com/polydawn/rio/lib/verifhook"
	tartrans "github.com/polydawn/rio/transmat/tar"
	ziptrans "github.com/polydawn/rio/transmat/zip"
)

func init() { engines["kvfs"] = kvfsEngine }

// stepOf maps a hook point of the write path to the model's step kind (write steps carry no name).
func isFlushStack() bool {
	pcs := make([]uintptr, 40)
	n := runtime.Callers(3, pcs)
	frames := runtime.CallersFrames(pcs[:n])
	for {
		fr, more := frames.Next()
		if strings.HasSuffix(fr.Function, "gzip.(*Writer).Close") || strings.HasSuffix(fr.Function, "tar.(*Writer).Close") ||
			strings.HasSuffix(fr.Function, "zip.(*Writer).Close") || strings.HasSuffix(fr.Function, "bufio.(*Writer).Flush") {
			return true
		}
		if !more {
			return false
		}
	}
}

type kvfsRun struct {
	mu        sync.Mutex
	steps     []string // kind of every step hit so far: b, f, close, mkdirs, rename
	failAt    int      // step index to fail (-1 none)
	freezeAt  int      // step index at which the writer blocks forever (crash), -1 none
	frozen    chan struct{}
	onStep    func(idx int, kind string) // reader poll
	stagePath string
}

func (k *kvfsRun) handler(name string, detail []string) error {
	kind := ""
	switch name {
	case "kvfs.openwriter.created":
		k.stagePath = detail[0]
		return nil
	case "kvfs.write":
		kind = "b"
		if isFlushStack() {
			kind = "f"
		}
	case "kvfs.commit.begin":
		kind = "close"
	case "kvfs.commit.closed":
		kind = "mkdirs"
	case "kvfs.commit.rename":
		kind = "rename"
	default:
		return nil
	}
	k.mu.Lock()
	idx := len(k.steps)
	k.steps = append(k.steps, kind)
	k.mu.Unlock()
	if k.onStep != nil {
		k.onStep(idx, kind)
	}
	if idx == k.freezeAt {
		close(k.frozen)
		select {} // crash: this writer never takes another step
	}
	if idx == k.failAt {
		return errors.New("injected fault: " + syscall.ENOSPC.Error())
	}
	return nil
}

// kvfsExec: recipe "kvfs <pack-tar|pack-zip|mirror> <ca|file> <fault: none|fail:<i>|crash:<i>> <fileset>"
func kvfsExec(c *Ctx, op string) {
	f := strings.Fields(op)
	what, whKind, fault := f[1], f[2], f[3]
	fsx := parseFilesetTok(f[4])
	caseCounter++
	base := filepath.Join(c.Work, fmt.Sprintf("kv%d", caseCounter))
	defer rmrf(base)
	src, whDir, srcWh := filepath.Join(base, "src"), filepath.Join(base, "wh"), filepath.Join(base, "srcwh")
	os.MkdirAll(whDir, 0755)
	os.MkdirAll(srcWh, 0755)
	os.Setenv("RIO_CACHE", filepath.Join(base, "cache"))
	ctx := context.Background()
	pf := api.MustParseFilesetPackFilter(losslessPackStr)
	if err := Materialize(fsx, src, nil); err != nil {
		c.EmitR(op, "skip", "skip")
		return
	}
	fmtName := "tar"
	fn := funcsFor("tar")
	if what == "pack-zip" {
		fmtName, fn = "zip", funcsFor("zip")
	}
	// the id the ware will have (and, for mirror, a source warehouse holding it)
	id, err := fn.pack(ctx, api.PackType(fmtName), src, pf, whAddr("ca", srcWh), rio.Monitor{})
	if err != nil {
		c.EmitR(op, "skip", "skip")
		return
	}
	srcBefore, _ := os.ReadFile(storedWarePath("ca", srcWh, id))
	target := whDir
	run := func(k *kvfsRun) (string, bool) {
		verifhook.Set(k.handler)
		defer verifhook.Set(nil)
		done := make(chan string, 1)
		go func() {
			var e error
			var pan string
			switch what {
			case "mirror":
				_, e, pan = safeCall(func() (api.WareID, error) {
					return fn.mirror(ctx, id, whAddr(whKind, target), []api.WarehouseLocation{whAddr("ca", srcWh)}, rio.Monitor{})
				})
			default:
				_, e, pan = safeCall(func() (api.WareID, error) {
					return fn.pack(ctx, api.PackType(fmtName), src, pf, whAddr(whKind, target), rio.Monitor{})
				})
			}
			switch {
			case pan != "":
				done <- "panic"
			case e != nil:
				done <- "err " + catOf(e)
			default:
				done <- "ok"
			}
		}()
		select {
		case r := <-done:
			return r, false
		case <-k.frozen:
			return "running", true
		case <-time.After(20 * time.Second):
			return "timeout", false
		}
	}
	inspect := func() (string, int) {
		final := storedWarePath(whKind, target, id)
		fin := "absent"
		if _, e := os.Lstat(final); e == nil {
			// complete iff it scans to its own id (independent of how it was written)
			sid, e2, pan := safeCall(func() (api.WareID, error) {
				return fn.scan(ctx, api.PackType(fmtName), api.MustParseFilesetUnpackFilter(losslessUnpackStr), rio.Placement_Direct, api.WarehouseLocation("file://"+final), rio.Monitor{})
			})
			if e2 == nil && pan == "" && sid == id {
				fin = "complete"
			} else {
				fin = "partial"
			}
		}
		st := 0
		dir := target
		if ents, e := os.ReadDir(dir); e == nil {
			for _, d := range ents {
				if strings.HasPrefix(d.Name(), ".tmp.upload") {
					st++
				}
			}
		}
		return fin, st
	}
	// dry run: learn the step sequence; the reader polls at every step
	dry := &kvfsRun{failAt: -1, freezeAt: -1, frozen: make(chan struct{})}
	polls, partialSeen := 0, ""
	dry.onStep = func(idx int, kind string) {
		verifhookQuiet(func() {
			fin, _ := inspect()
			polls++
			if fin == "partial" {
				partialSeen = fmt.Sprintf("a reader saw a partial ware at the final address at step %d (%s)", idx, kind)
			}
		})
	}
	dryDir := filepath.Join(base, "whdry")
	os.MkdirAll(dryDir, 0755)
	target = dryDir
	r0, _ := run(dry)
	target = whDir
	if partialSeen != "" {
		c.PropFail("reader-saw-partial", partialSeen, op)
	}
	nSteps := len(dry.steps)
	chunks := ""
	for _, s := range dry.steps {
		if s == "b" || s == "f" {
			chunks += s
		}
	}
	if chunks == "" {
		chunks = "-"
	}
	// the requested fault
	k := &kvfsRun{failAt: -1, freezeAt: -1, frozen: make(chan struct{})}
	var idx int
	kind := "none"
	if strings.Contains(fault, ":") {
		p := strings.SplitN(fault, ":", 2)
		kind = p[0]
		fmt.Sscan(p[1], &idx)
		if nSteps > 0 {
			idx = idx % nSteps
		}
		if kind == "fail" {
			k.failAt = idx
		} else {
			k.freezeAt = idx
		}
	}
	_ = r0
	res, frozen := run(k)
	verifhook.Set(nil)
	fin, st := inspect()
	// the model's schedule: one token per step taken. open(ok) + each step up to the fault
	var toks []string
	toks = append(toks, "ok") // opening
	limit := nSteps
	if kind == "crash" {
		limit = idx // steps before the frozen one were taken
	}
	for i := 0; i < limit; i++ {
		if kind == "fail" && i == idx {
			toks = append(toks, "fail")
			break
		}
		toks = append(toks, "ok")
	}
	if kind != "crash" {
		toks = append(toks, "ok", "ok") // cleanup (+ a spare no-op)
	}
	modelOp := fmt.Sprintf("kvfs 1 %s %s", chunks, strings.Join(toks, ","))
	c.EmitR(op, modelOp, fmt.Sprintf("res=%s final=%s staging=%d", res, fin, st))
	// ---- property oracle (C08)
	if fin == "partial" {
		c.PropFail("partial-ware-served", fmt.Sprintf("after %s the final address holds a ware that does not scan to its id (outcome %s)", fault, res), op)
	}
	if strings.HasPrefix(res, "err") {
		if fin != "absent" {
			c.PropFail("error-but-committed", "the operation returned an error but the final address exists", op)
		}
		if st != 0 {
			c.PropFail("staging-left", "a staging file was left behind by an operation that returned", op)
		}
	}
	if res == "ok" && fin != "complete" {
		c.PropFail("ok-but-not-served", "the operation returned success but the target does not serve the complete ware", op)
	}
	if res == "panic" {
		c.PropFail("kvfs-panic", "panic on the write path", op)
	}
	if kind == "crash" && st > 1 {
		c.PropFail("staging-left", "more than the crashed writer's staging file left", op)
	}
	after, _ := os.ReadFile(storedWarePath("ca", srcWh, id))
	if string(after) != string(srcBefore) {
		c.PropFail("warehouse-mutated", "the source warehouse was modified", op)
	}
	_ = frozen
	c.H("what:" + what + ":" + whKind)
	c.H("fault:" + kind)
	if kind != "none" && nSteps > 0 {
		c.H("faultstep:" + dry.steps[idx])
	}
	c.H("res:" + strings.Fields(res)[0])
	c.Extra["reader_polls"] = polls
	c.Distinct(modelOp + what + whKind)
}

// kvfsShrink: the source changes under the packer — the last file of the walk is truncated while its body is being
// copied (the first write that reaches the warehouse after the copy started does it: deterministic). Whatever pack
// answers, the warehouse must agree: an error leaves nothing, a success leaves a ware that scans to the returned id.
func kvfsShrink(c *Ctx, fmtName, whKind string) {
	caseCounter++
	base := filepath.Join(c.Work, fmt.Sprintf("kvshr%d", caseCounter))
	defer rmrf(base)
	src, whDir := filepath.Join(base, "src"), filepath.Join(base, "wh")
	os.MkdirAll(whDir, 0755)
	big := make([]byte, 3<<20)
	for i := range big {
		big[i] = byte(c.Rand())
	}
	fsx := Fileset{{Name: "", Kind: 'd', Perms: 0755, Sec: 1e9}, {Name: "a", Kind: 'f', Perms: 0644, Sec: 1e9, Content: []byte("small")},
		{Name: "zz-last", Kind: 'f', Perms: 0644, Sec: 1e9, Content: big}}
	if Materialize(fsx, src, nil) != nil {
		return
	}
	op := fmt.Sprintf("kvfs-shrink %s %s", fmtName, whKind)
	c.Begin(op)
	fn := funcsFor(fmtName)
	ctx := context.Background()
	pf := api.MustParseFilesetPackFilter(losslessPackStr)
	var once sync.Once
	writes := 0
	verifhook.Set(func(name string, detail []string) error {
		if name == "kvfs.write" {
			writes++
			if writes >= 2 {
				once.Do(func() { os.Truncate(filepath.Join(src, "zz-last"), 4096) })
			}
		}
		return nil
	})
	id, err, pan := safeCall(func() (api.WareID, error) {
		return fn.pack(ctx, api.PackType(fmtName), src, pf, whAddr(whKind, whDir), rio.Monitor{})
	})
	verifhook.Set(nil)
	c.H("shrink:" + fmtName + ":" + strings.Fields(resTok(id, err, pan))[0])
	var files, staging []string
	filepath.Walk(whDir, func(p string, info os.FileInfo, e error) error {
		if e == nil && !info.IsDir() {
			if strings.HasPrefix(info.Name(), ".tmp.upload") {
				staging = append(staging, p)
			} else {
				files = append(files, p)
			}
		}
		return nil
	})
	switch {
	case pan != "":
		c.PropFail("kvfs-panic", "pack of a shrinking file panicked: "+pan, op)
	case err != nil:
		if len(files) > 0 {
			c.PropFail("error-but-committed", "pack of a file that shrank while being read returned an error but left an object in the warehouse", op)
		}
	default:
		final := storedWarePath(whKind, whDir, id)
		sid, e2, pan2 := safeCall(func() (api.WareID, error) {
			return fn.scan(ctx, api.PackType(fmtName), api.MustParseFilesetUnpackFilter(losslessUnpackStr), rio.Placement_Direct, api.WarehouseLocation("file://"+final), rio.Monitor{})
		})
		if e2 != nil || pan2 != "" || sid != id {
			c.PropFail("partial-ware-served", fmt.Sprintf("pack of a file that shrank while being read reported success (%s); the ware at the final address does not scan to that id: %v", id.Hash, e2), op)
		}
	}
	if len(staging) > 0 {
		c.PropFail("staging-left", "a staging file was left behind by a pack that returned", op)
	}
	c.EmitR(op, "skip", "skip")
}

// kvfsXdev: recipe "kvfs-xdev <pack-tar|mirror> <size>" — a content-addressed warehouse whose shard directory for the ware
// lives on another (tiny) filesystem: the commit's rename cannot work across them. Whatever the operation answers, the
// final address holds the complete ware or nothing, and no staging file stays.
func kvfsXdev(c *Ctx, what string, size string) {
	op := fmt.Sprintf("kvfs-xdev %s %s", what, size)
	c.Begin(op)
	caseCounter++
	base := filepath.Join(c.Work, fmt.Sprintf("kvxd%d", caseCounter))
	defer rmrf(base)
	src, whDir, srcWh := filepath.Join(base, "src"), filepath.Join(base, "wh"), filepath.Join(base, "srcwh")
	os.MkdirAll(whDir, 0755)
	os.MkdirAll(srcWh, 0755)
	big := make([]byte, 400000)
	for i := range big {
		big[i] = byte(c.Rand())
	}
	fsx := Fileset{{Name: "", Kind: 'd', Perms: 0755, Sec: 1e9}, {Name: "big", Kind: 'f', Perms: 0644, Sec: 1e9, Content: big}}
	if Materialize(fsx, src, nil) != nil {
		return
	}
	ctx := context.Background()
	pf := api.MustParseFilesetPackFilter(losslessPackStr)
	id, err := tartrans.Pack(ctx, "tar", src, pf, whAddr("ca", srcWh), rio.Monitor{})
	if err != nil {
		return
	}
	final := storedWarePath("ca", whDir, id)
	shardA := filepath.Dir(filepath.Dir(final))
	os.MkdirAll(shardA, 0755)
	if e := syscall.Mount("tmpfs", shardA, "tmpfs", 0, "size="+size); e != nil {
		c.H("xdev:mount-failed")
		return
	}
	defer syscall.Unmount(shardA, syscall.MNT_DETACH)
	var rerr error
	var pan string
	switch what {
	case "pack-tar":
		_, rerr, pan = safeCall(func() (api.WareID, error) {
			return tartrans.Pack(ctx, "tar", src, pf, whAddr("ca", whDir), rio.Monitor{})
		})
	case "mirror":
		_, rerr, pan = safeCall(func() (api.WareID, error) {
			return tartrans.Mirror(ctx, id, whAddr("ca", whDir), []api.WarehouseLocation{whAddr("ca", srcWh)}, rio.Monitor{})
		})
	}
	c.H(fmt.Sprintf("xdev:%s:err=%v", what, rerr != nil))
	if pan != "" {
		c.PropFail("kvfs-panic", "panic on the write path: "+pan, op)
	}
	if _, e := os.Lstat(final); e == nil {
		sid, e2, pan2 := safeCall(func() (api.WareID, error) {
			return tartrans.Scan(ctx, "tar", api.MustParseFilesetUnpackFilter(losslessUnpackStr), rio.Placement_Direct, api.WarehouseLocation("file://"+final), rio.Monitor{})
		})
		if e2 != nil || pan2 != "" || sid != id {
			c.PropFail("partial-ware-served", fmt.Sprintf("after %s into a warehouse whose shard directory is on another (full) filesystem (answer: %v) the final address holds a ware that does not scan to its id", what, rerr), op)
		} else if rerr != nil {
			c.PropFail("error-but-committed", "the operation returned an error but the final address exists", op)
		}
	} else if rerr == nil {
		c.PropFail("ok-but-not-served", "the operation returned success but the target does not hold the ware", op)
	}
	filepath.Walk(whDir, func(p string, info os.FileInfo, e error) error {
		if e == nil && !info.IsDir() && strings.Contains(info.Name(), ".tmp.upload") {
			c.PropFail("staging-left", "staging file left behind: "+strings.TrimPrefix(p, whDir), op)
		}
		return nil
	})
	c.EmitR(op, "skip", "skip")
}

func verifhookQuiet(f func()) { f() }

// kvfsFullDisk: a real ENOSPC — the warehouse is a tiny tmpfs.
func kvfsFullDisk(c *Ctx, what string, whKind string) {
	kvfsFullDiskSized(c, what, whKind, "64k", 300000)
}

// kvfsFullDiskSized: `size` = tmpfs size option, `n` = bytes of incompressible payload.
func kvfsFullDiskSized(c *Ctx, what string, whKind string, size string, n int) {
	caseCounter++
	base := filepath.Join(c.Work, fmt.Sprintf("kvfull%d", caseCounter))
	defer rmrf(base)
	src, whDir, srcWh := filepath.Join(base, "src"), filepath.Join(base, "wh"), filepath.Join(base, "srcwh")
	os.MkdirAll(whDir, 0755)
	os.MkdirAll(srcWh, 0755)
	if err := syscall.Mount("tmpfs", whDir, "tmpfs", 0, "size="+size); err != nil {
		c.H("fulldisk:mount-failed")
		return
	}
	defer syscall.Unmount(whDir, 0)
	big := make([]byte, n)
	for i := range big {
		big[i] = byte(c.Rand())
	}
	fsx := Fileset{{Name: "", Kind: 'd', Perms: 0755, Sec: 1e9}, {Name: "big", Kind: 'f', Perms: 0644, Sec: 1e9, Content: big}}
	if Materialize(fsx, src, nil) != nil {
		return
	}
	ctx := context.Background()
	pf := api.MustParseFilesetPackFilter(losslessPackStr)
	op := fmt.Sprintf("kvfs-fulldisk %s %s %s %d", what, whKind, size, n)
	var id api.WareID
	var err error
	switch what {
	case "pack-tar":
		id, err = tartrans.Pack(ctx, "tar", src, pf, whAddr(whKind, whDir), rio.Monitor{})
	case "pack-zip":
		id, err = ziptrans.Pack(ctx, "zip", src, pf, whAddr(whKind, whDir), rio.Monitor{})
	case "mirror":
		id, _ = tartrans.Pack(ctx, "tar", src, pf, whAddr("ca", srcWh), rio.Monitor{})
		_, err = tartrans.Mirror(ctx, id, whAddr(whKind, whDir), []api.WarehouseLocation{whAddr("ca", srcWh)}, rio.Monitor{})
	}
	c.H("fulldisk:" + what)
	if err == nil {
		c.PropFail("partial-ware-served", fmt.Sprintf("writing a %d byte ware into a %s warehouse reported success", n, size), op)
	}
	// nothing readable, nothing staged
	filepath.Walk(whDir, func(p string, info os.FileInfo, e error) error {
		if e == nil && !info.IsDir() {
			if strings.Contains(info.Name(), ".tmp.upload") {
				c.PropFail("staging-left", "staging file left on a full disk: "+info.Name(), op)
			} else {
				c.PropFail("error-but-committed", "an object exists in the warehouse after a failed write: "+p, op)
			}
		}
		return nil
	})
}

// kvfsOverlap: two writers on one warehouse address at the same time. Writer A (ware X) is held at its pause-th write;
// writer B (file://: another ware Y, the address is the same; ca+file://: the same ware X) runs to completion; A resumes.
// At every step after B's start a reader inspects the final address: absent, or a ware that scans to the id its last
// successful committer announced. Recipe: "kvfs-overlap <pack-tar|pack-zip|mirror> <ca|file> <pause>".
func kvfsOverlap(c *Ctx, what, whKind string, pause int) {
	caseCounter++
	op := fmt.Sprintf("kvfs-overlap %s %s %d", what, whKind, pause)
	base := filepath.Join(c.Work, fmt.Sprintf("kvov%d", caseCounter))
	defer rmrf(base)
	srcX, srcY, whDir, srcWh := filepath.Join(base, "srcx"), filepath.Join(base, "srcy"), filepath.Join(base, "wh"), filepath.Join(base, "srcwh")
	os.MkdirAll(whDir, 0755)
	os.MkdirAll(srcWh, 0755)
	os.Setenv("RIO_CACHE", filepath.Join(base, "cache"))
	ctx := context.Background()
	pf := api.MustParseFilesetPackFilter(losslessPackStr)
	fmtName, fn := "tar", funcsFor("tar")
	if what == "pack-zip" {
		fmtName, fn = "zip", funcsFor("zip")
	}
	mk := func(dir string, seed byte, n int) api.WareID {
		os.MkdirAll(dir, 0755)
		b := make([]byte, n)
		x := uint32(seed)*2654435761 + 1
		for i := range b { // incompressible: many write calls reach the warehouse
			x = x*1664525 + 1013904223
			b[i] = byte(x >> 24)
		}
		os.WriteFile(filepath.Join(dir, "blob"), b, 0644)
		os.WriteFile(filepath.Join(dir, "name"), []byte{seed}, 0644)
		id, _ := fn.pack(ctx, api.PackType(fmtName), dir, pf, whAddr("ca", srcWh), rio.Monitor{})
		return id
	}
	idX := mk(srcX, 'x', 300000)
	idY := idX
	srcB := srcX
	if whKind == "file" {
		idY = mk(srcY, 'y', 200000)
		srcB = srcY
	}
	if idX.Hash == "" || idY.Hash == "" {
		c.EmitR(op, "skip", "skip")
		return
	}
	scanTo := func(want ...api.WareID) string {
		final := storedWarePath(whKind, whDir, idX)
		if _, e := os.Lstat(final); e != nil {
			return "absent"
		}
		sid, e2, pan := safeCall(func() (api.WareID, error) {
			return fn.scan(ctx, api.PackType(fmtName), api.MustParseFilesetUnpackFilter(losslessUnpackStr), rio.Placement_Direct, api.WarehouseLocation("file://"+final), rio.Monitor{})
		})
		if e2 == nil && pan == "" {
			for _, w := range want {
				if sid == w {
					return "complete:" + string([]byte{w.Hash[0]}) + w.Hash[len(w.Hash)-3:]
				}
			}
		}
		return "partial"
	}
	write := func(id api.WareID, src string) string {
		var e error
		var pan string
		if what == "mirror" {
			_, e, pan = safeCall(func() (api.WareID, error) {
				return fn.mirror(ctx, id, whAddr(whKind, whDir), []api.WarehouseLocation{whAddr("ca", srcWh)}, rio.Monitor{})
			})
		} else {
			_, e, pan = safeCall(func() (api.WareID, error) {
				return fn.pack(ctx, api.PackType(fmtName), src, pf, whAddr(whKind, whDir), rio.Monitor{})
			})
		}
		switch {
		case pan != "":
			return "panic"
		case e != nil:
			return "err " + catOf(e)
		}
		return "ok"
	}
	var mu sync.Mutex
	writesA, aHeld, bRunning := 0, false, false
	nA, nB := 0, 0
	paused, resume := make(chan struct{}), make(chan struct{})
	partial := ""
	polls := 0
	verifhook.Set(func(name string, detail []string) error {
		mu.Lock()
		held, inB := aHeld, bRunning
		if name == "kvfs.write" {
			if inB {
				nB++
			} else {
				nA++
			}
		}
		mu.Unlock()
		if inB || held {
			// a step of B while A is held, or of A after B finished: the reader looks
			if name == "kvfs.write" || strings.HasPrefix(name, "kvfs.commit") {
				verifhookQuiet(func() {
					polls++
					if polls%4 == 0 || strings.HasPrefix(name, "kvfs.commit") {
						if r := scanTo(idX, idY); r == "partial" && partial == "" {
							partial = "a reader saw a partial ware at the final address during " + name
						}
					}
				})
			}
			return nil
		}
		if name == "kvfs.write" {
			mu.Lock()
			writesA++
			hit := writesA == pause+1
			if hit {
				aHeld = true
			}
			mu.Unlock()
			if hit {
				close(paused)
				<-resume
			}
		}
		return nil
	})
	defer verifhook.Set(nil)
	doneA := make(chan string, 1)
	go func() { doneA <- write(idX, srcX) }()
	resA, resB, afterB := "", "not-run", "-"
	select {
	case resA = <-doneA: // fewer writes than `pause`: no overlap happened
	case <-paused:
		mu.Lock()
		bRunning = true
		mu.Unlock()
		resB = write(idY, srcB)
		mu.Lock()
		bRunning = false
		mu.Unlock()
		afterB = scanTo(idY)
		close(resume)
		select {
		case resA = <-doneA:
		case <-time.After(30 * time.Second):
			resA = "timeout"
		}
	case <-time.After(30 * time.Second):
		resA = "timeout"
	}
	verifhook.Set(nil)
	afterA := scanTo(idX, idY)
	st := 0
	filepath.Walk(whDir, func(p string, fi os.FileInfo, e error) error {
		if e == nil && strings.HasPrefix(filepath.Base(p), ".tmp.upload") {
			st++
		}
		return nil
	})
	lab := func(r string) string {
		switch r {
		case scanToName(idX):
			return "X"
		case scanToName(idY):
			return "Y"
		}
		return r
	}
	if resB == "not-run" || resA == "timeout" {
		c.EmitR(op, "skip", "skip")
	} else {
		// the model over the shared staging namespace: names differ (a guid each), O_EXCL
		same := 0
		if idX == idY {
			same = 1
		}
		c.EmitR(op, fmt.Sprintf("kvfs2 1 0 %d %d %d %d", same, nA, nB, pause),
			fmt.Sprintf("resA=%s resB=%s afterB=%s afterA=%s staging=%d", resA, resB, lab(afterB), lab(afterA), st))
	}
	cls := func(k string) string {
		if what == "mirror" && k == "ok-but-not-served" {
			return "mirror-not-served"
		}
		return k
	}
	if partial != "" {
		c.PropFail("reader-saw-partial", partial, op)
	}
	if afterA == "partial" || afterB == "partial" {
		c.PropFail("partial-ware-served", fmt.Sprintf("two overlapping writers (A %s, B %s) left a ware at the final address that does not scan to its id (after B: %s, after A: %s)", resA, resB, afterB, afterA), op)
	}
	if resB == "ok" && !strings.HasPrefix(afterB, "complete") {
		c.PropFail(cls("ok-but-not-served"), "writer B returned success while A was held, but the address does not serve B's ware: "+afterB, op)
	}
	if resA == "ok" && afterA != scanToName(idX) {
		c.PropFail(cls("ok-but-not-served"), fmt.Sprintf("writer A returned success after B (%s), but the address does not serve A's ware: %s", resB, afterA), op)
	}
	if strings.HasPrefix(resA, "err") && resB == "ok" && afterA != scanToName(idY) {
		c.PropFail("error-but-committed", fmt.Sprintf("writer A failed (%s) and changed what the address serves: %s after B, %s after A", resA, afterB, afterA), op)
	}
	if resA == "panic" || resB == "panic" {
		c.PropFail("kvfs-panic", "panic on the write path", op)
	}
	if st != 0 && resA != "timeout" {
		c.PropFail("staging-left", fmt.Sprintf("%d staging file(s) left after both writers returned (A %s, B %s)", st, resA, resB), op)
	}
	c.H("overlap:" + what + ":" + whKind + ":" + strings.Fields(resA)[0] + ":" + strings.Fields(resB)[0])
	c.Distinct(op)
}

func scanToName(w api.WareID) string {
	return "complete:" + string([]byte{w.Hash[0]}) + w.Hash[len(w.Hash)-3:]
}

// kvfsRewrite: the ware is already at its final address (packed / mirrored there before) and is written again. A reader
// looks at the address at every step of the second write: it always finds the complete ware; and when the second write
// fails at its rename, the ware that was there is still there. Recipe: "kvfs-rewrite <pack-tar|pack-zip|mirror> <ca|file>".
func kvfsRewrite(c *Ctx, what, whKind string) {
	caseCounter++
	op := fmt.Sprintf("kvfs-rewrite %s %s", what, whKind)
	base := filepath.Join(c.Work, fmt.Sprintf("kvrw%d", caseCounter))
	defer rmrf(base)
	src, whDir, srcWh := filepath.Join(base, "src"), filepath.Join(base, "wh"), filepath.Join(base, "srcwh")
	os.MkdirAll(src, 0755)
	os.MkdirAll(whDir, 0755)
	os.MkdirAll(srcWh, 0755)
	os.Setenv("RIO_CACHE", filepath.Join(base, "cache"))
	os.WriteFile(filepath.Join(src, "f"), bytes.Repeat([]byte("rewrite"), 5000), 0644)
	ctx := context.Background()
	pf := api.MustParseFilesetPackFilter(losslessPackStr)
	fmtName, fn := "tar", funcsFor("tar")
	if what == "pack-zip" {
		fmtName, fn = "zip", funcsFor("zip")
	}
	id, err := fn.pack(ctx, api.PackType(fmtName), src, pf, whAddr("ca", srcWh), rio.Monitor{})
	if err != nil {
		c.EmitR(op, "skip", "skip")
		return
	}
	write := func() string {
		var e error
		var pan string
		if what == "mirror" {
			// (a mirror into a target that has the ware is a no-op: remove it from the *probe*'s point of view by mirroring
			// through the kvfs layer is not possible; packs exercise the rewrite, mirror the no-op)
			_, e, pan = safeCall(func() (api.WareID, error) {
				return fn.mirror(ctx, id, whAddr(whKind, whDir), []api.WarehouseLocation{whAddr("ca", srcWh)}, rio.Monitor{})
			})
		} else {
			_, e, pan = safeCall(func() (api.WareID, error) {
				return fn.pack(ctx, api.PackType(fmtName), src, pf, whAddr(whKind, whDir), rio.Monitor{})
			})
		}
		switch {
		case pan != "":
			return "panic"
		case e != nil:
			return "err " + catOf(e)
		}
		return "ok"
	}
	if r := write(); r != "ok" {
		c.EmitR(op, "skip", "skip")
		return
	}
	final := storedWarePath(whKind, whDir, id)
	complete := func() bool {
		sid, e2, pan := safeCall(func() (api.WareID, error) {
			return fn.scan(ctx, api.PackType(fmtName), api.MustParseFilesetUnpackFilter(losslessUnpackStr), rio.Placement_Direct, api.WarehouseLocation("file://"+final), rio.Monitor{})
		})
		return e2 == nil && pan == "" && sid == id
	}
	c.EmitR(op, "skip", "skip")
	for _, fault := range []string{"none", "rename"} {
		lost := ""
		verifhook.Set(func(name string, detail []string) error {
			if name == "kvfs.write" || strings.HasPrefix(name, "kvfs.commit") {
				verifhookQuiet(func() {
					if !complete() && lost == "" {
						lost = name
					}
				})
			}
			if fault == "rename" && name == "kvfs.commit.rename" {
				return errors.New("injected fault: rename failed")
			}
			return nil
		})
		r := write()
		verifhook.Set(nil)
		if lost != "" {
			c.PropFail("reader-saw-partial", fmt.Sprintf("while %s wrote a ware again that its address already held, a reader at step %s did not find the complete ware there", what, lost), op)
		}
		if !complete() {
			c.PropFail("error-but-committed", fmt.Sprintf("a second %s of a ware already at its address (fault: %s, answer: %s) left the address without the complete ware", what, fault, r), op)
		}
		c.H("rewrite:" + what + ":" + whKind + ":" + fault + ":" + strings.Fields(r)[0])
	}
	c.Distinct(op)
}

// kvfsFailThen: a pack is refused a write in the middle of a file body (the k-th kvfs write: disk full), in the same
// process another fileset is then packed into a healthy warehouse; whatever now stands at a final address scans to the
// id it is filed under (and to the id Pack answered). Recipe: "kvfs-failthen <tar|zip> <k>".
func kvfsFailThen(c *Ctx, fmtName string, k int) {
	caseCounter++
	op := fmt.Sprintf("kvfs-failthen %s %d", fmtName, k)
	base := filepath.Join(c.Work, fmt.Sprintf("kvft%d", caseCounter))
	defer rmrf(base)
	big, small, wh1, wh2 := filepath.Join(base, "big"), filepath.Join(base, "small"), filepath.Join(base, "wh1"), filepath.Join(base, "wh2")
	for _, d := range []string{big, filepath.Join(small, "d"), wh1, wh2} {
		os.MkdirAll(d, 0755)
	}
	os.Setenv("RIO_CACHE", filepath.Join(base, "cache"))
	x := uint32(99 + k)
	b := make([]byte, 600000) // incompressible: the body reaches the warehouse in many writes
	for j := range b {
		x = x*1664525 + 1013904223
		b[j] = byte(x >> 24)
	}
	os.WriteFile(filepath.Join(big, "blob"), b, 0644)
	os.WriteFile(filepath.Join(small, "a"), []byte("alpha\n"), 0644)
	os.WriteFile(filepath.Join(small, "d", "b"), bytes.Repeat([]byte("beta"), 3000), 0644)
	ctx := context.Background()
	pf := api.MustParseFilesetPackFilter(losslessPackStr)
	fn := funcsFor(fmtName)
	n := 0
	verifhook.Set(func(name string, detail []string) error {
		if name == "kvfs.write" {
			n++
			if n == k {
				return errors.New("injected fault: no space left on device")
			}
		}
		return nil
	})
	_, ferr, fpan := safeCall(func() (api.WareID, error) {
		return fn.pack(ctx, api.PackType(fmtName), big, pf, whAddr("ca", wh1), rio.Monitor{})
	})
	verifhook.Set(nil)
	c.EmitR(op, "skip", "skip")
	c.H("kvfs-failthen:" + fmtName + ":" + resTok(api.WareID{}, ferr, fpan))
	if fpan != "" {
		c.PropFail("kvfs-panic", "a pack refused a write panicked: "+fpan, op)
		return
	}
	for rep := 0; rep < 2; rep++ {
		id, err, pan := safeCall(func() (api.WareID, error) {
			return fn.pack(ctx, api.PackType(fmtName), small, pf, whAddr("ca", wh2), rio.Monitor{})
		})
		if err != nil || pan != "" {
			c.PropFail("ok-but-not-served", "after an earlier pack failed, an ordinary pack into a healthy warehouse answers "+resTok(id, err, pan), op)
			return
		}
		final := storedWarePath("ca", wh2, id)
		sid, e2, pan2 := safeCall(func() (api.WareID, error) {
			return fn.scan(ctx, api.PackType(fmtName), api.MustParseFilesetUnpackFilter(losslessUnpackStr), rio.Placement_Direct, api.WarehouseLocation("file://"+final), rio.Monitor{})
		})
		if e2 != nil || pan2 != "" || sid != id {
			c.PropFail("committed-wrong-id", fmt.Sprintf("after an earlier pack failed in the middle of a file body (%s), Pack answered %s and filed a ware at that address which scans to %s", resTok(api.WareID{}, ferr, ""), id, resTok(sid, e2, pan2)), op)
			return
		}
	}
	c.Distinct(op)
}

// kvfsCancel: the caller's context turns cancelled at its k-th poll, for every k a small pack makes and a few more (the
// last ones fall after the walk's final check: during the last body, the flush, the commit). A pack that answers an error
// has put no ware into the (empty) warehouse; one that answers an id has put exactly that ware there.
// Recipe: "kvfs-cancel <tar|zip> <ca|file>".
func kvfsCancel(c *Ctx, fmtName, whKind string) {
	op := fmt.Sprintf("kvfs-cancel %s %s", fmtName, whKind)
	c.Begin(op)
	c.EmitR(op, "skip", "skip")
	fn := funcsFor(fmtName)
	pf := api.MustParseFilesetPackFilter(losslessPackStr)
	for k := 1; k <= 9; k++ {
		caseCounter++
		base := filepath.Join(c.Work, fmt.Sprintf("kvc%d", caseCounter))
		src, wh := filepath.Join(base, "src"), filepath.Join(base, "wh")
		os.MkdirAll(filepath.Join(src, "d"), 0755)
		os.MkdirAll(wh, 0755)
		os.Setenv("RIO_CACHE", filepath.Join(base, "cache"))
		os.WriteFile(filepath.Join(src, "a"), []byte("a"), 0644)
		os.WriteFile(filepath.Join(src, "d", "b"), bytes.Repeat([]byte("b"), 70000), 0644)
		os.WriteFile(filepath.Join(src, "z"), bytes.Repeat([]byte("z"), 200000), 0644)
		cc := &countdownCtx{Context: context.Background(), left: k, done: make(chan struct{})}
		id, err, pan := safeCall(func() (api.WareID, error) {
			return fn.pack(cc, api.PackType(fmtName), src, pf, whAddr(whKind, wh), rio.Monitor{})
		})
		var served []string
		filepath.Walk(wh, func(p string, fi os.FileInfo, e error) error {
			if e == nil && fi.Mode().IsRegular() && !strings.HasPrefix(filepath.Base(p), ".tmp.") {
				served = append(served, p)
			}
			return nil
		})
		c.H(fmt.Sprintf("kvfs-cancel:%s:%s", fmtName, strings.Fields(resTok(id, err, pan))[0]))
		switch {
		case pan != "":
			c.PropFail("kvfs-panic", "a cancelled pack panicked: "+pan, op)
		case err != nil && len(served) > 0:
			c.PropFail("error-but-committed", fmt.Sprintf("a pack whose context turned cancelled at its poll number %d answered %q, yet the warehouse, empty before, now serves %v", k, err.Error(), served), op)
		case err == nil && len(served) != 1:
			c.PropFail("ok-but-not-served", fmt.Sprintf("a pack answered %s and the warehouse holds %d objects", id, len(served)), op)
		}
		rmrf(base)
	}
	c.Distinct(op)
}

// kvfsBadSource: a pack whose source path cannot be packed at all — it does not exist, a parent component is a regular
// file, it runs into a symlink cycle, a component is longer than any name, it is a socket: the pack answers an error
// (or, for an absent path, whatever it answers) and the warehouse — content-addressed or single-object — holds nothing
// afterwards, no ware and no staging file. Recipe: "kvfs-badsource <tar|zip>".
func kvfsBadSource(c *Ctx, fmtName string) {
	op := "kvfs-badsource " + fmtName
	c.Begin(op)
	c.EmitR(op, "skip", "skip")
	caseCounter++
	base := filepath.Join(c.Work, fmt.Sprintf("kbs%d", caseCounter))
	defer rmrf(base)
	os.MkdirAll(base, 0755)
	os.WriteFile(filepath.Join(base, "plain"), []byte("x"), 0644)
	os.Symlink("loop", filepath.Join(base, "loop"))
	if l, e := net.Listen("unix", filepath.Join(base, "sock")); e == nil {
		l.(*net.UnixListener).SetUnlinkOnClose(false)
		l.Close()
	}
	fn := funcsFor(fmtName)
	pf := api.MustParseFilesetPackFilter(losslessPackStr)
	for _, sp := range []string{"absent", "plain/sub", "loop/x", strings.Repeat("n", 300), "sock", "plain/"} {
		for _, wk := range []string{"ca", "file"} {
			wh := filepath.Join(base, "wh-"+wk)
			rmrf(wh)
			os.MkdirAll(wh, 0755)
			id, err, pan := safeCall(func() (api.WareID, error) {
				return fn.pack(context.Background(), api.PackType(fmtName), filepath.Join(base, sp), pf, whAddr(wk, wh), rio.Monitor{})
			})
			r := resTok(id, err, pan)
			c.H("badsource:" + fmtName + ":" + sp[:min(len(sp), 9)] + ":" + strings.Fields(r)[0])
			if pan != "" {
				c.PropFail("kvfs-panic", fmt.Sprintf("pack of the source path %q panicked: %s", sp, pan), op)
				continue
			}
			if err == nil {
				continue // (a regular file or an absent path may well pack: then the ware is there, and that is fine)
			}
			var left []string
			filepath.Walk(wh, func(p string, info os.FileInfo, e error) error {
				if e == nil && p != wh && !info.IsDir() {
					left = append(left, strings.TrimPrefix(p, wh+"/"))
				}
				return nil
			})
			if len(left) > 0 {
				c.PropFail("staging-left", fmt.Sprintf("a %s pack of the source path %q failed (%s) and left %v in the %s warehouse", fmtName, sp, catOf(err), left, wk), op)
			}
		}
	}
}

func kvfsEngine(c *Ctx) {
	if ls := replayLines(); ls != nil {
		for _, op := range ls {
			if strings.HasPrefix(op, "kvfs-fulldisk ") {
				f := strings.Fields(op)
				n := 300000
				size := "64k"
				if len(f) >= 5 {
					size = f[3]
					fmt.Sscan(f[4], &n)
				}
				kvfsFullDiskSized(c, f[1], f[2], size, n)
			} else if strings.HasPrefix(op, "kvfs-xdev ") {
				f := strings.Fields(op)
				kvfsXdev(c, f[1], f[2])
			} else if strings.HasPrefix(op, "kvfs-rewrite ") {
				f := strings.Fields(op)
				kvfsRewrite(c, f[1], f[2])
			} else if strings.HasPrefix(op, "kvfs-overlap ") {
				f := strings.Fields(op)
				n := 0
				fmt.Sscan(f[3], &n)
				kvfsOverlap(c, f[1], f[2], n)
			} else if strings.HasPrefix(op, "kvfs-cancel ") {
				f := strings.Fields(op)
				kvfsCancel(c, f[1], f[2])
			} else if strings.HasPrefix(op, "kvfs-failthen ") {
				f := strings.Fields(op)
				k := 0
				fmt.Sscan(f[2], &k)
				kvfsFailThen(c, f[1], k)
			} else if strings.HasPrefix(op, "kvfs-badsource ") {
				kvfsBadSource(c, strings.Fields(op)[1])
			} else if strings.HasPrefix(op, "kvfs-shrink ") {
				f := strings.Fields(op)
				kvfsShrink(c, f[1], f[2])
			} else if strings.HasPrefix(op, "kvfs ") {
				kvfsExec(c, op)
			}
		}
		return
	}
	n := 6
	if c.Tier == "thorough" {
		n = 60
	}
	for _, fm := range []string{"tar", "zip"} {
		for _, k := range []int{3, 9} {
			kvfsFailThen(c, fm, k+c.Intn(3))
		}
		kvfsCancel(c, fm, []string{"ca", "file"}[c.Intn(2)])
	}
	kvfsBadSource(c, "tar")
	kvfsBadSource(c, "zip")
	whats := []string{"pack-tar", "pack-zip", "mirror"}
	for k := 0; k < n; k++ {
		fsx := c.GenFileset(GenOpts{MaxEntries: 5, Kinds: "ffdL", MaxContent: 500})
		sanitizeForRoundtrip(fsx, "zip")
		sz := []int{0, 1, 5000, 32767, 32768, 32769, 65537, 200000}[c.Intn(8)]
		body := make([]byte, sz)
		for i := range body {
			body[i] = byte(c.Rand())
		}
		fsx = append(fsx, Entry{Name: "blob", Kind: 'f', Perms: 0644, Uid: 1, Gid: 1, Sec: 1e9, Content: body})
		what := whats[k%3]
		wh := []string{"ca", "file"}[c.Intn(2)]
		tok := filesetTok(fsx)
		kvfsExec(c, fmt.Sprintf("kvfs %s %s none %s", what, wh, tok))
		// every step as an injected error and as a crash point (quick: a sample of the steps)
		steps := 12
		if c.Tier == "thorough" {
			steps = 40
		}
		for s := 0; s < steps; s++ {
			i := s
			if s >= 6 {
				i = c.Intn(1000)
			}
			kvfsExec(c, fmt.Sprintf("kvfs %s %s fail:%d %s", what, wh, i, tok))
			if s%2 == 0 {
				kvfsExec(c, fmt.Sprintf("kvfs %s %s crash:%d %s", what, wh, i, tok))
			}
		}
	}
	for _, w := range []string{"pack-tar", "mirror"} {
		kvfsXdev(c, w, "64k") // too small for the ware
		kvfsXdev(c, w, "8m")  // large enough
	}
	for _, w := range whats {
		for _, k := range []string{"ca", "file"} {
			kvfsRewrite(c, w, k)
			kvfsOverlap(c, w, k, 0)
			kvfsOverlap(c, w, k, 1+c.Intn(6))
		}
	}
	for _, fm := range []string{"tar", "zip"} {
		for _, k := range []string{"ca", "file"} {
			kvfsShrink(c, fm, k)
		}
	}
	for _, w := range whats {
		for _, k := range []string{"ca", "file"} {
			kvfsFullDisk(c, w, k)
			// a ware that fits one read buffer: the failing write is the one carrying the last bytes
			kvfsFullDiskSized(c, w, k, "8k", 12000)
			kvfsFullDiskSized(c, w, k, "16k", 20000)
		}
	}
}
