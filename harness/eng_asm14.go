package main

import (
	"context"
	"fmt"
	"os"
	"path/filepath"
	"sort"
	"strings"
	"sync"
	"syscall"
	"time"

	api "github.com/polydawn/go-timeless-api"
	"github.com/polydawn/go-timeless-api/rio"
	"github.com/polydawn/rio/fs"
	"github.com/polydawn/rio/fs/osfs"
	"github.com/polydawn/rio/stitch"
	"github.com/polydawn/rio/stitch/placer"
	tartrans "github.com/polydawn/rio/transmat/tar"
	. "github.com/warpfork/go-errcat"
)

func init() { engines["asm14"] = asm14Engine }

// ---- part A: ordering and the mount rule, with injected tools (compared with the Lean model) ----
// recipe: "asm14 plan <pathhex:isMount:tag;...>" (in listing order)
func asm14PlanExec(c *Ctx, op string) {
	f := strings.Fields(op)
	type in struct {
		path    string
		isMount bool
		tag     int
	}
	var ins []in
	for _, t := range strings.Split(f[2], ";") {
		x := strings.Split(t, ":")
		var tag int
		fmt.Sscan(x[2], &tag)
		ins = append(ins, in{unhx(x[0]), x[1] == "1", tag})
	}
	caseCounter++
	base := filepath.Join(c.Work, fmt.Sprintf("ap%d", caseCounter))
	defer rmrf(base)
	root := filepath.Join(base, "root")
	os.MkdirAll(root, 0755)
	var mu sync.Mutex
	var order []string
	byPath := map[string]in{}
	for _, i := range ins {
		byPath[i.path] = i
	}
	unpackTool := func(ctx context.Context, wareID api.WareID, path string, filt api.FilesetUnpackFilter, mode rio.PlacementMode, wh []api.WarehouseLocation, mon rio.Monitor) (api.WareID, error) {
		return wareID, nil
	}
	rootAbs := fs.MustAbsolutePath(root)
	record := func(dst fs.AbsolutePath) {
		rel := strings.TrimPrefix(dst.String(), rootAbs.String())
		if rel == "" {
			rel = "/"
		}
		mu.Lock()
		order = append(order, fmt.Sprint(byPath[rel].tag))
		mu.Unlock()
	}
	placerTool := func(src, dst fs.AbsolutePath, writable bool) (placer.Janitor, error) {
		record(dst)
		os.MkdirAll(dst.String(), 0755)
		return fakeJanitor{id: 0, always: true, log: &[]string{}, mu: &mu}, nil
	}
	asm := stitch.NewAssemblerForVerif(osfs.New(fs.MustAbsolutePath(filepath.Join(base, "cache"))), unpackTool, placerTool)
	var specs []stitch.UnpackSpec
	hostDir := filepath.Join(base, "host")
	os.MkdirAll(hostDir, 0755)
	for _, i := range ins {
		w := api.WareID{Type: "tar", Hash: fmt.Sprintf("hash%07d", i.tag)}
		if i.isMount {
			w = api.WareID{Type: "mount", Hash: "ro:" + hostDir}
		}
		specs = append(specs, stitch.UnpackSpec{Path: fs.MustAbsolutePath(i.path), WareID: w, Filters: api.FilesetUnpackFilter_Lossless})
	}
	var err error
	pan := ""
	var cleanup func() error
	func() {
		defer func() {
			if r := recover(); r != nil {
				pan = fmt.Sprint(r)
			}
		}()
		cleanup, err = asm.Run(context.Background(), osfs.New(rootAbs), specs, fs.Metadata{Type: fs.Type_Dir, Perms: 0755, Mtime: fs.DefaultTime})
	}()
	// mount inputs go through the real BindPlacer: unmount whatever was mounted
	if cleanup != nil {
		cleanup()
	}
	unmountAllUnder(root)
	res := ""
	switch {
	case pan != "":
		res = "panic"
		c.PropFail("asm-panic", pan, op)
	case err != nil && strings.Contains(err.Error(), "under a mount"):
		// which input was refused: named in the message
		res = "refused=?"
		for _, i := range ins {
			if strings.Contains(err.Error(), fmt.Sprintf("(%q is under mount", i.path)) {
				res = fmt.Sprintf("refused=%d", i.tag)
			}
		}
	case err != nil && strings.Contains(err.Error(), "more than one input at path") && catOf(err) == "rio-assembly-invalid":
		res = "duplicate"
	case err != nil:
		res = "err " + catOf(err)
	default:
		res = "order=" + strings.Join(order, ",")
	}
	// the real BindPlacer is used for mount inputs and is not recorded by the injected placer: add them by sorted position
	if strings.HasPrefix(res, "order=") {
		sorted := append([]in(nil), ins...)
		sort.Slice(sorted, func(a, b int) bool { return sorted[a].path < sorted[b].path })
		var full []string
		oi := 0
		for _, s := range sorted {
			if s.isMount {
				full = append(full, fmt.Sprint(s.tag))
			} else if oi < len(order) {
				full = append(full, order[oi])
				oi++
			}
		}
		res = "order=" + strings.Join(full, ",")
	}
	var mtoks []string
	for _, i := range ins {
		m := "0"
		if i.isMount {
			m = "1"
		}
		mtoks = append(mtoks, fmt.Sprintf("%s:%s:%d", hx(i.path), m, i.tag))
	}
	c.EmitR(op, "asm14 "+strings.Join(mtoks, ";"), res)
	// ---- oracle: the component-wise rule, computed independently
	comps := func(p string) []string {
		var cs []string
		for _, x := range strings.Split(p, "/") {
			if x != "" {
				cs = append(cs, x)
			}
		}
		return cs
	}
	under := func(p, m string) bool {
		pc, mc := comps(p), comps(m)
		if len(mc) > len(pc) {
			return false
		}
		for i := range mc {
			if pc[i] != mc[i] {
				return false
			}
		}
		return true
	}
	shouldRefuse := false
	for _, a := range ins {
		for _, b := range ins {
			if b.isMount && a.tag != b.tag && under(a.path, b.path) {
				shouldRefuse = true
			}
		}
	}
	dup := false
	for i := range ins {
		for j := range ins {
			if i != j && ins[i].path == ins[j].path {
				dup = true
			}
		}
	}
	if dup != (res == "duplicate") && !strings.HasPrefix(res, "err") && !strings.HasPrefix(res, "refused") {
		c.PropFail("order-dependent", "two inputs share a path; the assembly answers "+res+" (listing order would decide what the tree shows)", op)
	}
	if shouldRefuse != strings.HasPrefix(res, "refused") && !strings.HasPrefix(res, "err") && res != "duplicate" {
		if shouldRefuse {
			c.PropFail("mount-rule-missed", "an input lies inside a mount input's path but the assembly was accepted", op)
		} else {
			c.PropFail("mount-rule-overreach", "an input was refused as lying under a mount although no mount input is a component-wise ancestor", op)
		}
	}
	c.H("plan:" + strings.SplitN(res, "=", 2)[0])
	c.Distinct(op)
}

func mountsUnder(root string) []string {
	b, _ := os.ReadFile("/proc/self/mounts")
	var ms []string
	for _, l := range strings.Split(string(b), "\n") {
		f := strings.Fields(l)
		if len(f) > 1 && (f[1] == root || strings.HasPrefix(f[1], root+"/")) {
			ms = append(ms, strings.TrimPrefix(f[1], root))
		}
	}
	return ms
}

func unmountAllUnder(root string) {
	b, _ := os.ReadFile("/proc/self/mounts")
	var ms []string
	for _, l := range strings.Split(string(b), "\n") {
		f := strings.Fields(l)
		if len(f) > 1 && strings.HasPrefix(f[1], root) {
			ms = append(ms, f[1])
		}
	}
	sort.Sort(sort.Reverse(sort.StringSlice(ms)))
	for _, m := range ms {
		unmount(m)
	}
}

// ---- part B: real wares, real placers: order independence, shadowing, confinement, link refusal ----
// recipe: "asm14 real <seed> <input specs: path=kind,...> <perm index>"; kinds: w0..w3 (wares), ro, rw (host mounts)
func asm14RealExec(c *Ctx, op string) {
	f := strings.Fields(op)
	type in struct{ path, kind string }
	var ins []in
	for _, t := range strings.Split(f[3], ",") {
		x := strings.SplitN(t, "=", 2)
		ins = append(ins, in{unhx(x[0]), x[1]})
	}
	caseCounter++
	base := filepath.Join(c.Work, fmt.Sprintf("ar%d", caseCounter))
	defer rmrf(base)
	whDir := filepath.Join(base, "wh")
	os.MkdirAll(whDir, 0755)
	os.Setenv("RIO_CACHE", filepath.Join(base, "cache"))
	os.Setenv("RIO_BASE", filepath.Join(base, "riobase"))
	ctx := context.Background()
	pf := api.MustParseFilesetPackFilter(losslessPackStr)
	// four fixed wares: plain tree; tree with a relative link "lnk" -> "d"; with an absolute link "abs" -> "/etc"; with "up" -> "../.."
	mk := func(name string, f Fileset) api.WareID {
		src := filepath.Join(base, "src-"+name)
		Materialize(f, src, nil)
		id, _ := tartrans.Pack(ctx, "tar", src, pf, whAddr("ca", whDir), rio.Monitor{})
		return id
	}
	d := func(n string) Entry { return Entry{Name: n, Kind: 'd', Perms: 0755, Uid: 7, Gid: 7, Sec: 1e9} }
	fl := func(n, body string) Entry {
		return Entry{Name: n, Kind: 'f', Perms: 0644, Uid: 7, Gid: 7, Sec: 1e9, Content: []byte(body)}
	}
	ln := func(n, t string) Entry {
		return Entry{Name: n, Kind: 'L', Perms: 0777, Uid: 7, Gid: 7, Sec: 1e9, Link: t}
	}
	sandboxOutside := filepath.Join(base, "outside")
	filesets := map[string]Fileset{
		"w0": {d(""), fl("file0", "zero"), d("d"), fl("d/inner0", "i0")},
		"w1": {d(""), fl("file1", "one"), d("d"), ln("lnk", "d"), fl("d/inner1", "i1"), d("d/deep"), d("d/deep/er")},
		"w2": {d(""), fl("file2", "two"), ln("abs", sandboxOutside), d("sub"), d("sub/deeper")},
		"w3": {d(""), ln("up", "../.."), fl("file3", "three")},
		"w4": {d(""), fl("file4", "four"), Entry{Name: "shared", Kind: 'd', Perms: 02775, Uid: 7, Gid: 7, Sec: 1e9}},
		// w5 is requested with an altering unpack filter (owner and mtime forced): it is shelved under the filtered id
		"w5": {d(""), fl("file5", "five"), d("d5"), fl("d5/inner5", "i5")},
		// wa is requested with a filter that counts as altering and changes nothing of it (dev=ignore, no devices): the
		// unpack reports the id of the ware itself, and the cache shelves the tree under a key of its own
		"wa": {d(""), fl("filea", "aaa"), d("da"), fl("da/innera", "ia")},
		// w7 carries a two-hop chain: `hop` -> `hop2` (relative, no dots), `hop2` -> the outside (absolute)
		"w7": {d(""), fl("file7", "seven"), ln("hop", "hop2"), ln("hop2", sandboxOutside), ln("rel", "d"), d("d")},
		// w9 shadows the root's pre-existing directory `pre` with one of its own (another mtime) and brings a link to it
		"w9": {d(""), fl("file9", "nine"), Entry{Name: "pre", Kind: 'd', Perms: 0755, Uid: 7, Gid: 7, Sec: 1.1e9}, ln("zlnk", "pre")},
		// w6 is an empty fileset: one directory with properties of its own, nothing in it
		"w6": {Entry{Name: "", Kind: 'd', Perms: 0750, Uid: 4000, Gid: 5000, Sec: 1.45e9}},
	}
	{
		acc := ""
		for _, seg := range strings.Split(strings.Trim(sandboxOutside, "/"), "/") {
			acc = strings.TrimPrefix(acc+"/"+seg, "/")
			filesets["w2"] = append(filesets["w2"], d(acc))
		}
		filesets["w2"] = append(filesets["w2"], d(acc+"/osub"))
	}
	ids := map[string]api.WareID{}
	for k, v := range filesets {
		ids[k] = mk(k, v)
	}
	// w8 carries a two-hop chain into the cache: `lib` -> `jump`, `jump` -> the shelf of w0 (an absolute path)
	shelfOf := func(w api.WareID) string {
		return filepath.Join(base, "cache", "tar", "fileset", w.Hash[0:3], w.Hash[3:6], w.Hash)
	}
	if ids["w0"].Hash != "" {
		filesets["w8"] = Fileset{d(""), fl("file8", "eight"), ln("lib", "jump"), ln("jump", shelfOf(ids["w0"]))}
		ids["w8"] = mk("w8", filesets["w8"])
	}
	host := filepath.Join(base, "hostdir")
	if caseCounter%2 == 0 { // a colon is an ordinary byte in a path; the mount spec is "<mode>:<path>"
		host = filepath.Join(base, "host:dir:v2")
	}
	os.MkdirAll(filepath.Join(host, "hsub"), 0755)
	os.WriteFile(filepath.Join(host, "hostfile"), []byte("host"), 0644)
	hostBefore, _ := Snapshot(host)
	os.MkdirAll(filepath.Join(sandboxOutside, "osub"), 0755)
	os.WriteFile(filepath.Join(sandboxOutside, "sentinel"), []byte("s"), 0644)
	outBefore, _ := Snapshot(sandboxOutside)
	writeInRw := false
	run := func(order []int, tag string) (string, Fileset) {
		root := filepath.Join(base, "root-"+tag)
		os.MkdirAll(filepath.Join(root, "pre", "existing"), 0755)
		old := time.Unix(1200000000, 0)
		os.Chtimes(filepath.Join(root, "pre", "existing"), old, old)
		os.Chtimes(filepath.Join(root, "pre"), old, old)
		asm, err := stitch.NewAssembler(tartrans.Unpack)
		if err != nil {
			return "err-newassembler", nil
		}
		var specs []stitch.UnpackSpec
		for _, i := range order {
			x := ins[i]
			w := ids[x.kind]
			if x.kind == "ro" || x.kind == "rw" {
				w = api.WareID{Type: "mount", Hash: x.kind + ":" + host}
			}
			if x.kind == "rf" { // a mount of one regular host file (a resolv.conf, a secrets file)
				w = api.WareID{Type: "mount", Hash: "ro:" + filepath.Join(host, "hostfile")}
			}
			filt := api.FilesetUnpackFilter_Lossless
			if x.kind == "w5" {
				filt = api.MustParseFilesetUnpackFilter("uid=1234,gid=2345,mtime=@4321,sticky=follow,setid=follow,dev=follow")
			}
			if x.kind == "wa" {
				filt = api.MustParseFilesetUnpackFilter("uid=follow,gid=follow,mtime=follow,sticky=follow,setid=follow,dev=ignore")
			}
			specs = append(specs, stitch.UnpackSpec{Path: fs.MustAbsolutePath(x.path), WareID: w, Filters: filt,
				Warehouses: []api.WarehouseLocation{whAddr("ca", whDir)}})
		}
		var cleanup func() error
		var rerr error
		pan := ""
		func() {
			defer func() {
				if r := recover(); r != nil {
					pan = fmt.Sprint(r)
				}
			}()
			cleanup, rerr = asm.Run(ctx, osfs.New(fs.MustAbsolutePath(root)), specs, fs.Metadata{Type: fs.Type_Dir, Perms: 0711, Uid: 42, Gid: 43, Mtime: time.Unix(777, 0)})
		}()
		res := "ok"
		if pan != "" {
			res = "panic:" + pan
		} else if rerr != nil {
			res = "err " + catOf(rerr)
		}
		var sn Fileset
		if res == "ok" && writeInRw {
			for _, i := range order {
				if ins[i].kind == "rw" {
					p := filepath.Join(root, ins[i].path)
					os.WriteFile(filepath.Join(p, "zz-user-write"), []byte("user"), 0644)
					syscall.Chmod(filepath.Join(p, "hostfile"), 0600)
					syscall.Chmod(filepath.Join(p, "hostfile"), 0644)
				}
			}
		}
		if res == "ok" {
			sn, _ = Snapshot(root)
			for i := range sn {
				if sn[i].Name == "" {
					sn[i].Sec, sn[i].Nsec = 0, 0 // the root directory is the caller's; its own mtime is not part of the assembly
				}
			}
		}
		if cleanup != nil {
			cleanup()
		}
		// after a refused assembly, and after the teardown of an accepted one, no mount remains under the root and
		// it no longer shows any placed content (only what was there before, and filler directories)
		if left := mountsUnder(root); len(left) > 0 {
			what := "after the teardown of an assembly"
			if rerr != nil {
				what = "after an assembly that was refused (" + catOf(rerr) + ")"
			}
			c.PropFail("mount-left", fmt.Sprintf("%s, mounts remain under its root: %v", what, left), op)
		}
		unmountAllUnder(root)
		// whatever happened — accepted and torn down, or refused half way — the root's own directories that a ware at "/"
		// merely shadowed keep their mtimes (nothing was created in them: the ware's twin received it)
		for _, x := range ins {
			if x.path == "/" && x.kind == "w9" {
				if st, e := os.Lstat(filepath.Join(root, "pre")); e == nil && st.ModTime().Unix() != 1200000000 {
					c.PropFail("asm-filler", fmt.Sprintf("after the assembly (%s) and its teardown, the root's own directory /pre — shadowed by the ware at / all along — carries mtime %d instead of 1200000000", res, st.ModTime().Unix()), op)
				}
				c.H("asm14-shadowed-mtime:" + strings.Fields(res)[0])
			}
		}
		return res, sn
	}
	n := len(ins)
	res0, sn0 := run(ident(n), "a")
	if strings.HasPrefix(res0, "panic") {
		c.PropFail("asm-panic", res0, op)
	}
	// other listing orders
	for k, p := range [][]int{c.perm(n), reverseInts(ident(n))} {
		res1, sn1 := run(p, fmt.Sprintf("b%d", k))
		if res1 != res0 {
			c.PropFail("order-dependent", fmt.Sprintf("listing order changed the outcome: %s vs %s", res0, res1), op)
		} else if res0 == "ok" && sn0.Digest(true) != sn1.Digest(true) {
			c.PropFail("order-dependent", "listing order changed the assembled tree: "+DiffFilesets(sn0, sn1, true), op)
		}
	}
	// confinement: nothing outside the root, nothing in a read-only host dir, changed
	if ob, _ := Snapshot(sandboxOutside); ob.Digest(true) != outBefore.Digest(true) {
		c.PropFail("asm-escape", "the assembly changed something outside its root", op)
	}
	if hb, _ := Snapshot(host); hb.Digest(true) != hostBefore.Digest(true) {
		c.PropFail("asm-escape", "the assembly created or changed entries in a mounted host directory: "+DiffFilesets(hostBefore, hb, true), op)
	}
	// expected verdict, computed from the inputs alone
	comps := func(p string) []string {
		var cs []string
		for _, x := range strings.Split(p, "/") {
			if x != "" {
				cs = append(cs, x)
			}
		}
		return cs
	}
	isPrefix := func(a, b []string) bool { // a prefix of b
		if len(a) > len(b) {
			return false
		}
		for i := range a {
			if a[i] != b[i] {
				return false
			}
		}
		return true
	}
	wantInvalid := ""
	for _, a := range ins {
		for _, b := range ins {
			if a == b {
				continue
			}
			ac, bc := comps(a.path), comps(b.path)
			if (b.kind == "ro" || b.kind == "rw" || b.kind == "rf") && isPrefix(bc, ac) {
				wantInvalid = "mount"
			}
			// b is a ware that puts a symlink on a's parent chain: b.path + link name is a proper ancestor (or equal to parent) of a.path
			if fsb, ok := filesets[b.kind]; ok && isPrefix(bc, ac) && len(ac) > len(bc) {
				// is some other input deeper than b and shallower than a covering that position? (it would shadow b there)
				for _, e := range fsb {
					if e.Kind != 'L' {
						continue
					}
					lc := append(append([]string{}, bc...), comps(e.Name)...)
					if isPrefix(lc, ac) && len(lc) < len(ac) {
						shadowed := false
						for _, s := range ins {
							sc := comps(s.path)
							if s != b && s != a && isPrefix(bc, sc) && len(sc) > len(bc) && isPrefix(sc, lc) {
								shadowed = true
							}
						}
						if !shadowed && wantInvalid == "" {
							wantInvalid = "symlink"
						}
					}
				}
			}
		}
	}
	// two inputs at one path: no listing order is "the" order, the assembly describes no tree
	for i := range ins {
		for j := range ins {
			if i != j && strings.Join(comps(ins[i].path), "/") == strings.Join(comps(ins[j].path), "/") && wantInvalid == "" {
				wantInvalid = "duplicate path"
			}
		}
	}
	// an input placed exactly where a shallower ware supplies a non-directory entry
	typeMismatch := false
	for _, a := range ins {
		for _, b := range ins {
			if fsb, ok := filesets[b.kind]; ok && a != b {
				for _, e := range fsb {
					if e.Kind != 'd' && e.Name != "" && strings.TrimSuffix(b.path, "/")+"/"+e.Name == a.path {
						typeMismatch = true
					}
				}
			}
		}
	}
	switch {
	case wantInvalid == "" && typeMismatch && res0 == "err rio-assembly-invalid":
		c.PropFail("asm-shadow-type-mismatch", "an input placed exactly at a path where a shallower input supplies a file or symlink is refused instead of shadowing it", op)
	case wantInvalid != "" && res0 == "ok":
		c.PropFail("asm-accepted-invalid", "an input crossing a "+wantInvalid+" was accepted", op)
	case wantInvalid == "" && res0 != "ok" && !strings.HasPrefix(res0, "panic"):
		c.PropFail("asm-refused-valid", "a valid assembly was refused: "+res0, op)
	case wantInvalid != "" && res0 != "err rio-assembly-invalid" && !strings.HasPrefix(res0, "panic"):
		c.PropFail("asm-wrong-error", "an invalid assembly failed with "+res0+" instead of rio-assembly-invalid", op)
	}
	// shadowing / filler: each ware's marker file is visible at its path unless a deeper input covers it; pre-existing dirs keep mtimes
	if res0 == "ok" {
		get := map[string]Entry{}
		for _, e := range sn0 {
			get["/"+e.Name] = e
		}
		for _, a := range ins {
			if a.kind == "w6" { // an empty fileset hides whatever a shallower input put there: nothing shows below it but deeper inputs
				pre := strings.TrimSuffix(a.path, "/") + "/"
				for _, e := range sn0 {
					n := "/" + e.Name
					if !strings.HasPrefix(n, pre) || n == "/" || n == strings.TrimSuffix(a.path, "/") {
						continue
					}
					mine := false
					for _, b := range ins {
						bp := strings.TrimSuffix(b.path, "/")
						if b != a && (n == bp || strings.HasPrefix(n, bp+"/") || strings.HasPrefix(bp, n+"/")) && strings.HasPrefix(bp+"/", pre) {
							mine = true
						}
					}
					if !mine {
						c.PropFail("asm-shadowing", fmt.Sprintf("input %s is an empty fileset, yet %s shows below it (a shallower input's content shows through)", a.path, n), op)
						break
					}
				}
				if e, ok := get[strings.TrimSuffix(a.path, "/")]; ok && a.path != "/" && (e.Perms != 0750 || e.Uid != 4000 || e.Gid != 5000) {
					c.PropFail("asm-shadowing", fmt.Sprintf("input %s (empty fileset, 0750 4000:5000) shows as %o %d:%d", a.path, e.Perms, e.Uid, e.Gid), op)
				}
				continue
			}
			if a.kind == "rf" { // the host file itself shows at the input's path
				if e, ok := get[strings.TrimSuffix(a.path, "/")]; !ok || e.Kind != 'f' || string(e.Content) != "host" {
					c.PropFail("asm-shadowing", fmt.Sprintf("the host file mounted at %s is not visible there", a.path), op)
				}
				continue
			}
			marker := map[string]string{"w0": "file0", "w1": "file1", "w2": "file2", "w3": "file3", "w4": "file4", "w5": "file5", "wa": "filea", "w7": "file7", "w8": "file8", "ro": "hostfile", "rw": "hostfile"}[a.kind]
			p := strings.TrimSuffix(a.path, "/") + "/" + marker
			covered := false
			for _, b := range ins {
				if b != a && b.path == strings.TrimSuffix(a.path, "/")+"/"+marker {
					covered = true
				}
			}
			e, ok := get[p]
			if !ok && !covered {
				c.PropFail("asm-shadowing", fmt.Sprintf("the content of input %s (%s) is not visible at its path", a.path, a.kind), op)
			}
			if ok && !covered && a.kind == "w5" && (e.Uid != 1234 || e.Gid != 2345 || e.Sec != 4321) {
				c.PropFail("asm-shadowing", fmt.Sprintf("input %s was requested with owner 1234:2345 and mtime 4321 forced, the assembly shows %d:%d @%d", a.path, e.Uid, e.Gid, e.Sec), op)
			}
			if ok && !covered && a.kind == "w0" && (e.Uid != 7 || e.Gid != 7 || e.Sec != 1e9) {
				c.PropFail("asm-shadowing", fmt.Sprintf("input %s was requested lossless (7:7 @1e9), the assembly shows %d:%d @%d", a.path, e.Uid, e.Gid, e.Sec), op)
			}
		}
		if e, ok := get["/pre/existing"]; ok && e.Sec != 1200000000 {
			touched := false
			for _, a := range ins {
				if strings.HasPrefix(a.path, "/pre/existing/") && strings.Count(a.path, "/") == 3 {
					touched = true // a direct child was created inside it
				}
			}
			if !touched {
				c.PropFail("asm-filler", "a pre-existing directory lost its mtime", op)
			}
		}
		// filler dirs: an intermediate directory nobody supplied has the filler's properties
		for _, a := range ins {
			cs := comps(a.path)
			for k := 1; k < len(cs); k++ {
				p := "/" + strings.Join(cs[:k], "/")
				supplied := strings.HasPrefix(p, "/pre")
				for _, b := range ins {
					if !isPrefix(comps(b.path), cs[:k]) {
						continue
					}
					fsb, isWare := filesets[b.kind]
					if !isWare {
						supplied = true // a host mount: whatever is below it is the host's
						continue
					}
					for _, e := range fsb {
						if strings.TrimSuffix(strings.TrimSuffix(b.path, "/")+"/"+e.Name, "/") == p || (e.Name == "" && strings.TrimSuffix(b.path, "/") == strings.TrimSuffix(p, "/")) {
							supplied = true
						}
					}
				}
				if e, ok := get[p]; ok && !supplied && (e.Perms != 0711 || e.Uid != 42 || e.Gid != 43) {
					c.PropFail("asm-filler", fmt.Sprintf("intermediate directory %s does not have the filler properties", p), op)
				}
			}
		}
	}
	// C11 through the assembler: what a user does inside a writable host mount must land in the host directory, never
	// in a cache shelf (shelves: identity incl. attributes, inode numbers, link counts)
	shelvesNow := func() string {
		sh, _ := filepath.Glob(filepath.Join(base, "cache", "tar", "fileset", "*", "*", "*"))
		sort.Strings(sh)
		var sb strings.Builder
		for _, d := range sh {
			sb.WriteString(d + "\n" + shelfIdentity(d))
		}
		return sb.String()
	}
	shelves0 := shelvesNow()
	writeInRw = true
	run(reverseInts(ident(n)), "w")
	writeInRw = false
	if shelves1 := shelvesNow(); shelves1 != shelves0 {
		c.PropFail("shelf-changed", "a cache shelf changed after writes inside the writable host mounts of an assembly: "+firstDiff(shelves0, shelves1), op)
	}
	os.Remove(filepath.Join(host, "zz-user-write"))
	// whatever the assemblies did: every shelf in the cache holds exactly the fileset of its ware
	for k, w := range ids {
		if w.Hash == "" || k == "w5" {
			continue
		}
		if sn, e := Snapshot(shelfOf(w)); e == nil {
			want := truncateForFormat(filesets[k])
			if sn.Digest(true) != want.Digest(true) {
				c.PropFail("shelf-changed", fmt.Sprintf("after the assemblies the cache shelf of ware %s no longer holds its fileset: %s", k, DiffFilesets(want, sn, true)), op)
			}
		}
	}
	c.H("real:" + strings.Fields(res0)[0] + ":" + wantInvalid)
	c.EmitR(op, "skip", "skip")
	c.Distinct(op)
}

func reverseInts(a []int) []int {
	for i, j := 0, len(a)-1; i < j; i, j = i+1, j-1 {
		a[i], a[j] = a[j], a[i]
	}
	return a
}

// asm14ReuseExec: one Assembler value used for several assemblies into the *same* root path (a long-lived daemon): what
// an earlier assembly looked like must not influence the checks of a later one.
func asm14ReuseExec(c *Ctx, op string) {
	c.Begin(op)
	caseCounter++
	base := filepath.Join(c.Work, fmt.Sprintf("ru%d", caseCounter))
	defer rmrf(base)
	whDir := filepath.Join(base, "wh")
	os.MkdirAll(whDir, 0755)
	os.Setenv("RIO_CACHE", filepath.Join(base, "cache"))
	os.Setenv("RIO_BASE", filepath.Join(base, "riobase"))
	ctx := context.Background()
	pf := api.MustParseFilesetPackFilter(losslessPackStr)
	outside := filepath.Join(base, "outside")
	os.MkdirAll(outside, 0755)
	os.WriteFile(filepath.Join(outside, "sentinel"), []byte("s"), 0644)
	outBefore, _ := Snapshot(outside)
	d := func(n string) Entry { return Entry{Name: n, Kind: 'd', Perms: 0755, Uid: 7, Gid: 7, Sec: 1e9} }
	fl := func(n, body string) Entry {
		return Entry{Name: n, Kind: 'f', Perms: 0644, Uid: 7, Gid: 7, Sec: 1e9, Content: []byte(body)}
	}
	ln := func(n, t string) Entry {
		return Entry{Name: n, Kind: 'L', Perms: 0777, Uid: 7, Gid: 7, Sec: 1e9, Link: t}
	}
	filesets := map[string]Fileset{
		"real": {d(""), d("out"), fl("marker-real", "r")},           // `out` is a real directory
		"link": {d(""), ln("out", outside), fl("marker-link", "l")}, // `out` is a symlink to the outside
		"leaf": {d(""), fl("leaf", "x")},
	}
	ids := map[string]api.WareID{}
	for k, v := range filesets {
		src := filepath.Join(base, "src-"+k)
		Materialize(v, src, nil)
		ids[k], _ = tartrans.Pack(ctx, "tar", src, pf, whAddr("ca", whDir), rio.Monitor{})
	}
	asm, err := stitch.NewAssembler(tartrans.Unpack)
	if err != nil {
		c.EmitR(op, "skip", "skip")
		return
	}
	root := filepath.Join(base, "root")
	run := func(inputs map[string]string) string {
		os.MkdirAll(root, 0755)
		var specs []stitch.UnpackSpec
		for p, w := range inputs {
			specs = append(specs, stitch.UnpackSpec{Path: fs.MustAbsolutePath(p), WareID: ids[w], Filters: api.FilesetUnpackFilter_Lossless,
				Warehouses: []api.WarehouseLocation{whAddr("ca", whDir)}})
		}
		var cleanup func() error
		var rerr error
		pan := ""
		func() {
			defer func() {
				if r := recover(); r != nil {
					pan = fmt.Sprint(r)
				}
			}()
			cleanup, rerr = asm.Run(ctx, osfs.New(fs.MustAbsolutePath(root)), specs, fs.Metadata{Type: fs.Type_Dir, Perms: 0711, Uid: 42, Gid: 43, Mtime: time.Unix(777, 0)})
		}()
		if cleanup != nil {
			cleanup()
		}
		unmountAllUnder(root)
		rmrf(root)
		switch {
		case pan != "":
			return "panic:" + pan
		case rerr != nil:
			return "err " + catOf(rerr)
		}
		return "ok"
	}
	f := strings.Fields(op)
	switch f[2] {
	case "real-then-link":
		r1 := run(map[string]string{"/": "real", "/out/x": "leaf"})
		r2 := run(map[string]string{"/": "link", "/out/x": "leaf"})
		if r1 != "ok" {
			c.PropFail("asm-refused-valid", "a valid assembly was refused: "+r1, op)
		}
		if r2 == "ok" {
			c.PropFail("asm-accepted-invalid", "after an earlier assembly by the same Assembler in which /out was a real directory, an input crossing the symlink /out was accepted", op)
		} else if r2 != "err rio-assembly-invalid" {
			c.PropFail("asm-wrong-error", "an invalid assembly failed with "+r2, op)
		}
	case "filler-twice":
		r1 := run(map[string]string{"/a/b/c": "leaf"})
		r2 := run(map[string]string{"/a/b/c": "leaf"})
		if r1 != "ok" || r2 != "ok" {
			c.PropFail("asm-refused-valid", fmt.Sprintf("the same valid assembly run twice by one Assembler into a wiped root: %s then %s", r1, r2), op)
		}
	}
	if ob, _ := Snapshot(outside); ob.Digest(true) != outBefore.Digest(true) {
		c.PropFail("asm-escape", "an assembly created or changed something outside its root", op)
	}
	c.H("reuse:" + f[2])
	c.EmitR(op, "skip", "skip")
	c.Distinct(op)
}

func asm14Engine(c *Ctx) {
	if ls := replayLines(); ls != nil {
		for _, op := range ls {
			if strings.HasPrefix(op, "asm14 plan ") {
				asm14PlanExec(c, op)
			} else if strings.HasPrefix(op, "asm14 real ") {
				asm14RealExec(c, op)
			} else if strings.HasPrefix(op, "asm14 reuse ") {
				asm14ReuseExec(c, op)
			} else if strings.HasPrefix(op, "asm14 fileondir") {
				asm14FileOnDir(c, op)
			}
		}
		return
	}
	asm14FileOnDir(c, "asm14 fileondir")
	pool := []string{"/", "/a", "/ab", "/a/b", "/a-b", "/a/b/c", "/a.b", "/b", "/data", "/data-extra", "/data/sub", "/data/sub/x", "/a b", "/a!"}
	nPlan, nReal := 300, 14
	if c.Tier == "thorough" {
		nPlan, nReal = 6000, 250
	}
	// permanent corpus for the plan stream
	corpus := [][]string{
		{"/a:1", "/ab:0"}, {"/a:1", "/a/b:0"}, {"/data:1", "/data-extra:0", "/data/sub:0"}, {"/:1", "/x:0"}, {"/a:0", "/a/b:1", "/a/b/c:0"},
		{"/a b:1", "/a!:0", "/a:0"},
		// two mounts, the second sorting between the first and the first's children ('.', '-', ' ', '!' < '/')
		{"/a:0", "/a:0"}, {"/a:1", "/a:0"}, {"/a:0", "/b:0", "/a:1"}, {"/:0", "/:1"}, {"/a:1", "/a/b:0", "/a/b:0"},
		{"/a:1", "/a.b:1", "/a/b:0"}, {"/data:1", "/data-extra:1", "/data/sub:0"}, {"/a:1", "/a b:1", "/a!:1", "/a/b/c:0"}, {"/a:1", "/a-b:1", "/a/b:1"},
	}
	emitPlan := func(items []string) {
		var toks []string
		for i, it := range items {
			x := strings.Split(it, ":")
			toks = append(toks, fmt.Sprintf("%s:%s:%d", hx(x[0]), x[1], i))
		}
		asm14PlanExec(c, "asm14 plan "+strings.Join(toks, ";"))
	}
	for _, cs := range corpus {
		emitPlan(cs)
		emitPlan(reverseStrs(cs))
	}
	for k := 0; k < nPlan; k++ {
		n := 2 + c.Intn(4)
		used := map[string]bool{}
		var items []string
		for len(items) < n {
			p := pool[c.Intn(len(pool))]
			if used[p] {
				continue
			}
			used[p] = true
			m := "0"
			if c.Chance(1, 3) {
				m = "1"
			}
			items = append(items, p+":"+m)
		}
		emitPlan(items)
	}
	// real assemblies
	realCorpus := []string{
		"/=w0,/d/x=w1", "/=w1,/lnk/x=w0", "/=w2,/abs/x=w0", "/=w3,/up/x=w0", "/a=ro,/ab=w0", "/a=ro,/a/b=w0", "/m=rw,/m/hsub/x=w0",
		"/=w0,/d=w1,/d/d=w0", "/x/y/z=w0", "/pre/existing/new=w0", "/data=ro,/data-extra=w0,/data/sub=w1", "/=w1,/lnk=w0,/lnk/x=w2",
		// an input exactly at a path where a shallower ware supplies a symlink (to a directory inside, outside, above)
		// filler directories below a setgid directory that a shallower ware supplies (the kernel makes new directories inherit the bit)
		"/=w4,/shared/new/deeper/m=w0", "/=w4,/shared/new/m=ro", "/a=w4,/a/shared/x/y=w1",
		// a symlink higher up the parent chain whose remaining chain exists behind the link (relative / absolute, re-rooted)
		"/=w1,/lnk/deep/x=w0", "/=w1,/lnk/deep/er/x=w0", "/=w2,/abs/osub/x=w0", "/a=w1,/a/lnk/deep/x=w0", "/=w1,/lnk/deep/x=ro",
		"/=wa", "/=w0,/d/x=wa", "/a=wa,/b=wa,/c=w0", "/=w5", "/=w0,/d/x=w5", "/a=w5,/a/d5/y=w0,/b=w5",
		"/=w8,/x=w0,/lib/plug=w5", "/=w8,/x=w0,/lib/d/plug=w1", "/=w8,/lib/plug=w0",
		"/=w7,/hop/x=w0", "/=w7,/hop/osub/y=w0", "/=w7,/rel/x=w0", "/a=w7,/a/hop/x=rw", "/=w7,/hop2/x=w5",
		"/=w0,/d=w6", "/=w1,/d=w6,/d/deep/z=w0", "/a=w5,/a/d5=w6", "/=w6", "/x/y=w6",
		"/=w9,/pre/new/x=w0,/zlnk/q=w0", "/=w9,/pre/new/x=w0", "/=w9,/pre/new/deeper/x=ro,/zlnk/q/r=w1", "/=w9,/pre/existing/k=w0,/zz=w0,/zlnk/q=rw",
		"/=w0,/d/resolv.conf=rf", "/etc/resolv.conf=rf", "/=w0,/fresh=rf", "/=w1,/d/deep/secret=rf,/zz=w0", "/f=rf,/f/x=w0", "/=w0,/file0=rf",
		"/x=w0,/x=w1", "/=w0,/=w1", "/x=w0,/x=rw", "/x=ro,/x=w0", "/a=w0,/a/b=w1,/a/b=w5", "/x=w6,/x=w6",
		"/a=rw,/a-b=ro,/a/x=w0", "/data=rw,/data-extra=rw,/data/sub=w5", "/a=rw,/a.b=rw,/a/b=w1", "/a=ro,/a-b=rw,/a/b/c=w0",
		"/=w1,/lnk=w0", "/=w1,/lnk=ro", "/=w1,/lnk=rw", "/=w2,/abs=w0", "/=w2,/abs=rw", "/=w3,/up=ro", "/a=w1,/a/lnk=rw", "/a=w2,/a/abs=ro",
	}
	for _, rc := range realCorpus {
		var toks []string
		for _, t := range strings.Split(rc, ",") {
			x := strings.SplitN(t, "=", 2)
			toks = append(toks, hx(x[0])+"="+x[1])
		}
		asm14RealExec(c, fmt.Sprintf("asm14 real 0 %s 0", strings.Join(toks, ",")))
	}
	asm14ReuseExec(c, "asm14 reuse real-then-link")
	asm14ReuseExec(c, "asm14 reuse filler-twice")
	kinds := []string{"w0", "w1", "w2", "w3", "w0", "w1", "ro", "rw", "w5", "w6"}
	rpool := []string{"/", "/a", "/ab", "/a/b", "/d", "/d/x", "/lnk/x", "/abs/y", "/up/z", "/lnk", "/abs", "/up", "/sub/deeper/q", "/a/lnk/k", "/lnk/deep/x", "/abs/osub/y", "/lnk/deep/er/z", "/pre/existing/n", "/data", "/data-extra", "/data/sub"}
	for k := 0; k < nReal; k++ {
		n := 1 + c.Intn(4)
		used := map[string]bool{}
		var toks []string
		for len(toks) < n {
			p := rpool[c.Intn(len(rpool))]
			if used[p] {
				continue
			}
			used[p] = true
			toks = append(toks, hx(p)+"="+kinds[c.Intn(len(kinds))])
		}
		asm14RealExec(c, fmt.Sprintf("asm14 real %d %s 0", k, strings.Join(toks, ",")))
	}
}

func reverseStrs(a []string) []string {
	b := append([]string(nil), a...)
	for i, j := 0, len(b)-1; i < j; i, j = i+1, j-1 {
		b[i], b[j] = b[j], b[i]
	}
	return b
}

var _ = Errorf

func unmount(p string) {
	for i := 0; i < 4; i++ {
		if err := syscallUnmount(p); err != nil {
			return
		}
	}
}

func init() { engines["asmbusy"] = asmBusyEngine }

// asmbusy (C15): real placers and a really failing unmount.  An assembly of a plain-file ware (placed by the copy
// placer), a directory ware and a writable host mount; a file inside the mount is held open, so its unmount fails with
// EBUSY.  Teardown runs newest first: after that failure nothing may be deleted any more — the copied file must still be there,
// the older mount must still have been unmounted, the failure must be reported.
func asmBusyExec(c *Ctx, op string) {
	c.Begin(op)
	caseCounter++
	base := filepath.Join(c.Work, fmt.Sprintf("bz%d", caseCounter))
	defer rmrf(base)
	whDir := filepath.Join(base, "wh")
	os.MkdirAll(whDir, 0755)
	os.Setenv("RIO_CACHE", filepath.Join(base, "cache"))
	os.Setenv("RIO_BASE", filepath.Join(base, "riobase"))
	ctx := context.Background()
	pf := api.MustParseFilesetPackFilter(losslessPackStr)
	// a ware whose root is one plain file, and a directory ware
	os.MkdirAll(filepath.Join(base, "srcf"), 0755)
	os.WriteFile(filepath.Join(base, "srcf", "thefile"), []byte("plain file ware"), 0644)
	fileWare, e1 := tartrans.Pack(ctx, "tar", filepath.Join(base, "srcf", "thefile"), pf, whAddr("ca", whDir), rio.Monitor{})
	os.MkdirAll(filepath.Join(base, "srcd", "sub"), 0755)
	os.WriteFile(filepath.Join(base, "srcd", "sub", "inner"), []byte("dir ware"), 0644)
	dirWare, e2 := tartrans.Pack(ctx, "tar", filepath.Join(base, "srcd"), pf, whAddr("ca", whDir), rio.Monitor{})
	if e1 != nil || e2 != nil {
		c.EmitR(op, "skip", "skip")
		return
	}
	host := filepath.Join(base, "host")
	os.MkdirAll(host, 0755)
	os.WriteFile(filepath.Join(host, "precious"), []byte("host data"), 0644)
	asm, err := stitch.NewAssembler(tartrans.Unpack)
	if err != nil {
		c.EmitR(op, "skip", "skip")
		return
	}
	root := filepath.Join(base, "root")
	os.MkdirAll(root, 0755)
	wh := []api.WarehouseLocation{whAddr("ca", whDir)}
	// paths sort: /a (file ware, oldest), /b (dir ware), /z (mount, newest: torn down first)
	specs := []stitch.UnpackSpec{
		{Path: fs.MustAbsolutePath("/a/f"), WareID: fileWare, Filters: api.FilesetUnpackFilter_Lossless, Warehouses: wh},
		{Path: fs.MustAbsolutePath("/b"), WareID: dirWare, Filters: api.FilesetUnpackFilter_Lossless, Warehouses: wh},
		{Path: fs.MustAbsolutePath("/z"), WareID: api.WareID{Type: "mount", Hash: "rw:" + host}},
	}
	cleanup, rerr := asm.Run(ctx, osfs.New(fs.MustAbsolutePath(root)), specs, fs.Metadata{Type: fs.Type_Dir, Perms: 0755, Mtime: time.Unix(777, 0)})
	if rerr != nil || cleanup == nil {
		c.PropFail("asm-refused-valid", fmt.Sprintf("a valid assembly (file ware, dir ware, rw mount) was refused: %v", rerr), op)
		unmountAllUnder(root)
		c.EmitR(op, "skip", "skip")
		return
	}
	if strings.HasSuffix(op, " overlay") {
		// variant: the *overlay* placement of the directory ware is the busy one — a file written through the mount is
		// held open. Its unmount fails; what was written through the still-live mount must still be there afterwards
		// (nothing is deleted after a failed step: that includes the overlay's own upper / work area).
		wpath := filepath.Join(root, "b", "written-by-user")
		os.WriteFile(wpath, []byte("user data"), 0644)
		held, _ := os.Open(wpath)
		terr := cleanup()
		stillB := mounted(filepath.Join(root, "b"))
		c.H(fmt.Sprintf("busy-overlay:mounted=%v", stillB))
		if stillB {
			if terr == nil {
				c.PropFail("teardown-error-lost", "the unmount of a busy overlay placement failed but no error was reported", op)
			}
			if b, e := os.ReadFile(wpath); e != nil || string(b) != "user data" {
				c.PropFail("delete-after-failure", fmt.Sprintf("after the unmount of an overlay placement failed, the data written through the (still live) mount is gone: %v", e), op)
			}
			if ents, e := os.ReadDir(filepath.Join(root, "b")); e != nil || len(ents) < 2 {
				c.PropFail("delete-after-failure", "after the unmount of an overlay placement failed, the mount no longer shows its content (its layer directories were deleted)", op)
			}
			if _, e := os.Lstat(filepath.Join(root, "a", "f")); e != nil {
				c.PropFail("delete-after-failure", "a copied plain-file placement was deleted after an unmount had failed", op)
			}
		}
		if held != nil {
			held.Close()
		}
		unmountAllUnder(root)
		c.EmitR(op, "skip", "skip")
		c.Distinct(op)
		return
	}
	if strings.HasSuffix(op, " upper") {
		// variant: the overlay's unmount succeeds, but its work area cannot be removed (something is mounted inside the
		// upper directory): that teardown step has failed — it is reported, and nothing older is deleted after it.
		os.Mkdir(filepath.Join(root, "b", "made"), 0755)
		uppers, _ := filepath.Glob(filepath.Join(base, "riobase", "mount", "overlay", "*", "upper", "made"))
		if len(uppers) != 1 || syscall.Mount("tmpfs", uppers[0], "tmpfs", 0, "size=64k") != nil {
			cleanup()
			unmountAllUnder(root)
			c.H("busy-upper:skipped")
			c.EmitR(op, "skip", "skip")
			return
		}
		terr := cleanup()
		_, fileErr := os.Lstat(filepath.Join(root, "a", "f"))
		_, upErr := os.Lstat(uppers[0])
		syscall.Unmount(uppers[0], syscall.MNT_DETACH)
		c.H(fmt.Sprintf("busy-upper:upper-left=%v", upErr == nil))
		if upErr == nil { // the removal of the work area really failed
			if terr == nil {
				c.PropFail("teardown-error-lost", "the removal of an overlay placement's work area failed (a mount inside its upper directory) but the teardown reported no error", op)
			}
			if fileErr != nil {
				c.PropFail("delete-after-failure", "a copied plain-file placement was deleted after the removal of an overlay's work area had failed", op)
			}
		}
		unmountAllUnder(root)
		c.EmitR(op, "skip", "skip")
		c.Distinct(op)
		return
	}
	busy, _ := os.Open(filepath.Join(root, "z", "precious"))
	terr := cleanup()
	_, fileErr := os.Lstat(filepath.Join(root, "a", "f"))
	bMounted := mounted(filepath.Join(root, "b")) // the directory ware is placed by a mount: its unmount is an always-try step
	stillMounted := mounted(filepath.Join(root, "z"))
	if busy != nil {
		busy.Close()
	}
	c.H(fmt.Sprintf("busy:mounted=%v", stillMounted))
	if stillMounted {
		// the unmount really failed: nothing may have been deleted after it, and the failure is what is reported
		if terr == nil {
			c.PropFail("teardown-error-lost", "an unmount failed during teardown but no error was reported", op)
		}
		if fileErr != nil {
			c.PropFail("delete-after-failure", "a copied plain-file placement was deleted after an unmount had failed", op)
		}
		if bMounted {
			c.PropFail("unmount-not-attempted", "after a failed unmount the unmount of an older mount placement was not attempted", op)
		}
	}
	if b, e := os.ReadFile(filepath.Join(host, "precious")); e != nil || string(b) != "host data" {
		c.PropFail("delete-after-failure", "host data behind a mount that failed to unmount was deleted or changed", op)
	}
	unmountAllUnder(root)
	c.EmitR(op, "skip", "skip")
	c.Distinct(op)
}

func asmBusyEngine(c *Ctx) {
	if ls := replayLines(); ls != nil {
		for _, op := range ls {
			if strings.HasPrefix(op, "asmbusy-badfiller") {
				asmBadFiller(c, op)
			} else if strings.HasPrefix(op, "asmbusy ") {
				asmBusyExec(c, op)
			}
		}
		return
	}
	asmBadFiller(c, "asmbusy-badfiller")
	asmBusyExec(c, "asmbusy 1")
	asmBusyExec(c, "asmbusy 2 overlay")
	asmBusyExec(c, "asmbusy 3 upper")
}

// asm14FileOnDir: a ware that is one plain file, placed exactly where a shallower ware supplies a directory (a config
// file replacing a conf.d/, a binary replacing a directory of that name): deeper inputs shadow what shallower ones put
// there, in every listing order; and where nothing is there yet, and where the shallower ware already has a file.
// Recipe: "asm14 fileondir".
func asm14FileOnDir(c *Ctx, op string) {
	c.Begin(op)
	caseCounter++
	base := filepath.Join(c.Work, fmt.Sprintf("fod%d", caseCounter))
	defer rmrf(base)
	whDir := filepath.Join(base, "wh")
	os.MkdirAll(whDir, 0755)
	os.Setenv("RIO_CACHE", filepath.Join(base, "cache"))
	os.Setenv("RIO_BASE", filepath.Join(base, "riobase"))
	ctx := context.Background()
	pf := api.MustParseFilesetPackFilter(losslessPackStr)
	os.MkdirAll(filepath.Join(base, "srcf"), 0755)
	os.WriteFile(filepath.Join(base, "srcf", "thefile"), []byte("plain file ware"), 0644)
	fileWare, e1 := tartrans.Pack(ctx, "tar", filepath.Join(base, "srcf", "thefile"), pf, whAddr("ca", whDir), rio.Monitor{})
	os.MkdirAll(filepath.Join(base, "srcd", "sub", "deeper"), 0755)
	os.WriteFile(filepath.Join(base, "srcd", "sub", "inner"), []byte("dir ware"), 0644)
	os.WriteFile(filepath.Join(base, "srcd", "keep"), []byte("kept"), 0644)
	os.WriteFile(filepath.Join(base, "srcd", "afile"), []byte("a file of the dir ware"), 0644)
	dirWare, e2 := tartrans.Pack(ctx, "tar", filepath.Join(base, "srcd"), pf, whAddr("ca", whDir), rio.Monitor{})
	c.EmitR(op, "skip", "skip")
	if e1 != nil || e2 != nil {
		return
	}
	wh := []api.WarehouseLocation{whAddr("ca", whDir)}
	for k, at := range []string{"/sub", "/afile", "/fresh", "/sub/deeper"} {
		for o := 0; o < 2; o++ {
			asm, err := stitch.NewAssembler(tartrans.Unpack)
			if err != nil {
				return
			}
			root := filepath.Join(base, fmt.Sprintf("root%d%d", k, o))
			os.MkdirAll(root, 0755)
			specs := []stitch.UnpackSpec{
				{Path: fs.MustAbsolutePath("/"), WareID: dirWare, Filters: api.FilesetUnpackFilter_Lossless, Warehouses: wh},
				{Path: fs.MustAbsolutePath(at), WareID: fileWare, Filters: api.FilesetUnpackFilter_Lossless, Warehouses: wh},
			}
			if o == 1 {
				specs[0], specs[1] = specs[1], specs[0]
			}
			var cleanup func() error
			var rerr error
			pan := ""
			func() {
				defer func() {
					if r := recover(); r != nil {
						pan = fmt.Sprint(r)
					}
				}()
				cleanup, rerr = asm.Run(ctx, osfs.New(fs.MustAbsolutePath(root)), specs, fs.Metadata{Type: fs.Type_Dir, Perms: 0755, Mtime: time.Unix(777, 0)})
			}()
			c.H(fmt.Sprintf("fileondir:%s:%v", at, rerr == nil && pan == ""))
			switch {
			case pan != "":
				c.PropFail("asm-panic", "a file ware placed at "+at+" of a directory ware: "+pan, op)
			case rerr != nil:
				c.PropFail("asm-refused-valid", fmt.Sprintf("a valid assembly (a directory ware at /, a one-file ware at %s, listing order %d) was refused: %s: %v", at, o, catOf(rerr), rerr), op)
			default:
				if b, e := os.ReadFile(filepath.Join(root, at)); e != nil || string(b) != "plain file ware" {
					c.PropFail("asm-shadowing", fmt.Sprintf("the one-file ware placed at %s (listing order %d) does not show there: %v", at, o, e), op)
				}
				if b, e := os.ReadFile(filepath.Join(root, "keep")); e != nil || string(b) != "kept" {
					c.PropFail("asm-shadowing", fmt.Sprintf("with a one-file ware at %s, the directory ware at / no longer shows its own /keep: %v", at, e), op)
				}
			}
			if cleanup != nil {
				cleanup()
			}
			unmountAllUnder(root)
		}
	}
	// the shelf of the directory ware is as it was
	shelf := filepath.Join(base, "cache", "tar", "fileset", dirWare.Hash[0:3], dirWare.Hash[3:6], dirWare.Hash)
	for n, want := range map[string]string{"afile": "a file of the dir ware", "sub/inner": "dir ware", "keep": "kept"} {
		if b, e := os.ReadFile(filepath.Join(shelf, n)); e != nil || string(b) != want {
			c.PropFail("asm-escape", fmt.Sprintf("after one-file wares were placed over entries of a directory ware, that ware's cache shelf no longer holds %s as packed: %v", n, e), op)
		}
	}
	if st, e := os.Lstat(filepath.Join(shelf, "sub", "deeper")); e != nil || !st.IsDir() {
		c.PropFail("asm-escape", "after one-file wares were placed over entries of a directory ware, that ware's cache shelf no longer holds sub/deeper as a directory", op)
	}
}

// asmBadFiller: "parent creation i" can fail because of what the caller handed in as filler-directory properties (a zero
// value, a file's metadata). Input 1 (a ware at /) is placed by then: the assembly answers an error — it does not panic —
// and nothing stays mounted. Recipe: "asmbusy-badfiller".
func asmBadFiller(c *Ctx, op string) {
	c.Begin(op)
	caseCounter++
	base := filepath.Join(c.Work, fmt.Sprintf("bf%d", caseCounter))
	defer rmrf(base)
	whDir := filepath.Join(base, "wh")
	os.MkdirAll(whDir, 0755)
	os.Setenv("RIO_CACHE", filepath.Join(base, "cache"))
	os.Setenv("RIO_BASE", filepath.Join(base, "riobase"))
	ctx := context.Background()
	pf := api.MustParseFilesetPackFilter(losslessPackStr)
	os.MkdirAll(filepath.Join(base, "srcd", "sub"), 0755)
	os.WriteFile(filepath.Join(base, "srcd", "sub", "inner"), []byte("dir ware"), 0644)
	dirWare, e := tartrans.Pack(ctx, "tar", filepath.Join(base, "srcd"), pf, whAddr("ca", whDir), rio.Monitor{})
	c.EmitR(op, "skip", "skip")
	if e != nil {
		return
	}
	wh := []api.WarehouseLocation{whAddr("ca", whDir)}
	for k, filler := range []fs.Metadata{{}, {Type: fs.Type_File, Perms: 0644, Mtime: time.Unix(777, 0)}, {Type: fs.Type_Symlink, Perms: 0777, Linkname: "/", Mtime: time.Unix(777, 0)}} {
		asm, err := stitch.NewAssembler(tartrans.Unpack)
		if err != nil {
			return
		}
		root := filepath.Join(base, fmt.Sprintf("root%d", k))
		os.MkdirAll(root, 0755)
		specs := []stitch.UnpackSpec{
			{Path: fs.MustAbsolutePath("/"), WareID: dirWare, Filters: api.FilesetUnpackFilter_Lossless, Warehouses: wh},
			{Path: fs.MustAbsolutePath("/mk/dir"), WareID: dirWare, Filters: api.FilesetUnpackFilter_Lossless, Warehouses: wh},
		}
		var cleanup func() error
		var rerr error
		pan := ""
		func() {
			defer func() {
				if r := recover(); r != nil {
					pan = fmt.Sprint(r)
				}
			}()
			cleanup, rerr = asm.Run(ctx, osfs.New(fs.MustAbsolutePath(root)), specs, filler)
		}()
		left := mountsUnder(root)
		c.H(fmt.Sprintf("badfiller:%d:panic=%v:err=%v:left=%d", k, pan != "", rerr != nil, len(left)))
		switch {
		case pan != "" && len(left) > 0:
			c.PropFail("no-rollback", fmt.Sprintf("creating the parent directories of input 2 panicked (%s) with filler properties of type %q; the placement of input 1 was not rolled back: %v stays mounted and the caller has neither an error nor a teardown function", pan, string(filler.Type), left), op)
		case pan != "":
			c.PropFail("asm-panic", "creating the parent directories of an input panicked: "+pan, op)
		case rerr != nil && len(left) > 0:
			c.PropFail("no-rollback", fmt.Sprintf("the assembly failed (%s) and left mounted: %v", catOf(rerr), left), op)
		case rerr == nil:
			// accepted: then the filler is a directory after all
			if st, e := os.Lstat(filepath.Join(root, "mk")); e != nil || !st.IsDir() {
				c.PropFail("no-rollback", "an assembly given non-directory filler properties reports success, and /mk is no directory", op)
			}
		}
		if cleanup != nil {
			cleanup()
		}
		unmountAllUnder(root)
	}
}
