package main

import (
	"bytes"
	"compress/gzip"
	"fmt"
	"github.com/polydawn/rio/warehouse"
	"github.com/polydawn/rio/warehouse/impl/kvfs"
	"github.com/polydawn/rio/warehouse/impl/kvhttp"
	"io"
	"net"
	"net/http"
	"net/http/httptest"
	"net/url"
	"os"
	"path/filepath"
	"strings"
	"syscall"
	"time"

	api "github.com/polydawn/go-timeless-api"
	"github.com/polydawn/go-timeless-api/rio"
	"github.com/polydawn/rio/transmat/util"
)

func init() { engines["pick"] = pickEngine }

const pickHash = "4qsmz5cemqKHxGvhZtfb72TrBn8H9puCfGdfZyLBxpCEGmAw85dDTR63tnLEtzUQKp"

type pickEnv struct {
	root    string
	srv     *httptest.Server
	deadURL string
	n       int
}

func newPickEnv(c *Ctx) *pickEnv {
	e := &pickEnv{root: filepath.Join(c.Work, "pick")}
	os.MkdirAll(e.root, 0755)
	e.srv = httptest.NewServer(http.HandlerFunc(func(w http.ResponseWriter, r *http.Request) {
		// /<id>/<cond>/...
		parts := strings.Split(strings.TrimPrefix(r.URL.Path, "/"), "/")
		if len(parts) < 2 {
			w.WriteHeader(400)
			return
		}
		switch parts[1] {
		case "holding":
			// the transfer takes several shapes: announced length, chunked (no Content-Length), chunked in two pieces
			n := 0
			fmt.Sscan(parts[0], &n)
			switch n % 3 {
			case 1:
				if fl, ok := w.(http.Flusher); ok {
					fl.Flush()
				}
				fmt.Fprintf(w, "W%s", parts[0])
			case 2:
				fmt.Fprint(w, "W")
				if fl, ok := w.(http.Flusher); ok {
					fl.Flush()
				}
				fmt.Fprint(w, parts[0])
			default:
				fmt.Fprintf(w, "W%s", parts[0])
			}
		case "holdingq": // holds the ware for requests carrying the address's query string only
			if r.URL.Query().Get("token") == "s3cr3t" {
				fmt.Fprintf(w, "W%s", parts[0])
			} else {
				w.WriteHeader(404)
			}
		case "holdingu": // … the address's userinfo only
			if _, pw, ok := r.BasicAuth(); ok && pw == "s3cr3t" {
				fmt.Fprintf(w, "W%s", parts[0])
			} else {
				w.WriteHeader(404)
			}
		case "slow": // a healthy holder on a thin pipe: the transfer takes longer than any fixed patience, and completes
			body := "W" + parts[0] + strings.Repeat("s", 4000)
			w.Header().Set("Content-Length", fmt.Sprint(len(body)))
			fmt.Fprint(w, body[:2000])
			if fl, ok := w.(http.Flusher); ok {
				fl.Flush()
			}
			time.Sleep(10500 * time.Millisecond)
			fmt.Fprint(w, body[2000:])
		case "servererror":
			// the failing blob: 5xx at the ware's own address, 404 for anything the server does not know
			if len(parts) == 2 || (len(parts) == 5 && parts[4] == pickHash) {
				w.WriteHeader(503)
			} else {
				w.WriteHeader(404)
			}
		default:
			w.WriteHeader(404)
		}
	}))
	// a port nobody listens on
	l, _ := net.Listen("tcp", "127.0.0.1:0")
	e.deadURL = "http://" + l.Addr().String()
	l.Close()
	return e
}

// mk builds warehouse number i in the given scheme/condition and returns its address.
func (e *pickEnv) mk(i int, scheme, cond string) string {
	e.n++
	id := fmt.Sprint(i)
	dir := filepath.Join(e.root, fmt.Sprintf("w%d", e.n))
	if e.n%4 == 2 && (scheme == "file" || scheme == "ca+file") && (cond == "holding" || cond == "lacking") {
		// a directory name that needs escaping in a URL, its address given percent-encoded (as url.URL.String() writes it)
		dir = filepath.Join(e.root, fmt.Sprintf("my wares é%d", e.n))
		defer func() {}()
		addr := e.mkIn(dir, id, scheme, cond)
		pre := scheme + "://"
		return pre + (&url.URL{Path: strings.TrimPrefix(addr, pre)}).EscapedPath()
	}
	return e.mkIn(dir, id, scheme, cond)
}

func (e *pickEnv) mkIn(dir, id, scheme, cond string) string {
	if e.n%2 == 1 && cond != "missingdir" && (scheme == "file" || scheme == "ca+file") {
		// every other local warehouse directory is reached through a symlink: a layout detail that must not matter
		real := dir + ".real"
		os.MkdirAll(real, 0755)
		os.Symlink(real, dir)
	}
	switch scheme {
	case "file":
		switch cond {
		case "missingdir":
			if e.n%3 == 0 { // dead for another reason than ENOENT: an ancestor is a regular file (ENOTDIR)
				os.MkdirAll(dir, 0755)
				os.WriteFile(filepath.Join(dir, "afile"), []byte("x"), 0644)
				return "file://" + filepath.Join(dir, "afile", "sub", "ware.tgz")
			}
			return "file://" + filepath.Join(dir, "nodir", "ware.tgz")
		case "lacking":
			os.MkdirAll(dir, 0755)
			if e.n%4 == 3 {
				syscall.Mkfifo(filepath.Join(dir, "ware.tgz"), 0644)
			}
			return "file://" + filepath.Join(dir, "ware.tgz")
		case "holding":
			os.MkdirAll(dir, 0755)
			os.WriteFile(filepath.Join(dir, "ware.tgz"), []byte("W"+id), 0644)
			return "file://" + filepath.Join(dir, "ware.tgz")
		}
	case "ca+file":
		switch cond {
		case "missingdir":
			if e.n%3 == 0 {
				os.MkdirAll(filepath.Dir(dir), 0755)
				os.WriteFile(dir+".f", []byte("x"), 0644)
				return "ca+file://" + dir + ".f/wh"
			}
			if e.n%3 == 1 { // a component longer than NAME_MAX
				return "ca+file://" + filepath.Join(dir, strings.Repeat("n", 300))
			}
			return "ca+file://" + dir
		case "lacking":
			os.MkdirAll(dir, 0755)
			switch e.n % 4 { // lacking in other ways than "no such file": a regular file where a chunk directory would be
			case 1:
				os.WriteFile(filepath.Join(dir, pickHash[0:3]), []byte("x"), 0644)
			case 2:
				os.MkdirAll(filepath.Join(dir, pickHash[0:3]), 0755)
				os.WriteFile(filepath.Join(dir, pickHash[0:3], pickHash[3:6]), []byte("x"), 0644)
			case 3: // … a fifo at the ware's own address (nobody will ever write to it)
				os.MkdirAll(filepath.Join(dir, pickHash[0:3], pickHash[3:6]), 0755)
				syscall.Mkfifo(filepath.Join(dir, pickHash[0:3], pickHash[3:6], pickHash), 0644)
			}
			return "ca+file://" + dir
		case "holding":
			p := filepath.Join(dir, pickHash[0:3], pickHash[3:6])
			os.MkdirAll(p, 0755)
			os.WriteFile(filepath.Join(p, pickHash), []byte("W"+id), 0644)
			return "ca+file://" + dir
		}
	case "http", "ca+http":
		base := e.srv.URL
		if cond == "refused" {
			base = e.deadURL
		}
		c := cond
		if c == "missingdir" {
			c = "lacking"
		}
		// every part of the address belongs to it: a third of the holders is reached through a query string, a third through userinfo
		if c == "holding" && base == e.srv.URL {
			switch e.n % 3 {
			case 1:
				return scheme + strings.TrimPrefix(base, "http") + "/" + id + "/holdingq?token=s3cr3t"
			case 2:
				return scheme + "://user:s3cr3t@" + strings.TrimPrefix(base, "http://") + "/" + id + "/holdingu"
			}
		}
		return scheme + strings.TrimPrefix(base, "http") + "/" + id + "/" + c
	case "other":
		return "ftp://example.invalid/x"
	case "unparsable":
		// … and addresses that parse as URLs but name no host
		return []string{":%zz", "http:///x/y", "http://", "ca+http:foo/bar", "ca+https:///wh"}[e.n%5]
	}
	return "bogus://"
}

func pickExec(c *Ctx, env *pickEnv, op string) string {
	f := strings.Fields(op)
	mono := f[1] == "1"
	var addrs []api.WarehouseLocation
	if f[2] != "-" {
		for i, t := range strings.Split(f[2], ";") {
			p := strings.Split(t, ":")
			addrs = append(addrs, api.WarehouseLocation(env.mk(i, p[0], p[1])))
		}
	}
	wid := api.WareID{Type: "tar", Hash: pickHash}
	var res string
	resCh := make(chan string, 1)
	go func() {
		res := ""
		defer func() { resCh <- res }()
		defer func() {
			if r := recover(); r != nil {
				res = "panic"
				c.PropFail("pick-panic", fmt.Sprint(r), op)
			}
		}()
		given := append([]api.WarehouseLocation(nil), addrs...)
		rd, err := util.PickReader(wid, addrs, mono, rio.Monitor{})
		// the list is the caller's: a fetch that reorders it changes which warehouse serves the caller's next fetch
		for i := range given {
			if addrs[i] != given[i] {
				c.PropFail("pick-wrong-warehouse", fmt.Sprintf("PickReader rewrote the caller's warehouse list (position %d: %q -> %q): the next fetch with this list is no longer served in the order the caller gave", i, given[i], addrs[i]), op)
				copy(addrs, given)
				break
			}
		}
		if err != nil {
			res = "err " + catOf(err)
			return
		}
		b, _ := io.ReadAll(rd)
		rd.Close()
		res = "opened " + strings.TrimPrefix(string(b), "W")
	}()
	select {
	case res = <-resCh:
	case <-time.After(8 * time.Second):
		res = "hang"
		c.PropFail("pick-aborted", "the fetch did not return within 8 s (every warehouse of the list answers at once)", op)
	}
	// ---- property oracle (C16), from the conditions alone ----
	if !mono && f[2] != "-" {
		want := ""
		anyUp := false
		for i, t := range strings.Split(f[2], ";") {
			p := strings.Split(t, ":")
			sch, cond := p[0], p[1]
			if sch == "other" || sch == "unparsable" {
				want = "err rio-usage-error"
				break
			}
			isHTTP := strings.Contains(sch, "http")
			dead := (cond == "missingdir" && !isHTTP) || cond == "servererror" || cond == "refused"
			if cond == "holding" {
				want = fmt.Sprintf("opened %d", i)
				break
			}
			if !dead {
				anyUp = true
			}
		}
		if want == "" {
			if anyUp {
				want = "err rio-ware-not-found"
			} else {
				want = "err rio-warehouse-unavailable"
			}
		}
		if res != want {
			cl := "pick-wrong-warehouse"
			if strings.HasPrefix(want, "err") && strings.HasPrefix(res, "err") {
				cl = "pick-wrong-error"
			} else if strings.HasPrefix(want, "opened") && strings.HasPrefix(res, "err") {
				cl = "pick-aborted"
			}
			c.PropFail(cl, fmt.Sprintf("fetch gave %q, first-holder rule gives %q", res, want), op)
		}
	}
	c.H("out:" + strings.Fields(res)[0] + ":" + strings.Join(strings.Fields(res)[1:], ""))
	c.Distinct(op)
	return res
}

// pickDirect runs PickReader on an address list and reports which warehouse (index) served, by content identity.
// set by pickDirect when the callee changed the caller's slice (the next fetch with that slice would be served in another order)
var pickListChanged string

func pickDirect(wid api.WareID, addrs []api.WarehouseLocation) (res string) {
	defer func() {
		if r := recover(); r != nil {
			res = "panic"
		}
	}()
	given := append([]api.WarehouseLocation(nil), addrs...)
	rd, err := util.PickReader(wid, addrs, false, rio.Monitor{})
	for i := range given {
		if addrs[i] != given[i] {
			pickListChanged = fmt.Sprintf("PickReader rewrote the caller's warehouse list: position %d was %q and is now %q", i, given[i], addrs[i])
			copy(addrs, given)
			break
		}
	}
	if err != nil {
		return "err " + catOf(err)
	}
	got, _ := io.ReadAll(rd)
	rd.Close()
	for i, a := range addrs {
		rd2, err := util.PickReader(wid, []api.WarehouseLocation{a}, false, rio.Monitor{})
		if err != nil {
			continue
		}
		b, _ := io.ReadAll(rd2)
		rd2.Close()
		if string(b) == string(got) {
			return fmt.Sprintf("opened %d", i)
		}
	}
	return "opened ?"
}

func pickEngine(c *Ctx) {
	env := newPickEnv(c)
	defer env.srv.Close()
	if ls := replayLines(); ls != nil {
		for _, op := range ls {
			if strings.HasPrefix(op, "pick ") {
				c.Emit(op, pickExec(c, env, op))
			}
		}
		return
	}
	// a slow holder, in the background for the length of the run: it serves the whole ware
	slowDone := make(chan string, 1)
	go func() {
		defer func() {
			if r := recover(); r != nil {
				slowDone <- fmt.Sprint("panic: ", r)
			}
		}()
		rd, err := util.PickReader(api.WareID{Type: "tar", Hash: pickHash}, []api.WarehouseLocation{api.WarehouseLocation(env.deadURL + "/x"), api.WarehouseLocation(env.srv.URL + "/777/slow")}, false, rio.Monitor{})
		if err != nil {
			slowDone <- "not served: " + catOf(err) + ": " + err.Error()
			return
		}
		b, rerr := io.ReadAll(rd)
		rd.Close()
		if rerr != nil || len(b) != 4004 {
			slowDone <- fmt.Sprintf("the transfer broke off after %d of 4004 bytes: %v", len(b), rerr)
			return
		}
		slowDone <- ""
	}()
	defer func() {
		op := "pick-slow-holder"
		c.EmitR(op, "skip", "skip")
		if r := <-slowDone; r != "" {
			c.PropFail("pick-holder-not-served", "a healthy http holder that needs 10.5 s to send the ware (Content-Length announced, half sent at once): "+r, op)
		}
		c.H("slow-holder")
	}()
	// a ware ID is not a path: hashes with separators or dot segments name nothing in a content-addressed warehouse,
	// local or http — in particular not some other object the server happens to have (here: /7/holding)
	for _, h := range []string{"../../7/holding", "../7/holding", "x/../../../7/holding", "7/holding", "..", ".", "a/b", "abcdefghijk/../../../7/holding"} {
		for _, base := range []string{"ca+http" + strings.TrimPrefix(env.srv.URL, "http") + "/wh/deep", "ca+http" + strings.TrimPrefix(env.srv.URL, "http") + "/wh"} {
			op := "pick-hostile-id " + hx(h) + " " + base
			r := pickDirect(api.WareID{Type: "tar", Hash: h}, []api.WarehouseLocation{api.WarehouseLocation(base)})
			c.EmitR(op, "skip", "skip")
			c.H("hostile-id:" + strings.Fields(r)[0])
			if strings.HasPrefix(r, "opened") {
				c.PropFail("pick-wrong-warehouse", fmt.Sprintf("the ware id tar:%s was served by %s (another object of the server: the hash was joined into the URL path)", h, base), op)
			} else if r == "panic" {
				c.PropFail("pick-aborted", "a ware id with path separators made the fetch panic", op)
			}
		}
	}
	// … a unix socket or a symlink cycle at the ware's own address; an address longer than any name can be
	for k, mk := range []func(dir string) string{
		func(dir string) string {
			p := filepath.Join(dir, pickHash[0:3], pickHash[3:6])
			os.MkdirAll(p, 0755)
			if l, e := net.Listen("unix", filepath.Join(p, "s")); e == nil { // (the full hash is too long for a socket path: bind a short name, rename)
				l.(*net.UnixListener).SetUnlinkOnClose(false)
				l.Close()
				os.Rename(filepath.Join(p, "s"), filepath.Join(p, pickHash))
			}
			return pickHash
		},
		func(dir string) string {
			p := filepath.Join(dir, pickHash[0:3], pickHash[3:6])
			os.MkdirAll(p, 0755)
			os.Symlink(pickHash, filepath.Join(p, pickHash))
			return pickHash
		},
		func(dir string) string {
			long := strings.Repeat("a", 300)
			os.MkdirAll(filepath.Join(dir, "aaa", "aaa"), 0755)
			return long
		},
	} {
		dir := filepath.Join(env.root, fmt.Sprintf("odd%d", k))
		os.MkdirAll(dir, 0755)
		h := mk(dir)
		op := fmt.Sprintf("pick-odd-object %d", k)
		r := pickDirect(api.WareID{Type: "tar", Hash: h}, []api.WarehouseLocation{api.WarehouseLocation("ca+file://" + dir)})
		c.EmitR(op, "skip", "skip")
		c.H("odd-object:" + r)
		if r != "err rio-ware-not-found" {
			c.PropFail("pick-wrong-error", fmt.Sprintf("a reachable ca+file warehouse that lacks the ware (%s at its address) answers %s instead of ware-not-found", []string{"a unix socket", "a symlink cycle", "a name longer than NAME_MAX"}[k], r), op)
		}
	}
	// a content-addressed warehouse that answers and lacks the ware in another way than ENOENT: a regular file sits where a
	// chunk directory would be
	for k, mk := range []func(dir string){
		func(dir string) { os.WriteFile(filepath.Join(dir, pickHash[0:3]), []byte("x"), 0644) },
		func(dir string) {
			os.MkdirAll(filepath.Join(dir, pickHash[0:3]), 0755)
			os.WriteFile(filepath.Join(dir, pickHash[0:3], pickHash[3:6]), []byte("x"), 0644)
		},
	} {
		dir := filepath.Join(env.root, fmt.Sprintf("enotdir%d", k))
		os.MkdirAll(dir, 0755)
		mk(dir)
		op := fmt.Sprintf("pick-chunk-is-file %d", k)
		r := pickDirect(api.WareID{Type: "tar", Hash: pickHash}, []api.WarehouseLocation{api.WarehouseLocation("ca+file://" + dir)})
		c.EmitR(op, "skip", "skip")
		c.H("chunk-is-file:" + r)
		if r != "err rio-ware-not-found" {
			c.PropFail("pick-wrong-error", "a reachable ca+file warehouse that lacks the ware (a regular file sits where a chunk directory would be) answers "+r+" instead of ware-not-found", op)
		}
	}
	// one location string, two warehouses: "file://D" is the single object D, "ca+file://D" is the content-addressed layout
	// below D. A list may hold both (a mirror moved from one layout to the other); each is asked in its turn
	{
		dm := filepath.Join(env.root, "two-modes", "wh")
		os.MkdirAll(filepath.Join(dm, pickHash[0:3], pickHash[3:6]), 0755)
		os.WriteFile(filepath.Join(dm, pickHash[0:3], pickHash[3:6], pickHash), []byte("W-two-modes"), 0644)
		dead := api.WarehouseLocation(env.deadURL + "/x")
		for k, l := range [][]api.WarehouseLocation{
			{api.WarehouseLocation("file://" + dm), api.WarehouseLocation("ca+file://" + dm)},
			{dead, api.WarehouseLocation("file://" + dm), api.WarehouseLocation("ca+file://" + dm), dead},
			{api.WarehouseLocation("ca+file://" + dm), api.WarehouseLocation("file://" + dm)},
			{api.WarehouseLocation("file://" + dm), api.WarehouseLocation("file://" + dm), api.WarehouseLocation("ca+file://" + dm)},
		} {
			op := fmt.Sprintf("pick-two-modes %d", k)
			r := pickDirect(api.WareID{Type: "tar", Hash: pickHash}, l)
			c.EmitR(op, "skip", "skip")
			c.H("two-modes:" + r)
			if !strings.HasPrefix(r, "opened") {
				c.PropFail("pick-holder-not-served", fmt.Sprintf("the list %v holds a content-addressed warehouse that has the ware (the same directory is also listed as a single-ware address, which lacks it); the fetch answered %s", l, r), op)
			}
		}
	}
	// a holder behind a server that compresses on the wire when asked to (nginx `gzip on`, a CDN): what the fetch yields is
	// the object stored at the address, byte for byte — not its transfer encoding
	{
		object := bytes.Repeat([]byte("the stored object, compressible. "), 90)
		gzsrv := httptest.NewServer(http.HandlerFunc(func(w http.ResponseWriter, r *http.Request) {
			if !strings.HasSuffix(r.URL.Path, "/"+pickHash) && r.URL.Path != "/mono" {
				http.NotFound(w, r)
				return
			}
			if strings.Contains(r.Header.Get("Accept-Encoding"), "gzip") {
				w.Header().Set("Content-Encoding", "gzip")
				zw := gzip.NewWriter(w)
				zw.Write(object)
				zw.Close()
				return
			}
			w.Write(object)
		}))
		for k, l := range [][]api.WarehouseLocation{
			{api.WarehouseLocation("ca+http" + strings.TrimPrefix(gzsrv.URL, "http") + "/wh")},
			{api.WarehouseLocation(env.deadURL + "/x"), api.WarehouseLocation(gzsrv.URL + "/mono")},
		} {
			op := fmt.Sprintf("pick-gzip-encoding %d", k)
			c.EmitR(op, "skip", "skip")
			rd, err := util.PickReader(api.WareID{Type: "tar", Hash: pickHash}, l, false, rio.Monitor{})
			if err != nil {
				c.PropFail("pick-holder-not-served", "a holder behind a compressing http server is not served: "+catOf(err), op)
				continue
			}
			got, _ := io.ReadAll(rd)
			rd.Close()
			c.H(fmt.Sprintf("gzip-encoding:%v", bytes.Equal(got, object)))
			if !bytes.Equal(got, object) {
				c.PropFail("pick-wrong-warehouse", fmt.Sprintf("the fetch from a compressing http holder yields %d bytes starting %x; the object at the ware's address has %d bytes (the transfer encoding was handed on as the ware)", len(got), got[:min(4, len(got))], len(object)), op)
			}
		}
		gzsrv.Close()
	}
	// a content-addressed http warehouse behind a server that matches request paths exactly (an object store: no path
	// cleaning, no redirects): the base address with and without a trailing slash names the same warehouse
	{
		exact := "/wares/" + pickHash[0:3] + "/" + pickHash[3:6] + "/" + pickHash
		xsrv := httptest.NewServer(http.HandlerFunc(func(w http.ResponseWriter, r *http.Request) {
			if r.URL.EscapedPath() != exact {
				w.WriteHeader(404)
				return
			}
			w.Write([]byte("W-exact"))
		}))
		base := "ca+http" + strings.TrimPrefix(xsrv.URL, "http")
		for k, l := range [][]api.WarehouseLocation{
			{api.WarehouseLocation(base + "/wares")},
			{api.WarehouseLocation(base + "/wares/")},
			{api.WarehouseLocation(env.deadURL + "/x"), api.WarehouseLocation(base + "/wares/")},
			{api.WarehouseLocation(base + "/wares//")},
		} {
			op := fmt.Sprintf("pick-exact-path %d", k)
			c.EmitR(op, "skip", "skip")
			r := pickDirect(api.WareID{Type: "tar", Hash: pickHash}, l)
			c.H("exact-path:" + r)
			if !strings.HasPrefix(r, "opened") {
				c.PropFail("pick-holder-not-served", fmt.Sprintf("the holder %s (a server that matches paths exactly) is not served: %s", l[len(l)-1], r), op)
			}
		}
		xsrv.Close()
	}
	// a port no TCP endpoint can have is a malformed address, not a warehouse that happens to be down
	{
		dm := filepath.Join(env.root, "two-modes", "wh")
		holder := api.WarehouseLocation("ca+file://" + dm)
		for k, bad := range []string{"http://127.0.0.1:99999/x", "ca+http://127.0.0.1:65536/wh", "http://example.invalid:123456789012345678901234567890/x", "https://[::1]:70000/x"} {
			op := fmt.Sprintf("pick-bad-port %d", k)
			c.EmitR(op, "skip", "skip")
			r1 := pickDirect(api.WareID{Type: "tar", Hash: pickHash}, []api.WarehouseLocation{api.WarehouseLocation(bad)})
			r2 := pickDirect(api.WareID{Type: "tar", Hash: pickHash}, []api.WarehouseLocation{api.WarehouseLocation(bad), holder})
			r3 := pickDirect(api.WareID{Type: "tar", Hash: pickHash}, []api.WarehouseLocation{holder, api.WarehouseLocation(bad)})
			c.H("bad-port:" + r1)
			if r1 != "err rio-usage-error" || r2 != "err rio-usage-error" {
				c.PropFail("pick-wrong-error", fmt.Sprintf("the address %s (a port above 65535) alone answers %s, ahead of a holder %s: a malformed address is a usage error", bad, r1, r2), op)
			}
			if r3 != "opened 0" {
				c.PropFail("pick-holder-not-served", fmt.Sprintf("a holder listed ahead of the malformed address %s: %s", bad, r3), op)
			}
		}
	}
	// a warehouse controller is a value: asking it for the ware a second time gives the ware again (http, ca+http, ca+file)
	{
		caDir := filepath.Join(env.root, "reopen-ca")
		os.MkdirAll(filepath.Join(caDir, pickHash[0:3], pickHash[3:6]), 0755)
		os.WriteFile(filepath.Join(caDir, pickHash[0:3], pickHash[3:6], pickHash), []byte("W42"), 0644)
		for _, addr := range []string{"ca+http" + strings.TrimPrefix(env.srv.URL, "http") + "/77/servererror", env.srv.URL + "/42/holding", "ca+file://" + caDir} {
			op := "pick-reopen " + addr
			c.EmitR(op, "skip", "skip")
			var ctrl warehouse.BlobstoreController
			var err error
			if strings.Contains(addr, "http") {
				ctrl, err = kvhttp.NewController(api.WarehouseLocation(addr))
			} else {
				ctrl, err = kvfs.NewController(api.WarehouseLocation(addr))
			}
			if err != nil {
				continue
			}
			var got []string
			for k := 0; k < 3; k++ {
				rd, e := ctrl.OpenReader(api.WareID{Type: "tar", Hash: pickHash})
				if e != nil {
					got = append(got, "err "+catOf(e))
					continue
				}
				b, _ := io.ReadAll(rd)
				rd.Close()
				got = append(got, "opened "+fmt.Sprint(len(b)))
			}
			c.H("reopen:" + got[0])
			if got[1] != got[0] || got[2] != got[0] {
				c.PropFail("pick-wrong-warehouse", fmt.Sprintf("one controller of %s asked three times for the same ware answers %v", addr, got), op)
			}
		}
	}
	// the first warehouse that has an object at the ware's address is the holder — whatever the object is (a zero-length
	// file included: what it is worth is the unpacker's business, and it says corrupt); the fetch does not move on
	for k, scheme := range []string{"ca+file", "file"} {
		d1, d2 := filepath.Join(env.root, fmt.Sprintf("empty%d-a", k)), filepath.Join(env.root, fmt.Sprintf("empty%d-b", k))
		op := "pick-empty-object " + scheme
		c.EmitR(op, "skip", "skip")
		var a1, a2 string
		if scheme == "ca+file" {
			for i, d := range []string{d1, d2} {
				p := filepath.Join(d, pickHash[0:3], pickHash[3:6])
				os.MkdirAll(p, 0755)
				os.WriteFile(filepath.Join(p, pickHash), [][]byte{nil, []byte("Wsecond")}[i], 0644)
			}
			a1, a2 = "ca+file://"+d1, "ca+file://"+d2
		} else {
			os.MkdirAll(d1, 0755)
			os.MkdirAll(d2, 0755)
			os.WriteFile(filepath.Join(d1, "ware.tgz"), nil, 0644)
			os.WriteFile(filepath.Join(d2, "ware.tgz"), []byte("Wsecond"), 0644)
			a1, a2 = "file://"+filepath.Join(d1, "ware.tgz"), "file://"+filepath.Join(d2, "ware.tgz")
		}
		for _, list := range [][]api.WarehouseLocation{{api.WarehouseLocation(a1), api.WarehouseLocation(a2)}, {api.WarehouseLocation(a1)}} {
			rd, err := util.PickReader(api.WareID{Type: "tar", Hash: pickHash}, list, false, rio.Monitor{})
			got := ""
			if err != nil {
				got = "err " + catOf(err)
			} else {
				b, _ := io.ReadAll(rd)
				rd.Close()
				got = fmt.Sprintf("opened %q", b)
			}
			c.H("empty-object:" + strings.Fields(got)[0])
			if got != `opened ""` {
				c.PropFail("pick-wrong-warehouse", fmt.Sprintf("the first warehouse of %v holds a (zero-length) object at the ware's address; the fetch answers %s instead of handing out that object", list, got), op)
			}
		}
	}
	var kinds []string
	for _, s := range []string{"file", "ca+file"} {
		for _, cd := range []string{"missingdir", "lacking", "holding"} {
			kinds = append(kinds, s+":"+cd)
		}
	}
	for _, s := range []string{"http", "ca+http"} {
		for _, cd := range []string{"lacking", "holding", "servererror", "refused"} {
			kinds = append(kinds, s+":"+cd)
		}
	}
	kinds = append(kinds, "other:lacking", "unparsable:lacking")
	maxLen := 2
	if c.Tier == "thorough" {
		maxLen = 3
	}
	c.Emit("pick 0 -", pickExec(c, env, "pick 0 -"))
	var rec func(prefix []string)
	rec = func(prefix []string) {
		if len(prefix) > 0 {
			op := "pick 0 " + strings.Join(prefix, ";")
			c.Emit(op, pickExec(c, env, op))
		}
		if len(prefix) == maxLen {
			return
		}
		for _, k := range kinds {
			rec(append(append([]string(nil), prefix...), k))
		}
	}
	rec(nil)
	// longer lists, sampled; and the mono (scan) mode
	n := 300
	if c.Tier == "thorough" {
		n = 3000
	}
	for i := 0; i < n; i++ {
		l := 3 + c.Intn(2)
		var ws []string
		for j := 0; j < l; j++ {
			k := kinds[c.Intn(len(kinds))]
			if c.Chance(2, 3) && strings.HasSuffix(k, "holding") {
				k = kinds[c.Intn(len(kinds))]
			}
			ws = append(ws, k)
		}
		op := "pick 0 " + strings.Join(ws, ";")
		c.Emit(op, pickExec(c, env, op))
	}
	for _, k := range kinds {
		op := "pick 1 " + k
		c.Emit(op, pickExec(c, env, op))
	}
	c.Extra["exhaustive_list_len"] = maxLen
	c.Extra["kinds"] = kinds
}
