package main

import (
	"bytes"
	"context"
	"errors"
	"fmt"
	"github.com/polydawn/refmt/misc"
	"github.com/polydawn/rio/lib/verifhook"
	"golang.org/x/sys/unix"
	"os"
	"os/exec"
	"path/filepath"
	"runtime"
	"strings"
	"sync"
	"syscall"
	"time"

	api "github.com/polydawn/go-timeless-api"
	"github.com/polydawn/go-timeless-api/rio"
	"github.com/polydawn/rio/fs"
	"github.com/polydawn/rio/fs/osfs"
	"github.com/polydawn/rio/stitch"
	tartrans "github.com/polydawn/rio/transmat/tar"
	ziptrans "github.com/polydawn/rio/transmat/zip"
)

func init() { engines["packenv"] = packenvEngine }

// packenv (C01): the same logical fileset, materialised in different ways and packed in different
// environments (base path and depth, creation order, tmpfs vs the disk, concurrent neighbours, target
// kinds, repeated runs, TZ/LANG/cwd of a subprocess running the rio CLI), must always give one wareID —
// the one the Lean pack model predicts.
func packenvExec(c *Ctx, op string) {
	f := strings.Fields(op)
	nSets := 0
	fmt.Sscan(f[1], &nSets)
	sets := strings.Split(f[2], "|")
	caseCounter++
	base := filepath.Join(c.Work, fmt.Sprintf("pe%d", caseCounter))
	defer rmrf(base)
	pf := api.MustParseFilesetPackFilter(losslessPackStr)
	ctx := context.Background()
	type mat struct{ dir string }
	var fsets []Fileset
	var dirs [][]string
	for i, s := range sets {
		fsx := parseFilesetTok(s)
		fsets = append(fsets, fsx)
		var ds []string
		for v, d := range []string{filepath.Join(base, fmt.Sprintf("a%d", i)), filepath.Join(base, "deeper", "and deeper", fmt.Sprintf("b%d", i)), filepath.Join("/dev/shm", fmt.Sprintf("verif-pe-%d-%d-%d", os.Getpid(), caseCounter, i))} {
			os.MkdirAll(filepath.Dir(d), 0755)
			var order []int
			if v > 0 {
				order = c.perm1(len(fsx))
			}
			if err := Materialize(fsx, d, order); err != nil {
				continue
			}
			ds = append(ds, d)
			if strings.HasPrefix(d, "/dev/shm") {
				defer rmrf(d)
			}
		}
		dirs = append(dirs, ds)
	}
	_ = nSets
	packOne := func(dir string, target api.WarehouseLocation) string {
		id, err, pan := safeCall(func() (api.WareID, error) {
			return tartrans.Pack(ctx, "tar", dir, pf, target, rio.Monitor{})
		})
		return resTok(id, err, pan)
	}
	// reference: sequential packs, no target
	ref := make([]string, len(fsets))
	for i := range fsets {
		if len(dirs[i]) == 0 {
			continue
		}
		ref[i] = packOne(dirs[i][0], "")
		modelOp := fmt.Sprintf("pack tar %s %s", filterInts(pf), entriesTokForModel(fsets[i]))
		c.EmitR(fmt.Sprintf("%s #seq%d", op, i), modelOp, ref[i])
		c.Distinct(ref[i])
	}
	check := func(i int, got, how string) {
		c.H("variant:" + how)
		if got != ref[i] {
			c.PropFail("pack-env", fmt.Sprintf("pack of the same fileset gives %s instead of %s when %s", got, ref[i], how), op)
		}
	}
	wh := filepath.Join(base, "wh")
	os.MkdirAll(wh, 0755)
	for i := range fsets {
		for v, d := range dirs[i] {
			if v > 0 {
				check(i, packOne(d, ""), []string{"", "materialised at another path in another creation order", "materialised on tmpfs"}[v])
			}
		}
		if len(dirs[i]) > 0 {
			check(i, packOne(dirs[i][0], api.WarehouseLocation("ca+file://"+wh)), "saved to a ca+file warehouse")
			check(i, packOne(dirs[i][0], api.WarehouseLocation("file://"+filepath.Join(wh, fmt.Sprintf("mono%d.tgz", i)))), "saved to a file warehouse")
			check(i, packOne(dirs[i][0], ""), "packed again")
		}
	}
	// concurrent neighbours: all filesets at once, several rounds
	for round := 0; round < 3; round++ {
		res := make([]string, len(fsets))
		var wg sync.WaitGroup
		for i := range fsets {
			if len(dirs[i]) == 0 {
				continue
			}
			wg.Add(1)
			go func(i int) {
				defer wg.Done()
				res[i] = packOne(dirs[i][round%len(dirs[i])], "")
			}(i)
		}
		wg.Wait()
		for i := range fsets {
			if len(dirs[i]) > 0 {
				check(i, res[i], "packed concurrently with other filesets")
			}
		}
	}
	// stitch.PackMulti: all filesets at once, each part with its own filter and its own warehouse; every part must get
	// the id a solo pack with that part's filter gives
	{
		pfs := []api.FilesetPackFilter{api.FilesetPackFilter_Lossless, api.FilesetPackFilter_Flatten, api.MustParseFilesetPackFilter("uid=7,gid=8,mtime=@99,sticky=keep,setid=keep,dev=keep")}
		var parts []stitch.PackSpec
		solo := map[string]string{}
		for i := range fsets {
			if len(dirs[i]) == 0 {
				continue
			}
			pfi := pfs[i%len(pfs)]
			whi := filepath.Join(base, fmt.Sprintf("whm%d", i))
			os.MkdirAll(whi, 0755)
			p := fmt.Sprintf("/a%d", i)
			parts = append(parts, stitch.PackSpec{Path: fs.MustAbsolutePath(p), PackType: "tar", Filter: pfi, Warehouse: api.WarehouseLocation("ca+file://" + whi)})
			id, err, pan := safeCall(func() (api.WareID, error) {
				return tartrans.Pack(ctx, "tar", dirs[i][0], pfi, "", rio.Monitor{})
			})
			solo[p] = resTok(id, err, pan)
		}
		if len(parts) > 1 {
			// the caller's list need not be in path order
			for i := len(parts) - 1; i > 0; i-- {
				j := c.Intn(i + 1)
				parts[i], parts[j] = parts[j], parts[i]
			}
			if parts[0].Path.String() < parts[len(parts)-1].Path.String() {
				parts[0], parts[len(parts)-1] = parts[len(parts)-1], parts[0]
			}
			var got map[api.AbsPath]api.WareID
			_, _, pan := safeCall(func() (api.WareID, error) {
				var e error
				got, e = stitch.PackMulti(ctx, tartrans.Pack, osfs.New(fs.MustAbsolutePath(base)), parts)
				return api.WareID{}, e
			})
			c.H("variant:packmulti")
			if pan != "" {
				c.PropFail("pack-env", "PackMulti panicked: "+pan, op)
			}
			for p, want := range solo {
				if g := "ok " + got[api.AbsPath(p)].Hash; g != want {
					c.PropFail("pack-env", fmt.Sprintf("PackMulti reports %s for %s; packed alone with the same filter it is %s", g, p, want), op)
				}
			}
			// two specs for one path (another filter): the result has one id per path, so whichever it kept would depend on
			// the listing order — it answers an error, in both orders
			if len(parts) > 0 {
				dup := parts[0]
				dup.Filter = api.FilesetPackFilter_Flatten
				var outs [2]string
				for k, list := range [][]stitch.PackSpec{append(append([]stitch.PackSpec(nil), parts...), dup), append([]stitch.PackSpec{dup}, parts...)} {
					var r map[api.AbsPath]api.WareID
					_, e, pn := safeCall(func() (api.WareID, error) {
						var e2 error
						r, e2 = stitch.PackMulti(ctx, tartrans.Pack, osfs.New(fs.MustAbsolutePath(base)), list)
						return api.WareID{}, e2
					})
					outs[k] = fmt.Sprintf("%s %s", resTok(api.WareID{}, e, pn), r[api.AbsPath(dup.Path.String())].Hash)
				}
				c.H("variant:packmulti-dup")
				if !strings.HasPrefix(outs[0], "err") || !strings.HasPrefix(outs[1], "err") {
					c.PropFail("pack-env", fmt.Sprintf("PackMulti with two specs (two filters) for %s answers %q when the second is listed last and %q when it is listed first", dup.Path, outs[0], outs[1]), op)
				}
			}
		}
	}
	// history of the process: the same base path held another fileset a moment ago (packed by this very process), in
	// which names that are now a regular file / a real directory were symlinks (same sizes, so nothing but the hash can tell)
	{
		t := int64(1.2e9)
		d := func(n string) Entry { return Entry{Name: n, Kind: 'd', Perms: 0755, Uid: 3, Gid: 4, Sec: t} }
		fl := func(n, b string) Entry {
			return Entry{Name: n, Kind: 'f', Perms: 0644, Uid: 3, Gid: 4, Sec: t, Content: []byte(b)}
		}
		ln := func(n, tg string) Entry {
			return Entry{Name: n, Kind: 'L', Perms: 0777, Uid: 3, Gid: 4, Sec: t, Link: tg}
		}
		f1 := Fileset{d(""), fl("t", "OLD-TARGET"), ln("n", "t"), d("dd"), fl("dd/c", "old-child"), ln("dlink", "dd"), fl("plain", "p")}
		f2 := Fileset{d(""), fl("t", "OLD-TARGET"), fl("n", "NEW-BYTES!"), d("dd"), fl("dd/c", "old-child"), d("dlink"), fl("dlink/c", "new-child"), fl("plain", "p")}
		pth, q := filepath.Join(base, "reused"), filepath.Join(base, "fresh")
		if Materialize(f1, pth, nil) == nil {
			packOne(pth, "")
			for _, format := range []string{"tar", "zip"} {
				zp := func(dir string) string {
					if format == "tar" {
						return packOne(dir, "")
					}
					id, err, pan := safeCall(func() (api.WareID, error) { return ziptrans.Pack(ctx, "zip", dir, pf, "", rio.Monitor{}) })
					return resTok(id, err, pan)
				}
				rmrf(pth)
				Materialize(f1, pth, nil)
				zp(pth)
				rmrf(pth)
				rmrf(q)
				if Materialize(f2, pth, nil) == nil && Materialize(f2, q, nil) == nil {
					got, want := zp(pth), zp(q)
					c.H("variant:reused-base-path")
					if got != want {
						c.PropFail("pack-env", fmt.Sprintf("pack (%s) of the same fileset gives %s at a base path this process packed another fileset at before (symlinks where there are now a file and a directory) and %s at a fresh path", format, got, want), op)
					}
				}
			}
		}
	}
	// what lies below the archive's time resolution is not fileset content: two materialisations whose mtimes agree to
	// the second (before and after 1970, on files, directories and the root) pack to one id
	{
		mk := func(ns [4]int) Fileset {
			e := func(n string, k byte, sec int64, nsec int) Entry {
				x := Entry{Name: n, Kind: k, Perms: 0644, Uid: 3, Gid: 4, Sec: sec, Nsec: nsec}
				if k == 'd' {
					x.Perms = 0755
				} else {
					x.Content = []byte(n)
				}
				return x
			}
			return Fileset{e("", 'd', -6, ns[0]), e("old", 'f', -86400*365, ns[1]), e("d", 'd', -1, ns[2]), e("d/new", 'f', 1500000000, ns[3]), e("edge", 'f', 0, ns[1])}
		}
		a, b := filepath.Join(base, "subsec-a"), filepath.Join(base, "subsec-b")
		if Materialize(mk([4]int{700000000, 1, 999999999, 5}), a, nil) == nil && Materialize(mk([4]int{0, 0, 0, 0}), b, nil) == nil {
			// (the backing filesystem must hold negative and nanosecond mtimes for this to say anything)
			if fi, e := os.Lstat(filepath.Join(a, "old")); e == nil && fi.ModTime().Nanosecond() == 1 && fi.ModTime().Unix() == -86400*365 {
				ga, gb := packOne(a, ""), packOne(b, "")
				c.H("variant:subsecond-mtimes")
				if ga != gb {
					c.PropFail("pack-env", fmt.Sprintf("two materialisations of one fileset whose mtimes differ only below one second pack to %s and %s", ga, gb), op)
				}
			}
		}
	}
	// the CLI in a subprocess with another time zone, locale and working directory — tar and zip; set 0 carries
	// mtimes inside the repeated / skipped wall-clock hours of these zones (see dstInstants)
	if bin := os.Getenv("RIO_BIN"); bin != "" && len(dirs[0]) > 0 {
		zid, zerr, zpan := safeCall(func() (api.WareID, error) {
			return ziptrans.Pack(ctx, "zip", dirs[0][0], pf, "", rio.Monitor{})
		})
		refs := map[string]string{"tar": ref[0], "zip": resTok(zid, zerr, zpan)}
		for _, env := range [][]string{{"TZ=Asia/Kolkata", "LANG=de_DE.UTF-8"}, {"TZ=America/St_Johns", "LC_ALL=C"}, {"TZ=America/New_York"}, {"TZ=Europe/Berlin", "LANG=tr_TR.UTF-8"}, {"TZ=Australia/Lord_Howe"}} {
			for _, format := range []string{"tar", "zip"} {
				cmd := exec.Command(bin, "pack", format, dirs[0][0], "--filters", losslessPackStr)
				cmd.Env = append(os.Environ(), env...)
				cmd.Dir = "/"
				out, err := cmd.Output()
				got := "ok " + strings.TrimPrefix(strings.TrimSpace(string(out)), format+":")
				if err != nil {
					got = "cli-error"
				}
				how := "packed (" + format + ") by the CLI under " + strings.Join(env, " ")
				c.H("variant:cli-" + format)
				if got != refs[format] {
					c.PropFail("pack-env", fmt.Sprintf("pack of the same fileset gives %s instead of %s when %s", got, refs[format], how), op)
				}
			}
		}
	}
}

// instants (unix seconds) inside or at the edge of the wall-clock hours that repeat or are skipped at DST
// transitions of the zones the CLI variants run under
var dstInstants = []int64{1793511000, 1793514600, 1772953199, 1772953200, 1792888200, 1792891800, 1774746000, 1775313900, 1775315700, 1793505600, 1793509200, 562138200, 1162081800}

// packenvBigDir: recipe "packenv-bigdir <n>" — one directory with n entries (beyond any listing batch size), materialised
// on the scratch filesystem in ascending creation order and on tmpfs in descending order: the listing order the kernel
// gives differs, the wareID may not — and it is the reference tree hash of the whole fileset.
func packenvBigDir(c *Ctx, op string) {
	c.Begin(op)
	var n int
	fmt.Sscan(strings.Fields(op)[1], &n)
	caseCounter++
	base := filepath.Join(c.Work, fmt.Sprintf("pb%d", caseCounter))
	shm := filepath.Join("/dev/shm", fmt.Sprintf("verif-pb-%d-%d", os.Getpid(), caseCounter))
	defer rmrf(base)
	defer rmrf(shm)
	fsx := Fileset{{Name: "", Kind: 'd', Perms: 0755, Uid: 3, Gid: 4, Sec: 1e9}, {Name: "big", Kind: 'd', Perms: 0755, Uid: 3, Gid: 4, Sec: 1e9}, {Name: "zz", Kind: 'f', Perms: 0644, Uid: 3, Gid: 4, Sec: 1e9, Content: []byte("z")}}
	for i := 0; i < n; i++ {
		fsx = append(fsx, Entry{Name: fmt.Sprintf("big/f%05d", i), Kind: 'f', Perms: 0644, Uid: 3, Gid: 4, Sec: 1e9})
	}
	var desc []int // every entry but the root, the children of `big` in descending order
	for i := len(fsx) - 1; i >= 1; i-- {
		desc = append(desc, i)
	}
	a, b := filepath.Join(base, "asc"), filepath.Join(shm, "desc")
	os.MkdirAll(base, 0755)
	os.MkdirAll(shm, 0755)
	if Materialize(fsx, a, nil) != nil || Materialize(fsx, b, desc) != nil {
		c.EmitR(op, "skip", "skip")
		return
	}
	pf := api.MustParseFilesetPackFilter(losslessPackStr)
	pk := func(dir string) string {
		id, err, pan := safeCall(func() (api.WareID, error) {
			return tartrans.Pack(context.Background(), "tar", dir, pf, "", rio.Monitor{})
		})
		return resTok(id, err, pan)
	}
	ga, gb := pk(a), pk(b)
	want := "ok " + misc.Base58Encode(RefTreeHash(fsx, sha384))
	c.H("variant:bigdir")
	if ga != gb {
		c.PropFail("pack-env", fmt.Sprintf("a fileset with a directory of %d entries packs to %s on the scratch filesystem and to %s on tmpfs (created in the opposite order)", n, ga, gb), op)
	} else if ga != want {
		c.PropFail("pack-env", fmt.Sprintf("a fileset with a directory of %d entries packs to %s; the reference tree hash of the whole fileset is %s", n, ga, want), op)
	}
	// C02 through the walk: pack into a warehouse, unpack, compare the trees entry for entry (ids that agree with each
	// other prove nothing about entries that never reached the pack)
	{
		wh, dst := filepath.Join(base, "wh"), filepath.Join(base, "back")
		os.MkdirAll(wh, 0755)
		os.Setenv("RIO_CACHE", filepath.Join(base, "cache"))
		id, err, pan := safeCall(func() (api.WareID, error) {
			return tartrans.Pack(context.Background(), "tar", a, pf, whAddr("ca", wh), rio.Monitor{})
		})
		if err == nil && pan == "" {
			_, err2, pan2 := safeCall(func() (api.WareID, error) {
				return tartrans.Unpack(context.Background(), id, dst, api.MustParseFilesetUnpackFilter(losslessUnpackStr), rio.Placement_Direct, []api.WarehouseLocation{whAddr("ca", wh)}, rio.Monitor{})
			})
			if err2 != nil || pan2 != "" {
				c.PropFail("roundtrip-tree", fmt.Sprintf("a fileset with a directory of %d entries packs but does not unpack: %v %s", n, err2, pan2), op)
			} else if s0, e0 := Snapshot(a); e0 == nil {
				if s1, e1 := Snapshot(dst); e1 != nil || s0.Digest(true) != s1.Digest(true) {
					d := DiffFilesets(s0, s1, true)
					if len(d) > 300 {
						d = d[:300] + "…"
					}
					c.PropFail("roundtrip-tree", fmt.Sprintf("a fileset with a directory of %d entries does not come back from pack + unpack: %d entries in, %d out: %s", n, len(s0), len(s1), d), op)
				}
			}
		}
		rmrf(dst)
	}
	// C04 through the walk: a change to any one of the entries (bytes of the same length, a permission bit, presence)
	// changes the id — wherever the entry sits in the kernel's listing order
	if strings.HasPrefix(ga, "ok ") {
		for _, i := range []int{0, n / 7, n / 3, n / 2, n - n/5, n - 1} {
			victim := filepath.Join(a, fmt.Sprintf("big/f%05d", i))
			pdir := filepath.Join(a, "big")
			st, _ := os.Stat(pdir)
			os.Chmod(victim, 0600)
			os.Chtimes(victim, time.Unix(1e9, 0), time.Unix(1e9, 0))
			if st != nil {
				os.Chtimes(pdir, st.ModTime(), st.ModTime())
			}
			if g2 := pk(a); g2 == ga {
				c.PropFail("collision", fmt.Sprintf("in a directory of %d entries, changing the permission bits of f%05d leaves the packed id unchanged", n, i), op)
				break
			}
			os.Chmod(victim, 0644)
			os.Chtimes(victim, time.Unix(1e9, 0), time.Unix(1e9, 0))
		}
	}
	c.EmitR(op, "skip", "skip")
}

func init() {
	engines["bigdir"] = func(c *Ctx) {
		if ls := replayLines(); ls != nil {
			for _, op := range ls {
				if strings.HasPrefix(op, "packenv-bigdir ") {
					packenvBigDir(c, op)
				} else if strings.HasPrefix(op, "packenv-repack-edit ") {
					packenvRepackEdit(c, op)
				} else if strings.HasPrefix(op, "packenv-concurrent-distinct ") {
					packenvConcurrentDistinct(c, op)
				}
			}
			return
		}
		packenvBigDir(c, "packenv-bigdir 5000")
		packenvRepackEdit(c, "packenv-repack-edit tar")
		packenvRepackEdit(c, "packenv-repack-edit zip")
		packenvConcurrentDistinct(c, "packenv-concurrent-distinct tar")
		packenvConcurrentDistinct(c, "packenv-concurrent-distinct zip")
	}
}

// packenvConcurrentDistinct: eight trees that differ only in the bytes of one file, packed at the same time in one
// process (what stitch.PackMulti does for a formula with several outputs), many rounds: every tree gets the id it gets
// alone (C01), and no two of them the same id (C04). Recipe: "packenv-concurrent-distinct <tar|zip>".
func packenvConcurrentDistinct(c *Ctx, op string) {
	fmtName := strings.Fields(op)[1]
	caseCounter++
	base := filepath.Join(c.Work, fmt.Sprintf("pcd%d", caseCounter))
	defer rmrf(base)
	const n = 8
	t := time.Unix(1.3e9, 0)
	fn := funcsFor(fmtName)
	pf := api.MustParseFilesetPackFilter(losslessPackStr)
	pack := func(dir string) string {
		id, err, pan := safeCall(func() (api.WareID, error) {
			return fn.pack(context.Background(), api.PackType(fmtName), dir, pf, "", rio.Monitor{})
		})
		return resTok(id, err, pan)
	}
	var dirs, solo [n]string
	for i := 0; i < n; i++ {
		dirs[i] = filepath.Join(base, fmt.Sprintf("t%d", i))
		os.MkdirAll(dirs[i], 0755)
		body := bytes.Repeat([]byte{byte('A' + i)}, 300000) // many copy chunks per body
		os.WriteFile(filepath.Join(dirs[i], "data"), body, 0644)
		os.Chtimes(filepath.Join(dirs[i], "data"), t, t)
		os.Chtimes(dirs[i], t, t)
		solo[i] = pack(dirs[i])
	}
	c.EmitR(op, "skip", "skip")
	rounds := 400
	if c.Tier == "thorough" {
		rounds = 3000
	}
	envReported := false
	for r := 0; r < rounds; r++ {
		var got [n]string
		var wg sync.WaitGroup
		for i := 0; i < n; i++ {
			wg.Add(1)
			go func(i int) {
				defer wg.Done()
				got[i] = pack(dirs[i])
			}(i)
		}
		wg.Wait()
		for i := 0; i < n; i++ {
			for j := 0; j < i; j++ {
				if got[i] == got[j] && strings.HasPrefix(got[i], "ok ") {
					c.PropFail("collision", fmt.Sprintf("round %d: trees %d and %d differ in the bytes of their file, were packed (%s) at the same time and both got %s", r, j, i, fmtName, got[i]), op)
					return
				}
				if got[i] == solo[j] && strings.HasPrefix(got[i], "ok ") {
					c.PropFail("collision", fmt.Sprintf("round %d: tree %d, packed (%s) next to concurrent packs, got %s — the id of tree %d, whose file has other bytes", r, i, fmtName, got[i], j), op)
					return
				}
			}
		}
		for i := 0; i < n && !envReported; i++ {
			if got[i] != solo[i] {
				c.PropFail("pack-env", fmt.Sprintf("round %d: tree %d packs (%s) to %s alone and to %s next to seven concurrent packs", r, i, fmtName, solo[i], got[i]), op)
				envReported = true // (keep going: two trees given one id is the sharper finding)
			}
		}
	}
	c.H("concurrent-distinct:" + fmtName)
	c.Distinct(op)
}

// packenvProcfs: a fileset living on a pseudo-filesystem whose regular files report a size of zero although they have
// content (procfs), and a byte-identical copy on an ordinary filesystem: packed (zip; flattening filter) they have one
// id — or the pack fails; it never answers another id. Recipe: "packenv-procfs".
func packenvProcfs(c *Ctx, op string) {
	caseCounter++
	base := filepath.Join(c.Work, fmt.Sprintf("ppf%d", caseCounter))
	defer rmrf(base)
	src := "/proc/sys/fs/inotify"
	ents, err := os.ReadDir(src)
	if err != nil || len(ents) == 0 {
		c.EmitR(op, "skip", "skip")
		return
	}
	cp := filepath.Join(base, "copy")
	os.MkdirAll(cp, 0755)
	for _, e := range ents {
		b, e1 := os.ReadFile(filepath.Join(src, e.Name()))
		st, e2 := os.Stat(filepath.Join(src, e.Name()))
		if e1 != nil || e2 != nil || !st.Mode().IsRegular() {
			c.EmitR(op, "skip", "skip")
			return
		}
		os.WriteFile(filepath.Join(cp, e.Name()), b, 0600)
		os.Chmod(filepath.Join(cp, e.Name()), st.Mode().Perm())
	}
	if st, e := os.Stat(src); e == nil {
		os.Chmod(cp, st.Mode().Perm())
	}
	c.EmitR(op, "skip", "skip")
	for _, fm := range []string{"zip", "tar"} {
		fn := funcsFor(fm)
		pack := func(dir string) string {
			id, err, pan := safeCall(func() (api.WareID, error) {
				return fn.pack(context.Background(), api.PackType(fm), dir, api.FilesetPackFilter_Flatten, "", rio.Monitor{})
			})
			return resTok(id, err, pan)
		}
		a, b := pack(src), pack(cp)
		c.H("procfs:" + fm + ":" + strings.Fields(a)[0])
		if strings.HasPrefix(a, "ok ") && strings.HasPrefix(b, "ok ") && a != b {
			c.PropFail("pack-env", fmt.Sprintf("the files of %s pack (%s, flatten) to %s where they are and to %s as a byte-identical copy on an ordinary filesystem", src, fm, a, b), op)
		}
		if a == "panic" {
			c.PropFail("pack-env", "pack of a procfs directory panicked", op)
		}
	}
	c.Distinct(op)
}

// packenvCrossFs: one fileset laid out on a single filesystem, and the same fileset with two of its directories being
// freshly made tmpfs mounts — where inode numbers repeat from one filesystem to the next — with hard-linked regular files
// (link count 2) in both: the id is the same. Recipe: "packenv-crossfs".
func packenvCrossFs(c *Ctx, op string) {
	c.Begin(op)
	caseCounter++
	base := filepath.Join(c.Work, fmt.Sprintf("pxf%d", caseCounter))
	defer rmrf(base)
	one, two := filepath.Join(base, "one"), filepath.Join(base, "two")
	c.EmitR(op, "skip", "skip")
	var mounts []string
	defer func() {
		for _, m := range mounts {
			syscall.Unmount(m, syscall.MNT_DETACH)
		}
	}()
	build := func(root string, mount bool) bool {
		for _, d := range []string{"a", "b"} {
			p := filepath.Join(root, d)
			os.MkdirAll(p, 0755)
			if mount {
				if syscall.Mount("tmpfs", p, "tmpfs", 0, "size=1m") != nil {
					return false
				}
				mounts = append(mounts, p)
			}
			body := map[string]string{"a": "first body", "b": "SECOND body, longer"}[d]
			os.WriteFile(filepath.Join(p, "x"), []byte(body), 0644)
			os.Link(filepath.Join(p, "x"), filepath.Join(p, "y"))
			os.WriteFile(filepath.Join(p, "plain"), []byte(d), 0644)
		}
		for _, q := range []string{"a/x", "a/plain", "b/x", "b/plain", "a", "b", "."} {
			os.Chmod(filepath.Join(root, q), map[bool]os.FileMode{true: 0755, false: 0644}[!strings.Contains(q, "/")])
			os.Chtimes(filepath.Join(root, q), time.Unix(1e9, 0), time.Unix(1e9, 0))
		}
		return true
	}
	if !build(one, false) || !build(two, true) {
		c.H("crossfs:skipped")
		return
	}
	var st1, st2 syscall.Stat_t
	syscall.Lstat(filepath.Join(two, "a", "x"), &st1)
	syscall.Lstat(filepath.Join(two, "b", "x"), &st2)
	c.H(fmt.Sprintf("crossfs:same-ino=%v", st1.Ino == st2.Ino && st1.Dev != st2.Dev))
	for _, fm := range []string{"tar", "zip"} {
		fn := funcsFor(fm)
		pack := func(dir string) string {
			id, err, pan := safeCall(func() (api.WareID, error) {
				return fn.pack(context.Background(), api.PackType(fm), dir, api.MustParseFilesetPackFilter(losslessPackStr), "", rio.Monitor{})
			})
			return resTok(id, err, pan)
		}
		a, b := pack(one), pack(two)
		c.H("crossfs:" + fm + ":" + strings.Fields(a)[0])
		if a != b {
			c.PropFail("pack-env", fmt.Sprintf("a fileset with hard-linked files packs (%s) to %s on one filesystem and to %s when two of its directories are separate (tmpfs) filesystems whose inode numbers coincide", fm, a, b), op)
		}
	}
	c.Distinct(op)
}

// packenvRepackEdit: one process packs the same tree path twice; between the packs a regular file gets other bytes of
// the same length and its mtime is put back (a build that pins mtimes). The second id differs from the first (C04) and is
// what the edited tree packs to at a fresh path (C01). Recipe: "packenv-repack-edit <tar|zip>".
func packenvRepackEdit(c *Ctx, op string) {
	fmtName := strings.Fields(op)[1]
	caseCounter++
	base := filepath.Join(c.Work, fmt.Sprintf("pre%d", caseCounter))
	defer rmrf(base)
	t := time.Unix(1.3e9, 0)
	mk := func(dir string, body string) {
		os.MkdirAll(filepath.Join(dir, "d"), 0755)
		os.WriteFile(filepath.Join(dir, "d", "data.bin"), []byte(body), 0644)
		os.WriteFile(filepath.Join(dir, "other"), []byte("unchanged"), 0644)
		for _, p := range []string{"d/data.bin", "other", "d", "."} {
			os.Chtimes(filepath.Join(dir, p), t, t)
		}
	}
	fn := funcsFor(fmtName)
	pf := api.MustParseFilesetPackFilter(losslessPackStr)
	pack := func(dir string) string {
		id, err, pan := safeCall(func() (api.WareID, error) {
			return fn.pack(context.Background(), api.PackType(fmtName), dir, pf, "", rio.Monitor{})
		})
		return resTok(id, err, pan)
	}
	p, q := filepath.Join(base, "tree"), filepath.Join(base, "fresh")
	mk(p, "AAAAAAAAAAAAAAAA-first-version")
	id1 := pack(p)
	pack(p) // (a warm second pass over the unchanged tree)
	mk(p, "BBBBBBBBBBBBBBBB-other-version")
	id2 := pack(p)
	mk(q, "BBBBBBBBBBBBBBBB-other-version")
	idQ := pack(q)
	c.EmitR(op, "skip", "skip")
	c.H("repack-edit:" + fmtName)
	if !strings.HasPrefix(id1, "ok ") || !strings.HasPrefix(idQ, "ok ") {
		return
	}
	if id2 == id1 {
		c.PropFail("collision", fmt.Sprintf("a tree packed (%s), one file given other bytes of the same length with its mtime put back, packed again at the same path by the same process: the id is unchanged (%s)", fmtName, id1), op)
	}
	if id2 != idQ {
		c.PropFail("pack-env", fmt.Sprintf("the edited tree packs (%s) to %s at the path this process packed its earlier version at, and to %s at a fresh path", fmtName, id2, idQ), op)
	}
	c.Distinct(op)
}

// packenvFailThen: a pack that fails partway (the warehouse refuses the i-th write) followed, in the same process and on
// the same goroutine, by a quiet pack of the same tree: the id must be what it was before the failure.
// Recipe: "packenv-failthen <tar|zip> <i>".
func packenvFailThen(c *Ctx, op string) {
	f := strings.Fields(op)
	fmtName := f[1]
	at := 0
	fmt.Sscan(f[2], &at)
	caseCounter++
	base := filepath.Join(c.Work, fmt.Sprintf("pft%d", caseCounter))
	defer rmrf(base)
	src, wh := filepath.Join(base, "src"), filepath.Join(base, "wh")
	os.MkdirAll(filepath.Join(src, "d"), 0755)
	os.MkdirAll(wh, 0755)
	os.Setenv("RIO_CACHE", filepath.Join(base, "cache"))
	x := uint32(7)
	for i, n := range []int{100000, 70000, 3, 250000} { // incompressible bodies: every copy chunk reaches the warehouse
		b := make([]byte, n)
		for j := range b {
			x = x*1664525 + 1013904223
			b[j] = byte(x >> 24)
		}
		os.WriteFile(filepath.Join(src, []string{"a", "d/b", "d/c", "e"}[i]), b, 0644)
	}
	ctx := context.Background()
	pf := api.MustParseFilesetPackFilter(losslessPackStr)
	fn := funcsFor(fmtName)
	pack := func() string {
		id, err, pan := safeCall(func() (api.WareID, error) {
			return fn.pack(ctx, api.PackType(fmtName), src, pf, whAddr("ca", wh), rio.Monitor{})
		})
		return resTok(id, err, pan)
	}
	before := pack()
	c.EmitR(op, "skip", "skip")
	if !strings.HasPrefix(before, "ok ") {
		c.H("failthen-skipped:" + before)
		return
	}
	for rep := 0; rep < 3; rep++ {
		n := 0
		verifhook.Set(func(name string, detail []string) error {
			if name == "kvfs.write" {
				n++
				if n == at+1+rep {
					return errors.New("injected fault: no space left on device")
				}
			}
			return nil
		})
		failed := pack()
		verifhook.Set(nil)
		after := pack()
		c.H("failthen:" + fmtName + ":" + strings.Fields(failed)[0])
		if after != before {
			c.PropFail("pack-env", fmt.Sprintf("the same tree packed to %s, then a pack failed (%s, write %d refused), then the same tree packed to %s", before, failed, at+1+rep, after), op)
			return
		}
	}
	c.Distinct(op)
}

// packenvCancel: the caller's context is cancelled at its k-th poll, for every k a pack makes (plus a few): the pack
// answers with an error, or with the id it always gives — never with another id. Recipe: "packenv-cancel <tar|zip>".
func packenvCancel(c *Ctx, op string) {
	fmtName := strings.Fields(op)[1]
	caseCounter++
	base := filepath.Join(c.Work, fmt.Sprintf("pcn%d", caseCounter))
	defer rmrf(base)
	src, wh := filepath.Join(base, "src"), filepath.Join(base, "wh")
	os.MkdirAll(filepath.Join(src, "d"), 0755)
	os.MkdirAll(wh, 0755)
	os.Setenv("RIO_CACHE", filepath.Join(base, "cache"))
	x := uint32(11)
	for i, n := range []int{5, 70000, 0, 300000} { // the last entry of the walk is a regular file with a long body
		b := make([]byte, n)
		for j := range b {
			x = x*1664525 + 1013904223
			b[j] = byte(x >> 24)
		}
		os.WriteFile(filepath.Join(src, []string{"a", "d/b", "d/c", "zz-last"}[i]), b, 0644)
	}
	pf := api.MustParseFilesetPackFilter(losslessPackStr)
	fn := funcsFor(fmtName)
	pack := func(ctx context.Context, tgt api.WarehouseLocation) string {
		id, err, pan := safeCall(func() (api.WareID, error) {
			return fn.pack(ctx, api.PackType(fmtName), src, pf, tgt, rio.Monitor{})
		})
		return resTok(id, err, pan)
	}
	before := pack(context.Background(), "")
	c.EmitR(op, "skip", "skip")
	if !strings.HasPrefix(before, "ok ") {
		return
	}
	// how many polls does an undisturbed pack make?
	probe := &countdownCtx{Context: context.Background(), left: 1 << 30, done: make(chan struct{})}
	pack(probe, "")
	polls := 1<<30 - probe.left
	okAfter, errs := 0, 0
	for k := 1; k <= polls+3; k++ {
		cc := &countdownCtx{Context: context.Background(), left: k, done: make(chan struct{})}
		tgt := api.WarehouseLocation("")
		if k%2 == 0 {
			tgt = whAddr("ca", wh)
		}
		r := pack(cc, tgt)
		switch {
		case r == "panic":
			c.PropFail("pack-env", fmt.Sprintf("a pack (%s) cancelled at its poll %d panicked", fmtName, k), op)
			return
		case strings.HasPrefix(r, "ok ") && r != before:
			c.PropFail("pack-env", fmt.Sprintf("a pack (%s) cancelled at its poll %d of %d answered %s without an error; undisturbed the same tree packs to %s", fmtName, k, polls, r, before), op)
			return
		case strings.HasPrefix(r, "ok "):
			okAfter++
		default:
			errs++
		}
	}
	c.H(fmt.Sprintf("cancel:%s:polls=%d", fmtName, (polls+4)/5*5))
	c.Extra["cancel_"+fmtName] = fmt.Sprintf("polls=%d errors=%d same-id=%d", polls, errs, okAfter)
	c.Distinct(op)
}

// packenvUnreadable: the packing thread loses the privilege to open one regular file of the tree (fsuid of an ordinary
// user, a 0600 file of root's) — lstat works, open does not. The pack fails, or answers the id it gives when it can read
// everything; it never answers another id. Recipe: "packenv-unreadable <tar|zip>".
func packenvUnreadable(c *Ctx, op string) {
	fmtName := strings.Fields(op)[1]
	caseCounter++
	base := filepath.Join("/dev/shm", fmt.Sprintf("verif-pun-%d-%d", os.Getpid(), caseCounter)) // (a path every user can traverse)
	defer rmrf(base)
	src := filepath.Join(base, "src")
	os.MkdirAll(filepath.Join(src, "d"), 0755)
	os.Chmod(base, 0755)
	os.WriteFile(filepath.Join(src, "d", "public"), []byte("readable"), 0644)
	os.WriteFile(filepath.Join(src, "secret-empty"), nil, 0600)
	os.WriteFile(filepath.Join(src, "secret"), []byte("for root's eyes only"), 0600)
	fn := funcsFor(fmtName)
	pf := api.MustParseFilesetPackFilter(losslessPackStr)
	pack := func() string {
		id, err, pan := safeCall(func() (api.WareID, error) {
			return fn.pack(context.Background(), api.PackType(fmtName), src, pf, "", rio.Monitor{})
		})
		return resTok(id, err, pan)
	}
	ref := pack()
	c.EmitR(op, "skip", "skip")
	if !strings.HasPrefix(ref, "ok ") {
		return
	}
	for _, victim := range []string{"secret", "secret-empty"} {
		// only one of the two is unreadable at a time
		os.Chmod(filepath.Join(src, "secret"), 0644)
		os.Chmod(filepath.Join(src, "secret-empty"), 0644)
		os.Chmod(filepath.Join(src, victim), 0600)
		os.Chmod(filepath.Join(src, "secret"), map[bool]os.FileMode{true: 0600, false: 0644}[victim == "secret"])
		done := make(chan string, 1)
		go func() {
			runtime.LockOSThread() // never unlocked: the thread dies with the goroutine, its fsuid with it
			if e := unix.Setfsuid(65534); e != nil {
				done <- "skip"
				return
			}
			unix.Setfsgid(65534)
			done <- pack()
		}()
		r := <-done
		os.Chmod(filepath.Join(src, "secret"), 0600)
		os.Chmod(filepath.Join(src, "secret-empty"), 0600)
		c.H("unreadable:" + fmtName + ":" + victim + ":" + strings.Fields(r)[0])
		// (perms differ from the reference run only on the victim's sibling: compare against a reference taken the same way)
		os.Chmod(filepath.Join(src, "secret"), 0644)
		os.Chmod(filepath.Join(src, "secret-empty"), 0644)
		os.Chmod(filepath.Join(src, victim), 0600)
		want := pack()
		os.Chmod(filepath.Join(src, "secret"), 0600)
		os.Chmod(filepath.Join(src, "secret-empty"), 0600)
		if strings.HasPrefix(r, "ok ") && r != want {
			c.PropFail("pack-env", fmt.Sprintf("a pack (%s) that could not open %s (permission denied to the packing thread) answered %s without an error; with the file readable the tree packs to %s", fmtName, victim, r, want), op)
		}
		if r == "panic" {
			c.PropFail("pack-env", "a pack that could not open a file panicked", op)
		}
	}
	c.Distinct(op)
}

func packenvEngine(c *Ctx) {
	if ls := replayLines(); ls != nil {
		for _, op := range ls {
			if strings.HasPrefix(op, "packenv-bigdir ") {
				packenvBigDir(c, op)
			} else if strings.HasPrefix(op, "packenv-failthen ") {
				packenvFailThen(c, op)
			} else if strings.HasPrefix(op, "packenv-cancel ") {
				packenvCancel(c, op)
			} else if strings.HasPrefix(op, "packenv-repack-edit ") {
				packenvRepackEdit(c, op)
			} else if strings.HasPrefix(op, "packenv-crossfs") {
				packenvCrossFs(c, op)
			} else if strings.HasPrefix(op, "packenv-procfs") {
				packenvProcfs(c, op)
			} else if strings.HasPrefix(op, "packenv-unreadable ") {
				packenvUnreadable(c, op)
			} else if strings.HasPrefix(op, "packenv ") && !strings.Contains(op, " #") {
				packenvExec(c, op)
			}
		}
		return
	}
	packenvBigDir(c, "packenv-bigdir 5000")
	if c.Tier == "thorough" {
		packenvBigDir(c, "packenv-bigdir 70000")
	}
	packenvCancel(c, "packenv-cancel tar")
	packenvCancel(c, "packenv-cancel zip")
	packenvRepackEdit(c, "packenv-repack-edit tar")
	packenvRepackEdit(c, "packenv-repack-edit zip")
	packenvProcfs(c, "packenv-procfs")
	packenvCrossFs(c, "packenv-crossfs")
	packenvUnreadable(c, "packenv-unreadable tar")
	packenvUnreadable(c, "packenv-unreadable zip")
	for _, fm := range []string{"tar", "zip"} {
		for _, at := range []int{0, 2, 5, 9} {
			packenvFailThen(c, fmt.Sprintf("packenv-failthen %s %d", fm, at))
		}
	}
	rounds, nSets := 3, 6
	if c.Tier == "thorough" {
		rounds, nSets = 25, 8
	}
	for r := 0; r < rounds; r++ {
		var toks []string
		for i := 0; i < nSets; i++ {
			// a few large files per set so that concurrent packs really overlap inside file bodies
			fsx := c.GenFileset(GenOpts{MaxEntries: 6, Kinds: "ffdL", SubSecond: true, BigIds: true, Setid: true, MaxContent: 100})
			sanitizeForRoundtrip(fsx, "tar")
			if i == 0 {
				for j := range fsx {
					fsx[j].Sec = dstInstants[c.Intn(len(dstInstants))]
				}
			}
			big := Entry{Name: fmt.Sprintf("big%d", i), Kind: 'f', Perms: 0644, Uid: 5, Gid: 6, Sec: 1e9, Content: make([]byte, 600000+c.Intn(400000))}
			for j := range big.Content {
				big.Content[j] = byte(j*7 + i)
			}
			fsx = append(fsx, big)
			toks = append(toks, filesetTok(fsx))
		}
		packenvExec(c, fmt.Sprintf("packenv %d %s", nSets, strings.Join(toks, "|")))
	}
}
