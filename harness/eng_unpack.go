package main

import (
	"archive/tar"
	"bytes"
	"compress/bzip2"
	"compress/gzip"
	"context"
	"fmt"
	"io"
	"os"
	"os/exec"
	pathpkg "path"
	"sort"
	"strings"
	"time"

	api "github.com/polydawn/go-timeless-api"
	"github.com/polydawn/go-timeless-api/rio"
	"github.com/polydawn/refmt/misc"
	nilFS "github.com/polydawn/rio/fs/nilfs"
	tartrans "github.com/polydawn/rio/transmat/tar"
)

func init() { engines["unpack"] = unpackEngine }

// RawHdr is one tar header as the recipe specifies it (before encoding).
type RawHdr struct {
	Name     string
	Typeflag byte
	Mode     int64
	Uid, Gid int
	Link     string
	Maj, Min int64
	Sec      int64
	Nsec     int
	Xattrs   map[string]string
	Content  []byte
}

func (h RawHdr) tok() string {
	return fmt.Sprintf("%s,%d,%d,%d,%d,%s,%d,%d,%d,%d,%s,%s", hx(h.Name), h.Typeflag, h.Mode, h.Uid, h.Gid, hx(h.Link), h.Maj, h.Min, h.Sec, h.Nsec, showXattrs(h.Xattrs), hx(string(h.Content)))
}
func parseRawHdr(t string) RawHdr {
	f := strings.Split(t, ",")
	var h RawHdr
	h.Name = unhx(f[0])
	var tf int
	fmt.Sscan(f[1], &tf)
	h.Typeflag = byte(tf)
	fmt.Sscan(f[2], &h.Mode)
	fmt.Sscan(f[3], &h.Uid)
	fmt.Sscan(f[4], &h.Gid)
	h.Link = unhx(f[5])
	fmt.Sscan(f[6], &h.Maj)
	fmt.Sscan(f[7], &h.Min)
	fmt.Sscan(f[8], &h.Sec)
	fmt.Sscan(f[9], &h.Nsec)
	if f[10] != "-" {
		h.Xattrs = map[string]string{}
		for _, kv := range strings.Split(f[10], "|") {
			p := strings.Split(kv, ":")
			h.Xattrs[unhx(p[0])] = unhx(p[1])
		}
	}
	h.Content = []byte(unhx(f[11]))
	return h
}

func kindToTarType(k byte) byte {
	switch k {
	case 'f':
		return tar.TypeReg
	case 'd':
		return tar.TypeDir
	case 'L':
		return tar.TypeSymlink
	case 'p':
		return tar.TypeFifo
	case 'D':
		return tar.TypeBlock
	case 'c':
		return tar.TypeChar
	case 'h':
		return tar.TypeLink
	}
	return '?'
}

// encodeTar writes the raw headers with archive/tar in the given format ("" = writer's choice).
func encodeTar(hdrs []RawHdr, format string) ([]byte, error) {
	var buf bytes.Buffer
	tw := tar.NewWriter(&buf)
	for _, h := range hdrs {
		th := &tar.Header{Name: h.Name, Typeflag: h.Typeflag, Mode: h.Mode, Uid: h.Uid, Gid: h.Gid, Size: int64(len(h.Content)),
			Linkname: h.Link, Devmajor: h.Maj, Devminor: h.Min, ModTime: time.Unix(h.Sec, int64(h.Nsec)).UTC()}
		if len(h.Xattrs) > 0 {
			th.PAXRecords = map[string]string{}
			for k, v := range h.Xattrs {
				th.PAXRecords["SCHILY.xattr."+k] = v
			}
		}
		if h.Typeflag == tar.TypeXGlobalHeader {
			th = &tar.Header{Typeflag: tar.TypeXGlobalHeader, Name: h.Name, PAXRecords: map[string]string{"comment": "abc"}}
		}
		switch format {
		case "ustar":
			th.Format = tar.FormatUSTAR
		case "pax":
			th.Format = tar.FormatPAX
		case "gnu":
			th.Format = tar.FormatGNU
		}
		if err := tw.WriteHeader(th); err != nil {
			return nil, err
		}
		if th.Typeflag == tar.TypeReg || th.Typeflag == tar.TypeRegA || th.Typeflag == tar.TypeCont || ((th.Typeflag == 'D' || th.Typeflag == 'V') && len(h.Content) > 0) {
			if _, err := tw.Write(h.Content); err != nil {
				return nil, err
			}
		}
	}
	if err := tw.Close(); err != nil {
		return nil, err
	}
	return buf.Bytes(), nil
}

// applyMut alters the encoded stream.
func applyMut(b []byte, mut string) []byte {
	f := strings.Split(mut, ":")
	switch f[0] {
	case "trunc":
		var n int
		fmt.Sscan(f[1], &n)
		if n < len(b) {
			return b[:n]
		}
	case "flip":
		var off, mask int
		fmt.Sscan(f[1], &off)
		fmt.Sscan(f[2], &mask)
		if off < len(b) {
			c := append([]byte(nil), b...)
			c[off] ^= byte(mask)
			return c
		}
	case "pad":
		var n int
		fmt.Sscan(f[1], &n)
		return append(append([]byte(nil), b...), make([]byte, n*512)...)
	case "gz", "bz2", "xz", "xzbig", "gz1", "bz1":
		// compression leaves the fileset unchanged; f[1] = number of concatenated members / streams (all three
		// formats allow concatenation), cut at tar block boundaries
		n := 1
		if len(f) > 1 {
			fmt.Sscan(f[1], &n)
		}
		blocks := len(b) / 512
		if n < 1 || blocks == 0 {
			n = 1
		}
		per := (blocks + n - 1) / n
		if per == 0 {
			per = 1
		}
		var out []byte
		for off := 0; off < len(b) || off == 0; off += per * 512 {
			end := off + per*512
			if end > len(b) || n == 1 {
				end = len(b)
			}
			part, err := compressWith(f[0], b[off:end])
			if err != nil {
				return b
			}
			out = append(out, part...)
			if end == len(b) {
				break
			}
		}
		return out
	}
	return b
}

func compressWith(kind string, b []byte) ([]byte, error) {
	switch kind {
	case "gz":
		var buf bytes.Buffer
		w := gzip.NewWriter(&buf)
		w.Write(b)
		w.Close()
		return buf.Bytes(), nil
	case "bz2":
		cmd := exec.Command("bzip2", "-c")
		cmd.Stdin = bytes.NewReader(b)
		return cmd.Output()
	case "xz":
		cmd := exec.Command("xz", "-c", "-0")
		cmd.Stdin = bytes.NewReader(b)
		return cmd.Output()
	case "xzbig": // the compressor's parameters are not the fileset's business: a dictionary as xz -7..-9 declare it
		cmd := exec.Command("xz", "-c", "--lzma2=preset=0,dict=12MiB")
		cmd.Stdin = bytes.NewReader(b)
		return cmd.Output()
	case "gz1":
		var buf bytes.Buffer
		w, _ := gzip.NewWriterLevel(&buf, gzip.BestSpeed)
		w.Write(b)
		w.Close()
		return buf.Bytes(), nil
	case "bz1":
		cmd := exec.Command("bzip2", "-c", "-1")
		cmd.Stdin = bytes.NewReader(b)
		return cmd.Output()
	}
	return b, nil
}

// plainOf: independent decompression (Go's gzip / bzip2 readers, the xz tool) of what the harness compressed
func plainOf(b []byte) []byte {
	// a stream that reads as a tar as it stands is one, whatever its first bytes (an entry name) look like
	if _, err := tar.NewReader(bytes.NewReader(b)).Next(); err == nil && len(b) >= 512 && (b[0] == 0x1f || b[0] == 'B' || b[0] == 0xfd) {
		return b
	}
	switch {
	case len(b) > 2 && b[0] == 0x1f && b[1] == 0x8b:
		if zr, err := gzip.NewReader(bytes.NewReader(b)); err == nil {
			out, _ := io.ReadAll(zr)
			return out
		}
	case len(b) > 3 && string(b[:3]) == "BZh":
		out, _ := io.ReadAll(bzip2.NewReader(bytes.NewReader(b)))
		return out
	case len(b) > 6 && string(b[:6]) == "\xfd7zXZ\x00":
		cmd := exec.Command("xz", "-dc")
		cmd.Stdin = bytes.NewReader(b)
		out, _ := cmd.Output()
		return out
	}
	return b
}

// decodeForModel reads the stream the way rio's loop does (bodies of regular files only) and renders
// the header list the model takes.
func decodeForModel(b []byte) (string, string) { return decodeReaderForModel(bytes.NewReader(b)) }

func decodeReaderForModel(rd io.Reader) (string, string) {
	tr := tar.NewReader(rd)
	var toks []string
	fin := "eof"
	for {
		h, err := tr.Next()
		if err == io.EOF {
			break
		}
		if err != nil {
			fin = "corrupt"
			break
		}
		ch := ""
		bodyOk := "1"
		if h.Typeflag == tar.TypeReg || h.Typeflag == tar.TypeRegA || h.Typeflag == tar.TypeGNUSparse || h.Typeflag == tar.TypeCont {
			body, err := io.ReadAll(tr)
			if err != nil {
				bodyOk = "0"
			}
			ch = string(sha384(body))
		}
		toks = append(toks, fmt.Sprintf("%s,%d,%d,%d,%d,%d,%s,%d,%d,%d,%d,%s,%s,%s", hx(h.Name), h.Typeflag, h.Mode, h.Uid, h.Gid, h.Size,
			hx(h.Linkname), h.Devmajor, h.Devminor, h.ModTime.Unix(), h.ModTime.Nanosecond(), showXattrs(h.Xattrs), hx(ch), bodyOk))
	}
	if len(toks) == 0 {
		return "-", fin
	}
	return strings.Join(toks, ";"), fin
}

type unpackRes struct {
	pre, post string
	cat       string
	panicked  string
}

func runUnpackTarNil(filt api.FilesetUnpackFilter, stream []byte) (r unpackRes) {
	defer func() {
		if x := recover(); x != nil {
			r.panicked = fmt.Sprint(x)
		}
	}()
	pre, post, err := tartrans.UnpackTarForVerif(context.Background(), nilFS.New(), filt, api.WareID{Type: "tar", Hash: "-"}, bytes.NewReader(stream), rio.Monitor{})
	r.pre, r.post = pre.Hash, post.Hash
	if err != nil {
		r.cat = catOf(err)
	}
	return
}

func b58orDash(s string) string {
	if s == "" {
		return "-"
	}
	return s
}

// unpackExec: recipe = "unpack tar <filter-string> <format> <mut> <rawhdr;rawhdr;...>"
func unpackExec(c *Ctx, op string) string {
	c.Begin(op)
	f := strings.Fields(op)
	filt := api.MustParseFilesetUnpackFilter(f[2])
	var hdrs []RawHdr
	if f[5] != "-" {
		for _, t := range strings.Split(f[5], ";") {
			hdrs = append(hdrs, parseRawHdr(t))
		}
	}
	stream, err := encodeTar(hdrs, f[3])
	if err != nil {
		stream, err = encodeTar(hdrs, "")
		if err != nil {
			return "skip\x00skip" // the codec cannot express this header list at all
		}
	}
	stream = applyMut(stream, f[4])
	toks, fin := decodeForModel(plainOf(stream))
	r := runUnpackTarNil(filt, stream)
	var res string
	switch {
	case r.panicked != "":
		res = "panic"
		cl := "panic-other"
		switch {
		case strings.Contains(r.panicked, "index out of range"):
			cl = "panic-empty-archive"
		case strings.Contains(r.panicked, "not a relative path"):
			cl = "panic-absolute-name"
		case strings.Contains(r.panicked, "repeated path"):
			cl = "panic-duplicate-entry"
		case strings.Contains(r.panicked, "missing tree"), strings.Contains(r.panicked, "missing root"), strings.Contains(r.panicked, "slice bounds"), strings.Contains(r.panicked, "visited"):
			cl = "panic-malformed-tree"
		}
		c.PropFail(cl, "unpack panicked: "+r.panicked, op)
		c.H("out:panic")
	case r.cat != "":
		res = "err " + r.cat
		if !strings.HasPrefix(r.cat, "rio-") {
			c.PropFail("uncategorized", "unpack returned a non-rio error category "+r.cat, op)
		}
		c.H("out:" + r.cat)
	default:
		res = "ok " + b58orDash(r.pre) + " " + b58orDash(r.post)
		c.H("out:ok")
		c.Distinct(r.pre)
	}
	head := stream
	if len(head) > 10 {
		head = head[:10]
	}
	model := fmt.Sprintf("unpack tar %s %d %d %s %s %s", filterInts(filt), os.Getuid(), os.Getgid(), hx(string(head)), fin, toks)
	return model + "\x00" + res
}

// filesetToHdrs renders a fileset as raw tar headers in a given entry order.
type hdrOpts struct {
	dotSlash      bool // "./" prefixes
	dropDirs      float64
	dirsAfterKids bool
	typeBits      bool // the mode field holds the full st_mode (S_IFREG / S_IFDIR / … bits included), as older writers emit
}

func (c *Ctx) filesetToHdrs(f Fileset, o hdrOpts) ([]RawHdr, Fileset) {
	// effective fileset: implicit parents count as default directories
	eff := f.clone()
	dropped := map[int]bool{}
	var hdrs []RawHdr
	order := ident(len(f))
	if o.dirsAfterKids {
		// children before parents: reverse pre-order
		for i, j := 0, len(order)-1; i < j; i, j = i+1, j-1 {
			order[i], order[j] = order[j], order[i]
		}
	}
	for _, i := range order {
		e := f[i]
		if e.Kind == 'd' && e.Name != "" && c.Intn(100) < int(o.dropDirs*100) {
			// implicit: becomes a default dir
			eff[i].Perms, eff[i].Uid, eff[i].Gid, eff[i].Sec, eff[i].Nsec, eff[i].Xattrs = 0755, 0, 0, 1262304000, 0, nil
			dropped[i] = true
			continue
		}
		name := e.Name
		if name == "" {
			name = "."
		}
		if o.dotSlash {
			name = "./" + name
		}
		if e.Kind == 'd' {
			name += "/"
		}
		mode := int64(e.Perms)
		if o.typeBits {
			mode |= map[byte]int64{'f': 0100000, 'd': 040000, 'L': 0120000, 'p': 010000, 'D': 060000, 'c': 020000}[e.Kind]
		}
		hdrs = append(hdrs, RawHdr{Name: name, Typeflag: kindToTarType(e.Kind), Mode: mode, Uid: int(e.Uid), Gid: int(e.Gid), Link: e.Link,
			Maj: e.Maj, Min: e.Min, Sec: e.Sec, Nsec: e.Nsec, Xattrs: e.Xattrs, Content: e.Content})
	}
	// a dropped directory is part of the encoded fileset only if some emitted entry lies below it
	var eff2 Fileset
	for i, e := range eff {
		if dropped[i] {
			implied := false
			for j, o := range f {
				if !dropped[j] && strings.HasPrefix(o.Name, e.Name+"/") {
					implied = true
				}
			}
			if !implied {
				continue
			}
		}
		eff2 = append(eff2, e)
	}
	return hdrs, eff2
}

func hdrsTok(h []RawHdr) string {
	if len(h) == 0 {
		return "-"
	}
	var ts []string
	for _, x := range h {
		ts = append(ts, x.tok())
	}
	return strings.Join(ts, ";")
}

func unpackEngine(c *Ctx) {
	if ls := replayLines(); ls != nil {
		for _, op := range ls {
			if strings.HasPrefix(op, "unpack ") {
				c.Emit2(op, unpackExec)
			}
		}
		return
	}
	nSets, maxEnt := 80, 9
	if c.Tier == "thorough" {
		nSets, maxEnt = 1500, 30
	}
	lossless := "uid=follow,gid=follow,mtime=follow,sticky=follow,setid=follow,dev=follow"
	opts := GenOpts{MaxEntries: maxEnt, Kinds: "fffdLLpDc", SubSecond: true, BigIds: false, Setid: true, Xattrs: false, MaxContent: 600}
	// permanent corpus of header lists that once panicked or are traps
	corpus := []string{
		"unpack tar " + lossless + " - none -",
		// mtime=now: the filter's usage error is dropped for conjured parents and surfaces at the entry itself
		"unpack tar uid=7,gid=mine,mtime=now,sticky=follow,setid=follow,dev=follow - none " + RawHdr{Name: "a/b/c", Typeflag: '0', Mode: 0644}.tok(),
		"unpack tar uid=follow,gid=follow,mtime=now,sticky=follow,setid=reject,dev=reject - none " + RawHdr{Name: "./", Typeflag: '5', Mode: 0755}.tok() + ";" + RawHdr{Name: "d/x", Typeflag: '0', Mode: 04755}.tok(),
		// the root itself is a device node and the filter ejects devices: nothing is left (was an index-out-of-range panic)
		"unpack tar uid=follow,gid=follow,mtime=follow,sticky=follow,setid=follow,dev=ignore - none " + RawHdr{Name: ".", Typeflag: '3', Mode: 0666, Maj: 1, Min: 3}.tok(),
		"unpack tar uid=follow,gid=follow,mtime=follow,sticky=follow,setid=follow,dev=ignore - none " + RawHdr{Name: ".", Typeflag: '4', Mode: 0666, Maj: 8, Min: 0}.tok() + ";" + RawHdr{Name: "a", Typeflag: '0', Mode: 0644}.tok(),
		"unpack tar " + lossless + " - none " + RawHdr{Name: "/abs", Typeflag: '0'}.tok(),
		"unpack tar " + lossless + " - none " + RawHdr{Name: "a", Typeflag: '0'}.tok() + ";" + RawHdr{Name: "a", Typeflag: '0'}.tok(),
		"unpack tar " + lossless + " - none " + RawHdr{Name: "a/b", Typeflag: '0'}.tok() + ";" + RawHdr{Name: "a/", Typeflag: '5', Mode: 0700, Uid: 7, Gid: 8, Sec: 99}.tok(),
		"unpack tar " + lossless + " - none " + RawHdr{Name: "a/b", Typeflag: '0'}.tok() + ";" + RawHdr{Name: "./", Typeflag: '5', Mode: 0700, Uid: 7, Gid: 8, Sec: 99}.tok(),
		"unpack tar " + lossless + " - none " + RawHdr{Name: "../x", Typeflag: '0'}.tok(),
		"unpack tar " + lossless + " - none " + RawHdr{Name: "..x", Typeflag: '0'}.tok(),
		"unpack tar " + lossless + " - none " + RawHdr{Name: "h", Typeflag: '1', Link: "a"}.tok(),
		"unpack tar " + lossless + " - none " + RawHdr{Name: "odd", Typeflag: 'Z'}.tok(),
		"unpack tar " + lossless + " - none " + RawHdr{Name: "a/..", Typeflag: '5'}.tok() + ";" + RawHdr{Name: "f", Typeflag: '0'}.tok(),
		// plain tars whose first entry's name begins like a compression magic number (the first bytes of the stream)
		"unpack tar " + lossless + " - none " + RawHdr{Name: "BZhello.txt", Typeflag: '0', Mode: 0644}.tok(),
		"unpack tar " + lossless + " - none " + RawHdr{Name: "BZh91AY&SY", Typeflag: '0', Mode: 0644}.tok() + ";" + RawHdr{Name: "b", Typeflag: '0', Mode: 0644}.tok(),
		"unpack tar " + lossless + " gnu none " + RawHdr{Name: "\x1f\x8b\x08name", Typeflag: '0', Mode: 0644}.tok(),
		"unpack tar " + lossless + " - none " + RawHdr{Name: "\xfd7zXZ", Typeflag: '5', Mode: 0755}.tok() + ";" + RawHdr{Name: "\xfd7zXZ/f", Typeflag: '0', Mode: 0644}.tok(),
		"unpack tar " + lossless + " pax none " + RawHdr{Name: "BZh9", Typeflag: '2', Link: "x", Mode: 0777}.tok(),
		// GNU dialect entries: a volume label ('V', names the archive), a dumpdir ('D', a directory of an incremental archive,
		// with a listing as its body), an old-style sparse file ('S')
		"unpack tar " + lossless + " gnu none " + RawHdr{Name: "MYLABEL", Typeflag: 'V'}.tok() + ";" + RawHdr{Name: "./", Typeflag: '5', Mode: 0755}.tok() + ";" + RawHdr{Name: "./f", Typeflag: '0', Mode: 0644, Content: []byte("x")}.tok(),
		"unpack tar " + lossless + " gnu none " + RawHdr{Name: "./", Typeflag: 'D', Mode: 0755, Content: []byte("Yf\x00\x00")}.tok() + ";" + RawHdr{Name: "./f", Typeflag: '0', Mode: 0644, Content: []byte("x")}.tok() + ";" + RawHdr{Name: "./d/", Typeflag: 'D', Mode: 0750, Content: []byte("\x00")}.tok(),
		"unpack tar " + lossless + " gnu none " + RawHdr{Name: "./", Typeflag: '5', Mode: 0755}.tok() + ";" + RawHdr{Name: "./sp", Typeflag: 'S', Mode: 0644}.tok(),
		// a contiguous file ('7') is a regular file
		"unpack tar " + lossless + " - none " + RawHdr{Name: "./", Typeflag: '5', Mode: 0755}.tok() + ";" + RawHdr{Name: "./cont", Typeflag: '7', Mode: 0644, Content: []byte("c")}.tok(),
		// a record that is no entry may be called anything: an absolute volume label (GNU tar's global header is /tmp/GlobalHead.N)
		"unpack tar " + lossless + " gnu none " + RawHdr{Name: "/MYLABEL", Typeflag: 'V'}.tok() + ";" + RawHdr{Name: "./", Typeflag: '5', Mode: 0755}.tok() + ";" + RawHdr{Name: "./f", Typeflag: '0', Mode: 0644, Content: []byte("x")}.tok(),
	}
	for _, op := range corpus {
		c.Emit2(op, unpackExec)
	}
	// extended attributes belong to the entry that carries them: an entry without any that follows one with some has none
	// (two archives that differ only there scan to different ids), in either entry order
	{
		xa := map[string]string{"user.mime": "text/plain"}
		mk := func(bx, ex map[string]string, rev bool) string {
			hh := []RawHdr{{Name: "./", Typeflag: '5', Mode: 0755}, {Name: "./a", Typeflag: '0', Mode: 0644, Xattrs: xa, Content: []byte("a")},
				{Name: "./b", Typeflag: '0', Mode: 0644, Xattrs: bx, Content: []byte("b")}, {Name: "./d/", Typeflag: '5', Mode: 0755, Xattrs: xa},
				{Name: "./d/f", Typeflag: '0', Mode: 0644, Xattrs: ex, Content: []byte("f")}, {Name: "./e/", Typeflag: '5', Mode: 0755, Xattrs: ex}}
			if rev {
				hh = []RawHdr{hh[0], hh[2], hh[1], hh[5], hh[3], hh[4]}
			}
			return fmt.Sprintf("unpack tar %s pax none %s", lossless, hdrsTok(hh))
		}
		idOf := func(op string) string {
			parts := strings.SplitN(unpackExec(c, op), "\x00", 2)
			c.EmitR(op, parts[0], parts[1])
			if len(parts) == 2 && strings.HasPrefix(parts[1], "ok ") {
				return strings.Fields(parts[1])[1]
			}
			return ""
		}
		plain, both, plainRev := idOf(mk(nil, nil, false)), idOf(mk(xa, xa, false)), idOf(mk(nil, nil, true))
		c.H("xattr-pair")
		if plain != "" && plain == both {
			c.PropFail("collision", "two archives that differ in the extended attributes of ./b, ./d/f and ./e (none, or those of the preceding entry) scan to the same id", mk(xa, xa, false))
		}
		if plain != "" && plainRev != "" && plain != plainRev {
			c.PropFail("format", "one fileset (some entries with extended attributes, some without) scans to two ids in two entry orders", mk(nil, nil, true))
		}
	}
	// the magic-number names are well-formed archives: they must be accepted (C05), not merely agree with the model
	for _, op := range corpus {
		if strings.Contains(op, hx("BZh")) || strings.Contains(op, hx("\x1f\x8b\x08")) || strings.Contains(op, hx("\xfd7zXZ")) || strings.Contains(op, hx("MYLABEL")) || strings.Contains(op, fmt.Sprintf(",%d,", 'D')) || strings.Contains(op, hx("./cont")) {
			if parts := strings.SplitN(unpackExec(c, op), "\x00", 2); len(parts) == 2 && !strings.HasPrefix(parts[1], "ok ") {
				c.PropFail("valid-archive-refused", "a well-formed uncompressed tar (a first entry name that begins like a compression magic number; GNU volume label / dumpdir entries) was not accepted: "+parts[1], op)
			}
		}
	}
	// the "goes up" gate of the unpacker (C18): an entry is refused as leaving the base iff its *cleaned* name is ".."
	// or begins with "../" — not when it merely begins with two dots, and also when the raw spelling hides it
	gateNames := []string{"..foo", "...", "..a/b", "./..x", "a/..b", "./../evil", "a/../../evil", "./a/b/../../../evil", "../x", "..", "a/..", "a/../..b", "a/../../..", ".../x", "..\xff"}
	for i := 0; i < 6; i++ {
		gateNames = append(gateNames, []string{"", "./", "a/../", "../", "a/b/../../"}[c.Intn(5)]+[]string{"..", "..z", "...", "x", "../y", "./..", "..//q"}[c.Intn(7)])
	}
	for _, nm := range gateNames {
		hh := []RawHdr{{Name: "./", Typeflag: '5', Mode: 0755}, {Name: nm, Typeflag: '0', Mode: 0644}}
		op := fmt.Sprintf("unpack tar %s - none %s", lossless, hdrsTok(hh))
		r := unpackExec(c, op)
		parts := strings.SplitN(r, "\x00", 2)
		c.EmitR(op, parts[0], parts[1])
		cl := pathpkg.Clean(nm)
		up := cl == ".." || strings.HasPrefix(cl, "../")
		c.H(fmt.Sprintf("gate:up=%v", up))
		switch {
		case up && parts[1] != "err rio-ware-corrupt":
			c.PropFail("goesup-gate", fmt.Sprintf("entry %q leaves the base (cleaned: %q) but unpack answered %s instead of refusing it as corrupt", nm, cl, parts[1]), op)
		case !up && cl != "." && !strings.HasPrefix(parts[1], "ok "):
			c.PropFail("goesup-gate", fmt.Sprintf("entry %q stays inside the base (cleaned: %q) but unpack answered %s", nm, cl, parts[1]), op)
		}
	}
	for k := 0; k < nSets; k++ {
		fsx := c.GenFileset(opts)
		c.H(fmt.Sprintf("entries:%d", (len(fsx)+4)/5*5))
		// (1) faithful encodings of the same fileset: formats x orders x implicit parents x ./ prefixes
		refLossless := ""
		variants := []hdrOpts{{}, {dotSlash: true}, {dirsAfterKids: true}, {dropDirs: 0.5}, {dropDirs: 1, dotSlash: true}, {typeBits: true}}
		for vi, o := range variants {
			hdrs, eff := c.filesetToHdrs(fsx, o)
			format := []string{"-", "pax", "gnu", "-", "pax", "-"}[vi]
			// compression (none / gzip / bzip2 / xz, one or several concatenated members) must not matter either
			comp := "none"
			if c.Chance(1, 2) {
				comp = fmt.Sprintf("%s:%d", []string{"gz", "gz", "bz2", "xz", "xzbig", "gz1", "bz1"}[c.Intn(7)], 1+c.Intn(4))
				if k < 3 && vi == 0 {
					comp = "xzbig:1"
				}
			}
			c.H("comp:" + strings.Split(comp, ":")[0])
			op := fmt.Sprintf("unpack tar %s %s %s %s", lossless, format, comp, hdrsTok(hdrs))
			r := unpackExec(c, op)
			parts := strings.SplitN(r, "\x00", 2)
			c.EmitR(op, parts[0], parts[1])
			// C05 oracle: scan(A) == reference(fileset A encodes), where tar keeps seconds only unless PAX
			effT := eff.clone()
			for i := range effT {
				if dropped := effT[i].Sec == 1262304000 && effT[i].Nsec == 0; dropped {
					continue
				}
				switch format {
				case "-": // archive/tar with an unspecified format rounds ModTime to the nearest second
					t := time.Unix(effT[i].Sec, int64(effT[i].Nsec)).Round(time.Second)
					effT[i].Sec, effT[i].Nsec = t.Unix(), 0
				case "gnu", "ustar": // integer field: truncated
					effT[i].Nsec = 0
				}
			}
			if len(hdrs) == 0 {
				continue
			}
			want := misc.Base58Encode(RefTreeHash(effT, sha384))
			if strings.HasPrefix(parts[1], "ok ") {
				got := strings.Fields(parts[1])[1]
				if got != want {
					c.PropFail("format", fmt.Sprintf("scan of archive gives %s, reference tree hash of the encoded fileset is %s", got, want), op)
				}
				if o.dropDirs == 0 && format == "-" {
					if refLossless == "" {
						refLossless = got
					} else if got != refLossless {
						c.PropFail("format", "entry order / prefix variant changed the wareID", op)
					}
				}
			} else if parts[1] == "panic" || strings.HasPrefix(parts[1], "err") {
				c.PropFail("valid-archive-refused", "a well-formed archive of a fileset was not accepted: "+parts[1], op)
			}
			c.H("variant:" + fmt.Sprint(vi))
		}
		// (1b) C04 through archives: two archives whose filesets differ in one attribute of one entry — in every
		// entry order — must scan to different ids (a directory entry after its children takes the UpdateRecord path)
		for _, o := range []hdrOpts{{}, {dirsAfterKids: true}} {
			vi := 1 + c.Intn(len(fsx))
			if vi >= len(fsx) {
				vi = 0
			}
			if fsx[vi].Kind != 'd' && fsx[vi].Kind != 'f' {
				continue
			}
			fs2 := fsx.clone()
			switch c.Intn(3) {
			case 0:
				fs2[vi].Perms ^= 0o010
			case 1:
				fs2[vi].Gid++
			case 2:
				fs2[vi].Sec += 7
			}
			ids := [2]string{}
			var ops [2]string
			for j, f := range []Fileset{fsx, fs2} {
				hdrs, _ := c.filesetToHdrs(f, o)
				ops[j] = fmt.Sprintf("unpack tar %s pax none %s", lossless, hdrsTok(hdrs))
				r := unpackExec(c, ops[j])
				parts := strings.SplitN(r, "\x00", 2)
				c.EmitR(ops[j], parts[0], parts[1])
				if strings.HasPrefix(parts[1], "ok ") {
					ids[j] = strings.Fields(parts[1])[1]
				}
			}
			c.H("archive-edit-pair")
			if ids[0] != "" && ids[0] == ids[1] {
				c.PropFail("collision", fmt.Sprintf("two archives whose filesets differ in an attribute of %q scan to the same id", fsx[vi].Name), ops[1])
			}
		}
		// (2) filters: post id == reference of the filtered fileset; reject iff offending entry (C12)
		for fi := 0; fi < 5; fi++ {
			fstr := unpackFilterStrings[c.Intn(len(unpackFilterStrings))]
			// entry orders matter here too: a directory entry that follows its children replaces a conjured record;
			// and so do archives without directory entries: every parent is conjured, whatever the filter does to the child
			ho := hdrOpts{dirsAfterKids: fi == 1 || fi == 2, dotSlash: fi == 2}
			if fi == 3 {
				ho = hdrOpts{dropDirs: 1}
			}
			if fi == 4 {
				ho = hdrOpts{dropDirs: 0.5, dotSlash: true}
				if !strings.Contains(fstr, "dev=ignore") { // the ejecting rule, on archives without directory entries
					fstr = fstr[:strings.Index(fstr, "dev=")] + "dev=ignore"
				}
			}
			hdrs, eff := c.filesetToHdrs(fsx, ho)
			op := fmt.Sprintf("unpack tar %s pax none %s", fstr, hdrsTok(hdrs))
			r := unpackExec(c, op)
			parts := strings.SplitN(r, "\x00", 2)
			c.EmitR(op, parts[0], parts[1])
			var filtered Fileset
			rejected := false
			for _, e := range eff {
				w, rej, drop := specFilter("unpack", fstr, e, uint32(os.Getuid()), uint32(os.Getgid()))
				if rej {
					rejected = true
				}
				if !drop {
					filtered = append(filtered, w)
				}
			}
			switch {
			case strings.HasPrefix(parts[1], "ok "):
				if rejected {
					c.PropFail("filter-reject", "unpack succeeded although a reject rule names an entry", op)
				} else {
					fl := strings.Fields(parts[1])
					if fl[1] != misc.Base58Encode(RefTreeHash(eff, sha384)) {
						c.PropFail("filter-prehash", "prefilter wareID is not the hash of the unfiltered fileset", op)
					}
					if fl[2] != misc.Base58Encode(RefTreeHash(filtered, sha384)) {
						c.PropFail("filter-attr", "filtered wareID is not the hash of the documented filtered fileset", op)
					}
				}
			case parts[1] == "err rio-filter-rejection":
				if !rejected {
					c.PropFail("filter-reject", "filter-rejection although no entry offends", op)
				}
			default:
				c.PropFail("valid-archive-refused", "filtered unpack of a well-formed archive failed: "+parts[1], op)
				c.PropFail("filter-refused-valid", "unpack of a well-formed archive under a filter none of whose reject rules names an entry failed: "+parts[1], op)
			}
			c.H("filtered")
		}
		// (3) hostile / malformed streams (C17, C03 at the stream level)
		hdrs, _ := c.filesetToHdrs(fsx, hdrOpts{})
		full, err := encodeTar(hdrs, "")
		if err == nil {
			for m := 0; m < 6; m++ {
				var mut string
				switch c.Intn(4) {
				case 0:
					mut = fmt.Sprintf("trunc:%d", c.Intn(len(full)+1))
				case 1:
					mut = fmt.Sprintf("trunc:%d", (c.Intn(len(full)/512+1))*512)
				case 2:
					mut = fmt.Sprintf("flip:%d:%d", c.Intn(len(full)), 1<<uint(c.Intn(8)))
				case 3:
					mut = fmt.Sprintf("pad:%d", c.Intn(5))
				}
				c.Emit2(fmt.Sprintf("unpack tar %s - %s %s", lossless, mut, hdrsTok(hdrs)), unpackExec)
				c.H("mut:" + strings.Split(mut, ":")[0])
			}
		}
		// structural hostility: duplicates, absolute names, .. names, children of files, odd types, 'g' headers
		hh := append([]RawHdr(nil), hdrs...)
		hfilt := lossless
		if c.Chance(1, 2) { // hostile structure under an altering / ejecting filter: the two buckets then differ
			hfilt = unpackFilterStrings[c.Intn(len(unpackFilterStrings))]
		}
		switch c.Intn(10) {
		case 0:
			hh = append(hh, hh[c.Intn(len(hh))])
		case 1:
			hh = append(hh, RawHdr{Name: "/etc/abs", Typeflag: '0'})
		case 2:
			hh = append(hh, RawHdr{Name: "a/../../up", Typeflag: '0'})
		case 3:
			hh = append(hh, RawHdr{Name: "pax_global_header", Typeflag: 'g'})
		case 4:
			hh = append(hh, RawHdr{Name: "hl", Typeflag: '1', Link: "x"})
		case 5:
			hh = append(hh, RawHdr{Name: "weird", Typeflag: byte('A' + c.Intn(26))})
		case 6:
			// a file used as a directory by a later entry
			hh = append(hh, RawHdr{Name: "zfile", Typeflag: '0'}, RawHdr{Name: "zfile/kid", Typeflag: '0'})
		case 7:
			hh = nil
		case 8, 9:
			// an entry a filter may eject (device / setid), repeated after a later-sorting entry
			hfilt = []string{"uid=follow,gid=follow,mtime=follow,sticky=follow,setid=follow,dev=ignore", "uid=0,gid=follow,mtime=follow,sticky=follow,setid=ignore,dev=ignore", lossless}[c.Intn(3)]
			dev := RawHdr{Name: []string{"null", "a/null", "0dev"}[c.Intn(3)], Typeflag: []byte{'3', '4', '6'}[c.Intn(3)], Mode: 0666, Maj: 1, Min: 3}
			hh = append(hh, dev, RawHdr{Name: "zzz", Typeflag: '0', Mode: 0644})
			if c.Chance(1, 2) {
				hh = append(hh, RawHdr{Name: "a/zz", Typeflag: '0', Mode: 04755})
			}
			hh = append(hh, dev)
		}
		c.Emit2(fmt.Sprintf("unpack tar %s - none %s", hfilt, hdrsTok(hh)), unpackExec)
		c.H("hostile")
	}
	_ = sort.Strings
}
