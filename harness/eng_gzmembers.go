package main

import (
	"archive/tar"
	"bytes"
	"compress/gzip"
	"context"
	"fmt"
	"os"
	"path/filepath"
	"strings"
	"time"

	api "github.com/polydawn/go-timeless-api"
	"github.com/polydawn/go-timeless-api/rio"
	tartrans "github.com/polydawn/rio/transmat/tar"
)

func init() { engines["gzmembers"] = gzMembersEngine }

type gzEnt struct {
	name string
	mode int64
	body string
	dir  bool
}

func gzTarBlocks(es []gzEnt, end bool) []byte {
	var buf bytes.Buffer
	tw := tar.NewWriter(&buf)
	for _, e := range es {
		h := &tar.Header{Name: e.name, Mode: e.mode, Uid: 5, Gid: 6, ModTime: time.Unix(1e9, 0), Format: tar.FormatPAX, Typeflag: tar.TypeReg, Size: int64(len(e.body))}
		if e.dir {
			h.Typeflag, h.Size = tar.TypeDir, 0
		}
		tw.WriteHeader(h)
		tw.Write([]byte(e.body))
	}
	tw.Flush()
	b := append([]byte(nil), buf.Bytes()...)
	if end {
		b = append(b, make([]byte, 1024)...)
	}
	return b
}

// gzmembers: a tar.gz written as several gzip members (RFC 1952: the stream is their concatenation; eStargz layers, bgzip
// output, `cat a.tgz b.tgz`), the member boundary between two entries, at split point k. The archive scans to the id of the
// same tar in one member; archives that differ only in entries of the later members scan to different ids.
// Recipe: "gzmembers <k>".
func gzMembersExec(c *Ctx, op string) {
	c.Begin(op)
	k := 1
	fmt.Sscan(strings.Fields(op)[1], &k)
	caseCounter++
	base := filepath.Join(c.Work, fmt.Sprintf("gzm%d", caseCounter))
	defer rmrf(base)
	os.MkdirAll(base, 0755)
	root := gzEnt{"./", 0755, "", true}
	variants := map[string][]gzEnt{
		"F": {root, {"a", 0644, "alpha", false}, {"b", 0644, "bravo ONE", false}, {"c", 0644, "charlie", false}},
		"G": {root, {"a", 0644, "alpha", false}, {"b", 0644, "bravo TWO", false}, {"c", 0644, "charlie", false}},
		"H": {root, {"a", 0644, "alpha", false}, {"b", 0755, "bravo ONE", false}, {"c", 0644, "charlie", false}},
		"I": {root, {"a", 0644, "alpha", false}, {"b", 0644, "bravo ONE", false}, {"c", 0644, "charlie", false}, {"sub/", 0755, "", true}, {"sub/d", 0644, "delta", false}},
		"A": {root, {"a", 0644, "alpha", false}},
	}
	gzOf := func(parts ...[]byte) []byte {
		var out bytes.Buffer
		for _, p := range parts {
			w := gzip.NewWriter(&out)
			w.Write(p)
			w.Close()
		}
		return out.Bytes()
	}
	scan := func(name string, b []byte) string {
		p := filepath.Join(base, name+".tgz")
		os.WriteFile(p, b, 0644)
		id, err, pan := safeCall(func() (api.WareID, error) {
			return tartrans.Scan(context.Background(), "tar", api.MustParseFilesetUnpackFilter(losslessUnpackStr), rio.Placement_Direct, api.WarehouseLocation("file://"+p), rio.Monitor{})
		})
		return resTok(id, err, pan)
	}
	ids := map[string]string{}
	c.EmitR(op, "skip", "skip")
	for _, n := range []string{"F", "G", "H", "I", "A"} {
		es := variants[n]
		kk := k
		if kk >= len(es) {
			kk = len(es) - 1
		}
		if kk < 1 {
			kk = 1
		}
		one := scan(n+"-one", gzOf(gzTarBlocks(es, true)))
		multi := one
		if len(es) > 2 {
			multi = scan(n+"-multi", gzOf(gzTarBlocks(es[:kk], false), gzTarBlocks(es[kk:], true)))
		}
		ids[n] = multi
		c.H("gzmembers:" + n + ":" + strings.Fields(multi)[0])
		if strings.HasPrefix(one, "ok ") && multi != one {
			c.PropFail("format", fmt.Sprintf("fileset %s as a tar.gz in one gzip member scans to %s, the same tar in two members (boundary after entry %d) to %s", n, one, kk, multi), op)
		}
	}
	// the optional fields of a gzip member header (RFC 1952: FNAME as `gzip x.tar` writes it, FCOMMENT, FEXTRA as bgzip
	// writes it, an mtime, an OS byte) are no part of the fileset: same id as the bare header
	if k == 1 {
		plain := scan("hdr-plain", gzOf(gzTarBlocks(variants["F"], true)))
		for hn, hf := range map[string]func(w *gzip.Writer){
			"fname":          func(w *gzip.Writer) { w.Name = "x.tar" },
			"fname+mtime":    func(w *gzip.Writer) { w.Name = "x.tar"; w.ModTime = time.Unix(1.5e9, 0) },
			"fcomment":       func(w *gzip.Writer) { w.Comment = "made by hand" },
			"fextra":         func(w *gzip.Writer) { w.Extra = []byte{'B', 'C', 2, 0, 0xff, 0xff} },
			"fname+fcomment": func(w *gzip.Writer) { w.Name = "n"; w.Comment = "c"; w.OS = 3 },
		} {
			var out bytes.Buffer
			w, _ := gzip.NewWriterLevel(&out, gzip.BestCompression)
			hf(w)
			w.Write(gzTarBlocks(variants["F"], true))
			w.Close()
			got := scan("hdr-"+strings.ReplaceAll(hn, "+", "-"), out.Bytes())
			c.H("gzheader:" + hn + ":" + strings.Fields(got)[0])
			if strings.HasPrefix(plain, "ok ") && got != plain {
				c.PropFail("format", fmt.Sprintf("a tar.gz whose gzip header carries %s (bytes %x) scans to %s; with a bare header the same tar scans to %s", hn, out.Bytes()[:4], got, plain), op)
			}
		}
	}
	names := []string{"F", "G", "H", "I", "A"}
	for i := range names {
		for j := i + 1; j < len(names); j++ {
			if a, b := ids[names[i]], ids[names[j]]; strings.HasPrefix(a, "ok ") && a == b {
				c.PropFail("collision", fmt.Sprintf("two-member tar.gz archives of the different filesets %s and %s (member boundary after entry %d) scan to the same id %s", names[i], names[j], k, a), op)
			}
		}
	}
	c.Distinct(op)
}

func gzMembersEngine(c *Ctx) {
	if ls := replayLines(); ls != nil {
		for _, op := range ls {
			if strings.HasPrefix(op, "gzmembers ") {
				gzMembersExec(c, op)
			} else if strings.HasPrefix(op, "implicit-parents") {
				implicitParentsExec(c, op)
			}
		}
		return
	}
	for k := 1; k <= 3; k++ {
		gzMembersExec(c, fmt.Sprintf("gzmembers %d", k))
	}
	implicitParentsExec(c, "implicit-parents tar")
}

// implicit-parents: archive F lists only `a/b` (root and `a` implied: default attributes); fileset G has the same file
// below *explicit* directories owned by 7000:7001 @1234567. F and G are different filesets with different ids — whatever
// filter the reader of F asks for: F offered at G's address (a mislabelled warehouse object) is refused under every
// filter, in particular under the one that would turn F's implied directories into G's. Recipe: "implicit-parents tar".
func implicitParentsExec(c *Ctx, op string) {
	c.Begin(op)
	c.EmitR(op, "skip", "skip")
	caseCounter++
	base := filepath.Join(c.Work, fmt.Sprintf("ipx%d", caseCounter))
	defer rmrf(base)
	os.MkdirAll(base, 0755)
	os.Setenv("RIO_CACHE", filepath.Join(base, "cache"))
	t7 := time.Unix(1234567, 0)
	mk := func(name string, explicit bool) string {
		var buf bytes.Buffer
		tw := tar.NewWriter(&buf)
		if explicit {
			tw.WriteHeader(&tar.Header{Name: "./", Typeflag: tar.TypeDir, Mode: 0755, Uid: 7000, Gid: 7001, ModTime: t7})
			tw.WriteHeader(&tar.Header{Name: "./a/", Typeflag: tar.TypeDir, Mode: 0755, Uid: 7000, Gid: 7001, ModTime: t7})
		}
		tw.WriteHeader(&tar.Header{Name: "./a/b", Typeflag: tar.TypeReg, Mode: 0644, Uid: 7000, Gid: 7001, ModTime: t7, Size: 1})
		tw.Write([]byte("x"))
		tw.Close()
		p := filepath.Join(base, name)
		os.WriteFile(p, buf.Bytes(), 0644)
		return p
	}
	fPath, gPath := mk("F.tar", false), mk("G.tar", true)
	scan := func(p, fl string) string {
		id, err, pan := safeCall(func() (api.WareID, error) {
			return tartrans.Scan(context.Background(), "tar", api.MustParseFilesetUnpackFilter(fl), rio.Placement_None, api.WarehouseLocation("file://"+p), rio.Monitor{})
		})
		return resTok(id, err, pan)
	}
	idF, idG := scan(fPath, losslessUnpackStr), scan(gPath, losslessUnpackStr)
	c.H("implicit-parents:" + strings.Fields(idF)[0] + ":" + strings.Fields(idG)[0])
	if !strings.HasPrefix(idF, "ok ") || !strings.HasPrefix(idG, "ok ") {
		return
	}
	if idF == idG {
		c.PropFail("collision", "an archive with implied (default) directories and one with explicit directories of other owners scan to the same id "+idF, op)
	}
	for _, fl := range []string{losslessUnpackStr, "uid=7000,gid=7001,mtime=@1234567,sticky=follow,setid=follow,dev=follow", "uid=7000,gid=follow,mtime=follow,sticky=follow,setid=follow,dev=follow", "uid=mine,gid=mine,mtime=@1234567,sticky=follow,setid=follow,dev=follow"} {
		for _, pm := range []rio.PlacementMode{rio.Placement_None, rio.Placement_Direct} {
			caseCounter++
			os.Setenv("RIO_CACHE", filepath.Join(base, fmt.Sprintf("cache%d", caseCounter)))
			_, err, pan := safeCall(func() (api.WareID, error) {
				return tartrans.Unpack(context.Background(), api.WareID{Type: "tar", Hash: strings.TrimPrefix(idG, "ok ")}, filepath.Join(base, fmt.Sprintf("dst%d", caseCounter)), api.MustParseFilesetUnpackFilter(fl), pm, []api.WarehouseLocation{api.WarehouseLocation("file://" + fPath)}, rio.Monitor{})
			})
			if err == nil && pan == "" {
				c.PropFail("collision", fmt.Sprintf("archive F (only `a/b`, directories implied with default attributes) was accepted as ware %s — the id of the different fileset G (explicit directories 7000:7001) — when read with the filter %s: the verified hash of an archive depends on the reader's filter", idG, fl), op)
			}
			// … and F is F under every filter: asked for by its own id it is served
			_, err2, pan2 := safeCall(func() (api.WareID, error) {
				return tartrans.Unpack(context.Background(), api.WareID{Type: "tar", Hash: strings.TrimPrefix(idF, "ok ")}, filepath.Join(base, fmt.Sprintf("dstF%d", caseCounter)), api.MustParseFilesetUnpackFilter(fl), pm, []api.WarehouseLocation{api.WarehouseLocation("file://" + fPath)}, rio.Monitor{})
			})
			if err2 != nil || pan2 != "" {
				c.PropFail("collision", fmt.Sprintf("archive F asked for by its own id %s is refused under the filter %s (%s): its verified hash depends on the reader's filter", idF, fl, resTok(api.WareID{}, err2, pan2)), op)
			}
		}
	}
}
