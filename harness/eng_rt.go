package main

import (
	"archive/zip"
	"bytes"
	"context"
	"fmt"
	"github.com/polydawn/rio/fs"
	"github.com/polydawn/rio/fs/osfs"
	"github.com/polydawn/rio/stitch"
	"golang.org/x/sys/unix"
	"os"
	"os/exec"
	"path/filepath"
	"sort"
	"strings"
	"syscall"
	"time"

	api "github.com/polydawn/go-timeless-api"
	"github.com/polydawn/go-timeless-api/rio"
	tartrans "github.com/polydawn/rio/transmat/tar"
	ziptrans "github.com/polydawn/rio/transmat/zip"
)

func init() { engines["rt"] = rtEngine }

func filesetTok(f Fileset) string {
	var ts []string
	for _, e := range f {
		ts = append(ts, e.MetaTok()+"/"+hx(string(e.Content)))
	}
	return strings.Join(ts, ";")
}
func parseFilesetTok(s string) Fileset {
	var f Fileset
	for _, t := range strings.Split(s, ";") {
		p := strings.Split(t, "/")
		e, raw := parseMetaTok(p[0])
		if raw == "." {
			raw = ""
		}
		e.Name = raw
		e.Content = []byte(unhx(p[1]))
		f = append(f, e)
	}
	return f
}

// entriesTokForModel renders what ScanFile would deliver for each entry (content hash instead of content).
func entriesTokForModel(f Fileset) string {
	var ts []string
	for _, e := range f {
		ch := ""
		if e.Kind == 'f' {
			ch = string(sha384(e.Content))
		}
		if e.Kind == 'L' {
			ch = string(sha384([]byte(e.Link))) // zip hashes the link name as a body; ignored for tar
		}
		ts = append(ts, e.MetaTok()+"/"+hx(ch))
	}
	return strings.Join(ts, ";")
}

type rtFuncs struct {
	pack   rio.PackFunc
	unpack rio.UnpackFunc
	scan   rio.ScanFunc
	mirror rio.MirrorFunc
}

func funcsFor(fmtName string) rtFuncs {
	if fmtName == "zip" {
		return rtFuncs{ziptrans.Pack, ziptrans.Unpack, ziptrans.Scan, ziptrans.Mirror}
	}
	return rtFuncs{tartrans.Pack, tartrans.Unpack, tartrans.Scan, tartrans.Mirror}
}

var losslessPackStr = "uid=keep,gid=keep,mtime=keep,sticky=keep,setid=keep,dev=keep"
var losslessUnpackStr = "uid=follow,gid=follow,mtime=follow,sticky=follow,setid=follow,dev=follow"

func safeCall(f func() (api.WareID, error)) (id api.WareID, err error, panicked string) {
	defer func() {
		if r := recover(); r != nil {
			panicked = fmt.Sprint(r)
		}
	}()
	id, err = f()
	return
}

func resTok(id api.WareID, err error, panicked string) string {
	if panicked != "" {
		return "panic"
	}
	if err != nil {
		return "err " + catOf(err)
	}
	return "ok " + b58orDash(id.Hash)
}

// storedWarePath returns the filesystem path of the ware inside a file:// or ca+file:// warehouse.
func storedWarePath(whKind, whDir string, id api.WareID) string {
	if whKind == "ca" {
		h := id.Hash
		return filepath.Join(whDir, h[0:3], h[3:6], h)
	}
	return filepath.Join(whDir, "ware.bin")
}
func whAddr(whKind, whDir string) api.WarehouseLocation {
	if whKind == "ca" {
		return api.WarehouseLocation("ca+file://" + whDir)
	}
	return api.WarehouseLocation("file://" + filepath.Join(whDir, "ware.bin"))
}

// truncateForFormat: the fileset as the format can represent it (mtime to the second).
func truncateForFormat(f Fileset) Fileset {
	g := f.clone()
	for i := range g {
		g[i].Nsec = 0
	}
	return g
}

var caseCounter int

// rtExec: recipe "rt <fmt> <file|ca> <mode> <fileset>".
// Emits several lines (pack, scan, unpack, repack ids), all of which the model predicts from `pack`.
func rtExec(c *Ctx, op string) {
	f := strings.Fields(op)
	fmtName, whKind, mode := f[1], f[2], f[3]
	fsx := parseFilesetTok(f[4])
	fn := funcsFor(fmtName)
	caseCounter++
	base := filepath.Join(c.Work, fmt.Sprintf("rt%d", caseCounter))
	defer rmrf(base)
	src, dst, whDir, cache := filepath.Join(base, "src"), filepath.Join(base, "deep", "dst"), filepath.Join(base, "wh"), filepath.Join(base, "cache")
	os.MkdirAll(whDir, 0755)
	os.MkdirAll(filepath.Dir(dst), 0755)
	if mode == "direct" && caseCounter%2 == 0 { // the destination exists already (mktemp -d), empty, with attributes of its own
		os.Mkdir(dst, 0700)
		os.Chtimes(dst, time.Unix(1.1e9, 0), time.Unix(1.1e9, 0))
	}
	os.Setenv("RIO_CACHE", cache)
	os.Setenv("RIO_BASE", filepath.Join(base, "riobase"))
	ctx := context.Background()
	pf := api.MustParseFilesetPackFilter(losslessPackStr)
	uf := api.MustParseFilesetUnpackFilter(losslessUnpackStr)
	modelOp := fmt.Sprintf("pack %s %s %s", fmtName, filterInts(pf), entriesTokForModel(fsx))
	if err := Materialize(fsx, src, c.perm1(len(fsx))); err != nil {
		c.EmitR(op, "skip", "skip")
		c.H("materialize-failed")
		return
	}
	s0, _ := Snapshot(src)
	// ---- pack
	id1, err, pan := safeCall(func() (api.WareID, error) {
		return fn.pack(ctx, api.PackType(fmtName), src, pf, whAddr(whKind, whDir), rio.Monitor{})
	})
	c.EmitR(op, modelOp, resTok(id1, err, pan))
	if pan != "" {
		c.PropFail("panic-pack", pan, op)
	}
	s1, _ := Snapshot(src)
	if s0.Digest(true) != s1.Digest(true) {
		c.PropFail("pack-mutates-source", "source tree changed by pack: "+DiffFilesets(s0, s1, true), op)
	}
	// ---- a slip of the hand: the pack's target is the fileset itself (file://<src>), and a directory inside it; whatever
	// the pack answers, the fileset stays as it is (an empty one included: a scratch copy that is an empty directory)
	{
		empty := filepath.Join(base, "empty-set")
		os.Mkdir(empty, 0750)
		os.Chtimes(empty, time.Unix(1e9, 5), time.Unix(1e9, 5))
		e0, _ := Snapshot(base + "/empty-set")
		for _, tgt := range []string{src, empty} {
			which := tgt
			safeCall(func() (api.WareID, error) {
				return fn.pack(ctx, api.PackType(fmtName), which, pf, api.WarehouseLocation("file://"+which), rio.Monitor{})
			})
		}
		// the same slip through a symbolic link: the target address is a link (outside the fileset) to an entry of the fileset
		lk := 0
		for _, e := range s0 {
			if (e.Kind == 'f' || e.Kind == 'd') && lk < 3 {
				lk++
				l := filepath.Join(base, fmt.Sprintf("addr-link-%d", lk))
				os.Symlink(filepath.Join(src, e.Name), l)
				safeCall(func() (api.WareID, error) {
					return fn.pack(ctx, api.PackType(fmtName), src, pf, api.WarehouseLocation("file://"+l), rio.Monitor{})
				})
				os.Remove(l)
			}
		}
		s2, _ := Snapshot(src)
		e1, e1err := Snapshot(empty)
		if s0.Digest(true) != s2.Digest(true) {
			c.PropFail("pack-mutates-source", "a pack whose target is its own fileset changed the fileset: "+DiffFilesets(s0, s2, true), op)
		}
		if e1err != nil || e0.Digest(true) != e1.Digest(true) {
			c.PropFail("pack-mutates-source", "a pack of an empty directory whose target is that directory replaced / changed it", op)
		}
		if ents, _ := os.ReadDir(base); true {
			for _, d := range ents {
				if strings.HasPrefix(d.Name(), ".tmp.upload") {
					c.PropFail("scan-creates-files", "a pack onto its own fileset left a staging file next to it: "+d.Name(), op)
				}
			}
		}
		os.RemoveAll(empty)
	}
	outsideZip := false
	for _, e := range fsx {
		if fmtName == "zip" && e.Kind != 'f' && e.Kind != 'd' && e.Kind != 'L' {
			outsideZip = true // the zip transmat stores files, directories and symlinks: the rest is outside its domain
		}
	}
	if err != nil && pan == "" && outsideZip && catOf(err) == "rio-pack-invalid" {
		c.H("zip-special-refused")
		return
	}
	if err != nil && pan == "" {
		// the fileset was materialised on disk as generated: a pack that refuses it cannot round-trip it
		c.PropFail("pack-refused", "pack of a well-formed fileset failed: "+err.Error(), op)
	}
	if err != nil || pan != "" {
		c.H("pack:fail")
		return
	}
	c.Distinct(id1.Hash)
	want := truncateForFormat(fsx)
	// ---- scan of the stored ware
	ware := storedWarePath(whKind, whDir, id1)
	id2, err2, pan2 := safeCall(func() (api.WareID, error) {
		return fn.scan(ctx, api.PackType(fmtName), uf, rio.Placement_Direct, api.WarehouseLocation("file://"+ware), rio.Monitor{})
	})
	c.EmitR(op+" #scan", modelOp, resTok(id2, err2, pan2))
	// the library's other scan modes (placement none / unset) must create nothing on the local filesystem either
	for _, pm := range []rio.PlacementMode{rio.Placement_None, ""} {
		_, nopeBefore := os.Lstat("/nope")
		safeCall(func() (api.WareID, error) {
			return fn.scan(ctx, api.PackType(fmtName), uf, pm, api.WarehouseLocation("file://"+ware), rio.Monitor{})
		})
		if _, nopeAfter := os.Lstat("/nope"); nopeBefore != nil && nopeAfter == nil {
			c.PropFail("scan-creates-files", fmt.Sprintf("Scan with placement %q created /nope on the host filesystem", pm), op)
			os.RemoveAll("/nope")
		}
	}
	if resTok(id2, err2, pan2) != "ok "+id1.Hash {
		c.PropFail("roundtrip-id", fmt.Sprintf("scan of the stored ware gives %s, pack gave %s", resTok(id2, err2, pan2), id1.Hash), op)
	}
	// ---- unpack in the requested mode (pre-existing parent mtime recorded)
	parent := filepath.Dir(dst)
	old := time.Unix(1000000000, 123456789)
	os.Chtimes(parent, old, old)
	id3, err3, pan3 := safeCall(func() (api.WareID, error) {
		return fn.unpack(ctx, id1, dst, uf, rio.PlacementMode(mode), []api.WarehouseLocation{whAddr(whKind, whDir)}, rio.Monitor{})
	})
	c.EmitR(op+" #unpack", modelOp, resTok(id3, err3, pan3))
	if resTok(id3, err3, pan3) != "ok "+id1.Hash {
		c.PropFail("roundtrip-id", fmt.Sprintf("unpack(%s) reports %s, pack gave %s", mode, resTok(id3, err3, pan3), id1.Hash), op)
		return
	}
	if mode != "none" {
		got, errS := Snapshot(dst)
		if errS != nil {
			c.PropFail("roundtrip-tree", "cannot walk the unpacked tree: "+errS.Error(), op)
		} else if got.Digest(true) != want.Digest(true) {
			c.PropFail(classifyTreeDiff(want, got, mode), fmt.Sprintf("unpack(%s) does not reproduce the fileset: %s", mode, DiffFilesets(want, got, true)), op)
		}
		if mode == "copy" || mode == "mount" {
			if st, e := os.Stat(parent); e == nil && !st.ModTime().Equal(old) {
				c.PropFail("placement-parent-mtime", fmt.Sprintf("placement by %s changed the mtime of the destination's parent", mode), op)
			}
		}
		// ---- re-pack of the unpacked tree
		id4, err4, pan4 := safeCall(func() (api.WareID, error) {
			return fn.pack(ctx, api.PackType(fmtName), dst, pf, "", rio.Monitor{})
		})
		same := got.Digest(true) == want.Digest(true)
		if same { // the model predicts the re-pack id only for a faithfully reproduced tree
			c.EmitR(op+" #repack", modelOp, resTok(id4, err4, pan4))
		}
		if resTok(id4, err4, pan4) != "ok "+id1.Hash && same {
			c.PropFail("roundtrip-id", fmt.Sprintf("re-pack of the unpacked tree gives %s, pack gave %s", resTok(id4, err4, pan4), id1.Hash), op)
		}
		if mode == "mount" {
			syscall.Unmount(dst, 0)
		}
	}
	// no temp dirs may remain in the cache; a shelf must hold exactly the ware
	if ents, e := os.ReadDir(cache); e == nil {
		for _, d := range ents {
			if strings.HasPrefix(d.Name(), ".tmp.unpack.") {
				c.PropFail("cache-temp-left", "temp dir left in cache after unpack returned: "+d.Name(), op)
			}
		}
	}
	if mode != "direct" {
		shelf := filepath.Join(cache, fmtName, "fileset", id1.Hash[0:3], id1.Hash[3:6], id1.Hash)
		if sh, e := Snapshot(shelf); e != nil {
			c.PropFail("cache-shelf-missing", "no shelf after a cached unpack", op)
		} else if sh.Digest(true) != want.Digest(true) {
			c.PropFail(strings.Replace(classifyTreeDiff(want, sh, mode), "roundtrip-tree", "cache-shelf-tree", 1), "shelf does not hold the ware's fileset: "+DiffFilesets(want, sh, true), op)
		}
	}
	c.H("mode:" + mode)
	c.H("fmt:" + fmtName + ":" + whKind)
}

// classifyTreeDiff names the known defect class when every difference is of that class.
func classifyTreeDiff(want, got Fileset, mode string) string {
	wm := map[string]Entry{}
	for _, e := range want {
		wm[e.Name] = e
	}
	setgidDirs := map[string]bool{}
	for _, e := range want {
		if e.Kind == 'd' && e.Perms&02000 != 0 {
			setgidDirs[e.Name] = true
		}
	}
	onlySetgid := true
	n := 0
	for _, g := range got {
		w, ok := wm[g.Name]
		if !ok {
			return "roundtrip-tree"
		}
		a, b := Fileset{w}, Fileset{g}
		if a.Digest(true) == b.Digest(true) {
			continue
		}
		n++
		parent := ""
		if j := strings.LastIndexByte(g.Name, '/'); j >= 0 {
			parent = g.Name[:j]
		}
		myU, myG := uint32(os.Getuid()), uint32(os.Getgid())
		inherited := setgidDirs[parent] && w.Uid == myU && w.Gid == myG && g.Name != ""
		w2 := w
		w2.Gid = g.Gid
		if g.Kind == 'd' {
			w2.Perms = g.Perms
		}
		c, d := Fileset{w2}, Fileset{g}
		if !(inherited && c.Digest(true) == d.Digest(true)) {
			onlySetgid = false
		}
	}
	if len(got) != len(want) {
		return "roundtrip-tree"
	}
	if n > 0 && onlySetgid {
		return "setgid-inherit"
	}
	return "roundtrip-tree"
}

func (c *Ctx) perm1(n int) []int {
	// a permutation of 1..n-1 (creation order of non-root entries)
	p := c.perm(n - 1)
	for i := range p {
		p[i]++
	}
	return p
}

// packRootExec: recipe "packroot <fmt> <pack filter> <fileset>" — filesets whose root is not a directory (or holds
// nothing but nodes a filter ejects) under every dev= policy: pack answers what the model answers and never panics.
func packRootExec(c *Ctx, op string) {
	f := strings.Fields(op)
	fmtName, pfStr := f[1], f[2]
	fsx := parseFilesetTok(f[3])
	caseCounter++
	base := filepath.Join(c.Work, fmt.Sprintf("pr%d", caseCounter))
	defer rmrf(base)
	src := filepath.Join(base, "src")
	os.MkdirAll(base, 0755)
	var merr error
	if len(fsx) == 1 && fsx[0].Kind != 'd' { // the root itself is the special node
		r := fsx[0]
		switch r.Kind {
		case 'f':
			merr = os.WriteFile(src, r.Content, 0600)
		case 'L':
			merr = os.Symlink(r.Link, src)
		case 'p':
			merr = syscall.Mkfifo(src, 0600)
		case 'c':
			merr = syscall.Mknod(src, syscall.S_IFCHR|0600, int(unix.Mkdev(uint32(r.Maj), uint32(r.Min))))
		case 'D':
			merr = syscall.Mknod(src, syscall.S_IFBLK|0600, int(unix.Mkdev(uint32(r.Maj), uint32(r.Min))))
		}
		if merr == nil && r.Kind != 'L' {
			os.Lchown(src, int(r.Uid), int(r.Gid))
			syscall.Chmod(src, uint32(r.Perms))
			os.Chtimes(src, time.Unix(r.Sec, 0), time.Unix(r.Sec, 0))
		}
	} else {
		merr = Materialize(fsx, src, nil)
	}
	if merr != nil {
		c.EmitR(op, "skip", "skip")
		return
	}
	pf := api.MustParseFilesetPackFilter(pfStr)
	fn := funcsFor(fmtName)
	id, err, pan := safeCall(func() (api.WareID, error) {
		return fn.pack(context.Background(), api.PackType(fmtName), src, pf, "", rio.Monitor{})
	})
	// the model meets the entries in the order the walk does (which error comes first depends on it): pre-order, names sorted
	walk := append(Fileset(nil), fsx...)
	sort.SliceStable(walk, func(i, j int) bool {
		a, b := strings.Split(walk[i].Name, "/"), strings.Split(walk[j].Name, "/")
		if walk[i].Name == "" || walk[j].Name == "" {
			return walk[i].Name == "" && walk[j].Name != ""
		}
		for k := 0; k < len(a) && k < len(b); k++ {
			if a[k] != b[k] {
				return a[k] < b[k]
			}
		}
		return len(a) < len(b)
	})
	c.EmitR(op, fmt.Sprintf("pack %s %s %s", fmtName, filterInts(pf), entriesTokForModel(walk)), resTok(id, err, pan))
	if pan != "" {
		c.PropFail("panic-pack", "pack of a fileset with a special root panicked: "+pan, op)
	}
	outsideZip := false
	for _, e := range fsx {
		if fmtName == "zip" && e.Kind != 'f' && e.Kind != 'd' && e.Kind != 'L' {
			outsideZip = true // (unless a dev rule ejects it first: then the model says so too)
		}
	}
	// the documented rule, entry by entry: a reject rule that names an entry refuses the pack, whatever else happens to it
	rejected := false
	for _, e := range fsx {
		if _, rej, _ := specFilter("pack", pfStr, e, uint32(os.Getuid()), uint32(os.Getgid())); rej {
			rejected = true
		}
	}
	if r := resTok(id, err, pan); rejected && outsideZip && r == "err rio-pack-invalid" {
		// refused either way: the walk met a node the zip format cannot hold before it met the entry the reject rule names
	} else if rejected && r != "err rio-filter-rejection" {
		c.PropFail("filter-reject", fmt.Sprintf("pack (%s, %s) answered %s although a reject rule names an entry of the fileset", fmtName, pfStr, r), op)
	} else if !rejected && r == "err rio-filter-rejection" && len(fsx) > 1 {
		c.PropFail("filter-reject", fmt.Sprintf("pack (%s, %s) answered filter-rejection although no reject rule names an entry", fmtName, pfStr), op)
	}
	c.H("packroot:" + fmtName + ":" + strings.Fields(resTok(id, err, pan))[0])
	c.Distinct(op)
}

func rtEngine(c *Ctx) {
	if ls := replayLines(); ls != nil {
		for _, op := range ls {
			if strings.HasPrefix(op, "rt ") && !strings.Contains(op, " #") {
				rtExec(c, op)
			} else if strings.HasPrefix(op, "packroot ") {
				packRootExec(c, op)
			} else if strings.HasPrefix(op, "rt-notmp ") {
				readersNoTmp(c, op)
			} else if strings.HasPrefix(op, "rt-oddperms ") {
				packOddPerms(c, op)
			}
		}
		return
	}
	packRootsAll(c)
	for _, fm := range []string{"tar", "zip"} {
		packOddPerms(c, "rt-oddperms "+fm)
	}
	rtEngineRest(c)
}

// packOddPerms: a pack reads. A source tree with modes a packer might be tempted to "fix up" — files without any read bit,
// with setuid / setgid / sticky and no owner-read, directories without the search bit for others — packed with every kind
// of pack filter (keeping, stripping, rejecting): mode, owner and times of every source entry are afterwards what they
// were, whether the pack succeeded or was refused. Recipe: "rt-oddperms <tar|zip>".
func packOddPerms(c *Ctx, op string) {
	c.Begin(op)
	fmtName := strings.Fields(op)[1]
	caseCounter++
	base := filepath.Join(c.Work, fmt.Sprintf("pop%d", caseCounter))
	defer rmrf(base)
	src, wh := filepath.Join(base, "src"), filepath.Join(base, "wh")
	os.MkdirAll(wh, 0755)
	fsx := Fileset{{Name: "", Kind: 'd', Perms: 0755, Uid: 0, Gid: 0, Sec: 1e9},
		{Name: "nor", Kind: 'f', Perms: 0200, Uid: 0, Gid: 0, Sec: 1e9, Content: []byte("write-only")},
		{Name: "none", Kind: 'f', Perms: 0, Uid: 7, Gid: 8, Sec: 1e9, Content: []byte("no bits")},
		{Name: "sgid-nor", Kind: 'f', Perms: 02260, Uid: 0, Gid: 0, Sec: 1e9, Content: []byte("g")},
		{Name: "suid-nor", Kind: 'f', Perms: 04200, Uid: 0, Gid: 0, Sec: 1e9, Content: []byte("u")},
		{Name: "sticky-nor", Kind: 'f', Perms: 01220, Uid: 0, Gid: 0, Sec: 1e9, Content: []byte("t")},
		{Name: "suid", Kind: 'f', Perms: 04755, Uid: 0, Gid: 50, Sec: 1e9, Content: []byte("su")},
		{Name: "d", Kind: 'd', Perms: 03310, Uid: 9, Gid: 9, Sec: 1e9},
		{Name: "d/inner", Kind: 'f', Perms: 0060, Uid: 9, Gid: 9, Sec: 1e9, Content: []byte("i")},
		{Name: "tmp", Kind: 'd', Perms: 01777, Uid: 0, Gid: 0, Sec: 1e9}}
	c.EmitR(op, "skip", "skip")
	if Materialize(fsx, src, nil) != nil {
		return
	}
	fn := funcsFor(fmtName)
	before, _ := Snapshot(src)
	for _, pfs := range []string{losslessPackStr,
		"uid=keep,gid=keep,mtime=keep,sticky=keep,setid=ignore,dev=keep",
		"uid=keep,gid=keep,mtime=keep,sticky=ignore,setid=keep,dev=keep",
		"uid=keep,gid=keep,mtime=keep,sticky=ignore,setid=ignore,dev=keep",
		"uid=keep,gid=keep,mtime=keep,sticky=keep,setid=reject,dev=keep",
		"uid=1000,gid=1000,mtime=@1262304000,sticky=ignore,setid=ignore,dev=reject"} {
		for _, tgt := range []api.WarehouseLocation{"", whAddr("ca", wh)} {
			id, err, pan := safeCall(func() (api.WareID, error) {
				return fn.pack(context.Background(), api.PackType(fmtName), src, api.MustParseFilesetPackFilter(pfs), tgt, rio.Monitor{})
			})
			r := resTok(id, err, pan)
			c.H("oddperms:" + fmtName + ":" + strings.Join(strings.Fields(r)[:1], ""))
			if pan != "" {
				c.PropFail("panic-pack", "pack of a tree with unreadable-mode files panicked: "+pan, op)
			}
			after, _ := Snapshot(src)
			if before.Digest(true) != after.Digest(true) {
				c.PropFail("pack-mutates-source", fmt.Sprintf("a %s pack with filter %s (answer: %s) changed the source tree: %s", fmtName, pfs, strings.Fields(r)[0], DiffFilesets(before, after, true)), op)
				Materialize(fsx, src+"-again", nil)
				return
			}
		}
	}
}

func init() {
	engines["packroot"] = func(c *Ctx) {
		if ls := replayLines(); ls != nil {
			for _, op := range ls {
				if strings.HasPrefix(op, "packroot ") {
					packRootExec(c, op)
				}
			}
			return
		}
		packRootsAll(c)
	}
}

func packRootsAll(c *Ctx) {
	{
		e := func(n string, k byte) Entry {
			x := Entry{Name: n, Kind: k, Perms: 0644, Uid: 3, Gid: 4, Sec: 1e9}
			switch k {
			case 'd':
				x.Perms = 0755
			case 'L':
				x.Perms, x.Link = 0777, "t"
			case 'c', 'D':
				x.Maj, x.Min = 1, 3
			case 'f':
				x.Content = []byte("x")
			}
			return x
		}
		roots := []Fileset{{e("", 'c')}, {e("", 'D')}, {e("", 'p')}, {e("", 'f')}, {e("", 'L')}, {e("", 'd'), e("null", 'c')}, {e("", 'd'), e("null", 'c'), e("f", 'f')}, {e("", 'd'), e("sub", 'd'), e("sub/sda", 'D')}}
		for _, r := range roots {
			for _, fm := range []string{"tar", "zip"} {
				for _, dv := range []string{"keep", "ignore", "reject"} {
					packRootExec(c, fmt.Sprintf("packroot %s uid=keep,gid=keep,mtime=keep,sticky=keep,setid=keep,dev=%s %s", fm, dv, filesetTok(r)))
				}
			}
		}
		// device nodes that carry setuid / setgid / sticky bits, under every combination of the rules that concern them
		sd := e("sda", 'D')
		sd.Perms = 04660
		sn := e("null", 'c')
		sn.Perms = 02666
		st := e("tty", 'c')
		st.Perms = 01620
		sf := e("f", 'f')
		sf.Perms = 04755
		for _, r := range []Fileset{{e("", 'd'), sd}, {e("", 'd'), sn, e("plain", 'f')}, {e("", 'd'), st}, {e("", 'd'), e("zero", 'c'), sf}} {
			for _, fm := range []string{"tar", "zip"} {
				for _, si := range []string{"keep", "ignore", "reject"} {
					for _, dv := range []string{"keep", "ignore", "reject"} {
						packRootExec(c, fmt.Sprintf("packroot %s uid=keep,gid=keep,mtime=keep,sticky=%s,setid=%s,dev=%s %s", fm, map[string]string{"keep": "keep", "ignore": "ignore", "reject": "keep"}[si], si, dv, filesetTok(r)))
					}
				}
			}
		}
	}
}

// packMultiUntouched: stitch.PackMulti over a tree, some of whose requested paths do not exist (an output a job never
// produced): whatever it answers, the tree is what it was, and an existing path gets the id a solo pack gives.
func packMultiUntouched(c *Ctx, fmtName string) {
	op := "packmulti-untouched " + fmtName
	caseCounter++
	base := filepath.Join(c.Work, fmt.Sprintf("pm%d", caseCounter))
	defer rmrf(base)
	tree := filepath.Join(base, "tree")
	fsx := Fileset{{Name: "", Kind: 'd', Perms: 0755, Uid: 3, Gid: 4, Sec: 1e9}, {Name: "out", Kind: 'd', Perms: 0750, Uid: 3, Gid: 4, Sec: 1e9 - 500}, {Name: "out/result", Kind: 'f', Perms: 0644, Uid: 3, Gid: 4, Sec: 1e9 - 700, Content: []byte("r")},
		{Name: "src", Kind: 'd', Perms: 0755, Uid: 5, Gid: 6, Sec: 1e9 - 900}, {Name: "src/f", Kind: 'f', Perms: 0600, Uid: 5, Gid: 6, Sec: 1e9 - 950, Content: []byte("f")}}
	os.MkdirAll(base, 0755)
	if Materialize(fsx, tree, nil) != nil {
		c.EmitR(op, "skip", "skip")
		return
	}
	fn := funcsFor(fmtName)
	pf := api.MustParseFilesetPackFilter(losslessPackStr)
	solo, e0, p0 := safeCall(func() (api.WareID, error) {
		return fn.pack(context.Background(), api.PackType(fmtName), filepath.Join(tree, "out"), pf, "", rio.Monitor{})
	})
	before, _ := Snapshot(tree)
	for _, paths := range [][]string{{"/out", "/out/logs/build"}, {"/src", "/nowhere/deep/x", "/out"}, {"/out/a/b/c/d"}} {
		var parts []stitch.PackSpec
		for _, p := range paths {
			parts = append(parts, stitch.PackSpec{Path: fs.MustAbsolutePath(p), PackType: api.PackType(fmtName), Filter: pf})
		}
		var got map[api.AbsPath]api.WareID
		_, err, pan := safeCall(func() (api.WareID, error) {
			var e error
			got, e = stitch.PackMulti(context.Background(), fn.pack, osfs.New(fs.MustAbsolutePath(tree)), parts)
			return api.WareID{}, e
		})
		if pan != "" {
			c.PropFail("panic-pack", "PackMulti panicked: "+pan, op)
		}
		after, _ := Snapshot(tree)
		if d := DiffFilesets(before, after, true); d != "" {
			c.PropFail("pack-mutates-source", fmt.Sprintf("PackMulti of %v (answer: %v) changed the tree it packs from: %s", paths, err, d), op)
			break
		}
		if err == nil && e0 == nil && p0 == "" {
			if g, ok := got["/out"]; ok && g != solo {
				c.PropFail("pack-mutates-source", fmt.Sprintf("PackMulti of %v reports %s for /out, a solo pack of the untouched directory gives %s", paths, g, solo), op)
			}
		}
		c.H("packmulti-untouched:" + catOf(err))
	}
	c.EmitR(op, "skip", "skip")
}

// readersNoTmp: scan and unpack read a ware from a local warehouse while the temp directory is unusable (missing) or
// full (a 16k tmpfs): whatever they answer, the warehouse is what it was. Recipe: "rt-notmp <tar|zip> <missing|full>".
func readersNoTmp(c *Ctx, op string) {
	f := strings.Fields(op)
	fmtName, how := f[1], f[2]
	caseCounter++
	base := filepath.Join(c.Work, fmt.Sprintf("nt%d", caseCounter))
	defer rmrf(base)
	src, wh := filepath.Join(base, "src"), filepath.Join(base, "wh")
	os.MkdirAll(src, 0755)
	os.MkdirAll(wh, 0755)
	body := make([]byte, 100000)
	x := uint32(5)
	for i := range body {
		x = x*1664525 + 1013904223
		body[i] = byte(x >> 24)
	}
	os.WriteFile(filepath.Join(src, "blob"), body, 0644)
	os.Setenv("RIO_CACHE", filepath.Join(base, "cache"))
	os.Setenv("RIO_BASE", filepath.Join(base, "riobase"))
	fn := funcsFor(fmtName)
	ctx := context.Background()
	id, err := fn.pack(ctx, api.PackType(fmtName), src, api.MustParseFilesetPackFilter(losslessPackStr), whAddr("ca", wh), rio.Monitor{})
	if err != nil {
		c.EmitR(op, "skip", "skip")
		return
	}
	before, _ := Snapshot(wh)
	tmp := filepath.Join(base, "no-such-tmp")
	if how == "full" {
		tmp = filepath.Join(base, "tiny-tmp")
		os.MkdirAll(tmp, 0755)
		if e := syscall.Mount("tmpfs", tmp, "tmpfs", 0, "size=16k"); e != nil {
			c.EmitR(op, "skip", "skip")
			return
		}
		defer syscall.Unmount(tmp, syscall.MNT_DETACH)
	}
	old := os.Getenv("TMPDIR")
	os.Setenv("TMPDIR", tmp)
	uf := api.MustParseFilesetUnpackFilter(losslessUnpackStr)
	_, e1, p1 := safeCall(func() (api.WareID, error) {
		return fn.scan(ctx, api.PackType(fmtName), uf, rio.Placement_Direct, api.WarehouseLocation("file://"+storedWarePath("ca", wh, id)), rio.Monitor{})
	})
	_, e2, p2 := safeCall(func() (api.WareID, error) {
		return fn.unpack(ctx, id, filepath.Join(base, "dst"), uf, rio.Placement_Direct, []api.WarehouseLocation{whAddr("ca", wh)}, rio.Monitor{})
	})
	os.Setenv("TMPDIR", old)
	after, _ := Snapshot(wh)
	c.EmitR(op, "skip", "skip")
	if p1 != "" || p2 != "" {
		c.PropFail("panic-pack", "scan / unpack without a usable temp directory panicked: "+p1+p2, op)
	}
	if d := DiffFilesets(before, after, true); d != "" {
		c.PropFail("warehouse-mutated", fmt.Sprintf("scan (%s) and unpack (%s) of a %s ware with the temp directory %s changed the warehouse they read from: %s", catOf(e1), catOf(e2), fmtName, how, d), op)
	}
	c.H("notmp:" + fmtName + ":" + how + ":" + catOf(e1) + ":" + catOf(e2))
	c.Distinct(op)
}

// formatCorners: corners of the two formats that foreign writers reach and rio's own writer does not.
// (1) old-GNU sparse entries (tar -S): the same fileset as a plain GNU tar scans to the same id;
// (2) a zip whose only owner record is the unix2 (0x7855) field scans like the same zip with the unix3 field;
// (3) zip pack of mtimes the format cannot hold (before 1970, after 2106): an error, or a ware that scans to the id given.
func formatCorners(c *Ctx) {
	op := "rt-format-corners"
	caseCounter++
	base := filepath.Join(c.Work, fmt.Sprintf("fc%d", caseCounter))
	defer rmrf(base)
	ctx := context.Background()
	uf := api.MustParseFilesetUnpackFilter(losslessUnpackStr)
	scan := func(fm, file string) string {
		fn := funcsFor(fm)
		id, err, pan := safeCall(func() (api.WareID, error) {
			return fn.scan(ctx, api.PackType(fm), uf, rio.Placement_Direct, api.WarehouseLocation("file://"+file), rio.Monitor{})
		})
		return resTok(id, err, pan)
	}
	c.EmitR(op, "skip", "skip")
	// (1)
	d := filepath.Join(base, "sp")
	os.MkdirAll(d, 0755)
	os.WriteFile(filepath.Join(d, "small"), []byte("x"), 0644)
	if f, e := os.Create(filepath.Join(d, "sparse.bin")); e == nil {
		f.Truncate(1 << 20)
		f.WriteAt([]byte("tail"), 1<<20)
		f.Close()
	}
	for _, p := range []string{"small", "sparse.bin", "."} {
		os.Chtimes(filepath.Join(d, p), time.Unix(1e9, 0), time.Unix(1e9, 0))
	}
	sparse, plain := filepath.Join(base, "sparse.tar"), filepath.Join(base, "plain.tar")
	e1 := exec.Command("tar", "--format=gnu", "-S", "-C", d, "-cf", sparse, ".").Run()
	e2 := exec.Command("tar", "--format=gnu", "-C", d, "-cf", plain, ".").Run()
	if e1 == nil && e2 == nil {
		a, b := scan("tar", sparse), scan("tar", plain)
		c.H("corner:gnu-sparse:" + strings.Fields(a)[0])
		if strings.HasPrefix(b, "ok ") && a != b {
			c.PropFail("valid-archive-refused", fmt.Sprintf("a GNU tar written with -S (old-GNU sparse entry) scans to %s; the same fileset written without -S scans to %s", a, b), op)
			c.PropFail("roundtrip-id", fmt.Sprintf("a GNU tar written with -S scans to %s, without -S to %s", a, b), op)
		}
	}
	// (1b) the same fileset written by GNU tar with a volume label (-V), and as an incremental archive (-g: directories
	// become dumpdir entries): the same id
	if e2 == nil {
		os.MkdirAll(filepath.Join(d, "sub"), 0755)
		os.WriteFile(filepath.Join(d, "sub", "inner"), []byte("i"), 0644)
		for _, p := range []string{"sub/inner", "sub", "."} {
			os.Chtimes(filepath.Join(d, p), time.Unix(1e9, 0), time.Unix(1e9, 0))
		}
		plain2, label, incr := filepath.Join(base, "plain2.tar"), filepath.Join(base, "label.tar"), filepath.Join(base, "incr.tar")
		if exec.Command("tar", "--format=gnu", "-C", d, "-cf", plain2, ".").Run() == nil {
			want := scan("tar", plain2)
			if exec.Command("tar", "--format=gnu", "-V", "MYLABEL", "-C", d, "-cf", label, ".").Run() == nil {
				got := scan("tar", label)
				c.H("corner:gnu-label:" + strings.Fields(got)[0])
				if strings.HasPrefix(want, "ok ") && got != want {
					c.PropFail("valid-archive-refused", fmt.Sprintf("a GNU tar with a volume label (tar -V) scans to %s; the same fileset without the label to %s", got, want), op)
				}
			}
			glob := filepath.Join(base, "glob.tar")
			if exec.Command("tar", "--format=pax", "--pax-option=comment=hello", "-C", d, "-cf", glob, ".").Run() == nil {
				paxPlain := filepath.Join(base, "paxplain.tar")
				exec.Command("tar", "--format=pax", "-C", d, "-cf", paxPlain, ".").Run()
				got, wantPax := scan("tar", glob), scan("tar", paxPlain)
				c.H("corner:pax-global-header:" + strings.Fields(got)[0])
				if strings.HasPrefix(wantPax, "ok ") && got != wantPax {
					c.PropFail("valid-archive-refused", fmt.Sprintf("a pax archive with a global extended header (GNU tar names it /tmp/GlobalHead.N) scans to %s; the same fileset without one to %s", got, wantPax), op)
				}
			}
			if exec.Command("tar", "--format=gnu", "-g", filepath.Join(base, "snar"), "-C", d, "-cf", incr, ".").Run() == nil {
				// (reading the directories for the snapshot file touches their atimes only)
				got := scan("tar", incr)
				c.H("corner:gnu-incremental:" + strings.Fields(got)[0])
				if strings.HasPrefix(want, "ok ") && got != want {
					c.PropFail("valid-archive-refused", fmt.Sprintf("a GNU incremental archive (tar -g, level 0: directories are dumpdir entries) scans to %s; the same fileset as an ordinary archive to %s", got, want), op)
				}
			}
		}
	}
	// (2)
	mkzip := func(path string, extra []byte) {
		var buf bytes.Buffer
		zw := zip.NewWriter(&buf)
		fh := &zip.FileHeader{Name: "a.txt", Method: zip.Deflate, Modified: time.Unix(1e9, 0).UTC(), Extra: extra}
		fh.SetMode(0644)
		w, _ := zw.CreateHeader(fh)
		w.Write([]byte("hello"))
		zw.Close()
		os.WriteFile(path, buf.Bytes(), 0644)
	}
	u2, u3 := filepath.Join(base, "ux2.zip"), filepath.Join(base, "ux3.zip")
	mkzip(u2, []byte{0x55, 0x78, 4, 0, 7, 0, 8, 0})
	mkzip(u3, []byte{0x75, 0x78, 11, 0, 1, 4, 7, 0, 0, 0, 4, 8, 0, 0, 0})
	a, b := scan("zip", u2), scan("zip", u3)
	c.H("corner:zip-unix2:" + strings.Fields(a)[0])
	if strings.HasPrefix(b, "ok ") && a != b {
		c.PropFail("valid-archive-refused", fmt.Sprintf("a zip whose only owner record is the unix2 field (uid 7, gid 8) scans to %s; with the unix3 field for the same owner it scans to %s", a, b), op)
		c.PropFail("roundtrip-id", fmt.Sprintf("unix2-only zip scans to %s, unix3 zip of the same entry to %s", a, b), op)
	}
	// (2b) the unix3 block stores each id with a width of its own (2 or 4 bytes): every combination names the same owner
	{
		ref := ""
		for _, blk := range [][]byte{
			{0x75, 0x78, 11, 0, 1, 4, 0x70, 0x11, 0x01, 0, 4, 100, 0, 0, 0}, // uid 70000 (4), gid 100 (4)
			{0x75, 0x78, 9, 0, 1, 4, 0x70, 0x11, 0x01, 0, 2, 100, 0},        // uid 70000 (4), gid 100 (2)
		} {
			pth := filepath.Join(base, fmt.Sprintf("ux3-%d.zip", len(blk)))
			mkzip(pth, blk)
			got := scan("zip", pth)
			c.H("corner:zip-unix3-widths:" + strings.Fields(got)[0])
			if ref == "" {
				ref = got
			} else if strings.HasPrefix(ref, "ok ") && got != ref {
				c.PropFail("roundtrip-id", fmt.Sprintf("a zip whose unix3 owner block stores uid 70000 in 4 bytes and gid 100 in 2 scans to %s; with both ids in 4 bytes to %s", got, ref), op)
			}
		}
		ref = ""
		for _, blk := range [][]byte{
			{0x75, 0x78, 11, 0, 1, 4, 7, 0, 0, 0, 4, 0x70, 0x11, 0x01, 0}, // uid 7 (4), gid 70000 (4)
			{0x75, 0x78, 9, 0, 1, 2, 7, 0, 4, 0x70, 0x11, 0x01, 0},       // uid 7 (2), gid 70000 (4)
		} {
			pth := filepath.Join(base, fmt.Sprintf("ux3b-%d.zip", len(blk)))
			mkzip(pth, blk)
			got := scan("zip", pth)
			c.H("corner:zip-unix3-widths:" + strings.Fields(got)[0])
			if got == "panic" {
				c.PropFail("panic-scan", "a zip whose unix3 owner block stores the uid in 2 bytes and the gid in 4 made the scan panic", op)
			} else if ref == "" {
				ref = got
			} else if strings.HasPrefix(ref, "ok ") && got != ref {
				c.PropFail("roundtrip-id", fmt.Sprintf("a zip whose unix3 owner block stores uid 7 in 2 bytes and gid 70000 in 4 scans to %s; with both ids in 4 bytes to %s", got, ref), op)
			}
		}
	}
	// (2c) both owner blocks on one entry, as compatibility-minded writers emit them: the 16-bit unix2 block carries the id
	// truncated, the unix3 block the full id — the newer block is the owner, in either order of the blocks
	{
		u3only := []byte{0x75, 0x78, 11, 0, 1, 4, 0x70, 0x11, 0x01, 0, 4, 100, 0, 0, 0} // uid 70000, gid 100
		u2trunc := []byte{0x55, 0x78, 4, 0, 0x70, 0x11, 100, 0}                          // uid 70000 & 0xffff = 4464, gid 100
		pth := filepath.Join(base, "both-ref.zip")
		mkzip(pth, u3only)
		ref := scan("zip", pth)
		for k, blk := range [][]byte{append(append([]byte(nil), u2trunc...), u3only...), append(append([]byte(nil), u3only...), u2trunc...)} {
			pth := filepath.Join(base, fmt.Sprintf("both-%d.zip", k))
			mkzip(pth, blk)
			got := scan("zip", pth)
			c.H("corner:zip-both-owner-blocks:" + strings.Fields(got)[0])
			if strings.HasPrefix(ref, "ok ") && got != ref {
				c.PropFail("roundtrip-id", fmt.Sprintf("a zip entry with a unix2 block (uid truncated to 16 bits: 4464) and a unix3 block (uid 70000), order %d, scans to %s; with the unix3 block alone to %s", k, got, ref), op)
			}
		}
	}
	// (2d) the central-directory form of Info-ZIP 2.x's unix2 block: tag 0x7855, no data (the ids are in the local header
	// only). Such an archive encodes an ordinary fileset: it scans, to the id of the same entry without any owner block
	{
		none, cen := filepath.Join(base, "ux-none.zip"), filepath.Join(base, "ux-central.zip")
		mkzip(none, nil)
		mkzip(cen, []byte{0x55, 0x78, 0, 0})
		a, b := scan("zip", none), scan("zip", cen)
		c.H("corner:zip-unix2-central:" + strings.Fields(b)[0])
		if strings.HasPrefix(a, "ok ") && a != b {
			c.PropFail("valid-archive-refused", fmt.Sprintf("a zip whose entry carries the central-directory form of the unix2 block (no data, as Info-ZIP 2.x writes it) scans to %s; without any owner block the same entry scans to %s", b, a), op)
		}
	}
	// (3)
	for _, when := range []int64{-152668433, 4423000000, -1, 4294967296, 4294967295, 0} {
		src := filepath.Join(base, fmt.Sprintf("zt%d", when))
		os.MkdirAll(src, 0755)
		os.WriteFile(filepath.Join(src, "f"), []byte("f"), 0644)
		os.Chtimes(filepath.Join(src, "f"), time.Unix(when, 0), time.Unix(when, 0))
		os.Chtimes(src, time.Unix(1e9, 0), time.Unix(1e9, 0))
		wh := filepath.Join(base, fmt.Sprintf("zwh%d", when))
		os.MkdirAll(wh, 0755)
		fn := funcsFor("zip")
		id, err, pan := safeCall(func() (api.WareID, error) {
			return fn.pack(ctx, "zip", src, api.MustParseFilesetPackFilter(losslessPackStr), whAddr("file", wh), rio.Monitor{})
		})
		r := resTok(id, err, pan)
		c.H("corner:zip-mtime:" + strings.Fields(r)[0])
		if pan != "" {
			c.PropFail("panic-pack", "zip pack of an mtime the format cannot hold panicked: "+pan, op)
		} else if err == nil {
			if back := scan("zip", storedWarePath("file", wh, id)); back != r {
				c.PropFail("roundtrip-id", fmt.Sprintf("zip pack of a file with mtime %d answered %s; a scan of the ware it wrote answers %s", when, r, back), op)
			}
		}
	}
	c.Distinct(op)
}

func rtEngineRest(c *Ctx) {
	formatCorners(c)
	packMultiUntouched(c, "tar")
	packMultiUntouched(c, "zip")
	for _, fm := range []string{"zip", "tar"} {
		for _, how := range []string{"missing", "full"} {
			readersNoTmp(c, fmt.Sprintf("rt-notmp %s %s", fm, how))
		}
	}
	n, maxEnt := 24, 8
	if c.Tier == "thorough" {
		n, maxEnt = 400, 30
	}
	modes := []string{"direct", "copy", "none", "mount"}
	tarKinds, zipKinds := "fffdLLpDc", "fffdL"
	for k := 0; k < n; k++ {
		fmtName := "tar"
		kinds := tarKinds
		if k%3 == 2 {
			fmtName, kinds = "zip", zipKinds
		}
		o := GenOpts{MaxEntries: maxEnt, Kinds: kinds, SubSecond: true, BigIds: true, Setid: true, MaxContent: 3000}
		fsx := c.GenFileset(o)
		sanitizeForRoundtrip(fsx, fmtName)
		wh := []string{"ca", "file"}[c.Intn(2)]
		op := fmt.Sprintf("rt %s %s %s %s", fmtName, wh, modes[c.Intn(len(modes))], filesetTok(fsx))
		rtExec(c, op)
	}
	// the known-defect shapes, on their own so that the main stream stays clean
	myU, myG := uint32(os.Getuid()), uint32(os.Getgid())
	sg := Fileset{{Name: "", Kind: 'd', Perms: 0755, Uid: myU, Gid: myG, Sec: 1e9}, {Name: "sg", Kind: 'd', Perms: 02775, Uid: 7, Gid: 4242, Sec: 1e9}, {Name: "sg/kid", Kind: 'f', Perms: 0644, Uid: myU, Gid: myG, Sec: 1e9, Content: []byte("x")}, {Name: "sg/sub", Kind: 'd', Perms: 0755, Uid: myU, Gid: myG, Sec: 1e9}}
	rtExec(c, "rt tar ca direct "+filesetTok(sg))
	zs := Fileset{{Name: "", Kind: 'd', Perms: 0755, Uid: 1000, Gid: 1000, Sec: 1e9}, {Name: "f", Kind: 'f', Perms: 0644, Uid: 1000, Gid: 1000, Sec: 1e9, Nsec: 5000, Content: []byte("x")}}
	rtExec(c, "rt zip ca direct "+filesetTok(zs))
	// what the zip transmat has no representation for: a fifo, a character device, a block device — the pack answers an id
	// only for what its own unpack gives back
	for _, sp := range []Entry{{Name: "ff", Kind: 'p', Perms: 0644, Uid: 3, Gid: 4, Sec: 1e9}, {Name: "null", Kind: 'c', Perms: 0666, Uid: 3, Gid: 4, Sec: 1e9, Maj: 1, Min: 3},
		{Name: "sda1", Kind: 'D', Perms: 0660, Uid: 3, Gid: 4, Sec: 1e9, Maj: 8, Min: 1}} {
		zsp := Fileset{{Name: "", Kind: 'd', Perms: 0755, Uid: 3, Gid: 4, Sec: 1e9}, {Name: "plain", Kind: 'f', Perms: 0644, Uid: 3, Gid: 4, Sec: 1e9, Content: []byte("p")}, sp}
		rtExec(c, "rt zip ca direct "+filesetTok(zsp))
		rtExec(c, "rt tar ca direct "+filesetTok(zsp))
	}
	// link targets are bytes, not paths: nothing about them is "cleaned" on the way (doubled and trailing slashes, `./`,
	// `x/..`, a lone `/`), in every placement mode of both formats. The tree hash does not cover them: only readlink tells
	{
		lt := Fileset{{Name: "", Kind: 'd', Perms: 0755, Uid: 3, Gid: 4, Sec: 1e9}, {Name: "sub", Kind: 'd', Perms: 0755, Uid: 3, Gid: 4, Sec: 1e9}, {Name: "sub/x", Kind: 'f', Perms: 0644, Uid: 3, Gid: 4, Sec: 1e9, Content: []byte("x")}}
		for i, tg := range []string{"sub//x", "/abs//p", "a///b/", "//", ".//.", "sub/../sub/x", "./sub/./x", "sub/", "/", "sub//", " sub/x", "sub\\x"} {
			lt = append(lt, Entry{Name: fmt.Sprintf("l%02d", i), Kind: 'L', Perms: 0777, Uid: 3, Gid: 4, Sec: 1e9, Link: tg})
		}
		for _, fm := range []string{"tar", "zip"} {
			for _, m := range []string{"direct", "copy", "mount"} {
				rtExec(c, fmt.Sprintf("rt %s ca %s %s", fm, m, filesetTok(lt)))
			}
		}
	}
	// file bodies shaped like sparse files: runs of zero bytes at the end, in the middle, block sized and not
	{
		rnd := func(n int) []byte {
			b := make([]byte, n)
			for i := range b {
				b[i] = byte(c.Rand()) | 1
			}
			return b
		}
		z := func(n int) []byte { return make([]byte, n) }
		cat := func(bs ...[]byte) []byte { return bytes.Join(bs, nil) }
		f := func(n string, body []byte) Entry {
			return Entry{Name: n, Kind: 'f', Perms: 0644, Uid: 3, Gid: 4, Sec: 1e9, Content: body}
		}
		sp := Fileset{{Name: "", Kind: 'd', Perms: 0755, Uid: 3, Gid: 4, Sec: 1e9}, f("data-then-0s", cat(rnd(4096), z(4096))), f("all-zero-8k", z(8192)), f("all-zero-4k", z(4096)),
			f("zero-4097", z(4097)), f("hole-in-middle", cat(rnd(4096), z(8192), rnd(100))), f("zero-1m", z(1<<20)), f("tail-64k", cat(rnd(10), z(65536-10))), f("one-zero", z(1)),
			// link targets up to the kernel's limit (PATH_MAX - 1)
			// mtimes beyond what a count of nanoseconds in 64 bits can say (files, directories and links)
			{Name: "y2400", Kind: 'f', Perms: 0644, Uid: 3, Gid: 4, Sec: 13569465600, Content: []byte("late")},
			{Name: "y2400d", Kind: 'd', Perms: 0755, Uid: 3, Gid: 4, Sec: 13569465601},
			{Name: "y2400l", Kind: 'L', Perms: 0777, Uid: 3, Gid: 4, Sec: 13569465602, Link: "y2400"},
			// a directory that holds nothing but symlinks (node_modules/.bin, /etc/alternatives), and one that holds only a fifo
			{Name: "onlylinks", Kind: 'd', Perms: 0755, Uid: 3, Gid: 4, Sec: 1e9 - 777},
			{Name: "onlylinks/ash", Kind: 'L', Perms: 0777, Uid: 3, Gid: 4, Sec: 1e9 - 5, Link: "sh"},
			{Name: "onlylinks/sh", Kind: 'L', Perms: 0777, Uid: 3, Gid: 4, Sec: 1e9 - 6, Link: "../one-zero"},
			{Name: "ln-255", Kind: 'L', Perms: 0777, Uid: 3, Gid: 4, Sec: 1e9, Link: strings.Repeat("a", 255)},
			{Name: "ln-1025", Kind: 'L', Perms: 0777, Uid: 3, Gid: 4, Sec: 1e9, Link: strings.Repeat("b/", 512) + "c"},
			{Name: "ln-4095", Kind: 'L', Perms: 0777, Uid: 3, Gid: 4, Sec: 1e9, Link: "/" + strings.Repeat("d", 4094)}}
		for _, fm := range []string{"tar", "zip"} {
			for _, m := range []string{"direct", "copy"} {
				spf := sp.clone()
				if fm == "zip" { // (the zip format holds mtimes up to 2106 only; beyond that pack refuses: formatCorners)
					for i := range spf {
						if spf[i].Sec > 4294967295 {
							spf[i].Sec = 4294967295 - int64(i)
						}
					}
				}
				rtExec(c, fmt.Sprintf("rt %s ca %s %s", fm, m, filesetTok(spf)))
			}
		}
	}
}

// sanitizeForRoundtrip keeps the generated fileset inside the property's domain and outside the
// separately tracked known-defect shapes.
func sanitizeForRoundtrip(f Fileset, fmtName string) {
	myU, myG := uint32(os.Getuid()), uint32(os.Getgid())
	setgid := map[string]bool{}
	for i := range f {
		e := &f[i]
		if fmtName == "zip" {
			if e.Sec < 315532800 || e.Sec >= 4102444800 { // zip's representable range, conservatively 1980..2100
				e.Sec = 315532800 + (e.Sec%1000000000+1000000000)%1000000000
			}
		}
		parent := ""
		if j := strings.LastIndexByte(e.Name, '/'); j >= 0 {
			parent = e.Name[:j]
		}
		if e.Name != "" && setgid[parent] && e.Uid == myU && e.Gid == myG {
			e.Uid = 3
		}
		if e.Kind == 'd' && e.Perms&02000 != 0 {
			setgid[e.Name] = true
		}
		if e.Kind == 'L' {
			e.Perms = 0777
		}
	}
}
