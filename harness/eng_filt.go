package main

import (
	"fmt"
	"os"
	"reflect"
	"strings"

	api "github.com/polydawn/go-timeless-api"
	"github.com/polydawn/rio/fs"
	"github.com/polydawn/rio/transmat/mixins/filters"
	"github.com/warpfork/go-errcat"
)

func init() { engines["filt"] = filtEngine }

// filterInts reads the unexported int fields of an api filter struct.
func filterInts(f interface{}) string {
	v := reflect.ValueOf(f)
	var ss []string
	for i := 0; i < v.NumField(); i++ {
		fl := v.Field(i)
		switch fl.Kind() {
		case reflect.Bool:
			if fl.Bool() {
				ss = append(ss, "1")
			} else {
				ss = append(ss, "0")
			}
		default:
			ss = append(ss, fmt.Sprint(fl.Int()))
		}
	}
	return strings.Join(ss, ",")
}

func catOf(err error) string {
	if err == nil {
		return "ok"
	}
	c := errcat.Category(err)
	switch x := c.(type) {
	case nil:
		return "ok"
	case fmt.Stringer:
		return x.String()
	}
	s := fmt.Sprint(c)
	if s == "" || strings.Contains(s, "unknown") {
		return "uncategorized"
	}
	return s
}

var packFilterStrings, unpackFilterStrings []string

func init() {
	for _, u := range []string{"keep", "0", "4242"} {
		for _, g := range []string{"keep", "1000"} {
			for _, m := range []string{"keep", "@0", "@1262304000"} {
				for _, st := range []string{"keep", "ignore"} {
					for _, si := range []string{"keep", "ignore", "reject"} {
						for _, d := range []string{"keep", "ignore", "reject"} {
							packFilterStrings = append(packFilterStrings, fmt.Sprintf("uid=%s,gid=%s,mtime=%s,sticky=%s,setid=%s,dev=%s", u, g, m, st, si, d))
						}
					}
				}
			}
		}
	}
	for _, u := range []string{"follow", "mine", "7"} {
		for _, g := range []string{"follow", "mine", "70000"} {
			for _, m := range []string{"follow", "@86400"} {
				for _, st := range []string{"follow", "ignore"} {
					for _, si := range []string{"follow", "ignore", "reject"} {
						for _, d := range []string{"follow", "ignore", "reject"} {
							unpackFilterStrings = append(unpackFilterStrings, fmt.Sprintf("uid=%s,gid=%s,mtime=%s,sticky=%s,setid=%s,dev=%s", u, g, m, st, si, d))
						}
					}
				}
			}
		}
	}
}

// specFilter is the documented per-attribute rule (C12 oracle; independent of rio's filter code and of the Lean model).
// which: "pack" or "unpack". Returns (result, rejected, dropped).
func specFilter(which, fstr string, e Entry, myUid, myGid uint32) (Entry, bool, bool) {
	kv := map[string]string{}
	for _, p := range strings.Split(fstr, ",") {
		x := strings.SplitN(p, "=", 2)
		kv[x[0]] = x[1]
	}
	num := func(s string) (int64, bool) {
		var n int64
		if _, err := fmt.Sscan(strings.TrimPrefix(s, "@"), &n); err != nil {
			return 0, false
		}
		return n, true
	}
	if v := kv["uid"]; v == "mine" {
		e.Uid = myUid
	} else if n, ok := num(v); ok {
		e.Uid = uint32(n)
	}
	if v := kv["gid"]; v == "mine" {
		e.Gid = myGid
	} else if n, ok := num(v); ok {
		e.Gid = uint32(n)
	}
	if n, ok := num(kv["mtime"]); ok {
		e.Sec, e.Nsec = n, 0
	}
	if kv["sticky"] == "ignore" {
		e.Perms &^= 01000
	}
	switch kv["setid"] {
	case "reject":
		// an offending entry is one that would carry the bits: a symlink has no mode of its own (lstat of one placed on any
		// file system shows 0777, a cache shelf cannot show more), so on unpack the bits an archive header claims for one
		// offend nothing — and a verdict that counted them could not be the same on a cold and on a warm cache
		if e.Perms&06000 != 0 && !(which == "unpack" && e.Kind == 'L') {
			return e, true, false
		}
	case "ignore":
		e.Perms &^= 06000
	}
	isDev := e.Kind == 'D' || e.Kind == 'c'
	switch kv["dev"] {
	case "reject":
		if isDev {
			return e, true, false
		}
	case "ignore":
		if isDev {
			return e, false, true
		}
	}
	return e, false, false
}

func filtExec(c *Ctx, op string) string {
	f := strings.Fields(op)
	myUid, myGid := uint32(os.Getuid()), uint32(os.Getgid())
	switch f[1] {
	case "pack":
		ff := api.MustParseFilesetPackFilter(f[2])
		e, raw := parseMetaTok(f[3])
		m := e.ToMetaNamed(raw)
		err := filters.ApplyPackFilter(ff, &m)
		want, rej, drop := specFilter("pack", f[2], e, myUid, myGid)
		res := ""
		if err != nil {
			res = "err " + catOf(err)
			if !rej {
				c.PropFail("filter-reject", "pack filter rejected an entry the documented rule accepts", op)
			}
			c.H("pack:reject")
		} else {
			res = "ok " + showMetaImpl(m)
			if rej {
				c.PropFail("filter-reject", "pack filter accepted an entry a reject rule names", op)
			} else if drop != (m.Type == fs.Type_Invalid) {
				c.PropFail("filter-dev-ignore", fmt.Sprintf("dev=ignore: dropped=%v but documented rule says %v", m.Type == fs.Type_Invalid, drop), op)
			} else if !drop && res != "ok "+want.MetaTokNamed(relPathOf(m)) {
				c.PropFail("filter-attr", "pack filter result differs from the documented per-attribute rule: got "+res+" want "+want.MetaTokNamed(relPathOf(m)), op)
			}
			c.H("pack:ok")
		}
		c.Distinct(op)
		return res
	case "unpack":
		ff := api.MustParseFilesetUnpackFilter(f[2])
		e, raw := parseMetaTok(f[3])
		m := e.ToMetaNamed(raw)
		err := filters.ApplyUnpackFilter(ff, &m)
		want, rej, drop := specFilter("unpack", f[2], e, myUid, myGid)
		res := ""
		if err != nil {
			res = "err " + catOf(err)
			if !rej {
				c.PropFail("filter-reject", "unpack filter rejected an entry the documented rule accepts", op)
			}
			c.H("unpack:reject")
		} else {
			res = "ok " + showMetaImpl(m)
			if rej {
				c.PropFail("filter-reject", "unpack filter accepted an entry a reject rule names", op)
			} else if drop != (m.Type == fs.Type_Invalid) {
				c.PropFail("filter-dev-ignore", fmt.Sprintf("dev=ignore: dropped=%v but documented rule says %v", m.Type == fs.Type_Invalid, drop), op)
			} else if !drop && res != "ok "+want.MetaTokNamed(relPathOf(m)) {
				c.PropFail("filter-attr", "unpack filter result differs from the documented per-attribute rule", op)
			}
			c.H("unpack:ok")
		}
		c.Distinct(op)
		return res
	case "applyp":
		a, err1 := api.ParseFilesetPackFilter(unfilt(f[2]))
		b, err2 := api.ParseFilesetPackFilter(unfilt(f[3]))
		if err1 != nil || err2 != nil {
			return "parse-error"
		}
		r := a.Apply(b)
		// oracle: every specified field of a wins, the rest from b
		if r.String() != stackSpec(unfilt(f[2]), unfilt(f[3])) {
			c.PropFail("filter-stack", "Apply does not take specified fields from the receiver and the rest from the defaults: got "+r.String(), op)
		}
		return fmt.Sprintf("%s complete=%s", filterInts(r), b01(r.IsComplete()))
	case "applyu":
		a, err1 := api.ParseFilesetUnpackFilter(unfilt(f[2]))
		b, err2 := api.ParseFilesetUnpackFilter(unfilt(f[3]))
		if err1 != nil || err2 != nil {
			return "parse-error"
		}
		r := a.Apply(b)
		if r.String() != stackSpec(unfilt(f[2]), unfilt(f[3])) {
			c.PropFail("filter-stack", "Apply does not take specified fields from the receiver and the rest from the defaults: got "+r.String(), op)
		}
		return fmt.Sprintf("%s complete=%s altering=%s", filterInts(r), b01(r.IsComplete()), b01(r.Altering()))
	}
	return "bad-op"
}

func unfilt(s string) string {
	if s == "-" {
		return ""
	}
	return s
}

// stackSpec: documented stacking, on the serial form (canonical key order uid,gid,mtime,sticky,setid,dev).
func stackSpec(a, b string) string {
	get := func(s string) map[string]string {
		m := map[string]string{}
		if s == "" {
			return m
		}
		for _, p := range strings.Split(s, ",") {
			x := strings.SplitN(p, "=", 2)
			m[x[0]] = x[1]
		}
		return m
	}
	ma, mb := get(a), get(b)
	var out []string
	for _, k := range []string{"uid", "gid", "mtime", "sticky", "setid", "dev"} {
		v, ok := ma[k]
		if !ok {
			v, ok = mb[k]
		}
		if ok {
			out = append(out, k+"="+v)
		}
	}
	return strings.Join(out, ",")
}

func relPathOf(m fs.Metadata) string {
	p, _ := relFields(m.Name)
	if p == "" {
		return "."
	}
	return p
}

func filtEngine(c *Ctx) {
	if ls := replayLines(); ls != nil {
		for _, op := range ls {
			if strings.HasPrefix(op, "filt ") {
				c.Emit(op, filtExecModel(c, op))
			}
		}
		return
	}
	// a small zoo of entries: setid files/dirs, sticky dirs, devices, plain
	var zoo []Entry
	for _, k := range []byte("fdLpDc") {
		for _, p := range []uint16{0644, 01777, 04755, 02750, 06711, 07777, 0} {
			e := Entry{Name: "x/y", Kind: k, Perms: p, Uid: uint32(c.Intn(5000)), Gid: uint32(c.Intn(5000)), Sec: int64(c.Intn(1 << 31)), Nsec: c.Intn(1000000000)}
			if k == 'L' {
				e.Link = "t"
			}
			if k == 'D' || k == 'c' {
				e.Maj, e.Min = 8, 1
			}
			zoo = append(zoo, e)
		}
	}
	step := 1
	if c.Tier != "thorough" {
		step = 3
	}
	n := 0
	for _, fstr := range packFilterStrings {
		for i, e := range zoo {
			n++
			if (n+i)%step != 0 {
				continue
			}
			op := "filt pack " + fstr + " " + e.MetaTok()
			c.Emit2(op, filtExecModel)
		}
	}
	for _, fstr := range unpackFilterStrings {
		for i, e := range zoo {
			n++
			if (n+i)%step != 0 {
				continue
			}
			op := "filt unpack " + fstr + " " + e.MetaTok()
			c.Emit2(op, filtExecModel)
		}
	}
	// stacking: partial user filters over the CLI defaults
	partialP := []string{"-", "uid=keep", "gid=5", "mtime=keep,dev=keep", "setid=ignore", "uid=1,gid=2,mtime=@3,sticky=ignore,setid=keep,dev=ignore", "sticky=ignore"}
	defaultsP := []string{api.FilesetPackFilter_Conservative.String(), api.FilesetPackFilter_Lossless.String(), api.FilesetPackFilter_Flatten.String(), "-"}
	for _, a := range partialP {
		for _, b := range defaultsP {
			if b == "" {
				b = "-"
			}
			c.Emit2("filt applyp "+a+" "+b, filtExecModel)
		}
	}
	partialU := []string{"-", "uid=follow", "gid=mine", "mtime=follow,dev=follow", "setid=ignore", "uid=1,gid=2,mtime=@3,sticky=ignore,setid=follow,dev=ignore", "dev=reject", "setid=reject"}
	defaultsU := []string{api.FilesetUnpackFilter_LowPriv.String(), api.FilesetUnpackFilter_Lossless.String(), api.FilesetUnpackFilter_Conservative.String(), "-"}
	for _, a := range partialU {
		for _, b := range defaultsU {
			if b == "" {
				b = "-"
			}
			c.Emit2("filt applyu "+a+" "+b, filtExecModel)
		}
	}
	c.Extra["cli_default_pack"] = api.FilesetPackFilter_Conservative.String()
	c.Extra["cli_default_unpack"] = api.FilesetUnpackFilter_LowPriv.String()
	c.Extra["cli_default_scan"] = api.FilesetUnpackFilter_Conservative.String()
}

// Emit2 executes a recipe through exec, which returns "modelOp\x00implResult".
func (c *Ctx) Emit2(recipe string, exec func(*Ctx, string) string) {
	r := exec(c, recipe)
	parts := strings.SplitN(r, "\x00", 2)
	if len(parts) == 2 {
		c.EmitR(recipe, parts[0], parts[1])
	} else {
		c.EmitR(recipe, recipe, r)
	}
}

// filtExecModel translates the human-readable filter strings into the int tuples the model takes.
func filtExecModel(c *Ctx, op string) string {
	res := filtExec(c, op)
	f := strings.Fields(op)
	myUid, myGid := os.Getuid(), os.Getgid()
	switch f[1] {
	case "pack":
		return fmt.Sprintf("filt pack %s %s\x00%s", filterInts(api.MustParseFilesetPackFilter(f[2])), f[3], res)
	case "unpack":
		return fmt.Sprintf("filt unpack %s %d %d %s\x00%s", filterInts(api.MustParseFilesetUnpackFilter(f[2])), myUid, myGid, f[3], res)
	case "applyp":
		a, _ := api.ParseFilesetPackFilter(unfilt(f[2]))
		b, _ := api.ParseFilesetPackFilter(unfilt(f[3]))
		return fmt.Sprintf("filt applyp %s %s\x00%s", filterInts(a), filterInts(b), res)
	case "applyu":
		a, _ := api.ParseFilesetUnpackFilter(unfilt(f[2]))
		b, _ := api.ParseFilesetUnpackFilter(unfilt(f[3]))
		return fmt.Sprintf("filt applyu %s %s\x00%s", filterInts(a), filterInts(b), res)
	}
	return op + "\x00" + res
}
