package main

import (
	"fmt"
	"sort"
	"strings"
	"time"

	"github.com/polydawn/rio/fs"
)

// Entry is one logical fileset entry, independent of rio's types.
type Entry struct {
	Name    string // clean relative path; "" is the root
	Kind    byte   // f d L p S D c h 0
	Perms   uint16
	Uid     uint32
	Gid     uint32
	Link    string
	Maj     int64
	Min     int64
	Sec     int64
	Nsec    int
	Xattrs  map[string]string
	Content []byte
}

type Fileset []Entry // root first, parents before children

func (e Entry) clone() Entry {
	c := e
	if e.Xattrs != nil {
		c.Xattrs = map[string]string{}
		for k, v := range e.Xattrs {
			c.Xattrs[k] = v
		}
	}
	c.Content = append([]byte(nil), e.Content...)
	return c
}
func (f Fileset) clone() Fileset {
	g := make(Fileset, len(f))
	for i := range f {
		g[i] = f[i].clone()
	}
	return g
}

var segPool = []string{"a", "b", "c", "a!", "a b", "ab", "trick", "tricky", ".hid", "..foo", "...", "x\ny", "\xff\xfe", "\xc3\xa9", "Z", "0", "-", "~", "a.b", "dir", "bin", "etc",
	strings.Repeat("L", 120), "q#", "%41", "tab\there"}

func (c *Ctx) segment() string {
	if c.Chance(1, 12) {
		n := 1 + c.Intn(6)
		b := make([]byte, n)
		for i := range b {
			x := byte(1 + c.Intn(255))
			if x == '/' {
				x = '_'
			}
			b[i] = x
		}
		s := string(b)
		if s == "." || s == ".." {
			s = "dot"
		}
		return s
	}
	return segPool[c.Intn(len(segPool))]
}

type GenOpts struct {
	MaxEntries int
	Kinds      string // candidate kinds for non-root entries, e.g. "fdL" or "fdLpDc"
	SubSecond  bool
	FarTimes   bool // mtimes outside 1678..2262 (only for engines that do not materialise on a real filesystem)
	BigIds     bool
	Setid      bool
	Xattrs     bool
	MaxContent int
}

func (c *Ctx) genTime(o GenOpts) (int64, int) {
	var sec int64
	if o.FarTimes && c.Chance(1, 6) {
		// beyond what UnixNano can represent (years < 1678 or > 2262), around the 2^63 ns and 2^64 ns marks
		sec = []int64{9223372036, 9223372037, 18446744073, 18446744074, -9223372037, -9223372038, 1 << 36, -(1 << 35), 32503680000, 253402300799}[c.Intn(10)] + int64(c.Intn(3))
		ns := 0
		if o.SubSecond && c.Chance(2, 3) {
			ns = []int{709551616, 854775807, 854775808, 1, 999999999}[c.Intn(5)]
		}
		return sec, ns
	}
	switch c.Intn(8) {
	case 0:
		sec = 0
	case 1:
		sec = -int64(c.Intn(1 << 30)) // pre-1970
	case 2:
		sec = int64(c.Intn(1<<31)) + int64(1<<31) // > 2038
	case 3:
		sec = 1262304000
	default:
		sec = int64(c.Intn(1 << 31))
	}
	ns := 0
	if o.SubSecond && c.Chance(1, 2) {
		ns = c.Intn(1000000000)
	}
	return sec, ns
}

func (c *Ctx) genAttrs(e *Entry, o GenOpts) {
	e.Perms = uint16(c.Intn(01000))
	if c.Chance(1, 3) {
		e.Perms = []uint16{0644, 0755, 0600, 0777, 0, 0444}[c.Intn(6)]
	}
	if o.Setid && c.Chance(1, 4) {
		e.Perms |= uint16(c.Intn(8)) << 9
	}
	switch c.Intn(6) {
	case 0:
		e.Uid, e.Gid = 0, 0
	case 1:
		e.Uid, e.Gid = 1000, 1000
	case 2:
		if o.BigIds {
			e.Uid, e.Gid = uint32(c.Rand()), uint32(c.Rand())
		} else {
			e.Uid, e.Gid = uint32(c.Intn(70000)), uint32(c.Intn(70000))
		}
	default:
		e.Uid, e.Gid = uint32(c.Intn(3000)), uint32(c.Intn(3000))
	}
	e.Sec, e.Nsec = c.genTime(o)
	if o.Xattrs && c.Chance(1, 10) {
		e.Xattrs = map[string]string{}
		// keys of different lengths whose bytewise order disagrees with length-first order
		pool := []string{"user.k0", "user.k1", "user.k12", "security.capability", "security.selinux", "a", "ab", "b", "user.", "trusted.overlay.opaque", "user.K", "z"}
		for i := 0; i < 1+c.Intn(4); i++ {
			k := pool[c.Intn(len(pool))]
			if c.Chance(1, 5) {
				k = "user." + c.segment()
			}
			e.Xattrs[k] = c.segment()
		}
	}
}

// GenFileset builds a random logical fileset whose root is a directory.
func (c *Ctx) GenFileset(o GenOpts) Fileset {
	root := Entry{Name: "", Kind: 'd'}
	c.genAttrs(&root, o)
	fsx := Fileset{root}
	dirs := []string{""}
	used := map[string]bool{"": true}
	n := 1 + c.Intn(o.MaxEntries)
	for i := 0; i < n; i++ {
		parent := dirs[c.Intn(len(dirs))]
		if c.Chance(1, 3) {
			parent = dirs[len(dirs)-1] // go deep
		}
		name := c.segment()
		if parent != "" {
			name = parent + "/" + name
		}
		if used[name] {
			continue
		}
		used[name] = true
		e := Entry{Name: name, Kind: o.Kinds[c.Intn(len(o.Kinds))]}
		if c.Chance(1, 4) {
			e.Kind = 'd'
		}
		c.genAttrs(&e, o)
		switch e.Kind {
		case 'd':
			dirs = append(dirs, name)
		case 'f':
			sz := 0
			if o.MaxContent > 0 && !c.Chance(1, 5) {
				sz = c.Intn(o.MaxContent)
				if c.Chance(1, 2) {
					sz = c.Intn(40)
				}
			}
			e.Content = make([]byte, sz)
			for j := range e.Content {
				e.Content[j] = byte(c.Rand())
			}
		case 'L':
			e.Link = []string{"a", "/etc/passwd", "../x", "..", "/", "dangling/\xff", "./././", strings.Repeat("t", 150),
				"trailing space ", " leading", "\ttabbed", "newline\n", "a b\r"}[c.Intn(13)]
		case 'D', 'c':
			e.Maj, e.Min = int64(c.Intn(256)), int64(c.Intn(256))
			if c.Chance(1, 4) {
				e.Maj, e.Min = int64(c.Intn(4096)), int64(c.Intn(1<<20))
			}
		}
		fsx = append(fsx, e)
	}
	return fsx
}

func kindToType(k byte) fs.Type {
	if k == '0' {
		return fs.Type_Invalid
	}
	return fs.Type(k)
}
func typeToKind(t fs.Type) byte {
	if t == fs.Type_Invalid {
		return '0'
	}
	return byte(t)
}

func showXattrs(x map[string]string) string {
	if len(x) == 0 {
		return "-"
	}
	var ks []string
	for k := range x {
		ks = append(ks, k)
	}
	sort.Strings(ks)
	var ps []string
	for _, k := range ks {
		ps = append(ps, hx(k)+":"+hx(x[k]))
	}
	return strings.Join(ps, "|")
}

// MetaTok renders an entry in the driver's metadata token format (name = raw string for MustRelPath).
func (e Entry) MetaTok() string {
	name := e.Name
	if name == "" {
		name = "."
	}
	return e.MetaTokNamed(name)
}
func (e Entry) MetaTokNamed(rawName string) string {
	return fmt.Sprintf("%s,%c,%d,%d,%d,%s,%d,%d,%d,%d,%s,%d", hx(rawName), e.Kind, e.Perms, e.Uid, e.Gid, hx(e.Link), e.Maj, e.Min, e.Sec, e.Nsec, showXattrs(e.Xattrs), len(e.Content))
}

// ToMeta converts to rio's fs.Metadata; may panic in MustRelPath (callers recover).
func (e Entry) ToMetaNamed(rawName string) fs.Metadata {
	return fs.Metadata{
		Name: fs.MustRelPath(rawName), Type: kindToType(e.Kind), Perms: fs.Perms(e.Perms), Uid: e.Uid, Gid: e.Gid,
		Size: int64(len(e.Content)), Linkname: e.Link, Devmajor: e.Maj, Devminor: e.Min,
		Mtime: time.Unix(e.Sec, int64(e.Nsec)).UTC(), Xattrs: e.Xattrs,
	}
}

func parseMetaTok(tok string) (Entry, string) {
	f := strings.Split(tok, ",")
	if len(f) != 12 {
		panic("bad meta token: " + tok)
	}
	var e Entry
	raw := unhx(f[0])
	e.Kind = f[1][0]
	var p, u, g, sz int64
	fmt.Sscan(f[2], &p)
	fmt.Sscan(f[3], &u)
	fmt.Sscan(f[4], &g)
	e.Perms, e.Uid, e.Gid = uint16(p), uint32(u), uint32(g)
	e.Link = unhx(f[5])
	fmt.Sscan(f[6], &e.Maj)
	fmt.Sscan(f[7], &e.Min)
	fmt.Sscan(f[8], &e.Sec)
	fmt.Sscan(f[9], &e.Nsec)
	if f[10] != "-" {
		e.Xattrs = map[string]string{}
		for _, kv := range strings.Split(f[10], "|") {
			p := strings.Split(kv, ":")
			e.Xattrs[unhx(p[0])] = unhx(p[1])
		}
	}
	fmt.Sscan(f[11], &sz)
	e.Content = make([]byte, sz) // size only; content travels separately where needed
	return e, raw
}

// showMetaImpl renders an fs.Metadata back into the token format (for results).
func showMetaImpl(m fs.Metadata) string {
	p, _ := relFields(m.Name)
	return fmt.Sprintf("%s,%c,%d,%d,%d,%s,%d,%d,%d,%d,%s,%d", hx(p), typeToKind(m.Type), m.Perms, m.Uid, m.Gid, hx(m.Linkname), m.Devmajor, m.Devminor, m.Mtime.Unix(), m.Mtime.Nanosecond(), showXattrs(m.Xattrs), m.Size)
}
